import HeimdallModel.Model.RTree
import HeimdallModel.Lemmas.Table
/-!
# The byte-level tree refines the token-level table

* `RTree.wfAt` / `RTree.WF` — the structural invariant of the byte-level tree (executable, so the correspondence run
  can evaluate it on every tree the implementation reaches),
* `RTree.abs` — the table of value-carrying nodes with their token patterns,
* `rtree_find_refines` — `findNode` on a well-formed tree *is* `find` on its abstraction.
-/
namespace Heimdall
namespace RTree

variable {V : Type}

/-! ## induction over the tree -/

theorem induct {P : RTree V → Prop}
    (h : ∀ t : RTree V, (∀ c ∈ t.statics, P c.2) → (∀ w, t.wild = some w → P w) →
      (∀ c, t.catchAll = some c → P c) → P t) : ∀ t, P t := by
  intro t
  refine RTree.rec (motive_1 := P) (motive_2 := fun l => ∀ c ∈ l, P c.2)
    (motive_3 := fun o => ∀ w, o = some w → P w) (motive_4 := fun p => P p.2) ?_ ?_ ?_ ?_ ?_ ?_ t
  · intro path prio statics wild catchAll values keys bt h2 h3 h4
    exact h _ h2 h3 h4
  · intro c hc; cases hc
  · intro head tail hh ht c hc
    rcases List.mem_cons.mp hc with rfl | hc
    · exact hh
    · exact ht c hc
  · intro w hw; cases hw
  · intro val hv w hw; cases hw; exact hv
  · intro fst snd hs; exact hs

/-! ## well-formedness -/

/-- a static edge: the index is the first byte of the child's path; the path is `/` or contains no `/` -/
def edgeOk (i : Char) (ch : RTree V) : Bool :=
  ch.path.head? == some i && (ch.path == ['/'] || !ch.path.contains '/')

/-- a catch-all node carries values, one key per wildcard on the way (the last one is its own name, which is also
    its path), and has no children -/
def catchOk (d : Nat) (ca : RTree V) : Bool :=
  !ca.values.isEmpty && ca.keys.length == d + 1 && ca.keys.getLast? == some (String.ofList ca.path) &&
    hasNoChildren ca

/-- a single-wildcard node is followed by `/` or by the end of the expression: it has no wildcard children and all
    its static edges are `/` edges -/
def wildOk (w : RTree V) : Bool :=
  w.wild.isNone && w.catchAll.isNone && w.statics.all (fun e => e.1 == '/')

mutual
/-- `wfAt seg d t`: `t` is well formed as a node that stands at the start of a segment (`seg`: the root, a `/` node,
    a wildcard node) or inside a static token, below `d` wildcards -/
def wfAt : Bool → Nat → RTree V → Bool
  | seg, d, ⟨_, _, statics, wild, catchAll, values, keys, _⟩ =>
    (seg || (wild.isNone && catchAll.isNone)) &&
    (if values.isEmpty then keys.isEmpty else keys.length == d) &&
    decide (statics.Pairwise (fun a b => a.1 ≠ b.1)) &&
    wfStatics d statics &&
    wfWild d wild &&
    (match catchAll with
      | none => true
      | some ca => catchOk d ca) &&
    (match wild with
      | none => true
      | some w => wildOk w)
def wfStatics : Nat → List (Char × RTree V) → Bool
  | _, [] => true
  | d, (i, ch) :: rest => edgeOk i ch && wfAt (ch.path == ['/']) d ch && wfStatics d rest
def wfWild : Nat → Option (RTree V) → Bool
  | _, none => true
  | d, some w => wfAt true (d + 1) w
end

/-- the invariant of every tree built by `add` / `delete` from `empty` -/
def WF (t : RTree V) : Prop := wfAt true 0 t = true

instance (t : RTree V) : Decidable t.WF := by unfold WF; infer_instance

theorem wfStatics_iff (d : Nat) (l : List (Char × RTree V)) :
    wfStatics d l = true ↔ ∀ c ∈ l, edgeOk c.1 c.2 = true ∧ wfAt (c.2.path == ['/']) d c.2 = true := by
  induction l with
  | nil => simp [wfStatics]
  | cons a l ih =>
    obtain ⟨i, ch⟩ := a
    simp only [wfStatics, Bool.and_eq_true, ih, List.mem_cons, forall_eq_or_imp, and_assoc]

/-- `wfAt` unfolded one level -/
structure WFNode (seg : Bool) (d : Nat) (t : RTree V) : Prop where
  hseg : seg = false → t.wild = none ∧ t.catchAll = none
  hkeys0 : t.values = [] → t.keys = []
  hkeys : t.values ≠ [] → t.keys.length = d
  hnodup : t.statics.Pairwise (fun a b => a.1 ≠ b.1)
  hedge : ∀ c ∈ t.statics, edgeOk c.1 c.2 = true
  hst : ∀ c ∈ t.statics, wfAt (c.2.path == ['/']) d c.2 = true
  hw : ∀ w, t.wild = some w → wfAt true (d + 1) w = true
  hc : ∀ ca, t.catchAll = some ca → catchOk d ca = true
  hwo : ∀ w, t.wild = some w → wildOk w = true

theorem wfAt_iff (seg : Bool) (d : Nat) (t : RTree V) : wfAt seg d t = true ↔ WFNode seg d t := by
  obtain ⟨path, prio, statics, wild, catchAll, values, keys, bt⟩ := t
  unfold wfAt
  simp only [Bool.and_eq_true, wfStatics_iff, decide_eq_true_eq]
  constructor
  · rintro ⟨⟨⟨⟨⟨⟨h1, h2⟩, h3⟩, h4⟩, h5⟩, h6⟩, h9⟩
    refine ⟨?_, ?_, ?_, h3, fun c hc => (h4 c hc).1, fun c hc => (h4 c hc).2, ?_, ?_, ?_⟩
    · intro hs; subst hs
      simp only [Bool.false_or, Bool.and_eq_true, Option.isNone_iff_eq_none] at h1
      exact h1
    · intro hv; simp only at hv; subst hv; simpa using h2
    · intro hv
      cases values with
      | nil => exact absurd rfl hv
      | cons a l => simpa using h2
    · intro w hw; simp only at hw; subst hw; simpa [wfWild] using h5
    · intro ca hca; simp only at hca; subst hca; simpa using h6
    · intro w hw; simp only at hw; subst hw; simpa using h9
  · rintro ⟨h1, h2, h3, h4, h5, h6, h7, h8, h9⟩
    refine ⟨⟨⟨⟨⟨⟨?_, ?_⟩, h4⟩, fun c hc => ⟨h5 c hc, h6 c hc⟩⟩, ?_⟩, ?_⟩, ?_⟩
    · cases seg with
      | true => rfl
      | false => simpa using h1 rfl
    · cases values with
      | nil => simpa using h2 rfl
      | cons a l => simpa using h3 (by simp)
    · cases wild with
      | none => rfl
      | some w => simpa [wfWild] using h7 w rfl
    · cases catchAll with
      | none => rfl
      | some ca => simpa using h8 ca rfl
    · cases wild with
      | none => rfl
      | some w => simpa using h9 w rfl

theorem wf_empty : WF (empty : RTree V) := by
  unfold WF empty wfAt
  simp [wfStatics, wfWild]

theorem edgeOk_iff (i : Char) (ch : RTree V) :
    edgeOk i ch = true ↔ (∃ r, ch.path = i :: r) ∧ (ch.path = ['/'] ∨ '/' ∉ ch.path) := by
  unfold edgeOk
  cases hp : ch.path with
  | nil => simp
  | cons a r =>
    simp only [List.head?_cons, Bool.and_eq_true, beq_iff_eq, Option.some.injEq, Bool.or_eq_true,
      Bool.not_eq_true', List.cons.injEq, exists_and_left, exists_eq', and_true]
    constructor
    · rintro ⟨h1, h2⟩
      refine ⟨h1, ?_⟩
      rcases h2 with h2 | h2
      · left; exact h2
      · right; simpa using h2
    · rintro ⟨h1, h2⟩
      refine ⟨h1, ?_⟩
      rcases h2 with h2 | h2
      · left; exact h2
      · right; simpa using h2

/-! ## abstraction -/

/-- the pending (reversed) bytes of the current static token as a finished literal -/
def flushP (acc : List Char) : List PTok := if acc.isEmpty then [] else [.lit (String.ofList acc.reverse)]

def pushAll (ps : List PTok) (n : Node V) : Node V := { n with pat := ps ++ n.pat }

mutual
/-- the value-carrying nodes below (and including) `t`; patterns are relative to the start of the current segment,
    of which the bytes `acc` (reversed, `t.path` included) have been consumed -/
def absAux : RTree V → List Char → Table V
  | ⟨_, _, statics, wild, catchAll, values, keys, bt⟩, acc =>
    (if values.isEmpty then [] else [⟨flushP acc, keys, values, bt⟩]) ++
    (absStatics statics acc ++
    (absWild wild acc ++
    (match catchAll with
      | none => []
      | some ca => if ca.values.isEmpty then [] else [⟨flushP acc ++ [.catchAll], ca.keys, ca.values, ca.bt⟩])))
def absStatics : List (Char × RTree V) → List Char → Table V
  | [], _ => []
  | (_, ch) :: rest, acc =>
    (if ch.path = ['/'] then (absAux ch []).map (pushAll (flushP acc ++ [.lit "/"]))
     else absAux ch (ch.path.reverse ++ acc)) ++ absStatics rest acc
def absWild : Option (RTree V) → List Char → Table V
  | none, _ => []
  | some w, acc => (absAux w []).map (pushAll (flushP acc ++ [.wild]))
end

/-- the table of the value-carrying nodes of the tree -/
def abs (t : RTree V) : Table V := absAux t []

/-! ## tables -/

theorem find_nil_table (m : V → List String → List String → Bool) (toks : List Tok) (caps : List String) :
    Heimdall.find m ([] : Table V) toks caps = (none, true) := by
  induction toks generalizing caps with
  | nil => rfl
  | cons tok rest ih =>
    rw [find_cons]
    have hb : ∀ q, below ([] : Table V) q = [] := fun _ => rfl
    simp only [hb, ih, done]
    cases tok <;> simp [catchRes, here, hb]

theorem below_append (a b : Table V) (q : PTok) : below (a ++ b) q = below a q ++ below b q := by
  unfold below; rw [List.filterMap_append]

theorem pushAll_nil (n : Node V) : pushAll [] n = n := rfl

theorem map_pushAll_nil (T : Table V) : T.map (pushAll []) = T := by
  induction T with
  | nil => rfl
  | cons a T ih => rw [List.map_cons, ih, pushAll_nil]

theorem below_map_pushAll (T : Table V) (p : PTok) (ps : List PTok) (q : PTok) :
    below (T.map (pushAll (p :: ps))) q = if p = q then T.map (pushAll ps) else [] := by
  induction T with
  | nil => simp [below]
  | cons a T ih =>
    unfold below at ih ⊢
    rw [List.map_cons, List.filterMap_cons]
    by_cases h : p = q
    · simp only [h, if_true] at ih ⊢
      simp only [pushAll, List.cons_append, if_true, List.map_cons, ih]
    · simp only [h, if_false] at ih ⊢
      simp only [pushAll, List.cons_append, h, if_false, ih]

/-- every expression of the table starts with a token satisfying `P` -/
def AllStart (P : PTok → Prop) (T : Table V) : Prop := ∀ nd ∈ T, ∃ q r, nd.pat = q :: r ∧ P q

theorem below_eq_nil {P : PTok → Prop} {T : Table V} (h : AllStart P T) {q : PTok} (hq : ¬ P q) :
    below T q = [] := by
  unfold below
  rw [List.filterMap_eq_nil_iff]
  intro nd hnd
  obtain ⟨q', r, hp, hP⟩ := h nd hnd
  have : ¬ q' = q := fun e => hq (e ▸ hP)
  simp [hp, this]

theorem AllStart.append {P : PTok → Prop} {a b : Table V} (ha : AllStart P a) (hb : AllStart P b) :
    AllStart P (a ++ b) := by
  intro nd hnd
  rcases List.mem_append.mp hnd with h | h
  · exact ha nd h
  · exact hb nd h

theorem AllStart.mono {P Q : PTok → Prop} {T : Table V} (h : AllStart P T) (hpq : ∀ q, P q → Q q) :
    AllStart Q T := by
  intro nd hnd
  obtain ⟨q, r, h1, h2⟩ := h nd hnd
  exact ⟨q, r, h1, hpq q h2⟩

theorem allStart_nil (P : PTok → Prop) : AllStart P ([] : Table V) := by
  intro nd hnd; cases hnd

theorem allStart_map_pushAll (P : PTok → Prop) (T : Table V) (p : PTok) (ps : List PTok) (hp : P p) :
    AllStart P (T.map (pushAll (p :: ps))) := by
  intro nd hnd
  obtain ⟨n, _, rfl⟩ := List.mem_map.mp hnd
  exact ⟨p, ps ++ n.pat, rfl, hp⟩

theorem here_eq_none_of_allStart {P : PTok → Prop} {T : Table V} (h : AllStart P T) : here T = none := by
  unfold here
  rw [List.find?_eq_none]
  intro nd hnd
  obtain ⟨q, r, hp, _⟩ := h nd hnd
  simp [hp]

theorem here_append (a b : Table V) : here (a ++ b) = (here a).or (here b) := by
  unfold here; rw [List.find?_append]

def IsLit (q : PTok) : Prop := ∃ s, q = .lit s

/-- a table whose expressions all start with a literal: only the static branch of `find` can answer -/
theorem find_of_allLit (m : V → List String → List String → Bool) (T : Table V) (h : AllStart IsLit T)
    (tok : Tok) (rest : List Tok) (caps : List String) :
    Heimdall.find m T (tok :: rest) caps = Heimdall.find m (below T (.lit (tokStr tok))) rest caps := by
  rw [find_cons]
  have hw : below T .wild = [] := below_eq_nil h (by rintro ⟨s, hs⟩; cases hs)
  have hc : below T .catchAll = [] := below_eq_nil h (by rintro ⟨s, hs⟩; cases hs)
  have hcr : catchRes m T (tok :: rest) caps = (none, true) := by
    unfold catchRes; rw [hc]; rfl
  simp only [hw, hcr, find_nil_table]
  by_cases hd : done (Heimdall.find m (below T (PTok.lit (tokStr tok))) rest caps)
  · simp [hd]
  · simp only [hd]
    rw [res_not_done _ hd]
    cases tok <;> simp [done]


/-! ## tokens -/

theorem render_toList (ts : List Tok) : (render ts).toList = ts.flatMap (fun t => (tokStr t).toList) := by
  unfold render
  rw [String.toList_join, List.flatMap_map]

theorem render_flushSeg (acc : List Char) : (render (flushSeg acc)).toList = acc.reverse := by
  rw [render_toList]
  unfold flushSeg
  cases acc with
  | nil => rfl
  | cons a l => simp [tokStr, String.toList_ofList]

theorem render_tokenizeAux (cs acc : List Char) : (render (tokenizeAux cs acc)).toList = acc.reverse ++ cs := by
  induction cs generalizing acc with
  | nil => simp [tokenizeAux, render_flushSeg]
  | cons c cs ih =>
    unfold tokenizeAux
    by_cases hc : c = '/'
    · simp only [hc, if_true]
      have h1 := render_flushSeg acc
      have h2 := ih []
      rw [render_toList] at h1 h2 ⊢
      rw [List.flatMap_append, List.flatMap_cons, h1, h2]
      simp [tokStr]
    · simp only [hc, if_false]
      rw [ih]; simp

theorem render_tokenizeAux' (cs acc : List Char) : render (tokenizeAux cs acc) = String.ofList (acc.reverse ++ cs) := by
  apply String.toList_injective
  rw [render_tokenizeAux, String.toList_ofList]

theorem tokenizeAux_append (p cs acc : List Char) (hp : '/' ∉ p) :
    tokenizeAux (p ++ cs) acc = tokenizeAux cs (p.reverse ++ acc) := by
  induction p generalizing acc with
  | nil => rfl
  | cons a p ih =>
    have ha : a ≠ '/' := fun e => hp (by simp [e])
    have hp' : '/' ∉ p := fun e => hp (by simp [e])
    rw [List.cons_append, tokenizeAux]
    simp only [ha, if_false]
    rw [ih _ hp']
    simp

theorem segOf_append_afterSeg (cs : List Char) : segOf cs ++ afterSeg cs = cs :=
  List.takeWhile_append_dropWhile

theorem notSlash_of_ne {c : Char} (hc : c ≠ '/') : notSlash c = true := by
  simp [notSlash, hc]

theorem notSlash_slash : notSlash '/' = false := by
  simp [notSlash]

theorem segOf_cons_ne {c : Char} (hc : c ≠ '/') (cs : List Char) : segOf (c :: cs) = c :: segOf cs := by
  unfold segOf; rw [List.takeWhile_cons, notSlash_of_ne hc]; rfl

theorem afterSeg_cons_ne {c : Char} (hc : c ≠ '/') (cs : List Char) : afterSeg (c :: cs) = afterSeg cs := by
  unfold afterSeg; rw [List.dropWhile_cons, notSlash_of_ne hc]; rfl

theorem segOf_slash (cs : List Char) : segOf ('/' :: cs) = [] := by
  unfold segOf; rw [List.takeWhile_cons, notSlash_slash]; rfl

theorem afterSeg_slash (cs : List Char) : afterSeg ('/' :: cs) = '/' :: cs := by
  unfold afterSeg; rw [List.dropWhile_cons, notSlash_slash]; rfl

theorem slash_not_mem_segOf (cs : List Char) : '/' ∉ segOf cs := by
  induction cs with
  | nil => simp [segOf]
  | cons c cs ih =>
    by_cases hc : c = '/'
    · subst hc; rw [segOf_slash]; simp
    · rw [segOf_cons_ne hc]
      intro h
      rcases List.mem_cons.mp h with h | h
      · exact hc h.symm
      · exact ih h

theorem tokenizeAux_seg (cs acc : List Char) :
    tokenizeAux cs acc = tokenizeAux (afterSeg cs) ((segOf cs).reverse ++ acc) := by
  conv => lhs; rw [← segOf_append_afterSeg cs]
  exact tokenizeAux_append _ _ _ (slash_not_mem_segOf cs)

theorem afterSeg_cases (cs : List Char) : afterSeg cs = [] ∨ ∃ r, afterSeg cs = '/' :: r := by
  induction cs with
  | nil => left; rfl
  | cons c cs ih =>
    by_cases hc : c = '/'
    · subst hc; right; exact ⟨cs, afterSeg_slash cs⟩
    · rw [afterSeg_cons_ne hc]; exact ih


theorem tokenizeAux_flush (y acc : List Char) (hacc : acc ≠ []) (hy : y = [] ∨ ∃ r, y = '/' :: r) :
    tokenizeAux y acc = .seg (String.ofList acc.reverse) :: tokenizeAux y [] := by
  have hf : flushSeg acc = [.seg (String.ofList acc.reverse)] := by
    unfold flushSeg; cases acc with
    | nil => exact absurd rfl hacc
    | cons a l => rfl
  rcases hy with rfl | ⟨r, rfl⟩
  · simp only [tokenizeAux, hf]; rfl
  · simp only [tokenizeAux, if_true, hf]; rfl

/-! ## shape of the abstraction -/

/-- contribution of one static child -/
def absChild (ch : RTree V) (acc : List Char) : Table V :=
  if ch.path = ['/'] then (absAux ch []).map (pushAll (flushP acc ++ [.lit "/"]))
  else absAux ch (ch.path.reverse ++ acc)

theorem absStatics_nil (acc : List Char) : absStatics ([] : List (Char × RTree V)) acc = [] := by
  rw [absStatics]

theorem absStatics_cons (i : Char) (ch : RTree V) (rest : List (Char × RTree V)) (acc : List Char) :
    absStatics ((i, ch) :: rest) acc = absChild ch acc ++ absStatics rest acc := by
  rw [absStatics]; rfl

/-- own entry of a node -/
def absOwn (t : RTree V) (acc : List Char) : Table V :=
  if t.values.isEmpty then [] else [⟨flushP acc, t.keys, t.values, t.bt⟩]

def absCatch (o : Option (RTree V)) (acc : List Char) : Table V :=
  match o with
  | none => []
  | some ca => if ca.values.isEmpty then [] else [⟨flushP acc ++ [.catchAll], ca.keys, ca.values, ca.bt⟩]

theorem absAux_eq (t : RTree V) (acc : List Char) :
    absAux t acc = absOwn t acc ++ (absStatics t.statics acc ++ (absWild t.wild acc ++ absCatch t.catchAll acc)) := by
  obtain ⟨path, prio, statics, wild, catchAll, values, keys, bt⟩ := t
  simp only [absAux]; rfl

theorem absWild_none (acc : List Char) : absWild (none : Option (RTree V)) acc = [] := by rw [absWild]

theorem absWild_some (w : RTree V) (acc : List Char) :
    absWild (some w) acc = (absAux w []).map (pushAll (flushP acc ++ [.wild])) := by rw [absWild]

theorem flushP_nil : flushP [] = [] := rfl

theorem flushP_ne {acc : List Char} (h : acc ≠ []) : flushP acc = [.lit (String.ofList acc.reverse)] := by
  unfold flushP
  cases acc with
  | nil => exact absurd rfl h
  | cons a l => rfl

/-- a literal token whose text extends the bytes `a` -/
def Ext (a : List Char) (q : PTok) : Prop := ∃ x, q = .lit (String.ofList (a ++ x))

theorem Ext.isLit {a : List Char} {q : PTok} (h : Ext a q) : IsLit q := by
  obtain ⟨x, rfl⟩ := h; exact ⟨_, rfl⟩

theorem allStart_absAux : ∀ (t : RTree V) (acc : List Char), acc ≠ [] → AllStart (Ext acc.reverse) (absAux t acc) := by
  intro t
  induction t using RTree.induct with
  | h t ihs ihw ihc =>
    intro acc hacc
    have hfl := flushP_ne hacc
    have hext : Ext acc.reverse (.lit (String.ofList acc.reverse)) := ⟨[], by simp⟩
    rw [absAux_eq]
    refine AllStart.append ?_ (AllStart.append ?_ (AllStart.append ?_ ?_))
    · unfold absOwn
      split
      · exact allStart_nil _
      · intro nd hnd
        simp only [List.mem_singleton] at hnd
        subst hnd
        exact ⟨_, [], hfl, hext⟩
    · have : ∀ l : List (Char × RTree V), (∀ c ∈ l, c ∈ t.statics) → AllStart (Ext acc.reverse) (absStatics l acc) := by
        intro l
        induction l with
        | nil => intro _; rw [absStatics_nil]; exact allStart_nil _
        | cons c l ih =>
          intro hl
          obtain ⟨i, ch⟩ := c
          rw [absStatics_cons]
          refine AllStart.append ?_ (ih (fun c hc => hl c (List.mem_cons_of_mem _ hc)))
          unfold absChild
          split
          · rw [hfl]; exact allStart_map_pushAll _ _ _ _ hext
          · have h1 := ihs (i, ch) (hl _ (List.mem_cons_self)) (ch.path.reverse ++ acc) (by simp [hacc])
            refine h1.mono ?_
            rintro q ⟨x, rfl⟩
            exact ⟨ch.path ++ x, by simp⟩
      exact this _ (fun c hc => hc)
    · cases hw : t.wild with
      | none => rw [absWild_none]; exact allStart_nil _
      | some w => rw [absWild_some, hfl]; exact allStart_map_pushAll _ _ _ _ hext
    · unfold absCatch
      cases hc : t.catchAll with
      | none => exact allStart_nil _
      | some ca =>
        simp only
        split
        · exact allStart_nil _
        · intro nd hnd
          simp only [List.mem_singleton] at hnd
          subst hnd
          exact ⟨_, [.catchAll], by rw [hfl]; rfl, hext⟩


theorem lit_ofList_inj {l₁ l₂ : List Char} : (PTok.lit (String.ofList l₁) = PTok.lit (String.ofList l₂)) ↔ l₁ = l₂ := by
  constructor
  · intro h; injection h with h; exact String.ofList_injective h
  · intro h; rw [h]

theorem slash_eq : ("/" : String) = String.ofList ['/'] := rfl

theorem not_ext_of_lit {a x : List Char} (hx : x ≠ []) : ¬ Ext (a ++ x) (.lit (String.ofList a)) := by
  rintro ⟨y, hy⟩
  rw [lit_ofList_inj] at hy
  have h1 := congrArg List.length hy
  rw [List.length_append, List.length_append] at h1
  have : x.length = 0 := by omega
  exact hx (List.length_eq_zero_iff.mp this)

/-- the table behind the finished pending literal -/
def afterFlush (T : Table V) (acc : List Char) : Table V :=
  if acc = [] then T else below T (.lit (String.ofList acc.reverse))

theorem afterFlush_append (A B : Table V) (acc : List Char) :
    afterFlush (A ++ B) acc = afterFlush A acc ++ afterFlush B acc := by
  unfold afterFlush; split
  · rfl
  · exact below_append _ _ _

theorem afterFlush_nil (acc : List Char) : afterFlush ([] : Table V) acc = [] := by
  unfold afterFlush; split <;> rfl

theorem afterFlush_map_pushAll (T : Table V) (acc : List Char) (ps : List PTok) :
    afterFlush (T.map (pushAll (flushP acc ++ ps))) acc = T.map (pushAll ps) := by
  unfold afterFlush
  by_cases h : acc = []
  · simp [h, flushP_nil]
  · simp only [h, if_false, flushP_ne h, List.singleton_append]
    rw [below_map_pushAll]; simp

theorem edge_path {i : Char} {ch : RTree V} (h : edgeOk i ch = true) :
    (∃ r, ch.path = i :: r) ∧ (ch.path = ['/'] ∨ '/' ∉ ch.path) := (edgeOk_iff i ch).mp h

theorem edge_slash {ch : RTree V} (h : edgeOk '/' ch = true) : ch.path = ['/'] := by
  obtain ⟨⟨r, hr⟩, h2⟩ := edge_path h
  rcases h2 with h2 | h2
  · exact h2
  · exact absurd (by rw [hr]; simp) h2

theorem edge_noslash {i : Char} {ch : RTree V} (h : edgeOk i ch = true) (hi : i ≠ '/') :
    ch.path ≠ ['/'] ∧ '/' ∉ ch.path := by
  obtain ⟨⟨r, hr⟩, h2⟩ := edge_path h
  have : ch.path ≠ ['/'] := by rw [hr]; intro e; injection e with e _; exact hi e
  rcases h2 with h2 | h2
  · exact absurd h2 this
  · exact ⟨this, h2⟩

theorem absChild_slash {ch : RTree V} (h : ch.path = ['/']) (acc : List Char) :
    absChild ch acc = (absAux ch []).map (pushAll (flushP acc ++ [.lit "/"])) := by
  unfold absChild; rw [if_pos h]

theorem absChild_noslash {ch : RTree V} (h : ch.path ≠ ['/']) (acc : List Char) :
    absChild ch acc = absAux ch (ch.path.reverse ++ acc) := by
  unfold absChild; rw [if_neg h]

theorem allStart_absChild_noslash {i : Char} {ch : RTree V} (h : edgeOk i ch = true) (hi : i ≠ '/')
    (acc : List Char) : AllStart (Ext (acc.reverse ++ ch.path)) (absChild ch acc) := by
  obtain ⟨⟨r, hr⟩, _⟩ := edge_path h
  rw [absChild_noslash (edge_noslash h hi).1]
  have := allStart_absAux ch (ch.path.reverse ++ acc) (by rw [hr]; simp)
  simpa using this

/-- other children do not answer for a segment starting with `c` -/
theorem below_absChild_other {i c : Char} {ch : RTree V} (h : edgeOk i ch = true) (hic : i ≠ c) (hc : c ≠ '/')
    (acc y : List Char) :
    below (absChild ch acc) (.lit (String.ofList (acc.reverse ++ c :: y))) = [] := by
  by_cases hi : i = '/'
  · subst hi
    rw [absChild_slash (edge_slash h)]
    by_cases hacc : acc = []
    · subst hacc
      simp only [flushP_nil, List.nil_append, List.reverse_nil]
      rw [below_map_pushAll, slash_eq, if_neg]
      rw [lit_ofList_inj]
      intro e; injection e with e _; exact hc e.symm
    · rw [flushP_ne hacc, List.singleton_append, below_map_pushAll, if_neg]
      rw [lit_ofList_inj]
      intro e
      have := congrArg List.length e
      simp at this
  · obtain ⟨⟨r, hr⟩, _⟩ := edge_path h
    refine below_eq_nil (allStart_absChild_noslash h hi acc) ?_
    rintro ⟨x, hx⟩
    rw [lit_ofList_inj, hr, List.append_assoc] at hx
    have := List.append_cancel_left hx
    simp at this
    exact hic this.1.symm

theorem below_absStatics_other (l : List (Char × RTree V)) (hedge : ∀ e ∈ l, edgeOk e.1 e.2 = true)
    (c : Char) (hne : ∀ e ∈ l, e.1 ≠ c) (hc : c ≠ '/') (acc y : List Char) :
    below (absStatics l acc) (.lit (String.ofList (acc.reverse ++ c :: y))) = [] := by
  induction l with
  | nil => rw [absStatics_nil]; rfl
  | cons e l ih =>
    obtain ⟨i, ch⟩ := e
    rw [absStatics_cons, below_append,
      below_absChild_other (hedge (i, ch) List.mem_cons_self) (hne (i, ch) List.mem_cons_self) hc,
      ih (fun e he => hedge e (List.mem_cons_of_mem _ he)) (fun e he => hne e (List.mem_cons_of_mem _ he))]
    rfl

theorem isPrefixOf_eq_append {p cs : List Char} (h : p.isPrefixOf cs = true) : cs = p ++ cs.drop p.length := by
  rw [List.isPrefixOf_iff_prefix] at h
  obtain ⟨t, rfl⟩ := h
  simp

theorem below_absChild_noprefix {c : Char} {ch : RTree V} (h : edgeOk c ch = true) (hc : c ≠ '/')
    (acc cs : List Char) (hnp : ¬ ch.path.isPrefixOf cs = true) :
    below (absChild ch acc) (.lit (String.ofList (acc.reverse ++ segOf cs))) = [] := by
  refine below_eq_nil (allStart_absChild_noslash h hc acc) ?_
  rintro ⟨x, hx⟩
  rw [lit_ofList_inj, List.append_assoc] at hx
  have hx := List.append_cancel_left hx
  apply hnp
  rw [List.isPrefixOf_iff_prefix]
  refine ⟨x ++ afterSeg cs, ?_⟩
  rw [← List.append_assoc, ← hx, segOf_append_afterSeg]


/-! ## the refinement -/

/-- the statement proved by induction over the tree -/
def Refines (m : V → List String → List String → Bool) (t : RTree V) : Prop :=
  ∀ (seg : Bool) (d : Nat) (acc : List Char), wfAt seg d t = true → (seg = true → acc = []) →
    (seg = false → acc ≠ []) → '/' ∉ acc → ∀ cs caps,
      findNode m t cs caps = Heimdall.find m (absAux t acc) (tokenizeAux cs acc) caps

theorem findStatic_nil (m : V → List String → List String → Bool) (c : Char) (cs : List Char) (caps : List String) :
    findStatic m [] c cs caps = (none, true) := by
  simp only [findStatic]

theorem findStatic_cons (m : V → List String → List String → Bool) (i : Char) (ch : RTree V)
    (rest : List (Char × RTree V)) (c : Char) (cs : List Char) (caps : List String) :
    findStatic m ((i, ch) :: rest) c cs caps =
      if i = c then
        if ch.path.isPrefixOf cs then findNode m ch (cs.drop ch.path.length) caps else (none, true)
      else findStatic m rest c cs caps := by
  simp only [findStatic]

/-- static children, request segment starting with a byte other than `/` -/
theorem findStatic_seg (m : V → List String → List String → Bool) (d : Nat) (acc : List Char)
    (hslash : '/' ∉ acc) (l : List (Char × RTree V))
    (hedge : ∀ e ∈ l, edgeOk e.1 e.2 = true) (hnodup : l.Pairwise (fun a b => a.1 ≠ b.1))
    (hst : ∀ e ∈ l, wfAt (e.2.path == ['/']) d e.2 = true) (ih : ∀ e ∈ l, Refines m e.2)
    (c : Char) (hc : c ≠ '/') (cs' : List Char) (caps : List String) :
    findStatic m l c (c :: cs') caps =
      Heimdall.find m (below (absStatics l acc) (.lit (String.ofList (acc.reverse ++ segOf (c :: cs')))))
        (tokenizeAux (afterSeg (c :: cs')) []) caps := by
  induction l with
  | nil => rw [findStatic_nil, absStatics_nil]; exact (find_nil_table m _ _).symm
  | cons e l ihl =>
    obtain ⟨i, ch⟩ := e
    have he := hedge (i, ch) List.mem_cons_self
    rw [List.pairwise_cons] at hnodup
    rw [findStatic_cons, absStatics_cons, below_append]
    by_cases hic : i = c
    · subst hic
      rw [if_pos rfl]
      have hrest : below (absStatics l acc) (.lit (String.ofList (acc.reverse ++ segOf (i :: cs')))) = [] := by
        rw [segOf_cons_ne hc]
        exact below_absStatics_other l (fun e he => hedge e (List.mem_cons_of_mem _ he)) i
          (fun e he => (hnodup.1 e he).symm) hc acc _
      rw [hrest, List.append_nil]
      obtain ⟨hne, hns⟩ := edge_noslash he hc
      obtain ⟨⟨r, hr⟩, _⟩ := edge_path he
      by_cases hp : ch.path.isPrefixOf (i :: cs') = true
      · rw [if_pos hp]
        have hw := hst (i, ch) List.mem_cons_self
        have hseg : (ch.path == ['/']) = false := by simpa using hne
        simp only [hseg] at hw
        have hacc' : ch.path.reverse ++ acc ≠ [] := by rw [hr]; simp
        have hs' : '/' ∉ ch.path.reverse ++ acc := by
          intro hm; rcases List.mem_append.mp hm with hm | hm
          · exact hns (List.mem_reverse.mp hm)
          · exact hslash hm
        rw [ih (i, ch) List.mem_cons_self false d _ hw (by simp) (fun _ => hacc') hs']
        have htok : tokenizeAux ((i :: cs').drop ch.path.length) (ch.path.reverse ++ acc)
            = tokenizeAux (i :: cs') acc := by
          conv => rhs; rw [isPrefixOf_eq_append hp]
          exact (tokenizeAux_append _ _ _ hns).symm
        rw [htok, tokenizeAux_seg (i :: cs') acc,
          tokenizeAux_flush _ _ (by rw [segOf_cons_ne hc]; simp) (afterSeg_cases _),
          find_of_allLit m _ ((allStart_absAux ch _ hacc').mono (fun q hq => hq.isLit)),
          absChild_noslash hne]
        simp [tokStr]
      · rw [if_neg hp, below_absChild_noprefix he hc acc _ hp]
        exact (find_nil_table m _ _).symm
    · rw [if_neg hic, segOf_cons_ne hc, below_absChild_other he hic hc, List.nil_append, ← segOf_cons_ne hc]
      exact ihl (fun e he => hedge e (List.mem_cons_of_mem _ he)) hnodup.2
        (fun e he => hst e (List.mem_cons_of_mem _ he)) (fun e he => ih e (List.mem_cons_of_mem _ he))


theorem afterFlush_absChild_noslash {i : Char} {ch : RTree V} (h : edgeOk i ch = true) (hi : i ≠ '/')
    (acc : List Char) (hacc : acc ≠ []) : afterFlush (absChild ch acc) acc = [] := by
  unfold afterFlush
  rw [if_neg hacc]
  obtain ⟨⟨r, hr⟩, _⟩ := edge_path h
  exact below_eq_nil (allStart_absChild_noslash h hi acc) (not_ext_of_lit (by rw [hr]; simp))

theorem below_afterFlush_absChild_noslash {i : Char} {ch : RTree V} (h : edgeOk i ch = true) (hi : i ≠ '/')
    (acc : List Char) : below (afterFlush (absChild ch acc) acc) (.lit "/") = [] := by
  by_cases hacc : acc = []
  · subst hacc
    obtain ⟨⟨r, hr⟩, _⟩ := edge_path h
    unfold afterFlush
    rw [if_pos rfl]
    refine below_eq_nil (allStart_absChild_noslash h hi []) ?_
    rintro ⟨x, hx⟩
    rw [slash_eq, lit_ofList_inj, hr] at hx
    simp at hx
    exact hi hx.1.symm
  · rw [afterFlush_absChild_noslash h hi acc hacc]; rfl

theorem allLit_afterFlush_absChild {i : Char} {ch : RTree V} (h : edgeOk i ch = true) (acc : List Char) :
    AllStart IsLit (afterFlush (absChild ch acc) acc) := by
  by_cases hi : i = '/'
  · subst hi
    rw [absChild_slash (edge_slash h), afterFlush_map_pushAll]
    exact allStart_map_pushAll _ _ _ _ ⟨_, rfl⟩
  · by_cases hacc : acc = []
    · subst hacc
      unfold afterFlush
      rw [if_pos rfl]
      exact (allStart_absChild_noslash h hi []).mono (fun q hq => hq.isLit)
    · rw [afterFlush_absChild_noslash h hi acc hacc]; exact allStart_nil _

theorem allLit_afterFlush_absStatics (l : List (Char × RTree V)) (hedge : ∀ e ∈ l, edgeOk e.1 e.2 = true)
    (acc : List Char) : AllStart IsLit (afterFlush (absStatics l acc) acc) := by
  induction l with
  | nil => rw [absStatics_nil, afterFlush_nil]; exact allStart_nil _
  | cons e l ih =>
    obtain ⟨i, ch⟩ := e
    rw [absStatics_cons, afterFlush_append]
    exact AllStart.append (allLit_afterFlush_absChild (hedge (i, ch) List.mem_cons_self) acc)
      (ih (fun e he => hedge e (List.mem_cons_of_mem _ he)))

theorem below_afterFlush_absStatics_noslash (l : List (Char × RTree V))
    (hedge : ∀ e ∈ l, edgeOk e.1 e.2 = true) (hne : ∀ e ∈ l, e.1 ≠ '/') (acc : List Char) :
    below (afterFlush (absStatics l acc) acc) (.lit "/") = [] := by
  induction l with
  | nil => rw [absStatics_nil, afterFlush_nil]; rfl
  | cons e l ih =>
    obtain ⟨i, ch⟩ := e
    rw [absStatics_cons, afterFlush_append, below_append,
      below_afterFlush_absChild_noslash (hedge (i, ch) List.mem_cons_self) (hne (i, ch) List.mem_cons_self),
      ih (fun e he => hedge e (List.mem_cons_of_mem _ he)) (fun e he => hne e (List.mem_cons_of_mem _ he))]
    rfl

/-- static children, request continuing with `/` -/
theorem findStatic_slash (m : V → List String → List String → Bool) (d : Nat) (acc : List Char)
    (l : List (Char × RTree V))
    (hedge : ∀ e ∈ l, edgeOk e.1 e.2 = true) (hnodup : l.Pairwise (fun a b => a.1 ≠ b.1))
    (hst : ∀ e ∈ l, wfAt (e.2.path == ['/']) d e.2 = true) (ih : ∀ e ∈ l, Refines m e.2)
    (cs' : List Char) (caps : List String) :
    findStatic m l '/' ('/' :: cs') caps =
      Heimdall.find m (below (afterFlush (absStatics l acc) acc) (.lit "/")) (tokenizeAux cs' []) caps := by
  induction l with
  | nil => rw [findStatic_nil, absStatics_nil, afterFlush_nil]; exact (find_nil_table m _ _).symm
  | cons e l ihl =>
    obtain ⟨i, ch⟩ := e
    have he := hedge (i, ch) List.mem_cons_self
    rw [List.pairwise_cons] at hnodup
    rw [findStatic_cons, absStatics_cons, afterFlush_append, below_append]
    by_cases hi : i = '/'
    · subst hi
      have hp := edge_slash he
      rw [if_pos rfl, below_afterFlush_absStatics_noslash l (fun e he => hedge e (List.mem_cons_of_mem _ he))
        (fun e he => (hnodup.1 e he).symm), List.append_nil, absChild_slash hp, afterFlush_map_pushAll,
        below_map_pushAll, if_pos rfl, map_pushAll_nil, hp]
      have hw := hst ('/', ch) List.mem_cons_self
      dsimp only at hw
      rw [hp] at hw
      simp only [List.isPrefixOf, beq_self_eq_true, Bool.and_self, if_true,
        List.length_cons, List.length_nil, List.drop_succ_cons, List.drop_zero]
      exact ih ('/', ch) List.mem_cons_self true d [] hw (fun _ => rfl) (by simp) (by simp) cs' caps
    · rw [if_neg hi, below_afterFlush_absChild_noslash he hi, List.nil_append]
      exact ihl (fun e he => hedge e (List.mem_cons_of_mem _ he)) hnodup.2
        (fun e he => hst e (List.mem_cons_of_mem _ he)) (fun e he => ih e (List.mem_cons_of_mem _ he))


theorem findNode_nil (m : V → List String → List String → Bool) (t : RTree V) (caps : List String) :
    findNode m t [] caps = if t.values.isEmpty then (none, true) else tryValues m t.values t.keys caps t.bt := by
  obtain ⟨path, prio, statics, wild, catchAll, values, keys, bt⟩ := t
  simp only [findNode]

theorem findNode_cons (m : V → List String → List String → Bool) (t : RTree V) (c : Char) (cs' : List Char)
    (caps : List String) :
    findNode m t (c :: cs') caps =
      thenTry (findStatic m t.statics c (c :: cs') caps) fun _ =>
      thenTry (findWild m t.wild (c :: cs') caps) fun _ =>
      match t.catchAll with
      | none => (none, true)
      | some ca => tryValues m ca.values ca.keys (caps ++ [String.ofList (c :: cs')]) ca.bt := by
  obtain ⟨path, prio, statics, wild, catchAll, values, keys, bt⟩ := t
  simp only [findNode]
  rfl

theorem findWild_none (m : V → List String → List String → Bool) (cs : List Char) (caps : List String) :
    findWild m none cs caps = (none, true) := by
  simp only [findWild]

theorem findWild_some (m : V → List String → List String → Bool) (w : RTree V) (cs : List Char)
    (caps : List String) :
    findWild m (some w) cs caps =
      if (segOf cs).isEmpty then (none, true)
      else findNode m w (afterSeg cs) (caps ++ [String.ofList (segOf cs)]) := by
  simp only [findWild]

theorem tryValues_eq_tryNode (m : V → List String → List String → Bool) (pat : List PTok) (keys : List String)
    (values : List V) (bt : Bool) (caps : List String) :
    tryValues m values keys caps bt = tryNode m ⟨pat, keys, values, bt⟩ caps := rfl

theorem below_absOwn_nil (t : RTree V) (q : PTok) : below (absOwn t []) q = [] := by
  unfold absOwn; split <;> rfl

theorem afterFlush_absOwn (t : RTree V) (acc : List Char) : afterFlush (absOwn t acc) acc = absOwn t [] := by
  unfold afterFlush
  by_cases h : acc = []
  · rw [if_pos h, h]
  · rw [if_neg h]
    unfold absOwn
    split
    · rfl
    · simp [below, flushP_ne h, flushP_nil]

theorem here_absOwn_append (t : RTree V) (R : Table V) :
    here (absOwn t [] ++ R) = if t.values.isEmpty then here R else some ⟨[], t.keys, t.values, t.bt⟩ := by
  unfold absOwn
  split
  · rfl
  · simp [here, flushP_nil]

theorem below_absWild_nil (o : Option (RTree V)) (q : PTok) :
    below (absWild o []) q = if q = .wild then (match o with | none => [] | some w => absAux w []) else [] := by
  cases o with
  | none => rw [absWild_none]; split <;> rfl
  | some w =>
    rw [absWild_some, flushP_nil, List.nil_append, below_map_pushAll, map_pushAll_nil]
    by_cases h : q = .wild
    · subst h; simp
    · have : ¬ PTok.wild = q := fun e => h e.symm
      simp [h, this]

theorem allStart_absWild_nil (o : Option (RTree V)) : AllStart (fun q => q = .wild) (absWild o []) := by
  cases o with
  | none => rw [absWild_none]; exact allStart_nil _
  | some w => rw [absWild_some]; exact allStart_map_pushAll _ _ _ _ rfl

theorem allStart_absCatch_nil (o : Option (RTree V)) : AllStart (fun q => q = .catchAll) (absCatch o []) := by
  unfold absCatch
  cases o with
  | none => exact allStart_nil _
  | some ca =>
    simp only
    split
    · exact allStart_nil _
    · intro nd hnd
      simp only [List.mem_singleton] at hnd
      subst hnd
      exact ⟨_, [], rfl, rfl⟩

theorem below_absCatch_catch (o : Option (RTree V)) :
    below (absCatch o []) .catchAll =
      match o with
      | none => []
      | some ca => if ca.values.isEmpty then [] else [⟨[], ca.keys, ca.values, ca.bt⟩] := by
  unfold absCatch
  cases o with
  | none => rfl
  | some ca =>
    simp only
    split
    · rfl
    · simp [below, flushP_nil]

theorem afterFlush_absAux (t : RTree V) (acc : List Char)
    (h : acc ≠ [] → t.wild = none ∧ t.catchAll = none) :
    afterFlush (absAux t acc) acc =
      absOwn t [] ++ (afterFlush (absStatics t.statics acc) acc ++ (absWild t.wild [] ++ absCatch t.catchAll [])) := by
  rw [absAux_eq, afterFlush_append, afterFlush_append, afterFlush_absOwn]
  by_cases hacc : acc = []
  · subst hacc
    simp only [afterFlush, if_true]
  · obtain ⟨h1, h2⟩ := h hacc
    rw [h1, h2, absWild_none, absWild_none]
    simp only [absCatch, List.append_nil, afterFlush_nil]

theorem find_flush (m : V → List String → List String → Bool) (T : Table V) (acc : List Char)
    (h : acc ≠ [] → AllStart IsLit T) (toks : List Tok) (caps : List String) :
    Heimdall.find m T (flushSeg acc ++ toks) caps = Heimdall.find m (afterFlush T acc) toks caps := by
  unfold afterFlush flushSeg
  by_cases hacc : acc = []
  · subst hacc; rfl
  · have : acc.isEmpty = false := by cases acc <;> simp_all
    rw [if_neg hacc, this]
    simp only [Bool.false_eq_true, if_false, List.singleton_append]
    rw [find_of_allLit m T (h hacc)]
    rfl


theorem below_absCatch_ne (o : Option (RTree V)) {q : PTok} (hq : q ≠ .catchAll) : below (absCatch o []) q = [] :=
  below_eq_nil (allStart_absCatch_nil o) hq

theorem below_wild_of_allLit {T : Table V} (h : AllStart IsLit T) : below T .wild = [] :=
  below_eq_nil h (by rintro ⟨s, hs⟩; cases hs)

theorem below_catch_of_allLit {T : Table V} (h : AllStart IsLit T) : below T .catchAll = [] :=
  below_eq_nil h (by rintro ⟨s, hs⟩; cases hs)

/-- the free wildcard step of `findNode` -/
def catchStep (m : V → List String → List String → Bool) (o : Option (RTree V)) (caps : List String) : Res V :=
  match o with
  | none => (none, true)
  | some ca => tryValues m ca.values ca.keys caps ca.bt

/-- the free wildcard step on a table whose only free-wildcard entry is the node's catch-all child -/
theorem catchRes_absCatch (m : V → List String → List String → Bool) (T : Table V) (o : Option (RTree V))
    (hT : below T .catchAll = below (absCatch o []) .catchAll)
    (hv : ∀ ca, o = some ca → ca.values ≠ []) (toks : List Tok) (caps : List String) :
    catchRes m T toks caps = catchStep m o (caps ++ [render toks]) := by
  unfold catchRes catchStep
  rw [hT, below_absCatch_catch]
  cases o with
  | none => rfl
  | some ca =>
    have : ca.values.isEmpty = false := by
      have := hv ca rfl
      cases hvv : ca.values with
      | nil => exact absurd hvv this
      | cons a l => rfl
    simp only [this, Bool.false_eq_true, if_false]
    rfl

theorem findNode_cons' (m : V → List String → List String → Bool) (t : RTree V) (c : Char) (cs' : List Char)
    (caps : List String) :
    findNode m t (c :: cs') caps =
      thenTry (findStatic m t.statics c (c :: cs') caps) fun _ =>
      thenTry (findWild m t.wild (c :: cs') caps) fun _ =>
      catchStep m t.catchAll (caps ++ [String.ofList (c :: cs')]) := by
  rw [findNode_cons]; rfl


theorem catchOk_values {d : Nat} {ca : RTree V} (h : catchOk d ca = true) : ca.values ≠ [] := by
  unfold catchOk at h
  simp only [Bool.and_eq_true, Bool.not_eq_true', List.isEmpty_eq_false_iff] at h
  exact h.1.1.1

theorem thenTry_eq (r : Res V) (k : Unit → Res V) : thenTry r k = if done r then r else k () := rfl

theorem refines_all (m : V → List String → List String → Bool) : ∀ t : RTree V, Refines m t := by
  intro t
  induction t using RTree.induct with
  | h t ihs ihw _ =>
    intro seg d acc hwf hseg1 hseg0 hsl cs caps
    have W := (wfAt_iff seg d t).mp hwf
    have hflat : acc ≠ [] → t.wild = none ∧ t.catchAll = none := by
      intro h
      apply W.hseg
      cases seg with
      | false => rfl
      | true => exact absurd (hseg1 rfl) h
    have hS' := allLit_afterFlush_absStatics t.statics W.hedge acc
    have hTlit : acc ≠ [] → AllStart IsLit (absAux t acc) :=
      fun h => (allStart_absAux t acc h).mono (fun q hq => hq.isLit)
    have hcv : ∀ ca, t.catchAll = some ca → ca.values ≠ [] := fun ca hca => catchOk_values (W.hc ca hca)
    cases cs with
    | nil =>
      have htok : tokenizeAux [] acc = flushSeg acc ++ [] := by simp [tokenizeAux]
      rw [htok, find_flush m _ acc hTlit, afterFlush_absAux t acc hflat, find_nil, leafRes,
        here_absOwn_append, findNode_nil]
      have hnone : here (afterFlush (absStatics t.statics acc) acc ++
          (absWild t.wild [] ++ absCatch t.catchAll [])) = none :=
        here_eq_none_of_allStart (P := fun _ => True)
          (AllStart.append (hS'.mono (fun _ _ => trivial))
            (AllStart.append ((allStart_absWild_nil _).mono (fun _ _ => trivial))
              ((allStart_absCatch_nil _).mono (fun _ _ => trivial))))
      split
      · rw [hnone]
      · rfl
    | cons c cs' =>
      rw [findNode_cons']
      by_cases hc : c = '/'
      · subst hc
        have htok : tokenizeAux ('/' :: cs') acc = flushSeg acc ++ .sep :: tokenizeAux cs' [] := by
          simp [tokenizeAux]
        rw [htok, find_flush m _ acc hTlit, afterFlush_absAux t acc hflat, find_cons]
        have hb1 : below (absOwn t [] ++ (afterFlush (absStatics t.statics acc) acc ++
            (absWild t.wild [] ++ absCatch t.catchAll []))) (.lit (tokStr .sep)) =
            below (afterFlush (absStatics t.statics acc) acc) (.lit "/") := by
          rw [below_append, below_append, below_append, below_absOwn_nil, below_absWild_nil,
            below_absCatch_ne _ (by intro h; cases h)]
          simp [tokStr]
        have hb3 : below (absOwn t [] ++ (afterFlush (absStatics t.statics acc) acc ++
            (absWild t.wild [] ++ absCatch t.catchAll []))) .catchAll =
            below (absCatch t.catchAll []) .catchAll := by
          rw [below_append, below_append, below_append, below_absOwn_nil, below_catch_of_allLit hS',
            below_absWild_nil]
          simp
        rw [hb1, ← findStatic_slash m d acc t.statics W.hedge W.hnodup W.hst ihs cs' caps,
          catchRes_absCatch m _ t.catchAll hb3 hcv]
        have hr : render (Tok.sep :: tokenizeAux cs' []) = String.ofList ('/' :: cs') := by
          have := render_tokenizeAux' ('/' :: cs') []
          simpa [tokenizeAux, flushSeg] using this
        rw [hr]
        have hw : findWild m t.wild ('/' :: cs') caps = (none, true) := by
          cases hw : t.wild with
          | none => rw [findWild_none]
          | some w => rw [findWild_some, segOf_slash]; rfl
        rw [thenTry_eq, thenTry_eq, hw]
      · -- a segment byte
        have hseg : segOf (c :: cs') ≠ [] := by rw [segOf_cons_ne hc]; simp
        have htok : tokenizeAux (c :: cs') acc =
            .seg (String.ofList (acc.reverse ++ segOf (c :: cs'))) :: tokenizeAux (afterSeg (c :: cs')) [] := by
          rw [tokenizeAux_seg, tokenizeAux_flush _ _ (by simp [hseg]) (afterSeg_cases _)]
          simp
        rw [htok, find_cons, absAux_eq]
        simp only [tokStr]
        have hown : ∀ q : PTok, q ≠ .lit (String.ofList acc.reverse) → below (absOwn t acc) q = [] := by
          intro q hq
          unfold absOwn
          split
          · rfl
          · by_cases hacc : acc = []
            · subst hacc; rfl
            · simp only [below, flushP_ne hacc, List.filterMap_cons, List.filterMap_nil]
              rw [if_neg (fun e => hq e.symm)]
        have hq0 : PTok.lit (String.ofList (acc.reverse ++ segOf (c :: cs'))) ≠ .lit (String.ofList acc.reverse) := by
          rw [Ne, lit_ofList_inj]
          intro e
          have := congrArg List.length e
          simp at this
          exact hseg this
        have hb1 : below (absOwn t acc ++ (absStatics t.statics acc ++ (absWild t.wild acc ++ absCatch t.catchAll acc)))
            (.lit (String.ofList (acc.reverse ++ segOf (c :: cs')))) =
            below (absStatics t.statics acc) (.lit (String.ofList (acc.reverse ++ segOf (c :: cs')))) := by
          rw [below_append, below_append, below_append, hown _ hq0]
          by_cases hacc : acc = []
          · subst hacc
            rw [below_absWild_nil, below_absCatch_ne _ (by intro h; cases h)]
            simp
          · obtain ⟨h1, h2⟩ := hflat hacc
            rw [h1, h2, absWild_none]
            simp [absCatch, below]
        rw [hb1, ← findStatic_seg m d acc hsl t.statics W.hedge W.hnodup W.hst ihs c hc cs' caps]
        rw [thenTry_eq, thenTry_eq]
        by_cases hd1 : done (findStatic m t.statics c (c :: cs') caps) = true
        · simp only [hd1, if_true]
        · simp only [hd1, Bool.false_eq_true, if_false]
          by_cases hacc : acc = []
          · subst hacc
            have hS0 : AllStart IsLit (absStatics t.statics []) := by
              have := hS'; unfold afterFlush at this; simpa using this
            have hb2 : below (absOwn t [] ++ (absStatics t.statics [] ++ (absWild t.wild [] ++ absCatch t.catchAll [])))
                .wild = (match t.wild with | none => [] | some w => absAux w []) := by
              rw [below_append, below_append, below_append, below_absOwn_nil, below_wild_of_allLit hS0,
                below_absWild_nil, below_absCatch_ne _ (by intro h; cases h)]
              simp
            have hb3 : below (absOwn t [] ++ (absStatics t.statics [] ++ (absWild t.wild [] ++ absCatch t.catchAll [])))
                .catchAll = below (absCatch t.catchAll []) .catchAll := by
              rw [below_append, below_append, below_append, below_absOwn_nil, below_catch_of_allLit hS0,
                below_absWild_nil]
              simp
            rw [hb2, catchRes_absCatch m _ t.catchAll hb3 hcv]
            have hr : render (Tok.seg (String.ofList ([].reverse ++ segOf (c :: cs'))) ::
                tokenizeAux (afterSeg (c :: cs')) []) = String.ofList (c :: cs') := by
              rw [← htok, render_tokenizeAux']; simp
            rw [hr]
            have hw : findWild m t.wild (c :: cs') caps =
                Heimdall.find m (match t.wild with | none => [] | some w => absAux w [])
                  (tokenizeAux (afterSeg (c :: cs')) [])
                  (caps ++ [String.ofList ([].reverse ++ segOf (c :: cs'))]) := by
              cases hw : t.wild with
              | none => rw [findWild_none]; exact (find_nil_table m _ _).symm
              | some w =>
                rw [findWild_some]
                have : (segOf (c :: cs')).isEmpty = false := by
                  cases h : segOf (c :: cs') with
                  | nil => exact absurd h hseg
                  | cons _ _ => rfl
                rw [this]
                simp only [Bool.false_eq_true, if_false, List.reverse_nil, List.nil_append]
                exact ihw w hw true (d + 1) [] (W.hw w hw) (fun _ => rfl) (by simp) (by simp) _ _
            rw [hw]
          · obtain ⟨h1, h2⟩ := hflat hacc
            have hT := hTlit hacc
            rw [absAux_eq] at hT
            rw [below_wild_of_allLit hT, find_nil_table]
            have : catchRes m (absOwn t acc ++ (absStatics t.statics acc ++ (absWild t.wild acc ++ absCatch t.catchAll acc)))
                (Tok.seg (String.ofList (acc.reverse ++ segOf (c :: cs'))) :: tokenizeAux (afterSeg (c :: cs')) []) caps
                = (none, true) := by
              unfold catchRes; rw [below_catch_of_allLit hT]; rfl
            rw [this, h1, h2, findWild_none]
            simp [done, catchStep]

/-- **Refinement of the lookup.** On a well-formed tree the byte-level `findNode` and the token-level `find` on the
abstraction give the same result: same value, same keys, same captures, same backtracking flag. -/
theorem rtree_find_refines (t : RTree V) (h : t.WF) (m : V → List String → List String → Bool) (path : String) :
    findNode m t path.toList [] = Heimdall.find m t.abs (tokenize path) [] :=
  refines_all m t true 0 [] h (fun _ => rfl) (by simp) (by simp) path.toList []

/-- `Tree.Find` = `lookup` on the abstraction -/
theorem rtree_lookup_refines (t : RTree V) (h : t.WF) (m : V → List String → List String → Bool) (path : String) :
    RTree.find m t path = lookup m t.abs path := by
  unfold RTree.find lookup
  rw [rtree_find_refines t h m path]
  rfl

end RTree
end Heimdall
