import HeimdallModel.Lemmas.RepoInv
/-!
Removal of a rule set never fails for a consistent repository, provided two route texts of one rule id that denote
the same node are textually equal (`NoAlias`).
-/
namespace Heimdall

/-- route expressions of one rule id that denote the same tree node are written identically -/
def NoAlias (tg : List (String × String)) : Prop :=
  ∀ a ∈ tg, ∀ b ∈ tg, a.1 = b.1 → parseDel a.2 = parseDel b.2 → a.2 = b.2

theorem removeFlat_succeeds (src : String) (t₀ t : Table RVal) (seen tg all : List (String × String))
    (hinv : LoopInv src t₀ t seen) (hseen : ∀ x ∈ seen, x ∈ all) (htg : ∀ x ∈ tg, x ∈ all)
    (hna : NoAlias all)
    (hsrc : ∀ x ∈ all, ∃ v n₀, getNode t₀ (parseDel x.2) = some n₀ ∧ v ∈ n₀.values ∧ v.rid = x.1 ∧ v.src = src) :
    ∃ r, removeFlat src t seen tg = some r := by
  induction tg generalizing t seen with
  | nil => exact ⟨_, rfl⟩
  | cons x rest ih =>
    obtain ⟨rid, p⟩ := x
    simp only [removeFlat]
    by_cases hs : seen.contains (rid, p)
    · simp only [hs, if_true]
      exact ih t seen hinv hseen (fun y hy => htg y (by simp [hy]))
    · simp only [hs]
      have hxall : (rid, p) ∈ all := htg _ (by simp)
      obtain ⟨v, n₀, hg₀, hv, hvr, hvs⟩ := hsrc _ hxall
      simp only at hg₀ hvr
      have hpat : n₀.pat = parseDel p := getNode_some_pat hg₀
      -- the value has not been deleted yet
      have hnotgone : gone src (donePairs seen) n₀.pat v = false := by
        unfold gone
        cases hc : (donePairs seen).contains (v.rid, n₀.pat) with
        | false => simp
        | true =>
          exfalso
          rw [List.contains_eq_mem, decide_eq_true_eq] at hc
          unfold donePairs at hc
          rw [List.mem_map] at hc
          obtain ⟨y, hy, hye⟩ := hc
          have hy1 : y.1 = rid := by rw [← hvr]; exact (Prod.mk.inj hye).1
          have hy2 : parseDel y.2 = parseDel p := by rw [← hpat]; exact (Prod.mk.inj hye).2
          have := hna y (hseen y hy) (rid, p) hxall hy1 hy2
          simp only at this
          have hyeq : y = (rid, p) := Prod.ext hy1 this
          rw [hyeq] at hy
          exact hs (by simpa using hy)
      have hdel : ∃ t', del t p (fun v => v.rid == rid && v.src == src) = some t' := by
        unfold del
        rw [delPat_some_iff, hinv.nodes, hg₀]
        simp only [Option.bind_some, prune]
        have hvin : v ∈ n₀.values.filter (fun v => !gone src (donePairs seen) n₀.pat v) := by
          rw [List.mem_filter]; exact ⟨hv, by simp [hnotgone]⟩
        have hne : (n₀.values.filter (fun v => !gone src (donePairs seen) n₀.pat v)).isEmpty = false := by
          cases hfl : n₀.values.filter (fun v => !gone src (donePairs seen) n₀.pat v) with
          | nil => rw [hfl] at hvin; cases hvin
          | cons a b => rfl
        simp only [hne, Bool.false_eq_true, if_false]
        refine ⟨_, rfl, ?_⟩
        rw [List.any_eq_true]
        exact ⟨v, hvin, by simp [hvr, hvs]⟩
      obtain ⟨t', ht'⟩ := hdel
      simp only [ht']
      refine ih t' _ (loopInv_step src t₀ t t' seen rid p hinv ht') ?_ (fun y hy => htg y (by simp [hy]))
      intro y hy
      rcases List.mem_cons.mp hy with rfl | hy
      · exact hxall
      · exact hseen y hy

/-- **Removal never fails** for a repository satisfying the invariant, under `NoAlias` -/
theorem removeRules_succeeds (src : String) (s : Repo) (h : RepoInv s)
    (hna : NoAlias (targets (s.known.filter (·.src == src)))) :
    ∃ t', removeRules s.index [] (s.known.filter (·.src == src)) = some t' := by
  obtain ⟨items, hk, hh, hnd, hc⟩ := h
  have hsrcs : ∀ r ∈ s.known.filter (·.src == src), r.src = src := by
    intro r hr'; simpa using (List.mem_filter.mp hr').2
  rw [removeRules_eq src s.index [] _ hsrcs]
  have hvals : ∀ p n, getNode s.index p = some n → n.values ≠ [] := by
    intro p n hn
    rw [hh p, expected_eq] at hn
    cases hfl : items.filter (fun i => i.pat = p) with
    | nil => simp [hfl] at hn
    | cons i rest => simp only [hfl, Option.some.injEq] at hn; subst hn; simp
  have h0 : LoopInv src s.index s.index [] := by
    refine ⟨hnd, ?_⟩
    intro p
    cases hg : getNode s.index p with
    | none => rfl
    | some n => simp only [Option.bind_some, donePairs, List.map_nil]; rw [prune_nil src n (hvals p n hg)]
  have hsrc : ∀ x ∈ targets (s.known.filter (·.src == src)),
      ∃ v n₀, getNode s.index (parseDel x.2) = some n₀ ∧ v ∈ n₀.values ∧ v.rid = x.1 ∧ v.src = src := by
    intro x hx
    unfold targets ruleTargets at hx
    rw [List.mem_flatMap] at hx
    obtain ⟨r, hr, hm⟩ := hx
    rw [List.mem_map] at hm
    obtain ⟨rt, hrt, rfl⟩ := hm
    have hrk : r ∈ s.known := (List.mem_filter.mp hr).1
    have hrs : r.src = src := hsrcs r hr
    -- the route was registered
    have hmem : mkItem r rt ∈ allItems s.known := by
      unfold allItems ruleItems
      rw [List.mem_flatMap]
      exact ⟨r, hrk, List.mem_map.mpr ⟨rt, hrt, rfl⟩⟩
    rw [hk, List.mem_map] at hmem
    obtain ⟨j, hj, hje⟩ := hmem
    obtain ⟨hp1, hp2, hp3⟩ := mkItem_some hje.symm
    have hg := hh j.pat
    rw [expected_eq] at hg
    have hjf : j ∈ items.filter (fun i => i.pat = j.pat) := by rw [List.mem_filter]; exact ⟨hj, by simp⟩
    cases hfl : items.filter (fun i => i.pat = j.pat) with
    | nil => rw [hfl] at hjf; cases hjf
    | cons i rest =>
      rw [hfl] at hg hjf
      refine ⟨j.val, _, by rw [← hp1]; exact hg, ?_, hp2, hp3.trans hrs⟩
      simp only
      exact List.mem_map.mpr ⟨j, hjf, rfl⟩
  obtain ⟨r, hr⟩ := removeFlat_succeeds src s.index s.index [] _ _ h0 (by intro x hx; cases hx)
    (fun x hx => hx) hna hsrc
  exact ⟨r.1, by rw [hr]; rfl⟩

end Heimdall
