import HeimdallModel.Spec.CacheValidity
/-!
# Helper lemmas for C10: the store invariant behind "nothing is reused beyond its validity"

`Sound p ok`: whenever policy `p` decides to store a fresh answer with a TTL, reuse of that answer is permitted
(`ok`) up to and including the instant `now + ttl`, and `ok` is downward closed in time. Then every history keeps
the invariant "each entry may be reused until its own `expiry`", hence every cache hit is permitted.
-/
namespace Heimdall.Validity

variable {U V : Type}

theorem alive_le {k : StoreKind} {now u : Int} (h : alive k now u = true) : now ≤ u := by
  cases k <;> simp [alive] at h <;> omega

theorem Store.find_some {s : Store V} {key : Nat} {e : Entry V} (h : s.find key = some e) :
    e ∈ s ∧ e.key = key := by
  unfold Store.find at h
  have h1 := List.mem_of_find?_eq_some h
  have h2 := List.find?_some h
  exact ⟨h1, by simpa using h2⟩

theorem Store.get_some {k : StoreKind} {s : Store V} {key : Nat} {now : Int} {v : V}
    (h : s.get k key now = some v) : ∃ e ∈ s, e.key = key ∧ e.val = v ∧ alive k now e.expiry = true := by
  unfold Store.get at h
  split at h
  · rename_i e he
    split at h
    · rename_i ha
      obtain ⟨hm, hk⟩ := Store.find_some he
      exact ⟨e, hm, hk, by simpa using h, ha⟩
    · cases h
  · cases h

theorem Store.mem_set {s : Store V} {key : Nat} {v : V} {ttl now : Int} {e : Entry V}
    (h : e ∈ s.set key v ttl now) : e ∈ s ∨ (0 < ttl ∧ e = ⟨key, v, now + ttl⟩) := by
  unfold Store.set at h
  split at h
  · rename_i hpos
    rcases List.mem_cons.mp h with h | h
    · exact Or.inr ⟨hpos, h⟩
    · exact Or.inl (List.mem_filter.mp h).1
  · exact Or.inl h

theorem Store.find_set_same (s : Store V) (key : Nat) (v : V) (ttl now : Int) (hpos : 0 < ttl) :
    (s.set key v ttl now).find key = some ⟨key, v, now + ttl⟩ := by
  simp [Store.set, Store.find, hpos]

theorem find?_filter_other (s : Store V) (key key' : Nat) (hne : key' ≠ key) :
    List.find? (fun e => e.key == key') (List.filter (fun e => e.key != key) s)
      = List.find? (fun e => e.key == key') s := by
  rw [List.find?_filter]
  congr 1
  funext e
  by_cases h : e.key = key'
  · simp [h, hne]
  · simp [h]

theorem Store.find_set_other (s : Store V) (key key' : Nat) (v : V) (ttl now : Int) (hne : key' ≠ key) :
    (s.set key v ttl now).find key' = s.find key' := by
  unfold Store.set Store.find
  split
  · have hk : (key == key') = false := by simpa using (Ne.symm hne)
    simp only [List.find?_cons, hk]
    exact find?_filter_other s key key' hne
  · rfl

/-- a policy stores only what may be reused for the whole time the entry lives -/
structure Sound (p : Policy U) (ok : Item U → Int → Bool) : Prop where
  down : ∀ it t t', t' ≤ t → ok it t = true → ok it t' = true
  stored : ∀ now u idx, p.accept now u = true → 0 < p.ttl now u → ok ⟨u, now, idx⟩ (now + p.ttl now u) = true

/-- every entry may be reused until it expires -/
def Inv (ok : Item U → Int → Bool) (s : Store (Item U)) : Prop := ∀ e ∈ s, ok e.val e.expiry = true

theorem inv_nil (ok : Item U → Int → Bool) : Inv ok ([] : Store (Item U)) := by
  intro e he; cases he

theorem step_inv {p : Policy U} {ok : Item U → Int → Bool} (hs : Sound p ok) (k : StoreKind)
    {s : Store (Item U)} (hinv : Inv ok s) (now : Int) (idx : Nat) (r : Req U) :
    Inv ok (step p k s now idx r).1 := by
  unfold step
  split
  · exact hinv
  · split
    · rename_i hacc
      split
      · rename_i hpos
        intro e he
        rcases Store.mem_set he with h | ⟨_, h⟩
        · exact hinv e h
        · subst h
          exact hs.stored now r.up idx hacc hpos
      · exact hinv
    · exact hinv

theorem step_hit {p : Policy U} {ok : Item U → Int → Bool} (hs : Sound p ok) (k : StoreKind)
    {s : Store (Item U)} (hinv : Inv ok s) (now : Int) (idx : Nat) (r : Req U) (it : Item U)
    (h : (step p k s now idx r).2 = .hit it) : ok it now = true := by
  unfold step at h
  split at h
  · rename_i it' hget
    have hit : it' = it := by simpa using h
    subst hit
    have hget' : s.get k r.key now = some it' := by
      split at hget
      · exact hget
      · cases hget
    obtain ⟨e, hm, _, hv, ha⟩ := Store.get_some hget'
    have := hinv e hm
    rw [hv] at this
    exact hs.down _ _ _ (alive_le ha) this
  · split at h
    · split at h <;> cases h
    · cases h

/-- every hit of a history that starts from a store satisfying the invariant is a permitted reuse, also when the
requests are handled by different policies, as long as each of them is sound for the same reuse predicate -/
theorem runMixed_hits {ok : Item U → Int → Bool} (k : StoreKind) (reqs : List (Policy U × Req U)) :
    (∀ pr ∈ reqs, Sound pr.1 ok) → ∀ (s : Store (Item U)) (now : Int) (idx : Nat), Inv ok s →
      ∀ t it, (t, Outcome.hit it) ∈ runMixed k s now idx reqs → ok it t = true := by
  induction reqs with
  | nil => intro _ s now idx _ t it h; cases h
  | cons pr rs ih =>
    obtain ⟨p, r⟩ := pr
    intro hs s now idx hinv t it h
    have hp : Sound p ok := hs (p, r) (List.mem_cons_self)
    simp only [runMixed] at h
    rcases List.mem_cons.mp h with h | h
    · have ht : t = now + r.dt := by
        have := congrArg Prod.fst h; simpa using this
      have ho : (step p k s (now + r.dt) idx r).2 = .hit it := by
        have := congrArg Prod.snd h; simpa using this.symm
      rw [ht]
      exact step_hit hp k hinv _ idx r it ho
    · exact ih (fun pr' h' => hs pr' (List.mem_cons_of_mem _ h')) _ _ _ (step_inv hp k hinv _ idx r) t it h

theorem run_hits {p : Policy U} {ok : Item U → Int → Bool} (hs : Sound p ok) (k : StoreKind)
    (reqs : List (Req U)) (s : Store (Item U)) (now : Int) (idx : Nat) (hinv : Inv ok s) :
      ∀ t it, (t, Outcome.hit it) ∈ run p k s now idx reqs → ok it t = true := by
  apply runMixed_hits k _ _ s now idx hinv
  intro pr hpr
  obtain ⟨r, _, rfl⟩ := List.mem_map.mp hpr
  exact hs

/-- a policy that never looks up and never computes a positive TTL never touches the store and never hits -/
theorem step_disabled {p : Policy U} (hl : ∀ u, p.lookup u = false) (ht : ∀ now u, p.ttl now u ≤ 0) (k : StoreKind)
    (s : Store (Item U)) (now : Int) (idx : Nat) (r : Req U) :
    (step p k s now idx r).1 = s ∧
      ((step p k s now idx r).2 = .denied ∨ ∃ it, (step p k s now idx r).2 = .fresh it none) := by
  have hnot : ¬ (0 < p.ttl now r.up) := by have := ht now r.up; omega
  unfold step
  simp only [hl r.up]
  split
  · rename_i h; cases h
  · split
    · exact ⟨rfl, Or.inr ⟨_, rfl⟩⟩
    · exact ⟨rfl, Or.inl rfl⟩

/-- a TTL that is not positive is never written -/
theorem step_no_store (p : Policy U) (k : StoreKind) (s : Store (Item U)) (now : Int) (idx : Nat) (r : Req U)
    (h : p.ttl now r.up ≤ 0) :
    (step p k s now idx r).1 = s ∧ ∀ it ttl, (step p k s now idx r).2 ≠ .fresh it (some ttl) := by
  have hnot : ¬ (0 < p.ttl now r.up) := by omega
  unfold step
  split
  · exact ⟨rfl, by intro it ttl h; cases h⟩
  · split
    · exact ⟨rfl, by intro it ttl h; cases h⟩
    · exact ⟨rfl, by intro it ttl h; cases h⟩

/-- histories under a policy that never looks up and never computes a positive TTL -/
theorem run_disabled {p : Policy U} (hl : ∀ u, p.lookup u = false) (ht : ∀ now u, p.ttl now u ≤ 0) (k : StoreKind)
    (reqs : List (Req U)) : ∀ (s : Store (Item U)) (now : Int) (idx : Nat),
      runStore p k s now idx reqs = s ∧
      ∀ t o, (t, o) ∈ run p k s now idx reqs → o = .denied ∨ ∃ it, o = .fresh it none := by
  induction reqs with
  | nil => intro s now idx; exact ⟨rfl, by intro t o h; cases h⟩
  | cons r rs ih =>
    intro s now idx
    obtain ⟨h1, h2⟩ := step_disabled hl ht k s (now + r.dt) idx r
    simp only [runStore, run, List.map_cons, runMixedStore, runMixed]
    rw [h1]
    refine ⟨(ih s _ _).1, ?_⟩
    intro t o h
    rcases List.mem_cons.mp h with h | h
    · have : o = (step p k s (now + r.dt) idx r).2 := by
        have := congrArg Prod.snd h; simpa using this
      rw [this]; exact h2
    · exact (ih s _ _).2 t o h

/-! ## obligations on the constants regenerated from the source (`Gen/CacheConsts.lean`)

Checked by the kernel on every run against what the code says now: no leeway is negative, the leeway of the two
token caches is positive (a token is never handed out at the very instant it expires), the default validity leeways
are positive. A change of a constant that keeps these facts changes nothing below. -/

theorem leeway_nonneg (m : Mech) : 0 ≤ m.leeway := by cases m <;> decide

theorem token_leeway_pos : 0 < Mech.clientCreds.leeway ∧ 0 < Mech.jwtFinalizer.leeway := by decide

theorem default_validity_leeway_pos : 0 < Gen.tokenValidityLeeway ∧ 0 < Gen.sessionValidityLeeway := by decide

/-! ## the TTL rules are sound for the reuse predicates of the specification -/

theorem derivedTTL_le (leeway configured r : Int) (h : 0 < derivedTTL leeway configured (some r)) :
    derivedTTL leeway configured (some r) ≤ r - leeway := by
  unfold derivedTTL at *
  simp only at *
  split
  · rename_i h0; rw [if_pos h0] at h; omega
  · rename_i h0
    rw [if_neg h0] at h
    split
    · omega
    · exact Int.min_le_right _ _

/-- with a known remaining lifetime `r`, the TTL never exceeds what is left after the leeway -/
theorem cacheTTL_le_remaining (m : Mech) (cfg : Option Int) (now : Int) (exp : Answer) (r : Int)
    (hr : remaining m cfg now exp = some r) :
    cacheTTL m cfg (some r) ≤ max 0 (r - m.leeway) := by
  by_cases hpos : 0 < cacheTTL m cfg (some r)
  · cases m <;> simp only [cacheTTL, remaining] at hpos hr ⊢
    case introspection =>
      split at hpos
      · rename_i he; rw [if_pos he]; have := derivedTTL_le _ _ r hpos; omega
      · omega
    case clientCreds =>
      split at hpos
      · rename_i he; rw [if_pos he]; have := derivedTTL_le _ _ r hpos; omega
      · omega
    case jwtKey =>
      split at hpos
      · rename_i he; rw [if_pos he]; have := derivedTTL_le _ _ r hpos; omega
      · omega
    case generic =>
      split at hpos
      · omega
      · rename_i hc
        rw [if_neg hc]
        have := Int.min_le_right (cfg.getD 0) (max 0 (r - Mech.generic.leeway))
        omega
    case jwtFinalizer =>
      cases hr
      split <;> omega
    case remoteAuthz => cases hr
    case contextualizer => cases hr
  · omega

theorem cacheTTL_le_configured (m : Mech) (hm : m ≠ .jwtFinalizer) (c : Int) (rem : Option Int) :
    cacheTTL m (some c) rem ≤ max 0 c := by
  cases m <;> simp only [cacheTTL, ptrEnabled, Option.getD_some, derivedTTL, decide_eq_true_eq]
  case jwtFinalizer => exact absurd rfl hm
  all_goals
    repeat' split
    all_goals first
      | omega
      | (have := Int.min_le_left c (max 0 (‹Int› - Mech.generic.leeway)); omega)
      | (have := Int.min_le_left c (‹Int› - Mech.introspection.leeway); omega)
      | (have := Int.min_le_left c (‹Int› - Mech.jwtKey.leeway); omega)
      | (have := Int.min_le_left c (‹Int› - Mech.clientCreds.leeway); omega)

theorem validityLeeway_pos (m : Mech) (vl : Int) (h0 : 0 ≤ vl) : 0 < validityLeeway m vl := by
  have := default_validity_leeway_pos
  unfold validityLeeway
  split
  · cases m <;> simp only <;> omega
  · omega

theorem mayReuse_down (m : Mech) (cfg : Option Int) (vl : Int) (it : Item Answer) (t t' : Int)
    (hle : t' ≤ t) (h : mayReuse m cfg vl it t = true) : mayReuse m cfg vl it t' = true := by
  cases m <;> simp only [mayReuse] at h ⊢
  case jwtFinalizer => simp only [decide_eq_true_eq] at h ⊢; omega
  all_goals
    cases he : it.ans.exp with
    | none => rfl
    | some e =>
      simp only [he, decide_eq_true_eq] at h ⊢
      omega

theorem mech_sound (m : Mech) (cfg : Option Int) (vl : Int) (h0 : 0 ≤ vl) :
    Sound (mechPolicy m cfg vl) (mayReuse m cfg vl) where
  down := mayReuse_down m cfg vl
  stored := by
    intro now ans idx _ hpos
    obtain ⟨exp, more⟩ := ans
    show mayReuse m cfg vl ⟨⟨exp, more⟩, now, idx⟩
      (now + cacheTTL m cfg (remaining m cfg now ⟨exp, more⟩)) = true
    replace hpos : 0 < cacheTTL m cfg (remaining m cfg now ⟨exp, more⟩) := hpos
    have hvl := validityLeeway_pos m vl h0
    have hlee := leeway_nonneg m
    have htok := token_leeway_pos
    cases hr : remaining m cfg now ⟨exp, more⟩ with
    | none =>
      cases m <;> simp only [remaining] at hr <;> simp only [mayReuse]
      all_goals
        cases exp with
        | none => first | rfl | simp at hr
        | some e => simp at hr
    | some r =>
      have hle := cacheTTL_le_remaining m cfg now ⟨exp, more⟩ r hr
      rw [hr] at hpos
      cases m <;> simp only [remaining] at hr <;> simp only [mayReuse]
      case jwtFinalizer =>
        cases hr
        simp only [decide_eq_true_eq]
        omega
      all_goals
        cases exp with
        | none => first | rfl | simp at hr
        | some e =>
          simp only [Option.map_some, Option.some.injEq] at hr
          simp only [decide_eq_true_eq]
          omega

/-- a configured TTL that is not positive switches the lookup off … -/
theorem mech_lookup_off (m : Mech) (hm : m ≠ .jwtFinalizer) (proto : Option Int) (c : Int) (hc : c ≤ 0) (vl : Int) :
    ∀ u, (mechPolicy m (effective proto (some c)) vl).lookup u = false := by
  intro _
  show lookupEnabled m (effective proto (some c)) = false
  cases m
  case jwtFinalizer => exact absurd rfl hm
  all_goals
    have hnot : ¬ (0 < c) := by omega
    simp [lookupEnabled, effective, ptrEnabled, hnot]

/-- … and no positive TTL is ever computed -/
theorem mech_ttl_off (m : Mech) (hm : m ≠ .jwtFinalizer) (proto : Option Int) (c : Int) (hc : c ≤ 0) (vl : Int) :
    ∀ now u, (mechPolicy m (effective proto (some c)) vl).ttl now u ≤ 0 := by
  intro now u
  have := cacheTTL_le_configured m hm c (remaining m (effective proto (some c)) now u)
  show cacheTTL m (effective proto (some c)) _ ≤ 0
  simp only [effective] at this ⊢
  omega

/-- reuse no later than the known expiry minus the mechanism's cache leeway -/
def withinMargin (m : Mech) (it : Item Answer) (t : Int) : Bool :=
  match it.ans.exp with
  | some e => decide (t + m.leeway ≤ e)
  | none => true

theorem margin_sound (m : Mech) (hm : m ≠ .jwtFinalizer) (hm' : m ≠ .remoteAuthz ∧ m ≠ .contextualizer)
    (cfg : Option Int) (vl : Int) : Sound (mechPolicy m cfg vl) (withinMargin m) where
  down := by
    intro it t t' hle h
    simp only [withinMargin] at h ⊢
    cases ha : it.ans.exp with
    | none => rfl
    | some e => simp only [ha, decide_eq_true_eq] at h ⊢; omega
  stored := by
    intro now ans idx _ hpos
    obtain ⟨exp, more⟩ := ans
    replace hpos : 0 < cacheTTL m cfg (remaining m cfg now ⟨exp, more⟩) := hpos
    show withinMargin m ⟨⟨exp, more⟩, now, idx⟩ (now + cacheTTL m cfg (remaining m cfg now ⟨exp, more⟩)) = true
    simp only [withinMargin]
    cases exp with
    | none => rfl
    | some e' =>
      have hr : remaining m cfg now ⟨some e', more⟩ = some (e' - now) := by
        cases m
        case jwtFinalizer => exact absurd rfl hm
        case remoteAuthz => exact absurd rfl hm'.1
        case contextualizer => exact absurd rfl hm'.2
        all_goals simp [remaining]
      rw [hr] at hpos ⊢
      have := cacheTTL_le_remaining m cfg now ⟨some e', more⟩ (e' - now) hr
      simp only [decide_eq_true_eq]
      omega

/-- keeping the cache leeway implies that the reuse is permitted, for every instance of the mechanism -/
theorem mayReuse_of_withinMargin (m : Mech) (hm : m ≠ .jwtFinalizer) (cfg : Option Int) (vl : Int) (h0 : 0 ≤ vl)
    (it : Item Answer) (t : Int) (h : withinMargin m it t = true) : mayReuse m cfg vl it t = true := by
  have hvl := validityLeeway_pos m vl h0
  have hlee := leeway_nonneg m
  have htok := token_leeway_pos
  cases m <;> simp only [mayReuse, withinMargin] at h ⊢
  case jwtFinalizer => exact absurd rfl hm
  all_goals
    cases ha : it.ans.exp with
    | none => rfl
    | some e =>
      simp only [ha, decide_eq_true_eq] at h ⊢
      omega

theorem initialAge_eq (x : Exchange) (now : Int) : x.initialAge now = initialAge now x := rfl

theorem initialAge_nonneg (now : Int) (x : Exchange) : 0 ≤ initialAge now x := by
  unfold initialAge; omega

/-- a response with an explicit freshness lifetime `l` never gets a TTL above what is left of it after the age it
arrived with, whatever `default_ttl` says -/
theorem httpTTL_le_lifetime (dttl now : Int) (x : Exchange) (l : Int)
    (hl : freshnessLifetime now x = some l) : httpTTL dttl now x ≤ max 0 (l - initialAge now x) := by
  have hage := initialAge_nonneg now x
  unfold httpTTL
  rw [initialAge_eq]
  by_cases hs : x.storable = true
  · simp only [hs, Bool.not_true, Bool.false_eq_true, if_false]
    unfold freshnessLifetime at hl
    unfold Exchange.expiresIn
    cases hm : x.maxAge with
    | some a => simp only [hm] at hl ⊢; cases hl; omega
    | none =>
      simp only [hm] at hl ⊢
      cases he : x.expires with
      | absent => simp only [he] at hl; cases hl
      | invalid => simp only [he] at hl ⊢; cases hl; simp; omega
      | valid e => simp only [he] at hl ⊢; cases hl; omega
  · simp only [hs, Bool.not_false, if_true]; omega

/-- a response without explicit expiration time gets the configured `default_ttl` at most — whatever else it
carries (`Last-Modified` in particular) -/
theorem httpTTL_le_default (dttl now : Int) (x : Exchange) (hl : freshnessLifetime now x = none) :
    httpTTL dttl now x ≤ max 0 dttl := by
  have hage := initialAge_nonneg now x
  unfold httpTTL
  rw [initialAge_eq]
  by_cases hs : x.storable = true
  · simp only [hs, Bool.not_true, Bool.false_eq_true, if_false]
    unfold freshnessLifetime at hl
    unfold Exchange.expiresIn
    cases hm : x.maxAge with
    | some a => simp only [hm] at hl; cases hl
    | none =>
      simp only [hm] at hl ⊢
      cases he : x.expires with
      | absent => simp only [reduceCtorEq, if_false]; split <;> omega
      | invalid => simp only [he] at hl; cases hl
      | valid e => simp only [he] at hl; cases hl
  · simp only [hs, Bool.not_false, if_true]; omega

theorem mayServe_down (dttl : Int) (it : Item Exchange) (t t' : Int) (hle : t' ≤ t)
    (h : mayServe dttl it t = true) : mayServe dttl it t' = true := by
  unfold mayServe at h ⊢
  cases hl : freshnessLifetime it.time it.ans with
  | none =>
    simp only [hl, decide_eq_true_eq] at h ⊢
    omega
  | some l =>
    simp only [hl, decide_eq_true_eq] at h ⊢
    omega

theorem http_sound (dttl : Int) : Sound (httpPolicy dttl) (mayServe dttl) where
  down := mayServe_down dttl
  stored := by
    intro now x idx _ hpos
    show mayServe dttl ⟨x, now, idx⟩ (now + httpTTL dttl now x) = true
    replace hpos : 0 < httpTTL dttl now x := hpos
    unfold mayServe
    cases hl : freshnessLifetime now x with
    | none =>
      have := httpTTL_le_default dttl now x hl
      simp only [decide_eq_true_eq]
      omega
    | some l =>
      have := httpTTL_le_lifetime dttl now x l hl
      simp only [decide_eq_true_eq]
      omega

/-- a `no-cache` response is never given a TTL -/
theorem httpTTL_noCache (dttl now : Int) (x : Exchange) (h : x.noCache = true) : httpTTL dttl now x = 0 := by
  unfold httpTTL Exchange.storable
  simp [h]

/-- nothing is computed for a response that must not be stored -/
theorem httpTTL_nonpos (dttl now : Int) (x : Exchange) (h : mayStore dttl now x = false) :
    httpTTL dttl now x ≤ 0 := by
  have hage := initialAge_nonneg now x
  unfold mayStore at h
  by_cases hn : x.noCache = true
  · rw [httpTTL_noCache dttl now x hn]; omega
  · simp only [hn, Bool.not_false, Bool.true_and] at h
    cases hl : freshnessLifetime now x with
    | none =>
      simp only [hl, decide_eq_false_iff_not] at h
      have := httpTTL_le_default dttl now x hl
      omega
    | some l =>
      simp only [hl, decide_eq_false_iff_not] at h
      have := httpTTL_le_lifetime dttl now x l hl
      omega

/-! ## the configured TTL as a bound on hits (one instance) -/

/-- reuse no later than the configured TTL after the result was obtained -/
def withinConfigured (c : Int) (it : Item Answer) (t : Int) : Bool := decide (t ≤ it.time + max 0 c)

theorem configured_sound (m : Mech) (hm : m ≠ .jwtFinalizer) (c : Int) (vl : Int) :
    Sound (mechPolicy m (some c) vl) (withinConfigured c) where
  down := by
    intro it t t' hle h
    simp only [withinConfigured, decide_eq_true_eq] at h ⊢
    omega
  stored := by
    intro now ans idx _ _
    show withinConfigured c ⟨ans, now, idx⟩ (now + cacheTTL m (some c) (remaining m (some c) now ans)) = true
    have := cacheTTL_le_configured m hm c (remaining m (some c) now ans)
    simp only [withinConfigured, decide_eq_true_eq]
    omega

/-- whatever may be reused would also pass the validity check of a fresh answer at that moment (the check the
introspection authenticator repeats on a cache hit) -/
theorem acceptsFresh_of_mayReuse (m : Mech) (hm : m = .introspection ∨ m = .generic) (cfg : Option Int) (vl : Int)
    (it : Item Answer) (t : Int) (h : mayReuse m cfg vl it t = true) :
    acceptsFresh m vl (remaining m cfg t it.ans) = true := by
  rcases hm with hm | hm <;> subst hm <;> simp only [mayReuse, remaining] at h ⊢
  all_goals
    cases he : it.ans.exp with
    | none => simp [acceptsFresh]
    | some e =>
      simp only [he, decide_eq_true_eq] at h
      simp only [Option.map_some, acceptsFresh, decide_eq_true_eq]
      omega

/-! ## endpoint settings -/

theorem noCachePolicy_off : (∀ u, noCachePolicy.lookup u = false) ∧ ∀ now u, noCachePolicy.ttl now u ≤ 0 :=
  ⟨fun _ => rfl, fun _ _ => by show (0 : Int) ≤ 0; omega⟩

end Heimdall.Validity
