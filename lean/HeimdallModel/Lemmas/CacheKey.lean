import HeimdallModel.Model.CacheKey
/-!
# Lemmas about cache-key encodings

Unique decoding of length-prefixed streams (`SelfDelim` and its combinators), the byte order used for sorting map
entries, `sortKV` is invariant under permutations of maps with distinct keys, and the two main facts used by
`Props/C11.lean`: `encode_inj` (a delimited field list determines every written value) and `encode_reorder`
(an ordered field list does not depend on map iteration order).
-/
namespace Heimdall.CacheKey

theorem le64_length (n : Nat) : (le64 n).length = 8 := rfl

theorem ofNat_inj {a b : Nat} (ha : a < 256) (hb : b < 256) (h : UInt8.ofNat a = UInt8.ofNat b) : a = b := by
  have := congrArg UInt8.toNat h
  simp [UInt8.toNat_ofNat'] at this
  omega

theorem le64_inj {a b : Nat} (ha : a < limit) (hb : b < limit) (h : le64 a = le64 b) : a = b := by
  unfold le64 at h
  simp only [List.cons.injEq, and_true] at h
  obtain ⟨h0, h1, h2, h3, h4, h5, h6, h7⟩ := h
  have e0 := ofNat_inj (Nat.mod_lt _ (by decide)) (Nat.mod_lt _ (by decide)) h0
  have e1 := ofNat_inj (Nat.mod_lt _ (by decide)) (Nat.mod_lt _ (by decide)) h1
  have e2 := ofNat_inj (Nat.mod_lt _ (by decide)) (Nat.mod_lt _ (by decide)) h2
  have e3 := ofNat_inj (Nat.mod_lt _ (by decide)) (Nat.mod_lt _ (by decide)) h3
  have e4 := ofNat_inj (Nat.mod_lt _ (by decide)) (Nat.mod_lt _ (by decide)) h4
  have e5 := ofNat_inj (Nat.mod_lt _ (by decide)) (Nat.mod_lt _ (by decide)) h5
  have e6 := ofNat_inj (Nat.mod_lt _ (by decide)) (Nat.mod_lt _ (by decide)) h6
  have e7 := ofNat_inj (Nat.mod_lt _ (by decide)) (Nat.mod_lt _ (by decide)) h7
  unfold limit at ha hb
  omega

/-- `enc` can be split off the front of any stream, for values satisfying `P` -/
def SelfDelim {α : Type} (P : α → Prop) (enc : α → Bytes) : Prop :=
  ∀ a b r s, P a → P b → enc a ++ r = enc b ++ s → a = b ∧ r = s

theorem sd_le64 : SelfDelim (· < limit) le64 := by
  intro a b r s ha hb h
  have := List.append_inj h (by simp [le64_length])
  exact ⟨le64_inj ha hb this.1, this.2⟩

theorem sd_fixed (n : Nat) : SelfDelim (fun b : Bytes => b.length = n) id := by
  intro a b r s ha hb h
  exact List.append_inj h (by simp [ha, hb])

theorem sd_lpB : SelfDelim (fun b : Bytes => b.length < limit) lpB := by
  intro a b r s ha hb h
  unfold lpB at h
  rw [List.append_assoc, List.append_assoc] at h
  obtain ⟨hl, h2⟩ := sd_le64 _ _ _ _ ha hb h
  exact List.append_inj h2 hl

theorem sd_pair {α β : Type} {P : α → Prop} {Q : β → Prop} {e1 : α → Bytes} {e2 : β → Bytes}
    (h1 : SelfDelim P e1) (h2 : SelfDelim Q e2) :
    SelfDelim (fun p : α × β => P p.1 ∧ Q p.2) (fun p => e1 p.1 ++ e2 p.2) := by
  intro a b r s ha hb h
  simp only [List.append_assoc] at h
  obtain ⟨e, h'⟩ := h1 _ _ _ _ ha.1 hb.1 h
  obtain ⟨e', h''⟩ := h2 _ _ _ _ ha.2 hb.2 h'
  exact ⟨Prod.ext e e', h''⟩

theorem sd_seq {α : Type} {P : α → Prop} {enc : α → Bytes} (h : SelfDelim P enc) :
    ∀ (l l' : List α) r s, l.length = l'.length → (∀ x ∈ l, P x) → (∀ x ∈ l', P x) →
      flat (l.map enc) ++ r = flat (l'.map enc) ++ s → l = l' ∧ r = s := by
  intro l
  induction l with
  | nil =>
    intro l' r s hl _ _ he
    cases l' with
    | nil => exact ⟨rfl, by simpa [flat] using he⟩
    | cons _ _ => simp at hl
  | cons x xs ih =>
    intro l' r s hl hp hp' he
    cases l' with
    | nil => simp at hl
    | cons y ys =>
      simp only [flat, List.map_cons, List.flatten_cons, List.append_assoc] at he
      obtain ⟨exy, he'⟩ := h _ _ _ _ (hp x (by simp)) (hp' y (by simp)) he
      obtain ⟨e2, e3⟩ := ih ys r s (by simpa using hl) (fun z hz => hp z (by simp [hz]))
        (fun z hz => hp' z (by simp [hz])) (by simpa [flat] using he')
      exact ⟨by rw [exy, e2], e3⟩

theorem sd_counted {α : Type} {P : α → Prop} {enc : α → Bytes} (h : SelfDelim P enc) :
    SelfDelim (fun l : List α => l.length < limit ∧ ∀ x ∈ l, P x)
      (fun l => le64 l.length ++ flat (l.map enc)) := by
  intro a b r s ha hb he
  simp only [List.append_assoc] at he
  obtain ⟨hl, he'⟩ := sd_le64 _ _ _ _ ha.1 hb.1 he
  exact sd_seq h a b r s hl ha.2 hb.2 he'

theorem bytesLe_total : ∀ a b : Bytes, bytesLe a b || bytesLe b a
  | [], _ => by simp [bytesLe]
  | _ :: _, [] => by simp [bytesLe]
  | a :: as, b :: bs => by
    have ih := bytesLe_total as bs
    simp only [bytesLe, Bool.or_eq_true, decide_eq_true_eq, Bool.and_eq_true, beq_iff_eq] at *
    by_cases h1 : a.toNat < b.toNat
    · exact Or.inl (Or.inl h1)
    · by_cases h2 : b.toNat < a.toNat
      · exact Or.inr (Or.inl h2)
      · have : a = b := UInt8.toNat_inj.mp (by omega)
        subst this
        rcases ih with h | h
        · exact Or.inl (Or.inr ⟨rfl, h⟩)
        · exact Or.inr (Or.inr ⟨rfl, h⟩)

theorem bytesLe_trans : ∀ a b c : Bytes, bytesLe a b → bytesLe b c → bytesLe a c
  | [], _, _ => by simp [bytesLe]
  | _ :: _, [], _ => by simp [bytesLe]
  | _ :: _, _ :: _, [] => by simp [bytesLe]
  | a :: as, b :: bs, c :: cs => by
    have ih := bytesLe_trans as bs cs
    simp only [bytesLe, Bool.or_eq_true, decide_eq_true_eq, Bool.and_eq_true, beq_iff_eq] at *
    intro h1 h2
    rcases h1 with h1 | ⟨rfl, h1⟩
    · rcases h2 with h2 | ⟨rfl, h2⟩
      · exact Or.inl (by omega)
      · exact Or.inl h1
    · rcases h2 with h2 | ⟨rfl, h2⟩
      · exact Or.inl h2
      · exact Or.inr ⟨rfl, ih h1 h2⟩

theorem bytesLe_antisymm : ∀ a b : Bytes, bytesLe a b → bytesLe b a → a = b
  | [], [] => by simp
  | [], _ :: _ => by simp [bytesLe]
  | _ :: _, [] => by simp [bytesLe]
  | a :: as, b :: bs => by
    have ih := bytesLe_antisymm as bs
    simp only [bytesLe, Bool.or_eq_true, decide_eq_true_eq, Bool.and_eq_true, beq_iff_eq] at *
    intro h1 h2
    rcases h1 with h1 | ⟨rfl, h1⟩
    · rcases h2 with h2 | ⟨rfl, h2⟩
      · omega
      · omega
    · rcases h2 with h2 | ⟨_, h2⟩
      · omega
      · rw [ih h1 h2]


theorem insertKV_perm (x : Bytes × Bytes) : ∀ l, (insertKV x l).Perm (x :: l)
  | [] => List.Perm.refl _
  | y :: ys => by
    unfold insertKV
    split
    · exact List.Perm.refl _
    · exact ((insertKV_perm x ys).cons y).trans (List.Perm.swap x y ys)

theorem sortKV_perm : ∀ m : List (Bytes × Bytes), (sortKV m).Perm m
  | [] => List.Perm.refl _
  | x :: xs => (insertKV_perm x (sortKV xs)).trans ((sortKV_perm xs).cons x)

theorem sortKV_length (m : List (Bytes × Bytes)) : (sortKV m).length = m.length := (sortKV_perm m).length_eq

theorem insertKV_sorted (x : Bytes × Bytes) : ∀ l : List (Bytes × Bytes),
    l.Pairwise (fun a b => bytesLe a.1 b.1) → (insertKV x l).Pairwise fun a b => bytesLe a.1 b.1
  | [], _ => by simp [insertKV]
  | y :: ys, h => by
    unfold insertKV
    have hy := List.pairwise_cons.mp h
    split
    · rename_i hle
      refine List.pairwise_cons.mpr ⟨?_, h⟩
      intro z hz
      rcases List.mem_cons.mp hz with rfl | hz
      · exact hle
      · exact bytesLe_trans _ _ _ hle (hy.1 z hz)
    · rename_i hle
      have hyx : bytesLe y.1 x.1 = true := by
        have := bytesLe_total x.1 y.1
        simp only [Bool.or_eq_true] at this
        rcases this with h1 | h1
        · exact absurd h1 hle
        · exact h1
      refine List.pairwise_cons.mpr ⟨?_, insertKV_sorted x ys hy.2⟩
      intro z hz
      rcases List.mem_cons.mp ((insertKV_perm x ys).subset hz) with rfl | hz
      · exact hyx
      · exact hy.1 z hz

theorem sortKV_sorted : ∀ m : List (Bytes × Bytes), (sortKV m).Pairwise fun a b => bytesLe a.1 b.1
  | [] => List.Pairwise.nil
  | x :: xs => insertKV_sorted x _ (sortKV_sorted xs)

theorem eq_of_key_eq {m : List (Bytes × Bytes)} (hn : (m.map Prod.fst).Nodup) :
    ∀ a b, a ∈ m → b ∈ m → a.1 = b.1 → a = b := by
  induction m with
  | nil => intro a b ha; simp at ha
  | cons x xs ih =>
    intro a b ha hb hk
    simp only [List.map_cons, List.nodup_cons, List.mem_map, not_exists, not_and] at hn
    simp only [List.mem_cons] at ha hb
    rcases ha with rfl | ha <;> rcases hb with rfl | hb
    · rfl
    · exact absurd hk.symm (hn.1 b hb)
    · exact absurd hk (hn.1 a ha)
    · exact ih hn.2 a b ha hb hk

theorem sortKV_eq_of_perm {m m' : List (Bytes × Bytes)} (hp : m.Perm m') (hn : (m.map Prod.fst).Nodup) :
    sortKV m = sortKV m' := by
  apply List.Perm.eq_of_pairwise (le := fun a b => bytesLe a.1 b.1) _ (sortKV_sorted m) (sortKV_sorted m')
  · exact (sortKV_perm m).trans (hp.trans (sortKV_perm m').symm)
  · intro a b ha hb h1 h2
    have ha' : a ∈ m := (sortKV_perm m).subset ha
    have hb' : b ∈ m := hp.symm.subset ((sortKV_perm m').subset hb)
    exact eq_of_key_eq hn a b ha' hb' (bytesLe_antisymm _ _ h1 h2)

/-! ## one field -/

theorem lpB_length (b : Bytes) : (lpB b).length = 8 + b.length := by simp [lpB, le64_length]

theorem sd_kv : SelfDelim (fun kv : Bytes × Bytes => kv.1.length < limit ∧ kv.2.length < limit)
    (fun kv => lpB kv.1 ++ lpB kv.2) := sd_pair sd_lpB sd_lpB

theorem all_of_perm {α : Type} {p : α → Bool} {l l' : List α} (h : l.Perm l') (ha : l.all p = true) :
    l'.all p = true := by
  simp only [List.all_eq_true] at *
  exact fun x hx => ha x (h.symm.subset hx)

/-- a self-delimiting field can be split off the front of the stream, and determines its value -/
theorem encField_inj (f : Field) (hf : f.selfDelim = true) (env env' : Env) (r s : Bytes)
    (hw : f.wt env = true) (hw' : f.wt env' = true)
    (h : encField env f ++ r = encField env' f ++ s) : f.dep.view env = f.dep.view env' ∧ r = s := by
  cases f with
  | raw _ => simp [Field.selfDelim] at hf
  | joined _ _ => simp [Field.selfDelim] at hf
  | mapRaw _ => simp [Field.selfDelim] at hf
  | opt _ _ => simp [Field.selfDelim] at hf
  | tag b =>
    have h' : lpB b ++ r = lpB b ++ s := h
    exact ⟨rfl, List.append_cancel_left h'⟩
  | fixed n x =>
    simp only [Field.wt, beq_iff_eq] at hw hw'
    obtain ⟨e, e'⟩ := sd_fixed n _ _ _ _ hw hw' h
    exact ⟨by simpa [Field.dep, Dep.view] using e, e'⟩
  | u64 x =>
    simp only [Field.wt, decide_eq_true_eq] at hw hw'
    obtain ⟨e, e'⟩ := sd_le64 _ _ _ _ hw hw' h
    exact ⟨by simpa [Field.dep, Dep.view] using e, e'⟩
  | lp x =>
    simp only [Field.wt, decide_eq_true_eq] at hw hw'
    obtain ⟨e, e'⟩ := sd_lpB _ _ _ _ hw hw' h
    exact ⟨by simpa [Field.dep, Dep.view] using e, e'⟩
  | lpList x =>
    simp only [Field.wt, Bool.and_eq_true, decide_eq_true_eq, List.all_eq_true] at hw hw'
    obtain ⟨e, e'⟩ := sd_counted sd_lpB _ _ _ _ hw hw' h
    exact ⟨by simpa [Field.dep, Dep.view] using e, e'⟩
  | lpMap x =>
    simp only [Field.wt, Bool.and_eq_true, decide_eq_true_eq] at hw hw'
    have a1 := all_of_perm (sortKV_perm (env.map x)).symm hw.2
    have a2 := all_of_perm (sortKV_perm (env'.map x)).symm hw'.2
    simp only [List.all_eq_true, Bool.and_eq_true, decide_eq_true_eq] at a1 a2
    simp only [encField] at h
    rw [← sortKV_length (env.map x), ← sortKV_length (env'.map x)] at h
    obtain ⟨e, e'⟩ := sd_counted sd_kv (sortKV (env.map x)) (sortKV (env'.map x)) r s
      ⟨by rw [sortKV_length]; exact hw.1, a1⟩ ⟨by rw [sortKV_length]; exact hw'.1, a2⟩ h
    exact ⟨by simpa [Field.dep, Dep.view] using e, e'⟩

/-- an admissible last field determines its value -/
theorem encField_last_inj (f : Field) (hf : f.lastOk = true) (env env' : Env)
    (hw : f.wt env = true) (hw' : f.wt env' = true)
    (h : encField env f = encField env' f) : f.dep.view env = f.dep.view env' := by
  by_cases hsd : f.selfDelim = true
  · exact (encField_inj f hsd env env' [] [] hw hw' (by simpa using h)).1
  · cases f with
    | raw x => simpa [Field.dep, Dep.view, encField] using h
    | fixed _ _ => simp [Field.selfDelim] at hsd
    | u64 _ => simp [Field.selfDelim] at hsd
    | lp _ => simp [Field.selfDelim] at hsd
    | lpList _ => simp [Field.selfDelim] at hsd
    | lpMap _ => simp [Field.selfDelim] at hsd
    | tag _ => simp [Field.selfDelim] at hsd
    | joined _ _ => simp [Field.lastOk, Field.selfDelim] at hf
    | mapRaw _ => simp [Field.lastOk, Field.selfDelim] at hf
    | opt c g =>
      have hg : g.selfDelim = true ∧ ∀ e : Env, g.wt e = true → (encField e g).length ≠ 0 := by
        cases g with
        | lp x => exact ⟨rfl, fun e _ => by simp [encField, lpB_length]⟩
        | fixed n x =>
          cases n with
          | zero => simp [Field.lastOk, Field.selfDelim] at hf
          | succ n =>
            refine ⟨rfl, fun e he => ?_⟩
            simp only [Field.wt, beq_iff_eq] at he
            simp [encField, he]
        | raw _ => simp [Field.lastOk, Field.selfDelim] at hf
        | u64 _ => simp [Field.lastOk, Field.selfDelim] at hf
        | lpList _ => simp [Field.lastOk, Field.selfDelim] at hf
        | lpMap _ => simp [Field.lastOk, Field.selfDelim] at hf
        | joined _ _ => simp [Field.lastOk, Field.selfDelim] at hf
        | mapRaw _ => simp [Field.lastOk, Field.selfDelim] at hf
        | opt _ _ => simp [Field.lastOk, Field.selfDelim] at hf
        | tag _ => simp [Field.lastOk, Field.selfDelim] at hf
      simp only [Field.wt, Bool.or_eq_true, Bool.not_eq_true'] at hw hw'
      simp only [encField] at h
      simp only [Field.dep, Dep.view]
      by_cases h1 : env.has c = true <;> by_cases h2 : env'.has c = true
      · simp only [h1, h2, if_true] at h ⊢
        exact (encField_inj g hg.1 env env' [] [] (by simpa [h1] using hw) (by simpa [h2] using hw')
          (by simpa using h)).1
      · have := hg.2 env (by simpa [h1] using hw)
        simp [h1, h2] at h
        simp [h] at this
      · have := hg.2 env' (by simpa [h2] using hw')
        simp [h1, h2] at h
        simp [← h] at this
      · simp [h1, h2]

/-! ## a field list -/

/-- **unique decoding**: a delimited field list determines every value it writes -/
theorem encode_inj : ∀ (fs : List Field), delimited fs = true → ∀ (env env' : Env),
    wt fs env = true → wt fs env' = true → encode fs env = encode fs env' →
    ∀ f ∈ fs, f.dep.view env = f.dep.view env'
  | [], _, _, _, _, _, _ => by simp
  | [f], hd, env, env', hw, hw', h => by
    intro g hg
    simp only [List.mem_singleton] at hg
    subst hg
    simp only [wt, List.all_cons, List.all_nil, Bool.and_true] at hw hw'
    exact encField_last_inj g (by simpa [delimited] using hd) env env' hw hw'
      (by simpa [encode, flat] using h)
  | f :: g :: fs, hd, env, env', hw, hw', h => by
    simp only [delimited, Bool.and_eq_true] at hd
    simp only [wt, List.all_cons, Bool.and_eq_true] at hw hw'
    have h' : encField env f ++ encode (g :: fs) env = encField env' f ++ encode (g :: fs) env' := by
      simpa [encode, flat] using h
    obtain ⟨e, rest⟩ := encField_inj f hd.1 env env' _ _ hw.1 hw'.1 h'
    have ih := encode_inj (g :: fs) hd.2 env env' (by simpa [wt] using hw.2) (by simpa [wt] using hw'.2) rest
    intro x hx
    simp only [List.mem_cons] at hx
    rcases hx with rfl | hx
    · exact e
    · exact ih x (by simpa using hx)

/-- every covered dependency is determined by the stream -/
theorem deps_of_encode_eq {fs : List Field} {deps : List Dep} (hd : delimited fs = true) (hc : covers deps fs = true)
    {env env' : Env} (hw : wt fs env = true) (hw' : wt fs env' = true) (h : encode fs env = encode fs env') :
    deps.map (·.view env) = deps.map (·.view env') := by
  apply List.map_congr_left
  intro d hdm
  simp only [covers, List.all_eq_true, List.any_eq_true, beq_iff_eq] at hc
  obtain ⟨f, hf, rfl⟩ := hc d hdm
  exact encode_inj fs hd env env' hw hw' h f hf

theorem mem_of_lookup {β : Type} : ∀ (l : List (String × β)) (k : String) (v : β), l.lookup k = some v → (k, v) ∈ l
  | [], _, _, h => by simp at h
  | (k', v') :: l, k, v, h => by
    simp only [List.lookup] at h
    split at h
    · rename_i heq
      have hk : k = k' := by simpa using heq
      simp only [Option.some.injEq] at h
      simp [hk, h]
    · exact List.mem_cons_of_mem _ (mem_of_lookup l k v h)

/-! ## independence of map iteration order -/

theorem encField_reorder (f : Field) (hf : f.ordered = true) {env env' : Env} (hr : Reorder env env')
    (hn : env.nodupKeys) : encField env f = encField env' f := by
  induction f with
  | raw s => simp [encField, hr.str]
  | fixed n s => simp [encField, hr.str]
  | u64 s => simp [encField, hr.num]
  | lp s => simp [encField, hr.str]
  | joined sep s => simp [encField, hr.lst]
  | lpList s => simp [encField, hr.lst]
  | mapRaw s => simp [Field.ordered] at hf
  | lpMap s => simp [encField, (hr.map s).length_eq, sortKV_eq_of_perm (hr.map s) (hn s)]
  | opt c g ih => simp [encField, hr.has, ih (by simpa [Field.ordered] using hf)]
  | tag b => rfl

/-- **determinism**: an ordered field list writes the same bytes whatever order the runtime iterates maps in -/
theorem encode_reorder {fs : List Field} (ho : ordered fs = true) {env env' : Env} (hr : Reorder env env')
    (hn : env.nodupKeys) : encode fs env = encode fs env' := by
  simp only [ordered, List.all_eq_true] at ho
  simp only [encode]
  congr 1
  exact List.map_congr_left fun f hf => encField_reorder f (ho f hf) hr hn

end Heimdall.CacheKey
