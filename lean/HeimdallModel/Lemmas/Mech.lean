import HeimdallModel.Model.Mech
/-!
# Invariants of the mechanism machine (helper lemmas for `Props/C17.lean`)

As long as no thread writes its receiver in place the store only grows, hence everything that has been observable
stays observable unchanged; `WithConfig` establishes `view variant = overlay (view prototype) override` slot by slot.
-/
namespace Heimdall.Mech

variable {V Ov : Type}

/-! ## lists and cells -/

theorem getElem?_ext_left {cells t : List V} {a : Nat} (h : a < cells.length) : (cells ++ t)[a]? = cells[a]? :=
  List.getElem?_append_left h

theorem lt_of_getElem?_some {α : Type} {cells : List α} {a : Nat} {v : α} (h : cells[a]? = some v) :
    a < cells.length := by
  rcases Nat.lt_or_ge a cells.length with h' | h'
  · exact h'
  · rw [List.getElem?_eq_none h'] at h; cases h

theorem viewOf_ext (cells t : List V) (slots : List (String × Addr)) (h : ∀ sa ∈ slots, sa.2 < cells.length) :
    viewOf (cells ++ t) slots = viewOf cells slots := by
  unfold viewOf
  apply List.map_congr_left
  intro sa hsa
  rw [getElem?_ext_left (h sa hsa)]

theorem viewOf_append (cells : List V) (a b : List (String × Addr)) :
    viewOf cells (a ++ b) = viewOf cells a ++ viewOf cells b := by
  simp [viewOf]

theorem overlayView_append (D : Desc V Ov) (typ : String) (ov : Ov) (a b : List (String × Option V)) :
    overlayView D typ ov (a ++ b) = overlayView D typ ov a ++ overlayView D typ ov b := by
  simp [overlayView]

theorem readAll_append (cells : List V) (inst : Inst) (a b : List Op) :
    readAll cells inst (a ++ b) = readAll cells inst a ++ readAll cells inst b := by
  induction a with
  | nil => rfl
  | cons o r ih =>
    cases o with
    | rd s => simp [readAll, ih, List.append_assoc]
    | wr s => simp [readAll, ih]

theorem addr_mem {inst : Inst} {s : String} {a : Addr} (h : inst.addr s = some a) : ∃ sa ∈ inst.slots, sa.2 = a := by
  unfold Inst.addr at h
  generalize inst.slots = l at h
  induction l with
  | nil => simp [List.lookup] at h
  | cons x r ih =>
    cases x with
    | mk k a' =>
      simp only [List.lookup] at h
      split at h
      · cases h; exact ⟨(k, a), List.mem_cons_self, rfl⟩
      · rcases ih h with ⟨sa, hm, e⟩; exact ⟨sa, List.mem_cons_of_mem _ hm, e⟩

theorem readAll_ext (cells t : List V) (inst : Inst) (ops : List Op) (h : ∀ sa ∈ inst.slots, sa.2 < cells.length) :
    readAll (cells ++ t) inst ops = readAll cells inst ops := by
  induction ops with
  | nil => rfl
  | cons o r ih =>
    cases o with
    | wr s => simpa [readAll] using ih
    | rd s =>
      simp only [readAll, ih]
      cases ha : inst.addr s with
      | none => rfl
      | some a =>
        rcases addr_mem ha with ⟨sa, hm, e⟩
        have : a < cells.length := e ▸ h sa hm
        simp only [getElem?_ext_left this]

/-! ## one slot of the copy -/

theorem buildSlot_spec (D : Desc V Ov) (typ : String) (ov : Ov) (cells : List V) (sa : String × Addr)
    (h : sa.2 < cells.length) :
    (∃ t, (buildSlot D typ ov cells sa).1 = cells ++ t) ∧
    (buildSlot D typ ov cells sa).2.1 = sa.1 ∧
    (buildSlot D typ ov cells sa).2.2 < (buildSlot D typ ov cells sa).1.length ∧
    (buildSlot D typ ov cells sa).1[(buildSlot D typ ov cells sa).2.2]? =
      (cells[sa.2]?).map (fun v => (D.replace typ sa.1 v ov).getD v) := by
  unfold buildSlot
  have hv : cells[sa.2]? = some cells[sa.2] := List.getElem?_eq_getElem h
  rw [hv]
  cases hr : D.replace typ sa.1 cells[sa.2] ov with
  | some v' =>
    refine ⟨⟨[v'], by simp [hr]⟩, by simp [hr], by simp [hr], by simp [hr]⟩
  | none =>
    by_cases hb : D.byValue typ sa.1 = true
    · refine ⟨⟨[cells[sa.2]], by simp [hr, hb]⟩, by simp [hr, hb], by simp [hr, hb], by simp [hr, hb]⟩
    · refine ⟨⟨[], by simp [hr, hb]⟩, by simp [hr, hb], by simp [hr, hb, h], by simp [hr, hb, hv]⟩

/-- a copied slot either shares the receiver's cell (inherited reference) or lives in a cell nobody knew before -/
theorem buildSlot_addr (D : Desc V Ov) (typ : String) (ov : Ov) (cells : List V) (sa : String × Addr)
    (h : sa.2 < cells.length) :
    ((buildSlot D typ ov cells sa).2.2 = sa.2 ∧ (buildSlot D typ ov cells sa).1 = cells ∧
        D.replace typ sa.1 cells[sa.2] ov = none ∧ D.byValue typ sa.1 = false) ∨
    ((buildSlot D typ ov cells sa).2.2 = cells.length ∧
        (D.replace typ sa.1 cells[sa.2] ov ≠ none ∨ D.byValue typ sa.1 = true)) := by
  unfold buildSlot
  have hv : cells[sa.2]? = some cells[sa.2] := List.getElem?_eq_getElem h
  rw [hv]
  cases hr : D.replace typ sa.1 cells[sa.2] ov with
  | some v' => right; simp [hr]
  | none =>
    by_cases hb : D.byValue typ sa.1 = true
    · right; simp [hr, hb]
    · left; simp [hr, hb]

/-! ## threads -/

theorem upd_same {α : Type} (f : Nat → α) (i : Nat) (v : α) : upd f i v i = v := by simp [upd]

theorem upd_other {α : Type} (f : Nat → α) (i j : Nat) (v : α) (h : j ≠ i) : upd f i v j = f j := by simp [upd, h]

theorem upd_upd {α : Type} (f : Nat → α) (i : Nat) (v w : α) : upd (upd f i v) i w = upd f i w := by
  funext j; by_cases h : j = i <;> simp [upd, h]

theorem upd_self {α : Type} (f : Nat → α) (i : Nat) : upd f i (f i) = f := by
  funext j; by_cases h : j = i <;> simp [upd, h]

/-! ## the invariant -/

/-- a `WithConfig` in progress has so far produced the overlay of the slots it has dealt with -/
def BuildOk (D : Desc V Ov) (σ : Store V Ov) (recv : Nat) (ov : Ov) (typ : String)
    (todo acc : List (String × Addr)) : Prop :=
  ∃ (inst : Inst) (pre : List (String × Addr)), σ.insts[recv]? = some inst ∧ inst.typ = typ ∧
    inst.slots = pre ++ todo ∧ (∀ sa ∈ acc, sa.2 < σ.cells.length) ∧
    viewOf σ.cells acc = overlayView D typ ov (viewOf σ.cells pre)

def BuildInv (D : Desc V Ov) (c : Config V Ov) : Prop :=
  ∀ i ov typ todo acc, (c.threads i).phase = .build ov typ todo acc →
    BuildOk D c.store (c.threads i).recv ov typ todo acc

/-- every variant shows its prototype's view overlaid with its override -/
def OriginInv (D : Desc V Ov) (σ : Store V Ov) : Prop :=
  ∀ (k p : Nat) (ov : Ov), σ.origin[k]? = some (some (p, ov)) →
    ∃ (pi ki : Inst), σ.insts[p]? = some pi ∧ σ.insts[k]? = some ki ∧ ki.typ = pi.typ ∧
      viewOf σ.cells ki.slots = overlayView D pi.typ ov (viewOf σ.cells pi.slots)

/-- what a thread has read is what the part of its program it has run reads on the current store -/
def SeenOk (σ : Store V Ov) (t : Thread V Ov) : Prop :=
  ∃ done, t.prog = done ++ t.ops ∧
    (∀ inst, σ.insts[t.recv]? = some inst → t.seen = readAll σ.cells inst done) ∧
    (σ.insts[t.recv]? = none → done = [] ∧ t.seen = [])

def SeenInv (c : Config V Ov) : Prop := ∀ i, SeenOk c.store (c.threads i)

structure Inv (D : Desc V Ov) (c : Config V Ov) : Prop where
  closed : Closed c.store
  build  : BuildInv D c
  orig   : OriginInv D c.store
  seen   : SeenInv c

theorem initial_inv (D : Desc V Ov) (c : Config V Ov) (h : Initial c) : Inv D c := by
  refine ⟨h.closed, ?_, ?_, ?_⟩
  · intro i ov typ todo acc hp
    rcases (h.fresh i).2.2 with hr | ⟨ov', hc⟩
    · rw [hr] at hp; cases hp
    · rw [hc] at hp; cases hp
  · intro k p ov hk
    have := h.protos _ (List.mem_of_getElem? hk)
    cases this
  · intro i
    refine ⟨[], ?_, ?_, ?_⟩
    · simp [(h.fresh i).2.1]
    · intro inst _; simp [readAll, (h.fresh i).1]
    · intro _; exact ⟨rfl, (h.fresh i).1⟩

theorem step_readOnly (D : Desc V Ov) (c c' : Config V Ov) (hs : Step D c c') (hro : ReadOnly c) : ReadOnly c' := by
  intro j s
  cases hs with
  | rd i s' rest inst a v hops hi ha hv =>
    by_cases e : j = i
    · subst e; simp only [upd_same, Thread.didRead]
      intro hm; exact hro j s (by rw [hops]; exact List.mem_cons_of_mem _ hm)
    · simp only [upd_other _ _ _ _ e]; exact hro j s
  | wr i s' rest inst a v hops hi ha =>
    by_cases e : j = i
    · subst e; simp only [upd_same, Thread.didWrite]
      intro hm; exact hro j s (by rw [hops]; exact List.mem_cons_of_mem _ hm)
    · simp only [upd_other _ _ _ _ e]; exact hro j s
  | begin i ov inst hops hp hi =>
    by_cases e : j = i
    · subst e; simp only [upd_same, Thread.setPhase]; exact hro j s
    · simp only [upd_other _ _ _ _ e]; exact hro j s
  | slot i ov typ sa todo acc hp =>
    by_cases e : j = i
    · subst e; simp only [upd_same, Thread.setPhase]; exact hro j s
    · simp only [upd_other _ _ _ _ e]; exact hro j s
  | publish i ov typ acc hp =>
    by_cases e : j = i
    · subst e; simp only [upd_same, Thread.setPhase]; exact hro j s
    · simp only [upd_other _ _ _ _ e]; exact hro j s

/-- without in-place writes a step only appends cells, instances and origins -/
theorem step_grows (D : Desc V Ov) (c c' : Config V Ov) (hs : Step D c c') (hro : ReadOnly c) (hinv : Inv D c) :
    (∃ t, c'.store.cells = c.store.cells ++ t) ∧ (∃ u, c'.store.insts = c.store.insts ++ u) ∧
    (∃ w, c'.store.origin = c.store.origin ++ w) := by
  cases hs with
  | rd i s rest inst a v hops hi ha hv => exact ⟨⟨[], by simp⟩, ⟨[], by simp⟩, ⟨[], by simp⟩⟩
  | wr i s rest inst a v hops hi ha => exact absurd (by rw [hops]; exact List.mem_cons_self) (hro i s)
  | begin i ov inst hops hp hi => exact ⟨⟨[], by simp⟩, ⟨[], by simp⟩, ⟨[], by simp⟩⟩
  | slot i ov typ sa todo acc hp =>
    rcases hinv.build i ov typ (sa :: todo) acc hp with ⟨inst, pre, hi, _, hsl, _, _⟩
    have hsa : sa.2 < c.store.cells.length :=
      hinv.closed.1 inst (List.mem_of_getElem? hi) sa (by rw [hsl]; simp)
    exact ⟨(buildSlot_spec D typ ov c.store.cells sa hsa).1, ⟨[], by simp⟩, ⟨[], by simp⟩⟩
  | publish i ov typ acc hp => exact ⟨⟨[], by simp⟩, ⟨_, rfl⟩, ⟨_, rfl⟩⟩

theorem insts_ext {insts u : List Inst} {h : Nat} {inst : Inst} (hi : insts[h]? = some inst) :
    (insts ++ u)[h]? = some inst := by
  rw [List.getElem?_append_left (lt_of_getElem?_some hi)]; exact hi

theorem closed_slot {σ : Store V Ov} (hc : Closed σ) {h : Nat} {inst : Inst} (hi : σ.insts[h]? = some inst) :
    ∀ sa ∈ inst.slots, sa.2 < σ.cells.length :=
  hc.1 inst (List.mem_of_getElem? hi)

theorem buildOk_ext (D : Desc V Ov) (σ σ' : Store V Ov) (t : List V) (u : List Inst) (hc : Closed σ)
    (hcells : σ'.cells = σ.cells ++ t) (hinsts : σ'.insts = σ.insts ++ u)
    {recv : Nat} {ov : Ov} {typ : String} {todo acc : List (String × Addr)}
    (h : BuildOk D σ recv ov typ todo acc) : BuildOk D σ' recv ov typ todo acc := by
  rcases h with ⟨inst, pre, hi, htyp, hsl, hacc, hview⟩
  have hpre : ∀ sa ∈ pre, sa.2 < σ.cells.length := fun sa hm =>
    closed_slot hc hi sa (by rw [hsl]; exact List.mem_append_left _ hm)
  refine ⟨inst, pre, by rw [hinsts]; exact insts_ext hi, htyp, hsl, ?_, ?_⟩
  · intro sa hm; rw [hcells, List.length_append]; exact Nat.lt_of_lt_of_le (hacc sa hm) (Nat.le_add_right _ _)
  · rw [hcells, viewOf_ext _ _ acc hacc, viewOf_ext _ _ pre hpre]; exact hview

theorem seenOk_ext (σ σ' : Store V Ov) (t : List V) (u : List Inst) (hc : Closed σ)
    (hcells : σ'.cells = σ.cells ++ t) (hinsts : σ'.insts = σ.insts ++ u) {th th' : Thread V Ov}
    (hr : th'.recv = th.recv) (hp : th'.prog = th.prog) (ho : th'.ops = th.ops) (hs : th'.seen = th.seen)
    (h : SeenOk σ th) : SeenOk σ' th' := by
  rcases h with ⟨done, hprog, hsome, hnone⟩
  refine ⟨done, by rw [hp, ho]; exact hprog, ?_, ?_⟩
  · intro inst' hi'
    rw [hr, hinsts] at hi'
    cases hi : σ.insts[th.recv]? with
    | some inst =>
      rw [insts_ext hi] at hi'; cases hi'
      rw [hs, hsome inst' hi, hcells, readAll_ext _ _ _ _ (closed_slot hc hi)]
    | none =>
      rcases hnone hi with ⟨hd, hsn⟩
      rw [hs, hsn, hd]; rfl
  · intro hn
    rw [hr, hinsts] at hn
    cases hi : σ.insts[th.recv]? with
    | some inst => rw [insts_ext hi] at hn; cases hn
    | none => rw [hs]; exact hnone hi

theorem originInv_ext (D : Desc V Ov) (σ σ' : Store V Ov) (t : List V) (u : List Inst) (hc : Closed σ)
    (hcells : σ'.cells = σ.cells ++ t) (hinsts : σ'.insts = σ.insts ++ u)
    {k p : Nat} {ov : Ov}
    (h : ∃ (pi ki : Inst), σ.insts[p]? = some pi ∧ σ.insts[k]? = some ki ∧ ki.typ = pi.typ ∧
      viewOf σ.cells ki.slots = overlayView D pi.typ ov (viewOf σ.cells pi.slots)) :
    ∃ (pi ki : Inst), σ'.insts[p]? = some pi ∧ σ'.insts[k]? = some ki ∧ ki.typ = pi.typ ∧
      viewOf σ'.cells ki.slots = overlayView D pi.typ ov (viewOf σ'.cells pi.slots) := by
  rcases h with ⟨pi, ki, hp, hk, htyp, hview⟩
  refine ⟨pi, ki, by rw [hinsts]; exact insts_ext hp, by rw [hinsts]; exact insts_ext hk, htyp, ?_⟩
  rw [hcells, viewOf_ext _ _ _ (closed_slot hc hk), viewOf_ext _ _ _ (closed_slot hc hp)]; exact hview

theorem closed_ext (σ σ' : Store V Ov) (t : List V) (hc : Closed σ)
    (hcells : σ'.cells = σ.cells ++ t) (hinsts : σ'.insts = σ.insts) (horig : σ'.origin = σ.origin) :
    Closed σ' := by
  refine ⟨?_, by rw [horig, hinsts]; exact hc.2⟩
  intro inst hm sa hsa
  rw [hinsts] at hm
  rw [hcells, List.length_append]
  exact Nat.lt_of_lt_of_le (hc.1 inst hm sa hsa) (Nat.le_add_right _ _)

/-- the invariant survives every step of a run without in-place writes -/
theorem step_inv (D : Desc V Ov) (c c' : Config V Ov) (hs : Step D c c') (hro : ReadOnly c) (hinv : Inv D c) :
    Inv D c' := by
  cases hs with
  | wr i s rest inst a v hops hi ha => exact absurd (by rw [hops]; exact List.mem_cons_self) (hro i s)
  | rd i s rest inst a v hops hi ha hv =>
    refine ⟨hinv.closed, ?_, hinv.orig, ?_⟩
    · intro j ov typ todo acc hp
      by_cases e : j = i
      · subst e
        simp only [upd_same, Thread.didRead] at hp ⊢
        exact hinv.build j ov typ todo acc hp
      · simp only [upd_other _ _ _ _ e] at hp ⊢
        exact hinv.build j ov typ todo acc hp
    · intro j
      by_cases e : j = i
      · subst e
        simp only [upd_same]
        rcases hinv.seen j with ⟨done, hprog, hsome, _⟩
        refine ⟨done ++ [.rd s], ?_, ?_, ?_⟩
        · simp only [Thread.didRead]; rw [hprog, hops]; simp
        · intro inst' hi'
          simp only [Thread.didRead] at hi' ⊢
          rw [hi] at hi'; cases hi'
          rw [hsome inst hi, readAll_append]
          simp [readAll, ha, hv]
        · intro hn
          simp only [Thread.didRead] at hn
          rw [hi] at hn; cases hn
      · simp only [upd_other _ _ _ _ e]; exact hinv.seen j
  | begin i ov inst hops hp hi =>
    refine ⟨hinv.closed, ?_, hinv.orig, ?_⟩
    · intro j ov' typ todo acc hp'
      by_cases e : j = i
      · subst e
        simp only [upd_same, Thread.setPhase] at hp' ⊢
        cases hp'
        exact ⟨inst, [], hi, rfl, by simp, by simp, by simp [viewOf, overlayView]⟩
      · simp only [upd_other _ _ _ _ e] at hp' ⊢
        exact hinv.build j ov' typ todo acc hp'
    · intro j
      by_cases e : j = i
      · subst e; simp only [upd_same]
        exact seenOk_ext c.store c.store [] [] hinv.closed (by simp) (by simp) rfl rfl rfl rfl (hinv.seen j)
      · simp only [upd_other _ _ _ _ e]; exact hinv.seen j
  | slot i ov typ sa todo acc hp =>
    rcases hinv.build i ov typ (sa :: todo) acc hp with ⟨inst, pre, hi, htyp, hsl, hacc, hview⟩
    have hsa : sa.2 < c.store.cells.length := closed_slot hinv.closed hi sa (by rw [hsl]; simp)
    have hpre : ∀ x ∈ pre, x.2 < c.store.cells.length := fun x hm =>
      closed_slot hinv.closed hi x (by rw [hsl]; exact List.mem_append_left _ hm)
    rcases buildSlot_spec D typ ov c.store.cells sa hsa with ⟨⟨t, ht⟩, hname, hlt, hval⟩
    refine ⟨closed_ext c.store _ t hinv.closed ht rfl rfl, ?_, ?_, ?_⟩
    · intro j ov' typ' todo' acc' hp'
      by_cases e : j = i
      · subst e
        simp only [upd_same, Thread.setPhase] at hp' ⊢
        cases hp'
        refine ⟨inst, pre ++ [sa], hi, htyp, by rw [hsl]; simp, ?_, ?_⟩
        · intro x hm
          rcases List.mem_append.mp hm with hm | hm
          · show x.2 < (buildSlot D typ ov c.store.cells sa).1.length
            rw [ht, List.length_append]; exact Nat.lt_of_lt_of_le (hacc x hm) (Nat.le_add_right _ _)
          · rw [List.mem_singleton] at hm; subst hm; exact hlt
        · show viewOf (buildSlot D typ ov c.store.cells sa).1 _ = overlayView D typ ov
            (viewOf (buildSlot D typ ov c.store.cells sa).1 _)
          rw [viewOf_append, viewOf_append, overlayView_append]
          have e1 : viewOf (buildSlot D typ ov c.store.cells sa).1 acc = viewOf c.store.cells acc := by
            rw [ht]; exact viewOf_ext _ _ _ hacc
          have e2 : viewOf (buildSlot D typ ov c.store.cells sa).1 pre = viewOf c.store.cells pre := by
            rw [ht]; exact viewOf_ext _ _ _ hpre
          rw [e1, e2, hview]
          congr 1
          have e3 : (buildSlot D typ ov c.store.cells sa).1[sa.2]? = c.store.cells[sa.2]? := by
            rw [ht]; exact getElem?_ext_left hsa
          simp only [viewOf, overlayView, overlaySlot, List.map_cons, List.map_nil, hval, hname, e3]
      · simp only [upd_other _ _ _ _ e] at hp' ⊢
        exact buildOk_ext D c.store _ t [] hinv.closed ht (by simp) (hinv.build j ov' typ' todo' acc' hp')
    · intro k p ov' hk
      exact originInv_ext D c.store _ t [] hinv.closed ht (by simp) (hinv.orig k p ov' hk)
    · intro j
      by_cases e : j = i
      · subst e; simp only [upd_same]
        exact seenOk_ext c.store _ t [] hinv.closed ht (by simp) rfl rfl rfl rfl (hinv.seen j)
      · simp only [upd_other _ _ _ _ e]
        exact seenOk_ext c.store _ t [] hinv.closed ht (by simp) rfl rfl rfl rfl (hinv.seen j)
  | publish i ov typ acc hp =>
    rcases hinv.build i ov typ [] acc hp with ⟨inst, pre, hi, htyp, hsl, hacc, hview⟩
    have hpre : inst.slots = pre := by rw [hsl]; simp
    refine ⟨?_, ?_, ?_, ?_⟩
    · refine ⟨?_, by simp [hinv.closed.2]⟩
      intro x hm sa hsa
      rcases List.mem_append.mp hm with hm | hm
      · exact hinv.closed.1 x hm sa hsa
      · rw [List.mem_singleton] at hm; subst hm; exact hacc sa hsa
    · intro j ov' typ' todo' acc' hp'
      by_cases e : j = i
      · subst e
        simp only [upd_same, Thread.setPhase] at hp'
        cases hp'
      · simp only [upd_other _ _ _ _ e] at hp' ⊢
        exact buildOk_ext D c.store _ [] [⟨typ, acc⟩] hinv.closed (by simp) rfl
          (hinv.build j ov' typ' todo' acc' hp')
    · intro k p ov' hk
      rcases Nat.lt_or_ge k c.store.origin.length with hlt | hge
      · have hk' : c.store.origin[k]? = some (some (p, ov')) := by
          rw [← hk]; exact (List.getElem?_append_left hlt).symm
        exact originInv_ext D c.store _ [] [⟨typ, acc⟩] hinv.closed (by simp) rfl (hinv.orig k p ov' hk')
      · have hk' : ([some ((c.threads i).recv, ov)] : List (Option (Nat × Ov)))[k - c.store.origin.length]? =
            some (some (p, ov')) := by
          rw [← hk]; exact (List.getElem?_append_right hge).symm
        have hz : k - c.store.origin.length = 0 := by
          rcases Nat.eq_zero_or_pos (k - c.store.origin.length) with h0 | hpos
          · exact h0
          · rw [List.getElem?_eq_none (by simp; omega)] at hk'; cases hk'
        rw [hz] at hk'
        simp only [List.getElem?_cons_zero, Option.some.injEq, Prod.mk.injEq] at hk'
        rcases hk' with ⟨hp', hov⟩
        subst hp' hov
        have hkeq : k = c.store.insts.length := by
          have := hinv.closed.2; omega
        refine ⟨inst, ⟨typ, acc⟩, insts_ext hi, ?_, htyp.symm, ?_⟩
        · show (c.store.insts ++ [⟨typ, acc⟩])[k]? = _
          rw [hkeq, List.getElem?_append_right (Nat.le_refl _)]; simp
        · show viewOf c.store.cells acc = _
          rw [hview, htyp, hpre]
    · intro j
      by_cases e : j = i
      · subst e; simp only [upd_same]
        exact seenOk_ext c.store _ [] [⟨typ, acc⟩] hinv.closed (by simp) rfl rfl rfl rfl rfl (hinv.seen j)
      · simp only [upd_other _ _ _ _ e]
        exact seenOk_ext c.store _ [] [⟨typ, acc⟩] hinv.closed (by simp) rfl rfl rfl rfl rfl (hinv.seen j)

/-! ## runs -/

theorem Reach.trans {D : Desc V Ov} {a b c : Config V Ov} (h1 : Reach D a b) (h2 : Reach D b c) : Reach D a c := by
  induction h2 with
  | refl => exact h1
  | step x y _ hs ih => exact Reach.step x y ih hs

theorem Reach.single {D : Desc V Ov} {a b : Config V Ov} (h : Step D a b) : Reach D a b :=
  Reach.step a b Reach.refl h

theorem reach_readOnly {D : Desc V Ov} {c₀ c : Config V Ov} (h : Reach D c₀ c) (hro : ReadOnly c₀) : ReadOnly c := by
  induction h with
  | refl => exact hro
  | step x y _ hs ih => exact step_readOnly D x y hs ih

theorem reach_inv {D : Desc V Ov} {c₀ c : Config V Ov} (h : Reach D c₀ c) (hro : ReadOnly c₀) (hinv : Inv D c₀) :
    Inv D c := by
  induction h with
  | refl => exact hinv
  | step x y hr hs ih => exact step_inv D x y hs (reach_readOnly hr hro) ih

theorem reach_grows {D : Desc V Ov} {c₀ c : Config V Ov} (h : Reach D c₀ c) (hro : ReadOnly c₀) (hinv : Inv D c₀) :
    (∃ t, c.store.cells = c₀.store.cells ++ t) ∧ (∃ u, c.store.insts = c₀.store.insts ++ u) ∧
    (∃ w, c.store.origin = c₀.store.origin ++ w) := by
  induction h with
  | refl => exact ⟨⟨[], by simp⟩, ⟨[], by simp⟩, ⟨[], by simp⟩⟩
  | step x y hr hs ih =>
    rcases ih with ⟨⟨t, ht⟩, ⟨u, hu⟩, ⟨w, hw⟩⟩
    rcases step_grows D x y hs (reach_readOnly hr hro) (reach_inv hr hro hinv) with ⟨⟨t', ht'⟩, ⟨u', hu'⟩, ⟨w', hw'⟩⟩
    exact ⟨⟨t ++ t', by rw [ht', ht, List.append_assoc]⟩, ⟨u ++ u', by rw [hu', hu, List.append_assoc]⟩,
      ⟨w ++ w', by rw [hw', hw, List.append_assoc]⟩⟩

/-- an instance of a closed store looks the same in every extension of the store -/
theorem view_ext (σ σ' : Store V Ov) (t : List V) (u : List Inst) (hc : Closed σ)
    (hcells : σ'.cells = σ.cells ++ t) (hinsts : σ'.insts = σ.insts ++ u) {h : Nat} {inst : Inst}
    (hi : σ.insts[h]? = some inst) : σ'.view h = σ.view h := by
  unfold Store.view
  rw [hinsts, insts_ext hi, hi, hcells]
  simp only [Option.map_some]
  rw [viewOf_ext _ _ _ (closed_slot hc hi)]

/-! ## `WithConfig` without interruption is one of the runs -/

theorem setPhase_setPhase (t : Thread V Ov) (p q : Phase Ov) : (t.setPhase p).setPhase q = t.setPhase q := rfl

theorem setPhase_self (t : Thread V Ov) (p : Phase Ov) (h : t.phase = p) : t.setPhase p = t := by
  cases t; simp only [Thread.setPhase] at *; rw [h]

theorem build_chain (D : Desc V Ov) (i : Nat) (ov : Ov) (typ : String) :
    ∀ (todo acc : List (String × Addr)) (c : Config V Ov), (c.threads i).phase = .build ov typ todo acc →
      Reach D c { store := { c.store with cells := (buildAll D typ ov c.store.cells todo acc).1 },
                  threads := upd c.threads i
                    ((c.threads i).setPhase (.build ov typ [] (buildAll D typ ov c.store.cells todo acc).2)) } := by
  intro todo
  induction todo with
  | nil =>
    intro acc c hp
    have : ({ store := { c.store with cells := (buildAll D typ ov c.store.cells [] acc).1 },
              threads := upd c.threads i ((c.threads i).setPhase
                (.build ov typ [] (buildAll D typ ov c.store.cells [] acc).2)) } : Config V Ov) = c := by
      simp only [buildAll]
      rw [setPhase_self _ _ hp, upd_self]
    rw [this]; exact Reach.refl
  | cons sa todo ih =>
    intro acc c hp
    have h1 := Step.slot (D := D) c i ov typ sa todo acc hp
    have h2 := ih (acc ++ [(buildSlot D typ ov c.store.cells sa).2])
      { store := { c.store with cells := (buildSlot D typ ov c.store.cells sa).1 },
        threads := upd c.threads i ((c.threads i).setPhase
          (.build ov typ todo (acc ++ [(buildSlot D typ ov c.store.cells sa).2]))) } (by
      show (upd c.threads i _ i).phase = _
      rw [upd_same]; rfl)
    have := Reach.trans (Reach.single h1) h2
    simp only [upd_same, upd_upd, setPhase_setPhase] at this
    simpa only [buildAll] using this

/-- the uninterrupted `WithConfig` of the model (`withConfig`, which the driver executes) is a run of the machine -/
theorem withConfig_reach (D : Desc V Ov) (c : Config V Ov) (i : Nat) (ov : Ov) (σ' : Store V Ov) (k : Nat)
    (hops : (c.threads i).ops = []) (hp : (c.threads i).phase = .create ov)
    (h : withConfig D c.store (c.threads i).recv ov = some (σ', k)) :
    Reach D c { store := σ', threads := upd c.threads i ((c.threads i).setPhase (.done k)) } := by
  unfold withConfig at h
  cases hi : c.store.insts[(c.threads i).recv]? with
  | none => rw [hi] at h; cases h
  | some inst =>
    rw [hi] at h
    simp only [Option.some.injEq, Prod.mk.injEq] at h
    rcases h with ⟨hσ, hk⟩
    subst hσ hk
    have s1 := Step.begin (D := D) c i ov inst hops hp hi
    have s2 := build_chain D i ov inst.typ inst.slots []
      { c with threads := upd c.threads i ((c.threads i).setPhase (.build ov inst.typ inst.slots [])) } (by
      show (upd c.threads i _ i).phase = _
      rw [upd_same]; rfl)
    have s3 := Step.publish (D := D)
      { store := { c.store with cells := (buildAll D inst.typ ov c.store.cells inst.slots []).1 },
        threads := upd (upd c.threads i ((c.threads i).setPhase (.build ov inst.typ inst.slots []))) i
          (((upd c.threads i ((c.threads i).setPhase (.build ov inst.typ inst.slots []))) i).setPhase
            (.build ov inst.typ [] (buildAll D inst.typ ov c.store.cells inst.slots []).2)) }
      i ov inst.typ (buildAll D inst.typ ov c.store.cells inst.slots []).2 (by
      simp only [upd_same]; rfl)
    have := Reach.step _ _ (Reach.trans (Reach.single s1) s2) s3
    simp only [upd_same, upd_upd, setPhase_setPhase] at this
    exact this

/-! ## the uninterrupted `WithConfig`, directly -/

theorem buildAll_spec (D : Desc V Ov) (typ : String) (ov : Ov) :
    ∀ (slots acc : List (String × Addr)) (cells : List V),
      (∀ sa ∈ slots, sa.2 < cells.length) → (∀ sa ∈ acc, sa.2 < cells.length) →
      (∃ t, (buildAll D typ ov cells slots acc).1 = cells ++ t) ∧
      (∀ sa ∈ (buildAll D typ ov cells slots acc).2, sa.2 < (buildAll D typ ov cells slots acc).1.length) ∧
      viewOf (buildAll D typ ov cells slots acc).1 (buildAll D typ ov cells slots acc).2 =
        viewOf cells acc ++ overlayView D typ ov (viewOf cells slots) := by
  intro slots
  induction slots with
  | nil =>
    intro acc cells _ hacc
    simp only [buildAll]
    exact ⟨⟨[], by simp⟩, hacc, by simp [viewOf, overlayView]⟩
  | cons sa todo ih =>
    intro acc cells hsl hacc
    have hsa : sa.2 < cells.length := hsl sa List.mem_cons_self
    rcases buildSlot_spec D typ ov cells sa hsa with ⟨⟨t, ht⟩, hname, hlt, hval⟩
    have hle : cells.length ≤ (buildSlot D typ ov cells sa).1.length := by rw [ht, List.length_append]; omega
    have htodo : ∀ x ∈ todo, x.2 < (buildSlot D typ ov cells sa).1.length := fun x hx =>
      Nat.lt_of_lt_of_le (hsl x (List.mem_cons_of_mem _ hx)) hle
    have hacc' : ∀ x ∈ acc ++ [(buildSlot D typ ov cells sa).2], x.2 < (buildSlot D typ ov cells sa).1.length := by
      intro x hx
      rcases List.mem_append.mp hx with hx | hx
      · exact Nat.lt_of_lt_of_le (hacc x hx) hle
      · rw [List.mem_singleton] at hx; subst hx; exact hlt
    rcases ih (acc ++ [(buildSlot D typ ov cells sa).2]) (buildSlot D typ ov cells sa).1 htodo hacc' with
      ⟨⟨t', ht'⟩, hlt', hview⟩
    simp only [buildAll]
    refine ⟨⟨t ++ t', by rw [ht', ht, List.append_assoc]⟩, hlt', ?_⟩
    rw [hview, viewOf_append]
    have e1 : viewOf (buildSlot D typ ov cells sa).1 acc = viewOf cells acc := by rw [ht]; exact viewOf_ext _ _ _ hacc
    have e2 : viewOf (buildSlot D typ ov cells sa).1 todo = viewOf cells todo := by
      rw [ht]; exact viewOf_ext _ _ _ (fun x hx => hsl x (List.mem_cons_of_mem _ hx))
    have e3 : (buildSlot D typ ov cells sa).1[sa.2]? = cells[sa.2]? := by rw [ht]; exact getElem?_ext_left hsa
    rw [e1, e2, List.append_assoc]
    congr 1
    simp only [viewOf, overlayView, overlaySlot, List.map_cons, List.map_nil, hval, hname, List.singleton_append]

/-- **`WithConfig` end to end**: the new object shows the prototype's view overlaid with the override, every object
that existed before looks as before, the store stays closed -/
theorem withConfig_view (D : Desc V Ov) (σ σ' : Store V Ov) (p h : Nat) (ov : Ov) (hc : Closed σ)
    (hw : withConfig D σ p ov = some (σ', h)) :
    ∃ inst, σ.insts[p]? = some inst ∧ h = σ.insts.length ∧
      σ'.view h = some (overlayView D inst.typ ov (viewOf σ.cells inst.slots)) ∧
      (∀ k i, σ.insts[k]? = some i → σ'.view k = σ.view k) ∧ Closed σ' := by
  unfold withConfig at hw
  cases hi : σ.insts[p]? with
  | none => rw [hi] at hw; cases hw
  | some inst =>
    rw [hi] at hw
    simp only [Option.some.injEq, Prod.mk.injEq] at hw
    rcases hw with ⟨hσ, hh⟩
    subst hσ hh
    rcases buildAll_spec D inst.typ ov inst.slots [] σ.cells (closed_slot hc hi) (by simp) with ⟨⟨t, ht⟩, hlt, hview⟩
    refine ⟨inst, rfl, rfl, ?_, ?_, ?_⟩
    · simp only [Store.view]
      rw [List.getElem?_append_right (Nat.le_refl _)]
      simp only [Nat.sub_self, List.getElem?_cons_zero, Option.map_some]
      rw [hview]; simp [viewOf]
    · intro k i hk
      exact view_ext σ _ t [⟨inst.typ, (buildAll D inst.typ ov σ.cells inst.slots []).2⟩] hc ht rfl hk
    · refine ⟨?_, by simp [hc.2]⟩
      intro x hm sa hsa
      rcases List.mem_append.mp hm with hm | hm
      · show sa.2 < (buildAll D inst.typ ov σ.cells inst.slots []).1.length
        rw [ht, List.length_append]; exact Nat.lt_of_lt_of_le (hc.1 x hm sa hsa) (Nat.le_add_right _ _)
      · rw [List.mem_singleton] at hm; subst hm; exact hlt sa hsa

/-! ## the executable scheduler runs the machine -/

theorem next_step (D : Desc V Ov) (c c' : Config V Ov) (i : Nat) (h : next D c i = some c') : Step D c c' := by
  unfold next at h
  split at h
  · rename_i s rest hops
    split at h
    · cases h
    · rename_i inst hi
      split at h
      · cases h
      · rename_i a ha
        split at h
        · cases h
        · rename_i v hv
          cases h
          exact Step.rd c i s rest inst a v hops hi ha hv
  · cases h
  · rename_i hops
    split at h
    · rename_i ov hp
      split at h
      · cases h
      · rename_i inst hi
        cases h
        exact Step.begin c i ov inst hops hp hi
    · rename_i ov typ sa todo acc hp
      cases h
      exact Step.slot c i ov typ sa todo acc hp
    · rename_i ov typ acc hp
      cases h
      exact Step.publish c i ov typ acc hp
    · cases h

theorem runSched_reach (D : Desc V Ov) (sched : List Nat) : ∀ c : Config V Ov, Reach D c (runSched D c sched) := by
  induction sched with
  | nil => intro c; exact Reach.refl
  | cons i rest ih =>
    intro c
    simp only [runSched]
    cases h : next D c i with
    | none => simpa using ih c
    | some c' => exact Reach.trans (Reach.single (next_step D c c' i h)) (by simpa using ih c')

end Heimdall.Mech
