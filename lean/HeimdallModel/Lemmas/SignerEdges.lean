import HeimdallModel.Lemmas.SignerConc
import HeimdallModel.Model.SignerProtocol
/-! Every step of the signer machine moves the stepping thread along an edge of the edge lists of
`Model/SignerProtocol.lean` and leaves every other thread alone (C16) -/
namespace Heimdall.SignerConc
open Heimdall.SignerProtocol

variable {S : Type}

/-- what a thread is doing, without its data -/
inductive Where where
  | signer (pc : SPc) | reader (pc : RPc) | loader (pc : LPc)
deriving DecidableEq, Repr

def Thread.where_ : Thread S → Where
  | .signer pc _ _ _ => .signer pc
  | .reader pc _ _ => .reader pc
  | .loader _ pc => .loader pc

/-- the edge lists as one relation on thread positions -/
def edge (x y : Where) : Prop :=
  match x, y with
  | .signer p, .signer q => ∃ ev, (p, ev, q) ∈ signerEdges
  | .reader p, .reader q => ∃ ev, (p, ev, q) ∈ readerEdges
  | .loader p, .loader q => ∃ ev, (p, ev, q) ∈ loaderEdges
  | _, _ => False

theorem upd_where (thr : Nat → Thread S) (j i : Nat) (told t' : Thread S) (hj : thr j = told)
    (he : edge told.where_ t'.where_) :
    (upd thr j t' i).where_ = (thr i).where_ ∨ edge (thr i).where_ (upd thr j t' i).where_ := by
  by_cases e : i = j
  · subst e; rw [upd_same, hj]; exact Or.inr he
  · rw [upd_other _ _ _ _ e]; exact Or.inl rfl

theorem step_follows_edges (c c' : Config S) (h : Step c c') (i : Nat) :
    (c'.threads i).where_ = (c.threads i).where_ ∨ edge (c.threads i).where_ (c'.threads i).where_ := by
  cases h with
  | sLock j hj _ => exact upd_where _ j i _ _ hj ⟨.rlock, by decide⟩
  | sReadJwk j hj => exact upd_where _ j i _ _ hj ⟨.readJwk, by decide⟩
  | sReadKey j a n hj => exact upd_where _ j i _ _ hj ⟨.readKey, by decide⟩
  | sUnlock j a b n hj => exact upd_where _ j i _ _ hj ⟨.runlock, by decide⟩
  | rLock j hj _ => exact upd_where _ j i _ _ hj ⟨.rlock, by decide⟩
  | rRead j hj => exact upd_where _ j i _ _ hj ⟨.readPub, by decide⟩
  | rUnlock j p n hj => exact upd_where _ j i _ _ hj ⟨.runlock, by decide⟩
  | lFail j new hj => exact upd_where _ j i _ _ hj ⟨.ret, by decide⟩
  | lParse j new hj => exact upd_where _ j i _ _ hj ⟨.callLoad, by decide⟩
  | lLock j new hj _ _ => exact upd_where _ j i _ _ hj ⟨.lock, by decide⟩
  | lWriteJwk j new hj _ => exact upd_where _ j i _ _ hj ⟨.writeJwk, by decide⟩
  | lWriteKey j new hj _ => exact upd_where _ j i _ _ hj ⟨.writeKey, by decide⟩
  | lWritePub j new hj _ => exact upd_where _ j i _ _ hj ⟨.writePub, by decide⟩
  | lUnlock j new hj _ => exact upd_where _ j i _ _ hj ⟨.unlock, by decide⟩

end Heimdall.SignerConc
