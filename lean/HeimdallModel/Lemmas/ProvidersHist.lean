import HeimdallModel.Lemmas.ProvidersBlob
import HeimdallModel.Lemmas.ProvidersK8s
/-! Helper lemmas for C18: from the per-step contract to histories -/
set_option linter.unusedSectionVars false
set_option linter.unusedSimpArgs false

namespace Heimdall.Prov

variable {σ : Type} [DecidableEq σ]

theorem single_source (rej : List σ) (st : St σ) (name : σ) (o : Obs) (r : Out σ)
    (hst : r.st = (syncOne rej st name o).st) (hcalls : r.calls = (syncOne rej st name o).calls) (hi : Inv st) :
    Inv r.st ∧
    (∀ s, r.st.book.get s = (if s ∈ rej then Obs.noinfo else if name = s then o else .noinfo).next (st.book.get s)) ∧
    (∀ s, (callsFor r.calls s).map (·.1) =
      transition s (st.book.get s) ((if name = s then o else Obs.noinfo).next (st.book.get s))) ∧
    (∀ c ∈ r.calls, c.2 = decide (c.1.src ∉ rej)) := by
  have ok := syncOne_ok rej st name o hi
  have hsrc := stepOK_src ok
  refine ⟨hst ▸ ok.inv, ?_, ?_, ?_⟩
  · intro s
    rw [hst, ok.book s]
    by_cases e : s = name
    · subst e; by_cases hr : s ∈ rej <;> simp [hr, Obs.next]
    · have e' : ¬ name = s := fun x => e x.symm
      by_cases hr : s ∈ rej <;> simp [e, e', hr, Obs.next]
  · intro s
    rw [hcalls]
    unfold callsFor
    by_cases e : name = s
    · subst e
      simp only [if_true]
      rw [← ok.calls]
      congr 1
      rw [List.filter_eq_self]
      intro c hc; simp [hsrc c hc]
    · have : (syncOne rej st name o).calls.filter (fun c => c.1.src = s) = [] := by
        rw [List.filter_eq_nil_iff]
        intro c hc; simp [hsrc c hc, e]
      simp [this, e, Obs.next, transition_self]
  · intro c hc
    rw [hcalls] at hc
    rw [ok.accepted c hc, hsrc c hc]

section
variable {ε : Type} (P : Provider σ ε) (hP : P.Correct)
include hP

theorem history (es : List ε) (hes : ∀ e ∈ es, P.admissible e) :
    Inv (P.after es) ∧ P.good (P.after es) ∧
      ∀ s, (P.after es).book.get s = desired (es.map (P.obs · s)) := by
  have := run_book P.step P.obs P.good P.admissible
    (fun st e hi hg ha => let ⟨a, b, c, _⟩ := hP.step st e hi hg ha; ⟨a, b, c⟩) es St.init inv_init hP.init hes
  exact this

end

/-! ### `Start` of the file_system provider -/

theorem fsStep_create (st : St σ) (n : σ) (f : FileState) (rej : List σ) :
    fsStep st ⟨[.create], n, f, rej⟩ = fsCreatedOrUpdated rej st n f := by
  simp [fsStep]

/-- a successful initial load is the history of one create notification per source -/
theorem fsInit_run (rej : List σ) (files : List (σ × FileState)) (st : St σ) (h : (fsInit rej st files).err = false) :
    (fsInit rej st files).st = run fsStep st (files.map fun p => ⟨[.create], p.1, p.2, rej⟩) := by
  induction files generalizing st with
  | nil => rfl
  | cons p files ih =>
    obtain ⟨n, f⟩ := p
    simp only [fsInit] at h ⊢
    cases he : (fsCreatedOrUpdated rej st n f).err with
    | true => simp [he] at h
    | false =>
      simp only [he, Bool.false_eq_true, if_false] at h ⊢
      rw [List.map_cons, run_cons, fsStep_create]
      exact ih _ h

theorem desired_of_shown (f : ε → Obs) (h : Hash) (l : List ε) (d : Option Hash)
    (hall : ∀ x ∈ l, f x = .noinfo ∨ f x = .content h) (hsome : d = some h ∨ ∃ x ∈ l, f x = .content h) :
    (l.map f).foldl Obs.next d = some h := by
  induction l generalizing d with
  | nil =>
    rcases hsome with hd | ⟨x, hx, _⟩
    · exact hd
    · simp at hx
  | cons x l ih =>
    rw [List.map_cons, List.foldl_cons]
    apply ih _ (fun y hy => hall y (List.mem_cons_of_mem _ hy))
    rcases hall x (List.mem_cons_self ..) with hx | hx
    · rw [hx]
      rcases hsome with hd | ⟨y, hy, hfy⟩
      · exact Or.inl hd
      · rcases List.mem_cons.mp hy with e | hy'
        · subst e; rw [hx] at hfy; cases hfy
        · exact Or.inr ⟨y, hy', hfy⟩
    · rw [hx]; exact Or.inl rfl

end Heimdall.Prov
