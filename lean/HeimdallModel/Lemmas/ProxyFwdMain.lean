import HeimdallModel.Lemmas.ProxyFwdPath
import HeimdallModel.Lemmas.ProxyFwdHdr
import HeimdallModel.Lemmas.ProxyFwdQuery
/-!
Helper lemmas for C15, part 5: the composition — what `forward` returns in terms of the client's request.
-/
namespace Heimdall.ProxyFwd
open Heimdall

/-! ### header names -/

theorem untrusted_iff (k : Bytes) : untrustedHeaders.contains k = true ↔
    (k = hForwarded ∨ k = hXFFor ∨ k = hXFProto ∨ k = hXFHost ∨ k = hXFUri ∨ k = hXFPath ∨ k = hXFMethod) := by
  simp [untrustedHeaders, List.contains_cons]

theorem firstOr_nil (vs : List Bytes) : Spec.firstOr vs [] = vs.head?.getD [] := by
  unfold Spec.firstOr
  cases vs with
  | nil => rfl
  | cons v _ => by_cases h : v = [] <;> simp [h]

theorem firstOr_eq (vs : List Bytes) (d : Bytes) :
    Spec.firstOr vs d = if vs.head?.getD [] ≠ [] then vs.head?.getD [] else d := by
  unfold Spec.firstOr
  cases vs with
  | nil => simp
  | cons v _ => by_cases h : v = [] <;> simp [h]

/-! ### `rewriteRequest` -/

/-- a trusted peer used the `X-Forwarded-*` family -/
def xFam (inH : Hdrs) : Bool :=
  commaJoin (values inH hXFFor) ≠ [] || get inH hXFProto ≠ [] || get inH hXFHost ≠ []

theorem cookieMap_nil : cookieMap [] = [] := rfl

theorem values_rewriteHeaders (inH : Hdrs) (p : Pipe) (peer inHost fwdHost k : Bytes)
    (hH : k ≠ hHost) (hC : k ≠ hCookie ∨ p.cookies = []) :
    values (rewriteHeaders inH p peer inHost fwdHost).2 k =
      if xFam inH && k = hXFHost then [if get inH hXFHost = [] then inHost else get inH hXFHost]
      else if xFam inH && k = hXFProto then [if get inH hXFProto = [] then b!"http" else get inH hXFProto]
      else if xFam inH && k = hXFFor then
        [if commaJoin (values inH hXFFor) = [] then peer else commaJoin (values inH hXFFor) ++ b!", " ++ peer]
      else if !xFam inH && k = hForwarded then
        [if commaJoin (values inH hForwarded) = [] then forwardedElem peer inHost
         else commaJoin (values inH hForwarded) ++ b!", " ++ forwardedElem peer inHost]
      else match firstValue (canonHeaders p.headers) k with
        | some v => [v]
        | none => if untrustedHeaders.contains k then [] else values inH k := by
  have hout4 : ∀ (h : Hdrs), values ((cookieMap p.cookies).foldl addCookie h) k = values h k := by
    intro h
    rcases hC with hC | hC
    · exact values_foldl_addCookie _ h k hC
    · rw [hC, cookieMap_nil]; rfl
  have hout3 : ∀ (h : Hdrs) (P : Prop) [Decidable P], values (if P then del hHost h else h) k = values h k := by
    intro h P _
    by_cases hP : P
    · simp [hP, values_del, hH]
    · simp [hP]
  have hbase : values ((pipeFirst p.headers).foldl (fun h kv => set kv.1 kv.2 h)
        (inH |> del hForwarded |> del hXFFor |> del hXFHost |> del hXFProto |> del hXFMethod |> del hXFUri
          |> del hXFPath)) k =
      match firstValue (canonHeaders p.headers) k with
      | some v => [v]
      | none => if untrustedHeaders.contains k then [] else values inH k := by
    unfold pipeFirst
    rw [values_pipe]
    cases firstValue (canonHeaders p.headers) k with
    | some v => rfl
    | none =>
      simp only [values_del]
      by_cases hu : untrustedHeaders.contains k = true
      · simp only [hu, if_true]
        rcases (untrusted_iff k).mp hu with h | h | h | h | h | h | h <;> subst h <;> rfl
      · simp only [hu, Bool.false_eq_true, if_false]
        have hn := (not_congr (untrusted_iff k)).mp hu
        simp only [not_or] at hn
        obtain ⟨h1, h2, h3, h4, h5, h6, h7⟩ := hn
        simp [h1, h2, h3, h4, h5, h6, h7]
  unfold rewriteHeaders
  simp only
  have hx : (decide (commaJoin (values inH hXFFor) ≠ []) || decide (get inH hXFProto ≠ []) ||
      decide (get inH hXFHost ≠ [])) = xFam inH := rfl
  rw [hx]
  cases hX : xFam inH with
  | true =>
    simp only [if_true, Bool.true_and, Bool.not_true, Bool.false_and, values_set, decide_eq_true_eq]
    by_cases h1 : k = hXFHost
    · simp [h1]
    · by_cases h2 : k = hXFProto
      · simp [h1, h2]
      · by_cases h3 : k = hXFFor
        · simp [h1, h2, h3]
        · simp only [h1, h2, h3, if_false, Bool.false_eq_true]
          rw [hout4, hout3, hbase]
  | false =>
    simp only [Bool.false_eq_true, if_false, Bool.false_and, Bool.not_false, Bool.true_and, values_set,
      decide_eq_true_eq]
    by_cases h1 : k = hForwarded
    · simp [h1]
    · simp only [h1, if_false]
      rw [hout4, hout3, hbase]

theorem values_wireHeaders (m : Bytes) (h : Hdrs) (k : Bytes) (hk : Spec.transportOwned k = false) :
    values (wireHeaders m h) k = values h k := by
  unfold Spec.transportOwned at hk
  simp only [Bool.or_eq_false_iff, decide_eq_false_iff_not] at hk
  obtain ⟨⟨⟨⟨⟨h1, h2⟩, h3⟩, h4⟩, h5⟩, h6⟩ := hk
  unfold wireHeaders sortHdrs
  rw [values_sortByKey, values_append, values_append]
  have hua : values (uaLine h) k = [] := by
    unfold uaLine
    split
    · split
      · rfl
      · have : ¬ hUserAgent = k := fun e => h2 e.symm
        simp [values_cons, values_nil, this]
    · rfl
  have hgz : values (gzipLine m h) k = [] := by
    unfold gzipLine
    split
    · have : ¬ hAcceptEncoding = k := fun e => h3 e.symm
      simp [values_cons, values_nil, this]
    · rfl
  rw [hua, hgz, List.nil_append, List.append_nil]
  rw [values_filter (fun n => !notWritten n)]
  have : notWritten k = false := by
    unfold notWritten
    simp [h1, h2, h4, h5, h6]
  simp [this]


/-! ### the client's headers as heimdall sees them -/

def inHeaders (c : Case) : Hdrs := trustStrip (isTrusted c.trusted c.req.peer) (canonHeaders c.req.headers)

theorem values_inHeaders_fwd (c : Case) (k : Bytes) (hk : untrustedHeaders.contains k = true) :
    values (inHeaders c) k = Spec.believed c k := by
  unfold inHeaders Spec.believed Spec.peerTrusted Spec.clientHeaders
  rw [values_trustStrip, hk]
  cases isTrusted c.trusted c.req.peer <;> simp

theorem values_inHeaders_other (c : Case) (k : Bytes) (hk : untrustedHeaders.contains k = false) :
    values (inHeaders c) k = values (Spec.clientHeaders c) k := by
  unfold inHeaders Spec.clientHeaders
  rw [values_trustStrip, hk]
  simp

theorem get_inHeaders_fwd (c : Case) (k : Bytes) (hk : untrustedHeaders.contains k = true) :
    get (inHeaders c) k = (Spec.believed c k).head?.getD [] := by
  unfold get
  rw [values_inHeaders_fwd c k hk]

/-! ### what `forward` returns -/

def srv (c : Case) (path raw : Bytes) : ServerReq :=
  { method := c.req.method, path := path, rawPath := raw, rawQuery := after '?' c.req.target, host := c.req.host,
    headers := canonHeaders c.req.headers }

theorem forward_forwarded (c : Case) (tls : Bool) (dial : Bytes) (up : UpReq)
    (h : forward c = .forwarded tls dial up) :
    ∃ path raw t, modelledTarget c.req.target = true ∧
      setPath (before '?' c.req.target) = some (path, raw) ∧
      ruleTarget c.rule (extractURL (inHeaders c) (srv c path raw)) = some t ∧
      (t.scheme = b!"http" ∨ t.scheme = b!"https") ∧
      tls = decide (t.scheme = b!"https") ∧ dial = t.host ∧
      up = { method := extractMethod (inHeaders c) (srv c path raw), path := orSlash t.escapedPath,
             query := t.rawQuery,
             host := (rewriteHeaders (inHeaders c) c.pipe c.req.peer c.req.host c.rule.host).1,
             headers := wireHeaders (extractMethod (inHeaders c) (srv c path raw))
               (rewriteHeaders (inHeaders c) c.pipe c.req.peer c.req.host c.rule.host).2,
             body := c.req.body } := by
  unfold forward at h
  by_cases hm : modelledTarget c.req.target = true
  · simp only [hm, Bool.not_true, Bool.false_eq_true, if_false] at h
    unfold serverParse at h
    cases hs : setPath (before '?' c.req.target) with
    | none => simp [hs] at h
    | some pr =>
      obtain ⟨path, raw⟩ := pr
      simp only [hs, Option.map_some] at h
      split at h
      · exact Outcome.noConfusion h
      · cases ht : ruleTarget c.rule (extractURL (inHeaders c) (srv c path raw)) with
        | none =>
          simp only [inHeaders, srv] at ht
          simp [ht] at h
        | some t =>
          simp only [inHeaders, srv] at ht
          simp only [ht] at h
          split at h
          · exact Outcome.noConfusion h
          · next hsch =>
            simp only [Outcome.forwarded.injEq] at h
            obtain ⟨h1, h2, h3⟩ := h
            refine ⟨path, raw, t, hm, rfl, ?_, ?_, h1.symm, h2.symm, h3.symm⟩
            · simp only [inHeaders, srv]; exact ht
            · simp only [ne_eq, Bool.and_eq_true, decide_eq_true_eq, not_and, Decidable.not_not] at hsch
              by_cases hh : t.scheme = b!"http"
              · exact Or.inl hh
              · exact Or.inr (hsch hh)
  · simp [hm] at h

/-- the target URL always points to `forward_to.host` -/
theorem ruleTarget_host (r : RuleCfg) (v t : Url) (h : ruleTarget r v = some t) : t.host = r.host := by
  have hc : ∀ v', (createURL r v').host = r.host := by
    intro v'
    unfold createURL
    cases r.rewrite <;> rfl
  unfold ruleTarget at h
  cases hs : r.slashes <;> simp only [hs] at h
  · split at h
    · simp at h
    · simp only [Option.some.injEq] at h; rw [← h]; exact hc _
  · simp only [Option.some.injEq] at h; rw [← h]; exact hc _
  · simp only [Option.some.injEq] at h; rw [← h]; exact hc _


/-! ### the URL -/

theorem modelledTarget_head (t : Bytes) (h : modelledTarget t = true) : t.head? = some '/' := by
  unfold modelledTarget at h
  simp only [Bool.and_eq_true, decide_eq_true_eq] at h
  exact h.1.1

theorem before_head (t : Bytes) (h : t.head? = some '/') : (before '?' t).head? = some '/' := by
  cases t with
  | nil => simp at h
  | cons c r =>
    simp only [List.head?_cons, Option.some.injEq] at h
    subst h
    simp [before, List.takeWhile_cons]

theorem xfuri_untrusted : untrustedHeaders.contains hXFUri = true := by decide
theorem xfproto_untrusted : untrustedHeaders.contains hXFProto = true := by decide
theorem xfhost_untrusted : untrustedHeaders.contains hXFHost = true := by decide
theorem xffor_untrusted : untrustedHeaders.contains hXFFor = true := by decide
theorem xfmethod_untrusted : untrustedHeaders.contains hXFMethod = true := by decide
theorem xfpath_untrusted : untrustedHeaders.contains hXFPath = true := by decide
theorem forwarded_untrusted : untrustedHeaders.contains hForwarded = true := by decide

theorem plain_get (c : Case) (hp : Spec.plainUrl c = true) : get (inHeaders c) hXFUri = [] := by
  rw [get_inHeaders_fwd c _ xfuri_untrusted]
  unfold Spec.plainUrl at hp
  simp only [decide_eq_true_eq] at hp
  rw [hp]; rfl

/-- without a believed `X-Forwarded-Uri` the request view is the URL of the request line -/
theorem extractURL_plain (c : Case) (path raw : Bytes) (hp : Spec.plainUrl c = true)
    (hm : modelledTarget c.req.target = true)
    (hset : setPath (before '?' c.req.target) = some (path, raw)) :
    pathUnescapeL (Spec.origRawPath c) = some path ∧
    extractURL (inHeaders c) (srv c path raw) =
      { scheme := Spec.origScheme c, host := (extractURL (inHeaders c) (srv c path raw)).host,
        path := path, rawPath := normPath (Spec.origRawPath c), rawQuery := Spec.origQuery c } := by
  have hhead := before_head _ (modelledTarget_head _ hm)
  obtain ⟨hdec, hesc⟩ := escapedPath_setPath _ path raw hhead hset
  refine ⟨hdec, ?_⟩
  have hx := plain_get c hp
  have hsch : Spec.origScheme c = if get (inHeaders c) hXFProto ≠ [] then get (inHeaders c) hXFProto else b!"http" := by
    unfold Spec.origScheme
    rw [firstOr_eq, get_inHeaders_fwd c _ xfproto_untrusted]
  unfold extractURL
  simp only [hx, if_true, Option.map_none, Option.getD_none]
  simp only [srv, hesc]
  rw [hsch]
  have : (pathUnescapeL (normPath (before '?' c.req.target))).getD [] = path := by
    rw [normPath_decodes _ path hdec]; rfl
  simp only [this]
  rfl

theorem createURL_scheme (r : RuleCfg) (v : Url) : (createURL r v).scheme =
    match r.rewrite with
    | some rw => if rw.scheme ≠ [] then rw.scheme else v.scheme
    | none => v.scheme := by
  unfold createURL
  cases r.rewrite <;> rfl

theorem createURL_query (r : RuleCfg) (v : Url) :
    (createURL r v).rawQuery = removeParams ((r.rewrite.map (·.stripQ)).getD []) v.rawQuery := by
  unfold createURL
  cases r.rewrite with
  | none => simp [removeParams]
  | some rw => rfl

theorem createURL_escapedPath (r : RuleCfg) (v : Url) : (createURL r v).escapedPath =
    match r.rewrite with
    | some rw => (rw.apply { scheme := v.scheme, host := r.host, path := v.path, rawPath := v.rawPath,
                             rawQuery := v.rawQuery }).escapedPath
    | none => escapedPath v.path v.rawPath := by
  unfold createURL
  cases r.rewrite <;> rfl

/-- the URL the rule forwards to is built from the request view; with `on` its raw path is forgotten first, with `off`
an encoded slash in it is refused -/
theorem ruleTarget_some (r : RuleCfg) (v t : Url) (h : ruleTarget r v = some t) :
    t = createURL r { v with rawPath := if r.slashes = .on then [] else v.rawPath } ∧
    (r.slashes = .off → containsEncodedSlashL v.rawPath = false) := by
  unfold ruleTarget at h
  cases hs : r.slashes <;> simp only [hs] at h
  · split at h
    · simp at h
    · next hn =>
      simp only [Option.some.injEq] at h
      refine ⟨by rw [← h]; simp, fun _ => by simpa using hn⟩
  · simp only [Option.some.injEq] at h
    exact ⟨by rw [← h]; simp, fun e => by simp at e⟩
  · simp only [Option.some.injEq] at h
    exact ⟨by rw [← h]; simp, fun e => by simp at e⟩

theorem seenPath_off (c : Case) (h : c.rule.slashes ≠ .on) : Spec.seenPath c = normPath (Spec.origRawPath c) := by
  unfold Spec.seenPath normPath
  simp [h]

theorem seenPath_on (c : Case) (h : c.rule.slashes = .on) :
    Spec.seenPath c = escapePath ((pathUnescapeL (Spec.origRawPath c)).getD []) := by
  unfold Spec.seenPath
  simp [h]

/-- the spelling of the original path `Rewrite` starts from -/
theorem seen_escapedPath (c : Case) (path : Bytes) (hm : modelledTarget c.req.target = true)
    (hdec : pathUnescapeL (Spec.origRawPath c) = some path) :
    escapedPath path (if c.rule.slashes = .on then [] else normPath (Spec.origRawPath c)) = Spec.seenPath c := by
  have hhead := before_head _ (modelledTarget_head _ hm)
  have hne : Spec.origRawPath c ≠ [] := by
    intro e
    unfold Spec.origRawPath at e
    rw [e] at hhead
    simp at hhead
  by_cases hon : c.rule.slashes = .on
  · simp only [hon, if_true]
    rw [seenPath_on c hon, hdec]
    have hstar : path ≠ ['*'] := by
      unfold Spec.origRawPath at hdec
      cases hb : before '?' c.req.target with
      | nil => rw [hb] at hhead; simp at hhead
      | cons ch r =>
        rw [hb] at hhead hdec
        simp only [List.head?_cons, Option.some.injEq] at hhead
        subst hhead
        exact head_slash_ne_star path (pathUnescapeL_head_slash r path hdec)
    exact escapedPath_nil path hstar
  · simp only [hon, if_false]
    rw [seenPath_off c hon]
    exact escapedPath_keep _ _ (normPath_ne_nil _ path hne hdec) (normPath_valid _) (normPath_decodes _ path hdec)

theorem seenPath_decodes (c : Case) (path : Bytes) (hdec : pathUnescapeL (Spec.origRawPath c) = some path) :
    pathUnescapeL (Spec.seenPath c) = some path := by
  by_cases hon : c.rule.slashes = .on
  · rw [seenPath_on c hon, hdec]; exact pathUnescapeL_escapePath path
  · rw [seenPath_off c hon]; exact normPath_decodes _ path hdec

theorem orSlash_decodes (a b : Bytes) (h : pathUnescapeL a = pathUnescapeL b) (ha : (pathUnescapeL a).isSome = true) :
    pathUnescapeL (orSlash a) = pathUnescapeL (orSlash b) ∧ (pathUnescapeL (orSlash a)).isSome = true := by
  unfold orSlash
  by_cases hae : a = []
  · subst hae
    have hb : b = [] := pathUnescapeL_eq_nil b (by rw [← h]; rfl)
    subst hb
    exact ⟨rfl, rfl⟩
  · have hbe : b ≠ [] := by
      intro e
      subst e
      exact hae (pathUnescapeL_eq_nil a (by rw [h]; rfl))
    simp only [hae, hbe, if_false]
    exact ⟨h, ha⟩


/-- `forward` on a well-formed request line without a believed `X-Forwarded-Uri` -/
theorem forward_plain (c : Case) (hw : Spec.wellFormed c = true) (hp : Spec.plainUrl c = true) :
    ∃ path raw, setPath (before '?' c.req.target) = some (path, raw) ∧
      forward c =
        match ruleTarget c.rule (extractURL (inHeaders c) (srv c path raw)) with
        | none => .rejected 400
        | some t =>
          if t.scheme ≠ b!"http" && t.scheme ≠ b!"https" then .rejected 502 else
          .forwarded (t.scheme = b!"https") t.host
            { method := extractMethod (inHeaders c) (srv c path raw), path := orSlash t.escapedPath,
              query := t.rawQuery,
              host := (rewriteHeaders (inHeaders c) c.pipe c.req.peer c.req.host c.rule.host).1,
              headers := wireHeaders (extractMethod (inHeaders c) (srv c path raw))
                (rewriteHeaders (inHeaders c) c.pipe c.req.peer c.req.host c.rule.host).2,
              body := c.req.body } := by
  unfold Spec.wellFormed at hw
  simp only [Bool.and_eq_true] at hw
  obtain ⟨hm, hd⟩ := hw
  unfold Spec.origRawPath at hd
  cases hdec : pathUnescapeL (before '?' c.req.target) with
  | none => simp [hdec] at hd
  | some d =>
    have hset : setPath (before '?' c.req.target) =
        some (d, if escapePath d = before '?' c.req.target then [] else before '?' c.req.target) := by
      unfold setPath
      rw [hdec]; rfl
    refine ⟨_, _, hset, ?_⟩
    have hx := plain_get c hp
    unfold forward
    simp only [hm, Bool.not_true, Bool.false_eq_true, if_false]
    unfold serverParse
    simp only [hset, Option.map_some]
    have hx' : get (trustStrip (isTrusted c.trusted c.req.peer) (canonHeaders c.req.headers)) hXFUri = [] := hx
    simp only [hx', ne_eq, not_true_eq_false, decide_false, Bool.false_and, Bool.false_eq_true, if_false]
    rfl


/-- what the rule's URL looks like when no trusted `X-Forwarded-Uri` is involved -/
theorem target_path (c : Case) (tls : Bool) (dial : Bytes) (up : UpReq) (h : forward c = .forwarded tls dial up)
    (hp : Spec.plainUrl c = true) :
    ∃ path u, pathUnescapeL (Spec.origRawPath c) = some path ∧ u.escapedPath = Spec.seenPath c ∧
      u.rawPath = (if c.rule.slashes = .on then [] else normPath (Spec.origRawPath c)) ∧
      up.path = orSlash (match c.rule.rewrite with
        | some rw => (rw.apply u).escapedPath
        | none => Spec.seenPath c) := by
  obtain ⟨path, raw, t, hm, hset, ht, _, _, _, hup⟩ := forward_forwarded c tls dial up h
  obtain ⟨hdec, hurl⟩ := extractURL_plain c path raw hp hm hset
  obtain ⟨hte, _⟩ := ruleTarget_some _ _ _ ht
  rw [hurl] at hte
  refine ⟨path, ⟨Spec.origScheme c, c.rule.host, path,
      if c.rule.slashes = .on then [] else normPath (Spec.origRawPath c), Spec.origQuery c⟩,
      hdec, seen_escapedPath c path hm hdec, rfl, ?_⟩
  rw [hup, hte, createURL_escapedPath]
  cases c.rule.rewrite with
  | none => simp only; rw [seen_escapedPath c path hm hdec]
  | some rw => rfl


theorem target_query (c : Case) (tls : Bool) (dial : Bytes) (up : UpReq) (h : forward c = .forwarded tls dial up)
    (hp : Spec.plainUrl c = true) : up.query = removeParams (Spec.stripNames c) (Spec.origQuery c) := by
  obtain ⟨path, raw, t, hm, hset, ht, _, _, _, hup⟩ := forward_forwarded c tls dial up h
  obtain ⟨_, hurl⟩ := extractURL_plain c path raw hp hm hset
  obtain ⟨hte, _⟩ := ruleTarget_some _ _ _ ht
  rw [hup, hte, createURL_query, hurl]
  rfl


end Heimdall.ProxyFwd
