import HeimdallModel.Lemmas.ProxyFwdPath
import HeimdallModel.Lemmas.ProxyFwdHdr
import HeimdallModel.Lemmas.ProxyFwdQuery
/-!
Helper lemmas for C15, part 5: the composition — what `forward` returns in terms of the client's request.
-/
namespace Heimdall.ProxyFwd
open Heimdall

/-! ### header names -/

theorem untrusted_iff (k : Bytes) : untrustedHeaders.contains k = true ↔
    (k = hForwarded ∨ k = hXFFor ∨ k = hXFProto ∨ k = hXFHost ∨ k = hXFUri ∨ k = hXFPath ∨ k = hXFMethod) := by
  simp [untrustedHeaders, List.contains_cons]

theorem firstOr_nil (vs : List Bytes) : Spec.firstOr vs [] = vs.head?.getD [] := by
  unfold Spec.firstOr
  cases vs with
  | nil => rfl
  | cons v _ => by_cases h : v = [] <;> simp [h]

theorem firstOr_eq (vs : List Bytes) (d : Bytes) :
    Spec.firstOr vs d = if vs.head?.getD [] ≠ [] then vs.head?.getD [] else d := by
  unfold Spec.firstOr
  cases vs with
  | nil => simp
  | cons v _ => by_cases h : v = [] <;> simp [h]

/-! ### `rewriteRequest` -/

/-- a trusted peer used the `X-Forwarded-*` family -/
def xFam (inH : Hdrs) : Bool :=
  commaJoin (values inH hXFFor) ≠ [] || get inH hXFProto ≠ [] || get inH hXFHost ≠ []

theorem cookieMap_nil : cookieMap [] = [] := rfl

/-- what `Rewrite` finds in the outgoing header map under an ordinary name -/
theorem values_proxyOutHeaders (inH : Hdrs) (k : Bytes) (h1 : k ≠ hTe) (h2 : k ≠ hConnection) (h3 : k ≠ hUpgrade) :
    values (proxyOutHeaders inH) k =
      if k = hForwarded ∨ k = hXFFor ∨ k = hXFHost ∨ k = hXFProto then [] else
      if isHop inH k then [] else values inH k := by
  have hbase : ∀ (b1 b2 : Prop) [Decidable b1] [Decidable b2],
      values (if b2 then set hUpgrade (upgradeType inH) (set hConnection b!"Upgrade"
          (if b1 then set hTe b!"trailers" (inH.filter fun x => !isHop inH x.1) else inH.filter fun x => !isHop inH x.1))
        else (if b1 then set hTe b!"trailers" (inH.filter fun x => !isHop inH x.1) else inH.filter fun x => !isHop inH x.1)) k =
      if isHop inH k then [] else values inH k := by
    intro b1 b2 _ _
    have hf := values_filter (fun n => !isHop inH n) inH k
    by_cases hb1 : b1 <;> by_cases hb2 : b2 <;> simp only [hb1, hb2, if_true, if_false, values_set, h1, h2, h3] <;>
      (rw [hf]; cases isHop inH k <;> simp)
  unfold proxyOutHeaders
  simp only [values_del]
  rw [hbase]
  by_cases e1 : k = hXFProto <;> by_cases e2 : k = hXFHost <;> by_cases e3 : k = hXFFor <;>
    by_cases e4 : k = hForwarded <;> simp [e1, e2, e3, e4]

theorem values_rewriteHeaders (inH : Hdrs) (p : Pipe) (peer inHost fwdHost proto k : Bytes)
    (hH : k ≠ hHost) (hC : k ≠ hCookie ∨ p.cookies = [])
    (h1 : k ≠ hTe) (h2 : k ≠ hConnection) (h3 : k ≠ hUpgrade) :
    values (rewriteHeaders inH p peer inHost fwdHost proto).2 k =
      if xFam inH && k = hXFHost then [if get inH hXFHost = [] then inHost else get inH hXFHost]
      else if xFam inH && k = hXFProto then [if get inH hXFProto = [] then proto else get inH hXFProto]
      else if xFam inH && k = hXFFor then
        [if commaJoin (values inH hXFFor) = [] then peer else commaJoin (values inH hXFFor) ++ b!", " ++ peer]
      else if !xFam inH && k = hForwarded then
        [if commaJoin (values inH hForwarded) = [] then forwardedElem peer inHost proto
         else commaJoin (values inH hForwarded) ++ b!", " ++ forwardedElem peer inHost proto]
      else match firstValue (canonHeaders p.headers) k with
        | some v => [v]
        | none => if untrustedHeaders.contains k || isHop inH k then [] else values inH k := by
  have hout4 : ∀ (h : Hdrs), values ((cookieMap p.cookies).foldl addCookie h) k = values h k := by
    intro h
    rcases hC with hC | hC
    · exact values_foldl_addCookie _ h k hC
    · rw [hC, cookieMap_nil]; rfl
  have hout3 : ∀ (h : Hdrs) (P : Prop) [Decidable P], values (if P then del hHost h else h) k = values h k := by
    intro h P _
    by_cases hP : P
    · simp [hP, values_del, hH]
    · simp [hP]
  have hbase : values ((pipeFirst p.headers).foldl (fun h kv => set kv.1 kv.2 h)
        (proxyOutHeaders inH |> del hXFMethod |> del hXFUri |> del hXFPath)) k =
      match firstValue (canonHeaders p.headers) k with
      | some v => [v]
      | none => if untrustedHeaders.contains k || isHop inH k then [] else values inH k := by
    unfold pipeFirst
    rw [values_pipe]
    cases firstValue (canonHeaders p.headers) k with
    | some v => rfl
    | none =>
      simp only [values_del, values_proxyOutHeaders inH k h1 h2 h3]
      by_cases hu : untrustedHeaders.contains k = true
      · simp only [hu, Bool.true_or, if_true]
        rcases (untrusted_iff k).mp hu with h | h | h | h | h | h | h <;> subst h <;> simp
      · simp only [hu, Bool.false_eq_true, Bool.false_or]
        have hn := (not_congr (untrusted_iff k)).mp hu
        simp only [not_or] at hn
        obtain ⟨n1, n2, n3, n4, n5, n6, n7⟩ := hn
        simp [n1, n2, n3, n4, n5, n6, n7]
  unfold rewriteHeaders
  simp only
  have hx : (decide (commaJoin (values inH hXFFor) ≠ []) || decide (get inH hXFProto ≠ []) ||
      decide (get inH hXFHost ≠ [])) = xFam inH := rfl
  rw [hx]
  cases hX : xFam inH with
  | true =>
    simp only [if_true, Bool.true_and, Bool.not_true, Bool.false_and, values_set, decide_eq_true_eq]
    by_cases e1 : k = hXFHost
    · simp [e1]
    · by_cases e2 : k = hXFProto
      · simp [e1, e2]
      · by_cases e3 : k = hXFFor
        · simp [e1, e2, e3]
        · simp only [e1, e2, e3, if_false, Bool.false_eq_true]
          rw [hout4, hout3, hbase]
  | false =>
    simp only [Bool.false_eq_true, if_false, Bool.false_and, Bool.not_false, Bool.true_and, values_set,
      decide_eq_true_eq]
    by_cases e1 : k = hForwarded
    · simp [e1]
    · simp only [e1, if_false]
      rw [hout4, hout3, hbase]

theorem values_uaLine (h : Hdrs) (k : Bytes) : values (uaLine h) k =
    if k = hUserAgent then (match values h hUserAgent with | v :: _ => if v = [] then [] else [trimOWS v] | [] => [])
    else [] := by
  unfold uaLine wireValue
  by_cases hk : k = hUserAgent
  · subst hk
    simp only [if_true]
    cases hv : values h hUserAgent with
    | nil => rfl
    | cons v tl => by_cases e : v = [] <;> simp [e, values_cons, values_nil]
  · have : ¬ hUserAgent = k := fun e => hk e.symm
    simp only [hk, if_false]
    cases hv : values h hUserAgent with
    | nil => rfl
    | cons v tl => by_cases e : v = [] <;> simp [e, values_cons, values_nil, this]

theorem values_gzipLine (m : Bytes) (h : Hdrs) (k : Bytes) (hk : k ≠ hAcceptEncoding ∨ get h hAcceptEncoding ≠ []) :
    values (gzipLine m h) k = [] := by
  unfold gzipLine
  rcases hk with hk | hk
  · have : ¬ hAcceptEncoding = k := fun e => hk e.symm
    split <;> simp [values_cons, values_nil, this]
  · simp [hk, values_nil]

/-- what `gzipLine` can add under any name: nothing, or the line `Accept-Encoding: gzip` -/
theorem values_gzipLine_mem (m : Bytes) (h : Hdrs) (k w : Bytes) (hw : w ∈ values (gzipLine m h) k) :
    k = hAcceptEncoding ∧ w = b!"gzip" := by
  unfold gzipLine at hw
  split at hw
  · rw [values_cons, values_nil] at hw
    by_cases e : hAcceptEncoding = k
    · simp only [e, if_true, List.mem_singleton] at hw
      exact ⟨e.symm, hw⟩
    · simp [e] at hw
  · simp [values_nil] at hw

/-- values are written without surrounding blanks -/
theorem values_mapValue (f : Bytes → Bytes) (h : Hdrs) (k : Bytes) :
    values (h.map fun x => (x.1, f x.2)) k = (values h k).map f := by
  unfold values
  induction h with
  | nil => rfl
  | cons x l ih =>
    simp only [List.map_cons, List.filter_cons]
    by_cases hx : x.1 = k <;> simp [hx, ih]

/-- header lines written from the header map: every value, in order, without surrounding blanks -/
theorem values_wireHeaders (m : Bytes) (h : Hdrs) (k : Bytes) (hk : Spec.transportOwned k = false)
    (hua : k ≠ hUserAgent) (hae : k ≠ hAcceptEncoding ∨ get h hAcceptEncoding ≠ []) :
    values (wireHeaders m h) k = Spec.asRead (values h k) := by
  unfold Spec.transportOwned at hk
  simp only [Bool.or_eq_false_iff, decide_eq_false_iff_not] at hk
  obtain ⟨⟨⟨h1, h4⟩, h5⟩, h6⟩ := hk
  unfold wireHeaders sortHdrs wireValue Spec.asRead
  rw [values_sortByKey, values_append, values_append, values_uaLine, values_gzipLine m h k hae, values_mapValue]
  simp only [hua, if_false, List.nil_append, List.append_nil]
  rw [values_filter (fun n => !notWritten n)]
  have : notWritten k = false := by
    unfold notWritten
    simp [h1, hua, h4, h5, h6]
  simp [this]

/-- the same without the side condition on `Accept-Encoding`: the line the HTTP client adds may follow -/
theorem values_wireHeaders_gzip (m : Bytes) (h : Hdrs) (k : Bytes) (hk : Spec.transportOwned k = false)
    (hua : k ≠ hUserAgent) :
    values (wireHeaders m h) k = Spec.asRead (values h k) ++ values (gzipLine m h) k := by
  unfold Spec.transportOwned at hk
  simp only [Bool.or_eq_false_iff, decide_eq_false_iff_not] at hk
  obtain ⟨⟨⟨h1, h4⟩, h5⟩, h6⟩ := hk
  unfold wireHeaders sortHdrs wireValue Spec.asRead
  rw [values_sortByKey, values_append, values_append, values_uaLine, values_mapValue]
  simp only [hua, if_false, List.nil_append]
  rw [values_filter (fun n => !notWritten n)]
  have : notWritten k = false := by
    unfold notWritten
    simp [h1, hua, h4, h5, h6]
  simp [this]

/-- `User-Agent` is written from its first value, and only if that is not empty -/
theorem values_wireHeaders_ua (m : Bytes) (h : Hdrs) :
    values (wireHeaders m h) hUserAgent =
      (match values h hUserAgent with | v :: _ => if v = [] then [] else [trimOWS v] | [] => []) := by
  unfold wireHeaders sortHdrs
  have hne : hUserAgent ≠ hAcceptEncoding := by decide
  rw [values_sortByKey, values_append, values_append, values_uaLine, values_gzipLine m h _ (Or.inl hne),
    values_mapValue]
  simp only [if_true, List.append_nil]
  rw [values_filter (fun n => !notWritten n)]
  have : notWritten hUserAgent = true := by decide
  simp [this]

/-! ### the client's headers as heimdall sees them -/

def inHeaders (c : Case) : Hdrs := trustStrip (isTrusted c.trusted c.req.peer) (canonHeaders c.req.headers)

theorem values_inHeaders_fwd (c : Case) (k : Bytes) (hk : untrustedHeaders.contains k = true) :
    values (inHeaders c) k = Spec.believed c k := by
  unfold inHeaders Spec.believed Spec.peerTrusted Spec.clientHeaders
  rw [values_trustStrip, hk]
  cases isTrusted c.trusted c.req.peer <;> simp

theorem values_inHeaders_other (c : Case) (k : Bytes) (hk : untrustedHeaders.contains k = false) :
    values (inHeaders c) k = values (Spec.clientHeaders c) k := by
  unfold inHeaders Spec.clientHeaders
  rw [values_trustStrip, hk]
  simp

theorem get_inHeaders_fwd (c : Case) (k : Bytes) (hk : untrustedHeaders.contains k = true) :
    get (inHeaders c) k = (Spec.believed c k).head?.getD [] := by
  unfold get
  rw [values_inHeaders_fwd c k hk]

/-! ### what `forward` returns -/

def srv (c : Case) (path raw : Bytes) : ServerReq :=
  { method := c.req.method, path := path, rawPath := raw, rawQuery := after '?' c.req.target, host := c.req.host,
    headers := canonHeaders c.req.headers }

theorem xfuri_untrusted : untrustedHeaders.contains hXFUri = true := by decide
theorem xfproto_untrusted : untrustedHeaders.contains hXFProto = true := by decide
theorem xfhost_untrusted : untrustedHeaders.contains hXFHost = true := by decide
theorem xffor_untrusted : untrustedHeaders.contains hXFFor = true := by decide
theorem xfmethod_untrusted : untrustedHeaders.contains hXFMethod = true := by decide
theorem xfpath_untrusted : untrustedHeaders.contains hXFPath = true := by decide
theorem forwarded_untrusted : untrustedHeaders.contains hForwarded = true := by decide

theorem get_xfuri (c : Case) : get (inHeaders c) hXFUri = Spec.believedUri c := by
  unfold Spec.believedUri
  rw [firstOr_nil, get_inHeaders_fwd c _ xfuri_untrusted]

/-- the request line is in the modelled space, and so is the believed `X-Forwarded-Uri` if there is one -/
def inSpace (c : Case) : Prop :=
  modelledTarget c.req.target = true ∧
    (Spec.believedUri c = [] ∨ modelledForwardedUri (Spec.believedUri c) = true)

theorem forward_forwarded (c : Case) (tls : Bool) (dial : Bytes) (up : UpReq)
    (h : forward c = .forwarded tls dial up) :
    ∃ path raw t, inSpace c ∧
      setPath (before '?' c.req.target) = some (path, raw) ∧
      ruleTarget c.rule (extractURL c.req.tls (inHeaders c) (srv c path raw)) = some t ∧
      (t.scheme = b!"http" ∨ t.scheme = b!"https") ∧
      tls = decide (t.scheme = b!"https") ∧ dial = t.host ∧
      up = { method := extractMethod (inHeaders c) (srv c path raw), path := orSlash t.escapedPath,
             query := t.rawQuery,
             host := (rewriteHeaders (inHeaders c) c.pipe c.req.peer c.req.host c.rule.host
               (listenerProto c.req.tls)).1,
             headers := wireHeaders (extractMethod (inHeaders c) (srv c path raw))
               (rewriteHeaders (inHeaders c) c.pipe c.req.peer c.req.host c.rule.host (listenerProto c.req.tls)).2,
             body := c.req.body } := by
  unfold forward at h
  by_cases hm : modelledTarget c.req.target = true
  · simp only [hm, Bool.not_true, Bool.false_eq_true, if_false] at h
    unfold serverParse at h
    cases hs : setPath (before '?' c.req.target) with
    | none => simp [hs] at h
    | some pr =>
      obtain ⟨path, raw⟩ := pr
      simp only [hs, Option.map_some] at h
      split at h
      · exact Outcome.noConfusion h
      · next hun =>
        have hsp : Spec.believedUri c = [] ∨ modelledForwardedUri (Spec.believedUri c) = true := by
          have hg := get_xfuri c
          unfold inHeaders at hg
          rw [hg] at hun
          by_cases e : Spec.believedUri c = []
          · exact Or.inl e
          · right
            simpa [e] using hun
        cases ht : ruleTarget c.rule (extractURL c.req.tls (inHeaders c) (srv c path raw)) with
        | none =>
          simp only [inHeaders, srv] at ht
          simp [ht] at h
        | some t =>
          simp only [inHeaders, srv] at ht
          simp only [ht] at h
          split at h
          · exact Outcome.noConfusion h
          · next hsch =>
            simp only [Outcome.forwarded.injEq] at h
            obtain ⟨h1, h2, h3⟩ := h
            refine ⟨path, raw, t, ⟨hm, hsp⟩, rfl, ?_, ?_, h1.symm, h2.symm, h3.symm⟩
            · simp only [inHeaders, srv]; exact ht
            · simp only [ne_eq, Bool.and_eq_true, decide_eq_true_eq, not_and, Decidable.not_not] at hsch
              by_cases hh : t.scheme = b!"http"
              · exact Or.inl hh
              · exact Or.inr (hsch hh)
  · simp [hm] at h

/-- the target URL always points to `forward_to.host` -/
theorem ruleTarget_host (r : RuleCfg) (v t : Url) (h : ruleTarget r v = some t) : t.host = r.host := by
  have hc : ∀ v', (createURL r v').host = r.host := by
    intro v'
    unfold createURL
    cases r.rewrite <;> rfl
  unfold ruleTarget at h
  cases hs : r.slashes <;> simp only [hs] at h
  · split at h
    · simp at h
    · simp only [Option.some.injEq] at h; rw [← h]; exact hc _
  · simp only [Option.some.injEq] at h; rw [← h]; exact hc _
  · simp only [Option.some.injEq] at h; rw [← h]; exact hc _

/-! ### the URL -/

theorem modelledTarget_head (t : Bytes) (h : modelledTarget t = true) : t.head? = some '/' := by
  unfold modelledTarget at h
  simp only [Bool.and_eq_true, decide_eq_true_eq] at h
  exact h.1.1

theorem before_head (t : Bytes) (h : t.head? = some '/') : (before '?' t).head? = some '/' := by
  cases t with
  | nil => simp at h
  | cons c r =>
    simp only [List.head?_cons, Option.some.injEq] at h
    subst h
    simp [before, List.takeWhile_cons]

theorem modelledForwardedUri_head (v : Bytes) (h : modelledForwardedUri v = true) : v.head? = some '/' := by
  unfold modelledForwardedUri at h
  simp only [Bool.and_eq_true] at h
  exact modelledTarget_head v h.1.1

theorem setPath_isSome (p : Bytes) : (setPath p).isSome = (pathUnescapeL p).isSome := by
  unfold setPath
  cases pathUnescapeL p <;> rfl

/-- The request view: the URL of the request line, or — path, and query if it has one — the `X-Forwarded-Uri` of a
trusted proxy; the path in the received spelling with only the forbidden octets encoded. -/
theorem extractURL_view (c : Case) (path raw : Bytes) (hsp : inSpace c)
    (hset : setPath (before '?' c.req.target) = some (path, raw)) :
    ∃ d, pathUnescapeL (Spec.origRawPath c) = some d ∧ (Spec.origRawPath c).head? = some '/' ∧
      extractURL c.req.tls (inHeaders c) (srv c path raw) =
        { scheme := Spec.origScheme c, host := (extractURL c.req.tls (inHeaders c) (srv c path raw)).host,
          path := d, rawPath := escapeInvalid (Spec.origRawPath c), rawQuery := Spec.origQuery c } := by
  obtain ⟨hm, hfu⟩ := hsp
  have hhead := before_head _ (modelledTarget_head _ hm)
  obtain ⟨hdec, hcp⟩ := clientPath_setPath _ path raw hhead hset
  have hx := get_xfuri c
  have hsch : Spec.origScheme c =
      if get (inHeaders c) hXFProto ≠ [] then get (inHeaders c) hXFProto else listenerProto c.req.tls := by
    unfold Spec.origScheme
    rw [firstOr_eq, get_inHeaders_fwd c _ xfproto_untrusted]
  -- the request line counts
  have plain : Spec.usesForwardedUri c = false →
      (get (inHeaders c) hXFUri = [] ∨ setPath (before '?' (get (inHeaders c) hXFUri)) = none) →
      ∃ d, pathUnescapeL (Spec.origRawPath c) = some d ∧ (Spec.origRawPath c).head? = some '/' ∧
      extractURL c.req.tls (inHeaders c) (srv c path raw) =
        { scheme := Spec.origScheme c, host := (extractURL c.req.tls (inHeaders c) (srv c path raw)).host,
          path := d, rawPath := escapeInvalid (Spec.origRawPath c), rawQuery := Spec.origQuery c } := by
    intro hu hnone
    have ho : Spec.origTarget c = c.req.target := by unfold Spec.origTarget; simp [hu]
    have hq : Spec.origQuery c = after '?' c.req.target := by unfold Spec.origQuery; rw [ho]; simp
    refine ⟨path, by unfold Spec.origRawPath; rw [ho]; exact hdec,
      by unfold Spec.origRawPath; rw [ho]; exact hhead, ?_⟩
    have hparsed : (if get (inHeaders c) hXFUri = [] then (none : Option (Bytes × Bytes)) else
        (setPath (before '?' (get (inHeaders c) hXFUri))).map fun pr =>
          (clientPath pr.1 pr.2, after '?' (get (inHeaders c) hXFUri))) = none := by
      rcases hnone with e | e
      · simp [e]
      · simp [e]
    unfold extractURL
    simp only [hparsed, Option.map_none, Option.getD_none, if_true]
    simp only [srv, hcp]
    rw [hsch, hq]
    unfold Spec.origRawPath
    rw [ho]
    have : (pathUnescapeL (escapeInvalid (before '?' c.req.target))).getD [] = path := by
      rw [escapeInvalid_decodes _ path hdec]; rfl
    simp only [this]
  by_cases hv : Spec.believedUri c = []
  · exact plain (by unfold Spec.usesForwardedUri; simp [hv]) (Or.inl (by rw [hx]; exact hv))
  · have hmf : modelledForwardedUri (Spec.believedUri c) = true := by
      rcases hfu with e | e
      · exact absurd e hv
      · exact e
    have hvh := before_head _ (modelledForwardedUri_head _ hmf)
    cases hs2 : setPath (before '?' (Spec.believedUri c)) with
    | none =>
      have hdn : (pathUnescapeL (before '?' (Spec.believedUri c))).isSome = false := by
        rw [← setPath_isSome, hs2]; rfl
      exact plain (by unfold Spec.usesForwardedUri; simp [hdn]) (Or.inr (by rw [hx]; exact hs2))
    | some pr =>
      obtain ⟨p2, r2⟩ := pr
      obtain ⟨hdec2, hcp2⟩ := clientPath_setPath _ p2 r2 hvh hs2
      have hu : Spec.usesForwardedUri c = true := by
        unfold Spec.usesForwardedUri
        simp [hv, hdec2]
      have ho : Spec.origTarget c = Spec.believedUri c := by unfold Spec.origTarget; simp [hu]
      have hne : escapeInvalid (before '?' (Spec.believedUri c)) ≠ [] := by
        apply escapeInvalid_ne_nil
        intro e
        rw [e] at hvh
        simp at hvh
      refine ⟨p2, by unfold Spec.origRawPath; rw [ho]; exact hdec2,
        by unfold Spec.origRawPath; rw [ho]; exact hvh, ?_⟩
      unfold extractURL
      simp only [hx, hv, if_false, hs2, Option.map_some, Option.getD_some, hcp2, hne]
      simp only [srv]
      rw [hsch]
      have hdd : (pathUnescapeL (escapeInvalid (before '?' (Spec.believedUri c)))).getD [] = p2 := by
        rw [escapeInvalid_decodes _ p2 hdec2]; rfl
      unfold Spec.origRawPath Spec.origQuery
      rw [ho, hdd]
      by_cases hq : after '?' (Spec.believedUri c) = [] <;> simp [hq]

theorem createURL_scheme (r : RuleCfg) (v : Url) : (createURL r v).scheme =
    match r.rewrite with
    | some rw => if rw.scheme ≠ [] then rw.scheme else v.scheme
    | none => v.scheme := by
  unfold createURL
  cases r.rewrite <;> rfl

theorem createURL_query (r : RuleCfg) (v : Url) :
    (createURL r v).rawQuery = removeParams ((r.rewrite.map (·.stripQ)).getD []) v.rawQuery := by
  unfold createURL
  cases r.rewrite with
  | none => simp [removeParams]
  | some rw => rfl

theorem createURL_escapedPath (r : RuleCfg) (v : Url) : (createURL r v).escapedPath =
    match r.rewrite with
    | some rw => (rw.apply { scheme := v.scheme, host := r.host, path := v.path, rawPath := v.rawPath,
                             rawQuery := v.rawQuery }).escapedPath
    | none => escapedPath v.path v.rawPath := by
  unfold createURL
  cases r.rewrite <;> rfl

/-- the URL the rule forwards to is built from the request view; with `on` its raw path is forgotten first, with `off`
an encoded slash in it is refused -/
theorem ruleTarget_some (r : RuleCfg) (v t : Url) (h : ruleTarget r v = some t) :
    t = createURL r { v with rawPath := if r.slashes = .on then [] else v.rawPath } ∧
    (r.slashes = .off → containsEncodedSlashL v.rawPath = false) := by
  unfold ruleTarget at h
  cases hs : r.slashes <;> simp only [hs] at h
  · split at h
    · simp at h
    · next hn =>
      simp only [Option.some.injEq] at h
      refine ⟨by rw [← h]; simp, fun _ => by simpa using hn⟩
  · simp only [Option.some.injEq] at h
    exact ⟨by rw [← h]; simp, fun e => by simp at e⟩
  · simp only [Option.some.injEq] at h
    exact ⟨by rw [← h]; simp, fun e => by simp at e⟩

theorem seenPath_off (c : Case) (h : c.rule.slashes ≠ .on) : Spec.seenPath c = escapeInvalid (Spec.origRawPath c) := by
  unfold Spec.seenPath
  simp [h]

theorem seenPath_on (c : Case) (h : c.rule.slashes = .on) :
    Spec.seenPath c = escapePath ((pathUnescapeL (Spec.origRawPath c)).getD []) := by
  unfold Spec.seenPath
  simp [h]

/-- the spelling of the original path `Rewrite` starts from -/
theorem seen_escapedPath (c : Case) (path : Bytes) (hhead : (Spec.origRawPath c).head? = some '/')
    (hdec : pathUnescapeL (Spec.origRawPath c) = some path) :
    escapedPath path (if c.rule.slashes = .on then [] else escapeInvalid (Spec.origRawPath c)) = Spec.seenPath c := by
  have hne : Spec.origRawPath c ≠ [] := by
    intro e
    rw [e] at hhead
    simp at hhead
  by_cases hon : c.rule.slashes = .on
  · simp only [hon, if_true]
    rw [seenPath_on c hon, hdec]
    have hstar : path ≠ ['*'] := by
      cases hb : Spec.origRawPath c with
      | nil => exact absurd hb hne
      | cons ch r =>
        rw [hb] at hhead hdec
        simp only [List.head?_cons, Option.some.injEq] at hhead
        subst hhead
        exact head_slash_ne_star path (pathUnescapeL_head_slash r path hdec)
    exact escapedPath_nil path hstar
  · simp only [hon, if_false]
    rw [seenPath_off c hon]
    exact escapedPath_keep _ _ (escapeInvalid_ne_nil _ hne) (escapeInvalid_valid _) (escapeInvalid_decodes _ path hdec)

theorem seenPath_decodes (c : Case) (path : Bytes) (hdec : pathUnescapeL (Spec.origRawPath c) = some path) :
    pathUnescapeL (Spec.seenPath c) = some path := by
  by_cases hon : c.rule.slashes = .on
  · rw [seenPath_on c hon, hdec]; exact pathUnescapeL_escapePath path
  · rw [seenPath_off c hon]; exact escapeInvalid_decodes _ path hdec

theorem orSlash_decodes (a b : Bytes) (h : pathUnescapeL a = pathUnescapeL b) (ha : (pathUnescapeL a).isSome = true) :
    pathUnescapeL (orSlash a) = pathUnescapeL (orSlash b) ∧ (pathUnescapeL (orSlash a)).isSome = true := by
  unfold orSlash
  by_cases hae : a = []
  · subst hae
    have hb : b = [] := pathUnescapeL_eq_nil b (by rw [← h]; rfl)
    subst hb
    exact ⟨rfl, rfl⟩
  · have hbe : b ≠ [] := by
      intro e
      subst e
      exact hae (pathUnescapeL_eq_nil a (by rw [h]; rfl))
    simp only [hae, hbe, if_false]
    exact ⟨h, ha⟩

/-- `forward` on a request in the modelled space whose path can be decoded -/
theorem forward_wellFormed (c : Case) (hw : Spec.wellFormed c = true) :
    ∃ path raw, inSpace c ∧ setPath (before '?' c.req.target) = some (path, raw) ∧
      forward c =
        match ruleTarget c.rule (extractURL c.req.tls (inHeaders c) (srv c path raw)) with
        | none => .rejected 400
        | some t =>
          if t.scheme ≠ b!"http" && t.scheme ≠ b!"https" then .rejected 502 else
          .forwarded (t.scheme = b!"https") t.host
            { method := extractMethod (inHeaders c) (srv c path raw), path := orSlash t.escapedPath,
              query := t.rawQuery,
              host := (rewriteHeaders (inHeaders c) c.pipe c.req.peer c.req.host c.rule.host
                (listenerProto c.req.tls)).1,
              headers := wireHeaders (extractMethod (inHeaders c) (srv c path raw))
                (rewriteHeaders (inHeaders c) c.pipe c.req.peer c.req.host c.rule.host (listenerProto c.req.tls)).2,
              body := c.req.body } := by
  unfold Spec.wellFormed at hw
  simp only [Bool.and_eq_true, Bool.or_eq_true, decide_eq_true_eq] at hw
  obtain ⟨⟨hm, hd⟩, hfu⟩ := hw
  cases hdec : pathUnescapeL (before '?' c.req.target) with
  | none => simp [hdec] at hd
  | some d =>
    have hset : setPath (before '?' c.req.target) =
        some (d, if escapePath d = before '?' c.req.target then [] else before '?' c.req.target) := by
      unfold setPath
      rw [hdec]; rfl
    refine ⟨_, _, ⟨hm, hfu⟩, hset, ?_⟩
    have hx := get_xfuri c
    unfold forward
    simp only [hm, Bool.not_true, Bool.false_eq_true, if_false]
    unfold serverParse
    simp only [hset, Option.map_some]
    have hx' : get (trustStrip (isTrusted c.trusted c.req.peer) (canonHeaders c.req.headers)) hXFUri =
        Spec.believedUri c := hx
    have hnot : (decide (Spec.believedUri c ≠ []) && !modelledForwardedUri (Spec.believedUri c)) = false := by
      rcases hfu with e | e
      · simp [e]
      · simp [e]
    simp only [hx', hnot, Bool.false_eq_true, if_false]
    rfl

/-- the rule's URL in terms of the original request -/
theorem target_path (c : Case) (tls : Bool) (dial : Bytes) (up : UpReq) (h : forward c = .forwarded tls dial up) :
    ∃ path u, pathUnescapeL (Spec.origRawPath c) = some path ∧ (Spec.origRawPath c).head? = some '/' ∧
      u.escapedPath = Spec.seenPath c ∧
      u.rawPath = (if c.rule.slashes = .on then [] else escapeInvalid (Spec.origRawPath c)) ∧
      (c.rule.slashes = .off → containsEncodedSlashL (Spec.origRawPath c) = false) ∧
      up.path = orSlash (match c.rule.rewrite with
        | some rw => (rw.apply u).escapedPath
        | none => Spec.seenPath c) := by
  obtain ⟨path, raw, t, hsp, hset, ht, _, _, _, hup⟩ := forward_forwarded c tls dial up h
  obtain ⟨d, hdec, hhead, hurl⟩ := extractURL_view c path raw hsp hset
  obtain ⟨hte, hoff⟩ := ruleTarget_some _ _ _ ht
  rw [hurl] at hte hoff
  refine ⟨d, ⟨Spec.origScheme c, c.rule.host, d,
      if c.rule.slashes = .on then [] else escapeInvalid (Spec.origRawPath c), Spec.origQuery c⟩,
      hdec, hhead, seen_escapedPath c d hhead hdec, rfl, ?_, ?_⟩
  · intro ho
    have := hoff ho
    simp only at this
    rw [containsEncodedSlashL_escapeInvalid] at this
    exact this
  · rw [hup, hte, createURL_escapedPath]
    cases c.rule.rewrite with
    | none => simp only; rw [seen_escapedPath c d hhead hdec]
    | some rw => rfl

theorem target_query (c : Case) (tls : Bool) (dial : Bytes) (up : UpReq) (h : forward c = .forwarded tls dial up) :
    up.query = removeParams (Spec.stripNames c) (Spec.origQuery c) := by
  obtain ⟨path, raw, t, hsp, hset, ht, _, _, _, hup⟩ := forward_forwarded c tls dial up h
  obtain ⟨_, _, _, hurl⟩ := extractURL_view c path raw hsp hset
  obtain ⟨hte, _⟩ := ruleTarget_some _ _ _ ht
  rw [hup, hte, createURL_query, hurl]
  rfl


/-! ### specification vocabulary and the model's header map -/

theorem isHop_inHeaders (c : Case) (k : Bytes) : isHop (inHeaders c) k = Spec.hopByHop c k := by
  unfold isHop Spec.hopByHop isHop connectionNamed
  rw [values_inHeaders_other c hConnection (by decide)]

theorem firstValue_pipe (c : Case) (k : Bytes) :
    firstValue (canonHeaders c.pipe.headers) k = (Spec.pipeValues c k).head? := by
  rw [firstValue_canonHeaders]
  unfold Spec.pipeValues
  rw [List.head?_map]

/-- the value if there is one, else the given lines -/
def oneOr (o : Option Bytes) (d : List Bytes) : List Bytes :=
  match o with
  | some v => [v]
  | none => d

/-- what the model's outgoing header map holds under an ordinary name -/
theorem model_values (c : Case) (k : Bytes) (hH : k ≠ hHost) (hC : k ≠ hCookie ∨ c.pipe.cookies = [])
    (h1 : k ≠ hTe) (h2 : k ≠ hConnection) (h3 : k ≠ hUpgrade) (hcn : k ≠ Spec.continuedName c) :
    values (rewriteHeaders (inHeaders c) c.pipe c.req.peer c.req.host c.rule.host (listenerProto c.req.tls)).2 k =
      if Spec.xFamily c && k = hXFHost then [Spec.firstOr (Spec.believed c hXFHost) c.req.host]
      else if Spec.xFamily c && k = hXFProto then [Spec.firstOr (Spec.believed c hXFProto) (listenerProto c.req.tls)]
      else oneOr (Spec.pipeValues c k).head? (Spec.endToEnd c k) := by
  have hxf : xFam (inHeaders c) = Spec.xFamily c := by
    unfold xFam Spec.xFamily Spec.priorFor
    rw [values_inHeaders_fwd c _ xffor_untrusted, firstOr_nil, firstOr_nil,
      get_inHeaders_fwd c _ xfproto_untrusted, get_inHeaders_fwd c _ xfhost_untrusted]
  rw [values_rewriteHeaders _ _ _ _ _ _ _ hH hC h1 h2 h3, hxf, firstValue_pipe, isHop_inHeaders]
  unfold Spec.continuedName at hcn
  have hend : (if (untrustedHeaders.contains k || Spec.hopByHop c k) = true then [] else values (inHeaders c) k) =
      Spec.endToEnd c k := by
    unfold Spec.endToEnd
    cases hu : untrustedHeaders.contains k with
    | true => cases Spec.hopByHop c k <;> rfl
    | false =>
      rw [values_inHeaders_other c k hu]
      cases Spec.hopByHop c k <;> rfl
  by_cases hX : Spec.xFamily c = true
  · simp only [hX, if_true] at hcn
    simp only [hX, Bool.true_and, Bool.not_true, Bool.false_and, Bool.false_eq_true, if_false, decide_eq_true_eq]
    by_cases e1 : k = hXFHost
    · subst e1
      simp only [if_true]
      rw [firstOr_eq, get_inHeaders_fwd c _ xfhost_untrusted]
      by_cases hg : (Spec.believed c hXFHost).head?.getD [] = [] <;> simp [hg]
    · by_cases e2 : k = hXFProto
      · subst e2
        simp only [e1, if_false, if_true]
        rw [firstOr_eq, get_inHeaders_fwd c _ xfproto_untrusted]
        by_cases hg : (Spec.believed c hXFProto).head?.getD [] = [] <;> simp [hg]
      · simp only [e1, e2, hcn, if_false]
        unfold oneOr
        cases (Spec.pipeValues c k).head? with
        | some v => rfl
        | none => exact hend
  · have hX' : Spec.xFamily c = false := by simpa using hX
    simp only [hX', Bool.false_eq_true, if_false] at hcn
    simp only [hX', Bool.false_and, Bool.false_eq_true, if_false, Bool.not_false, Bool.true_and, decide_eq_true_eq,
      hcn]
    unfold oneOr
    cases (Spec.pipeValues c k).head? with
    | some v => rfl
    | none => exact hend


theorem single_valued (c : Case) (h : Spec.pipeSingleValued c = true) (k : Bytes) :
    Spec.repeatedPipeName c k = false := by
  unfold Spec.repeatedPipeName
  simp only [ge_iff_le, decide_eq_false_iff_not, Nat.not_le]
  unfold Spec.pipeSingleValued at h
  rw [List.all_eq_true] at h
  cases hf : c.pipe.headers.filter (fun x => canonicalKey x.1 = k) with
  | nil => simp [Spec.pipeValues, hf]
  | cons x rest =>
    have hx : x ∈ c.pipe.headers.filter (fun x => canonicalKey x.1 = k) := by rw [hf]; simp
    have hxk : canonicalKey x.1 = k := by simpa using (List.mem_filter.mp hx).2
    have := h x (List.mem_filter.mp hx).1
    rw [hxk] at this
    simp only [decide_eq_true_eq] at this
    omega

theorem avoids_continued (c : Case) (h : Spec.pipeAvoidsContinued c = true) (k : Bytes) :
    Spec.pipeContinued c k = false := by
  by_cases hc : Spec.continued c k = true
  · have hu : k ∈ untrustedHeaders := by
      unfold Spec.continued at hc
      cases hx : Spec.xFamily c
      · simp only [hx, Bool.false_eq_true, if_false, decide_eq_true_eq] at hc
        subst hc; decide
      · simp only [hx, if_true, Bool.or_eq_true, decide_eq_true_eq] at hc
        rcases hc with (e | e) | e <;> subst e <;> decide
    unfold Spec.pipeAvoidsContinued at h
    rw [List.all_eq_true] at h
    simpa using h k hu
  · simp [Spec.pipeContinued, hc]


end Heimdall.ProxyFwd
