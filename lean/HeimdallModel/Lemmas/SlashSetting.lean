import HeimdallModel.Spec.SlashSetting
import HeimdallModel.Lemmas.Table
/-!
Lemmas for the encoded-slash setting of routes (property C08): a predicate on the values of a routing table is kept
by `add` / `del`, hence by every change of the repository whose rules satisfy it; two matchers that agree on the
values of a table answer every lookup alike.
-/
namespace Heimdall

variable {V : Type}

/-- every value stored in the table satisfies `P` -/
def AllVals (P : V → Prop) (t : Table V) : Prop := ∀ n ∈ t, ∀ v ∈ n.values, P v

theorem allVals_nil (P : V → Prop) : AllVals P ([] : Table V) := fun _ h => by cases h

theorem allVals_below {P : V → Prop} {t : Table V} (h : AllVals P t) (p : PTok) : AllVals P (below t p) := by
  intro n hn v hv
  unfold below at hn
  obtain ⟨a, ha, hfa⟩ := List.mem_filterMap.mp hn
  cases hp : a.pat with
  | nil => simp [hp] at hfa
  | cons q rest =>
    simp only [hp] at hfa
    by_cases hq : q = p
    · simp only [hq, if_true, Option.some.injEq] at hfa
      subst hfa
      exact h a ha v hv
    · simp [hq] at hfa

theorem allVals_here {P : V → Prop} {t : Table V} (h : AllVals P t) {n : Node V} (hn : here t = some n) :
    ∀ v ∈ n.values, P v := h n (List.mem_of_find?_eq_some hn)

theorem allVals_addPat {P : V → Prop} {canAdd : List V → V → Bool} {t t' : Table V} {pat : List PTok}
    {keys : List String} {v : V} {bt : Bool} (h : AllVals P t) (hv : P v)
    (ha : addPat canAdd t pat keys v bt = .ok t') : AllVals P t' := by
  unfold addPat at ha
  cases hg : getNode t pat with
  | none =>
    simp only [hg] at ha
    split at ha
    · cases ha
      intro n hn w hw
      rcases List.mem_append.mp hn with hn | hn
      · exact h n hn w hw
      · simp only [List.mem_singleton] at hn
        subst hn
        simp only [List.mem_singleton] at hw
        subst hw
        exact hv
    · cases ha
  | some n0 =>
    simp only [hg] at ha
    split at ha
    · cases ha
    · split at ha
      · cases ha
      · cases ha
        intro n hn w hw
        obtain ⟨a, ha', rfl⟩ := List.mem_map.mp hn
        by_cases hp : a.pat = pat
        · simp only [hp, if_true] at hw
          rcases List.mem_append.mp hw with hw | hw
          · exact h a ha' w hw
          · simp only [List.mem_singleton] at hw
            subst hw
            exact hv
        · simp only [hp, if_false] at hw
          exact h a ha' w hw

theorem allVals_add {P : V → Prop} {canAdd : List V → V → Bool} {t t' : Table V} {e : String}
    {v : V} {bt : Bool} (h : AllVals P t) (hv : P v) (ha : add canAdd t e v bt = .ok t') : AllVals P t' := by
  unfold add at ha
  cases hp : parsePat e with
  | error _ => simp [hp] at ha
  | ok pk =>
    obtain ⟨pat, keys⟩ := pk
    simp only [hp] at ha
    exact allVals_addPat h hv ha

theorem allVals_delPat {P : V → Prop} {t t' : Table V} {pat : List PTok} {p : V → Bool} (h : AllVals P t)
    (hd : delPat t pat p = some t') : AllVals P t' := by
  unfold delPat at hd
  cases hg : getNode t pat with
  | none => simp [hg] at hd
  | some n0 =>
    simp only [hg] at hd
    split at hd
    · cases hd
      intro n hn w hw
      obtain ⟨a, ha, hfa⟩ := List.mem_filterMap.mp hn
      by_cases hp : a.pat = pat
      · simp only [hp, if_true] at hfa
        split at hfa
        · cases hfa
        · cases hfa
          exact h a ha w (List.mem_filter.mp hw).1
      · simp only [hp, if_false, Option.some.injEq] at hfa
        subst hfa
        exact h a ha w hw
    · cases hd

theorem allVals_del {P : V → Prop} {t t' : Table V} {e : String} {p : V → Bool} (h : AllVals P t)
    (hd : del t e p = some t') : AllVals P t' := allVals_delPat h hd

/-! ### two matchers that agree on the values of the table -/

theorem find?_congr_mem {α} (p q : α → Bool) : ∀ (l : List α), (∀ x ∈ l, p x = q x) → l.find? p = l.find? q
  | [], _ => rfl
  | a :: l, h => by
    rw [List.find?_cons, List.find?_cons, h a (List.mem_cons_self ..),
      find?_congr_mem p q l (fun x hx => h x (List.mem_cons_of_mem _ hx))]

theorem tryNode_congr (m₁ m₂ : V → List String → List String → Bool) (n : Node V) (caps : List String)
    (h : ∀ v ∈ n.values, ∀ keys caps, m₁ v keys caps = m₂ v keys caps) : tryNode m₁ n caps = tryNode m₂ n caps := by
  unfold tryNode
  have : n.values.find? (fun v => m₁ v n.keys caps) = n.values.find? (fun v => m₂ v n.keys caps) :=
    find?_congr_mem _ _ _ fun v hv => h v hv n.keys caps
  rw [this]

theorem leafRes_congr (m₁ m₂ : V → List String → List String → Bool) (t : Table V) (caps : List String)
    (h : AllVals (fun v => ∀ keys caps, m₁ v keys caps = m₂ v keys caps) t) : leafRes m₁ t caps = leafRes m₂ t caps := by
  unfold leafRes
  cases hh : here t with
  | none => rfl
  | some n => exact tryNode_congr m₁ m₂ n caps (allVals_here h hh)

theorem catchRes_congr (m₁ m₂ : V → List String → List String → Bool) (t : Table V) (toks : List Tok)
    (caps : List String) (h : AllVals (fun v => ∀ keys caps, m₁ v keys caps = m₂ v keys caps) t) :
    catchRes m₁ t toks caps = catchRes m₂ t toks caps := by
  unfold catchRes
  cases hh : here (below t .catchAll) with
  | none => rfl
  | some n => exact tryNode_congr m₁ m₂ n _ (allVals_here (allVals_below h _) hh)

/-- matchers that agree on every value stored in the table answer every search alike -/
theorem find_matcher_congr (m₁ m₂ : V → List String → List String → Bool) (toks : List Tok) :
    ∀ (t : Table V) (caps : List String),
      AllVals (fun v => ∀ keys caps, m₁ v keys caps = m₂ v keys caps) t → find m₁ t toks caps = find m₂ t toks caps := by
  induction toks with
  | nil => intro t caps h; simp only [find]; exact leafRes_congr m₁ m₂ t caps h
  | cons tok rest ih =>
    intro t caps h
    simp only [find]
    rw [ih (below t (.lit (tokStr tok))) caps (allVals_below h _), catchRes_congr m₁ m₂ t (tok :: rest) caps h]
    cases tok with
    | sep => rfl
    | seg sg => simp only []; rw [ih (below t .wild) (caps ++ [sg]) (allVals_below h _)]

theorem lookup_matcher_congr (m₁ m₂ : V → List String → List String → Bool) (t : Table V) (path : String)
    (h : AllVals (fun v => ∀ keys caps, m₁ v keys caps = m₂ v keys caps) t) : lookup m₁ t path = lookup m₂ t path := by
  unfold lookup
  rw [find_matcher_congr m₁ m₂ _ t [] h]

/-! ### the repository keeps a predicate its rules satisfy -/

/-- the entries a rule contributes to the index satisfy `P` -/
def RuleVals (P : RVal → Prop) (r : Rule) : Prop :=
  ∀ rt ∈ r.cfg.routes, P ⟨r.cfg.id, r.src, r.cfg.esh, rt.2, r.cfg.ver⟩

theorem allVals_addRoutes {P : RVal → Prop} (r : Rule) :
    ∀ (routes : List (String × RouteM)) (t t' : Table RVal), AllVals P t →
      (∀ rt ∈ routes, P ⟨r.cfg.id, r.src, r.cfg.esh, rt.2, r.cfg.ver⟩) → addRoutes t r routes = some t' →
      AllVals P t' := by
  intro routes
  induction routes with
  | nil => intro t t' h _ ha; simp only [addRoutes, Option.some.injEq] at ha; subst ha; exact h
  | cons rt rest ih =>
    intro t t' h hr ha
    obtain ⟨p, m⟩ := rt
    simp only [addRoutes] at ha
    cases hadd : add sameSource t p ⟨r.cfg.id, r.src, r.cfg.esh, m, r.cfg.ver⟩ r.cfg.bt with
    | error e => simp [hadd] at ha
    | ok t1 =>
      simp only [hadd] at ha
      exact ih t1 t' (allVals_add h (hr (p, m) (List.mem_cons_self ..)) hadd)
        (fun rt hrt => hr rt (List.mem_cons_of_mem _ hrt)) ha

theorem allVals_addRules {P : RVal → Prop} :
    ∀ (rs : List Rule) (t t' : Table RVal), AllVals P t → (∀ r ∈ rs, RuleVals P r) → addRules t rs = some t' →
      AllVals P t' := by
  intro rs
  induction rs with
  | nil => intro t t' h _ ha; simp only [addRules, Option.some.injEq] at ha; subst ha; exact h
  | cons r rest ih =>
    intro t t' h hr ha
    simp only [addRules] at ha
    cases h1 : addRoutes t r r.cfg.routes with
    | none => simp [h1] at ha
    | some t1 =>
      simp only [h1] at ha
      exact ih t1 t' (allVals_addRoutes r _ t t1 h (hr r (List.mem_cons_self ..)) h1)
        (fun r' hr' => hr r' (List.mem_cons_of_mem _ hr')) ha

theorem allVals_removeRoutes {P : RVal → Prop} (r : Rule) :
    ∀ (routes : List (String × RouteM)) (t t' : Table RVal) (seen seen' : List (String × String)), AllVals P t →
      removeRoutes t r seen routes = some (t', seen') → AllVals P t' := by
  intro routes
  induction routes with
  | nil =>
    intro t t' seen seen' h ha
    simp only [removeRoutes, Option.some.injEq, Prod.mk.injEq] at ha
    rw [← ha.1]; exact h
  | cons rt rest ih =>
    intro t t' seen seen' h ha
    obtain ⟨p, m⟩ := rt
    simp only [removeRoutes] at ha
    split at ha
    · exact ih t t' seen seen' h ha
    · cases hd : del t p (fun v => v.rid == r.cfg.id && v.src == r.src) with
      | none => simp [hd] at ha
      | some t1 =>
        simp only [hd] at ha
        exact ih t1 t' _ seen' (allVals_del h hd) ha

theorem allVals_removeRules {P : RVal → Prop} :
    ∀ (rs : List Rule) (t t' : Table RVal) (seen : List (String × String)), AllVals P t →
      removeRules t seen rs = some t' → AllVals P t' := by
  intro rs
  induction rs with
  | nil => intro t t' seen h ha; simp only [removeRules, Option.some.injEq] at ha; subst ha; exact h
  | cons r rest ih =>
    intro t t' seen h ha
    simp only [removeRules] at ha
    cases h1 : removeRoutes t r seen r.cfg.routes with
    | none => simp [h1] at ha
    | some ts =>
      obtain ⟨t1, seen1⟩ := ts
      simp only [h1] at ha
      exact ih t1 t' seen1 (allVals_removeRoutes r _ t t1 seen seen1 h h1) ha

theorem ruleVals_of_coherent {src : String} {c : RuleCfg} (h : c.coherent) : RuleVals RVal.coherent (Rule.mk src c) := by
  intro rt hrt
  exact h rt hrt

theorem allVals_apply {s s' : Repo} {op : RepoOp} (h : AllVals RVal.coherent s.index)
    (hc : ∀ c ∈ op.rules, c.coherent) (ha : s.apply op = some s') : AllVals RVal.coherent s'.index := by
  have hrules : ∀ (src : String) (rules : List RuleCfg), (∀ c ∈ rules, c.coherent) →
      ∀ r ∈ rules.map (Rule.mk src), RuleVals RVal.coherent r := by
    intro src rules hcs r hr
    obtain ⟨c, hcm, rfl⟩ := List.mem_map.mp hr
    exact ruleVals_of_coherent (hcs c hcm)
  cases op with
  | add src rules =>
    simp only [Repo.apply, Repo.addRuleSet] at ha
    cases h1 : addRules s.index (rules.map (Rule.mk src)) with
    | none => simp [h1] at ha
    | some t =>
      simp only [h1, Option.some.injEq] at ha
      subst ha
      exact allVals_addRules _ _ t h (hrules src rules hc) h1
  | upd src rules =>
    simp only [Repo.apply, Repo.updateRuleSet] at ha
    cases h1 : removeRules s.index [] (s.known.filter (·.src == src)) with
    | none => simp [h1] at ha
    | some t1 =>
      simp only [h1] at ha
      cases h2 : addRules t1 (rules.map (Rule.mk src)) with
      | none => simp [h2] at ha
      | some t2 =>
        simp only [h2, Option.some.injEq] at ha
        subst ha
        exact allVals_addRules _ _ t2 (allVals_removeRules _ _ t1 [] h h1) (hrules src rules hc) h2
  | del src =>
    simp only [Repo.apply, Repo.deleteRuleSet] at ha
    cases h1 : removeRules s.index [] (s.known.filter (·.src == src)) with
    | none => simp [h1] at ha
    | some t =>
      simp only [h1, Option.some.injEq] at ha
      subst ha
      exact allVals_removeRules _ _ t [] h h1

theorem allVals_step {s : Repo} {op : RepoOp} (h : AllVals RVal.coherent s.index)
    (hc : ∀ c ∈ op.rules, c.coherent) : AllVals RVal.coherent (s.step op).index := by
  unfold Repo.step
  cases ha : s.apply op with
  | none => exact h
  | some s' => exact allVals_apply h hc ha

theorem allVals_foldl (ops : List RepoOp) : ∀ s : Repo, AllVals RVal.coherent s.index → CoherentHistory ops →
    AllVals RVal.coherent (ops.foldl Repo.step s).index := by
  induction ops with
  | nil => intro s h _; exact h
  | cons op rest ih =>
    intro s h hc
    exact ih _ (allVals_step h (hc op (List.mem_cons_self ..)))
      (fun o ho => hc o (List.mem_cons_of_mem _ ho))

theorem allVals_run (ops : List RepoOp) (hc : CoherentHistory ops) : AllVals RVal.coherent (Repo.run ops).index :=
  allVals_foldl ops Repo.empty (allVals_nil _) hc

/-- one `path_params` condition as implemented = its specification under the same setting -/
theorem ppOk_eq_ppSpec (esh : SlashHandling) (q : ReqView) (keys caps : List String) (pp : String × TM) :
    ppOk esh q keys caps pp = ppSpec esh q keys caps pp := by
  unfold ppOk ppSpec exposedValue
  cases lookupKey keys caps pp.1 with
  | none => rfl
  | some raw =>
    cases he : q.rawPath.isEmpty <;> cases hs : containsEncodedSlash q.rawPath <;> cases esh <;> simp

end Heimdall
