import HeimdallModel.Lemmas.Table
import HeimdallModel.Model.Repo
/-!
Closed form of the index: the table reached by adding routes one after the other is, node by node, the fold of
`stepNode` over the routes registered for that node's expression (`expected`).
-/
namespace Heimdall

/-- one route of one rule, as it is registered in the tree -/
structure Item where
  pat  : List PTok
  keys : List String
  val  : RVal
  bt   : Bool
deriving Repr

def mkItem (r : Rule) (route : String × RouteM) : Option Item :=
  match parsePat route.1 with
  | .ok (pat, keys) => some ⟨pat, keys, ⟨r.cfg.id, r.src, r.cfg.esh, route.2, r.cfg.ver⟩, r.cfg.bt⟩
  | .error _ => none

def ruleItems (r : Rule) : List (Option Item) := r.cfg.routes.map (mkItem r)

def allItems (rs : List Rule) : List (Option Item) := rs.flatMap ruleItems

def addItem (t : Table RVal) (i : Item) : Option (Table RVal) :=
  match addPat sameSource t i.pat i.keys i.val i.bt with
  | .ok t' => some t'
  | .error _ => none

def addItems (t : Table RVal) : List (Option Item) → Option (Table RVal)
  | [] => some t
  | none :: _ => none
  | some i :: rest =>
    match addItem t i with
    | some t' => addItems t' rest
    | none => none

theorem addRoutes_eq (t : Table RVal) (r : Rule) (routes : List (String × RouteM)) :
    addRoutes t r routes = addItems t (routes.map (mkItem r)) := by
  induction routes generalizing t with
  | nil => rfl
  | cons rt rest ih =>
    obtain ⟨p, m⟩ := rt
    simp only [addRoutes, List.map_cons, mkItem, add]
    cases hp : parsePat p with
    | error e => simp [addItems]
    | ok pk =>
      obtain ⟨pat, keys⟩ := pk
      simp only [addItems, addItem]
      cases ha : addPat sameSource t pat keys ⟨r.cfg.id, r.src, r.cfg.esh, m, r.cfg.ver⟩ r.cfg.bt with
      | error e => simp
      | ok t' => simp only; exact ih t'

theorem addItems_append (t : Table RVal) (a b : List (Option Item)) :
    addItems t (a ++ b) = (addItems t a).bind (fun t' => addItems t' b) := by
  induction a generalizing t with
  | nil => simp [addItems]
  | cons x xs ih =>
    cases x with
    | none => simp [addItems]
    | some i =>
      simp only [List.cons_append, addItems]
      cases addItem t i with
      | none => simp
      | some t' => simp [ih]

theorem addRules_eq (t : Table RVal) (rs : List Rule) : addRules t rs = addItems t (allItems rs) := by
  induction rs generalizing t with
  | nil => rfl
  | cons r rest ih =>
    simp only [addRules, allItems, List.flatMap_cons]
    rw [addRoutes_eq, addItems_append]
    change _ = (addItems t (ruleItems r)).bind _
    unfold ruleItems
    cases addItems t (r.cfg.routes.map (mkItem r)) with
    | none => simp
    | some t' => simp only [Option.bind_some]; exact ih t'

/-- what adding one more route does to the node of its expression -/
def stepNode (p : List PTok) (o : Option (Node RVal)) (i : Item) : Option (Node RVal) :=
  some (match o with
    | none => ⟨p, i.keys, [i.val], i.bt⟩
    | some n => { n with values := n.values ++ [i.val], bt := i.bt })

/-- the node for expression `p` after registering `items` in order -/
def expected (items : List Item) (p : List PTok) : Option (Node RVal) :=
  (items.filter (fun i => i.pat = p)).foldl (stepNode p) none

theorem expected_nil (p : List PTok) : expected [] p = none := rfl

theorem expected_snoc (items : List Item) (i : Item) (p : List PTok) :
    expected (items ++ [i]) p = if p = i.pat then stepNode p (expected items p) i else expected items p := by
  unfold expected
  rw [List.filter_append, List.foldl_append]
  by_cases h : i.pat = p
  · simp [h]
  · have : ¬ p = i.pat := fun e => h e.symm
    simp [h, this]

/-- the index holds exactly the routes `items` -/
def Holds (t : Table RVal) (items : List Item) : Prop := ∀ p, getNode t p = expected items p

theorem holds_empty : Holds [] [] := fun _ => rfl

theorem holds_addItem {t t' : Table RVal} {items : List Item} {i : Item}
    (h : Holds t items) (ha : addItem t i = some t') : Holds t' (items ++ [i]) := by
  intro p
  unfold addItem at ha
  cases hap : addPat sameSource t i.pat i.keys i.val i.bt with
  | error e => simp [hap] at ha
  | ok t'' =>
    simp only [hap, Option.some.injEq] at ha
    subst ha
    rw [addPat_getNode sameSource t t'' i.pat i.keys i.val i.bt hap p, expected_snoc]
    by_cases hp : p = i.pat
    · subst hp
      simp only [if_true, stepNode, h i.pat]
      cases expected items i.pat <;> rfl
    · simp only [hp, if_false, h p]

theorem nodup_addItem {t t' : Table RVal} {i : Item} (hnd : NodupPats t) (ha : addItem t i = some t') :
    NodupPats t' := by
  unfold addItem at ha
  cases hap : addPat sameSource t i.pat i.keys i.val i.bt with
  | error e => simp [hap] at ha
  | ok t'' =>
    simp only [hap, Option.some.injEq] at ha
    subst ha
    exact nodup_addPat _ _ _ _ _ _ _ hnd hap

/-- successful registration of a list of routes -/
theorem holds_addItems {t t' : Table RVal} {items : List Item} (ois : List (Option Item))
    (h : Holds t items) (hnd : NodupPats t) (ha : addItems t ois = some t') :
    ∃ is, ois = is.map some ∧ Holds t' (items ++ is) ∧ NodupPats t' := by
  induction ois generalizing t items with
  | nil =>
    simp only [addItems, Option.some.injEq] at ha
    subst ha
    exact ⟨[], rfl, by simpa using h, hnd⟩
  | cons x xs ih =>
    cases x with
    | none => simp [addItems] at ha
    | some i =>
      simp only [addItems] at ha
      cases hai : addItem t i with
      | none => simp [hai] at ha
      | some t1 =>
        simp only [hai] at ha
        obtain ⟨is, he, hh, hn⟩ := ih (holds_addItem h hai) (nodup_addItem hnd hai) ha
        exact ⟨i :: is, by simp [he], by simpa using hh, hn⟩

end Heimdall

namespace Heimdall

theorem foldl_stepNode_some (p : List PTok) (n : Node RVal) (fs : List Item) :
    fs.foldl (stepNode p) (some n) =
      some { n with values := n.values ++ fs.map (·.val), bt := fs.foldl (fun _ i => i.bt) n.bt } := by
  induction fs generalizing n with
  | nil => simp
  | cons i rest ih =>
    simp only [List.foldl_cons, stepNode]
    rw [ih]
    simp

/-- closed form of `expected` -/
theorem expected_eq (items : List Item) (p : List PTok) :
    expected items p =
      match items.filter (fun i => i.pat = p) with
      | [] => none
      | i :: rest => some ⟨p, i.keys, (i :: rest).map (·.val), rest.foldl (fun _ i => i.bt) i.bt⟩ := by
  unfold expected
  cases items.filter (fun i => i.pat = p) with
  | nil => rfl
  | cons i rest =>
    simp only [List.foldl_cons, stepNode]
    rw [foldl_stepNode_some]
    simp

/-- routes registered for the same expression agree on the wildcard names and come from one rule set -/
def Compatible (items : List Item) : Prop :=
  ∀ i ∈ items, ∀ j ∈ items, i.pat = j.pat → i.keys = j.keys ∧ i.val.src = j.val.src

theorem Compatible.sublist {a b : List Item} (h : Compatible b) (hs : ∀ x ∈ a, x ∈ b) : Compatible a :=
  fun i hi j hj e => h i (hs i hi) j (hs j hj) e

theorem addItem_ok_of_compatible {t : Table RVal} {items : List Item} {i : Item}
    (h : Holds t items) (hc : Compatible (items ++ [i])) : ∃ t', addItem t i = some t' := by
  have hok : ∃ t', addPat sameSource t i.pat i.keys i.val i.bt = .ok t' := by
    rw [addPat_ok_iff, h i.pat, expected_eq]
    cases hf : items.filter (fun x => x.pat = i.pat) with
    | nil => simp [sameSource]
    | cons j rest =>
      have hj : j ∈ items.filter (fun x => x.pat = i.pat) := by rw [hf]; simp
      rw [List.mem_filter] at hj
      have hjp : j.pat = i.pat := by simpa using hj.2
      have := hc j (by simp [hj.1]) i (by simp) hjp
      simp only [sameSource]
      exact ⟨this.1, by simp [this.2]⟩
  obtain ⟨t', ht'⟩ := hok
  exact ⟨t', by simp [addItem, ht']⟩

theorem addItems_ok_of_compatible {t : Table RVal} {items : List Item} (is : List Item)
    (h : Holds t items) (hc : Compatible (items ++ is)) :
    ∃ t', addItems t (is.map some) = some t' := by
  induction is generalizing t items with
  | nil => exact ⟨t, rfl⟩
  | cons i rest ih =>
    have hc1 : Compatible (items ++ [i]) := hc.sublist (by
      intro x hx; simp at hx ⊢
      rcases hx with h | h
      · exact Or.inl h
      · exact Or.inr (Or.inl h))
    obtain ⟨t1, h1⟩ := addItem_ok_of_compatible h hc1
    have hc2 : Compatible ((items ++ [i]) ++ rest) := by simpa using hc
    obtain ⟨t2, h2⟩ := ih (holds_addItem h h1) hc2
    exact ⟨t2, by simp [addItems, h1, h2]⟩

theorem compatible_of_addItem {t t' : Table RVal} {items : List Item} {i : Item}
    (h : Holds t items) (hc : Compatible items) (ha : addItem t i = some t') : Compatible (items ++ [i]) := by
  have hok : ∃ t', addPat sameSource t i.pat i.keys i.val i.bt = .ok t' := by
    unfold addItem at ha
    cases hap : addPat sameSource t i.pat i.keys i.val i.bt with
    | error e => simp [hap] at ha
    | ok t'' => exact ⟨t'', rfl⟩
  rw [addPat_ok_iff, h i.pat, expected_eq] at hok
  -- every earlier item with the same expression agrees with the first one, which agrees with `i`
  have key : ∀ j ∈ items, j.pat = i.pat → j.keys = i.keys ∧ j.val.src = i.val.src := by
    intro j hj hjp
    cases hf : items.filter (fun x => x.pat = i.pat) with
    | nil =>
      have : j ∈ items.filter (fun x => x.pat = i.pat) := by rw [List.mem_filter]; exact ⟨hj, by simpa using hjp⟩
      rw [hf] at this; cases this
    | cons k rest =>
      rw [hf] at hok
      simp only [sameSource, List.map_cons, beq_iff_eq] at hok
      have hk : k ∈ items.filter (fun x => x.pat = i.pat) := by rw [hf]; simp
      rw [List.mem_filter] at hk
      have hkp : k.pat = i.pat := by simpa using hk.2
      have := hc j hj k hk.1 (hjp.trans hkp.symm)
      exact ⟨this.1.trans hok.1, this.2.trans hok.2⟩
  intro a ha b hb e
  rcases List.mem_append.mp ha with ha | ha <;> rcases List.mem_append.mp hb with hb | hb
  · exact hc a ha b hb e
  · have hb' : b = i := by simpa using hb
    rw [hb'] at e ⊢; exact key a ha e
  · have ha' : a = i := by simpa using ha
    rw [ha'] at e ⊢
    have := key b hb e.symm
    exact ⟨this.1.symm, this.2.symm⟩
  · have ha' : a = i := by simpa using ha
    have hb' : b = i := by simpa using hb
    rw [ha', hb']; exact ⟨rfl, rfl⟩

theorem compatible_of_addItems {t t' : Table RVal} {items : List Item} (is : List Item)
    (h : Holds t items) (hc : Compatible items) (ha : addItems t (is.map some) = some t') :
    Compatible (items ++ is) := by
  induction is generalizing t items with
  | nil => simpa using hc
  | cons i rest ih =>
    simp only [List.map_cons, addItems] at ha
    cases hai : addItem t i with
    | none => simp [hai] at ha
    | some t1 =>
      simp only [hai] at ha
      have := ih (holds_addItem h hai) (compatible_of_addItem h hc hai) ha
      simpa using this

end Heimdall
