import HeimdallModel.Spec.Lookup
/-! Helper lemmas about the routing-tree model: `find = scan ∘ cands`, completeness and order of `cands`. -/
namespace Heimdall

variable {V : Type} (m : V → List String → List String → Bool)

theorem scan_append (a b : List (Cand V)) :
    scan m (a ++ b) = (let r := scan m a; if done r then r else scan m b) := by
  induction a with
  | nil => simp [scan, done]
  | cons c cs ih =>
    simp only [List.cons_append, scan]
    by_cases h : done (tryCand m c)
    · simp [h]
    · simp [h, ih]

theorem res_not_done (r : Res V) (h : ¬ done r) : r = (none, true) := by
  obtain ⟨a, b⟩ := r
  cases a <;> cases b <;> simp_all [done]

theorem scan_single (c : Cand V) : scan m [c] = tryCand m c := by
  simp only [scan]
  by_cases h : done (tryCand m c)
  · simp [h]
  · simp [res_not_done _ h]

@[simp] theorem tryCand_push (p : PTok) (c : Cand V) : tryCand m (c.push p) = tryCand m c := rfl

theorem scan_map_push (p : PTok) (cs : List (Cand V)) : scan m (cs.map (Cand.push p)) = scan m cs := by
  induction cs with
  | nil => rfl
  | cons c cs ih => simp [scan, ih]

theorem leaf_eq (t : Table V) (caps : List String) :
    leafRes m t caps = scan m ((here t).toList.map (fun n => ⟨n, caps⟩)) := by
  unfold leafRes
  cases here t with
  | none => rfl
  | some n => simp [scan_single, tryCand]

theorem catch_eq (t : Table V) (toks : List Tok) (caps : List String) :
    catchRes m t toks caps = scan m ((here (below t .catchAll)).toList.map
        (fun n => ⟨{ n with pat := [.catchAll] }, caps ++ [render toks]⟩)) := by
  unfold catchRes
  cases here (below t .catchAll) with
  | none => rfl
  | some cn => simp [scan_single, tryCand, tryNode]

theorem find_nil (t : Table V) (caps : List String) : find m t [] caps = leafRes m t caps := by
  unfold find; rfl

theorem find_cons (t : Table V) (tok : Tok) (rest : List Tok) (caps : List String) :
    find m t (tok :: rest) caps =
      (let r1 := find m (below t (.lit (tokStr tok))) rest caps
       if done r1 then r1 else
       let r2 : Res V := match tok with
         | .sep => (none, true)
         | .seg sg => find m (below t .wild) rest (caps ++ [sg])
       if done r2 then r2 else catchRes m t (tok :: rest) caps) := by
  conv => lhs; unfold find
  rfl

/-- the depth-first search of the tree is a scan over the candidate list -/
theorem find_eq_scan (t : Table V) (toks : List Tok) (caps : List String) :
    find m t toks caps = scan m (cands t toks caps) := by
  induction toks generalizing t caps with
  | nil => rw [find_nil, leaf_eq]; rfl
  | cons tok rest ih =>
    rw [find_cons]
    simp only [cands, scan_append, List.append_assoc, scan_map_push, ← ih, ← catch_eq]
    cases tok with
    | sep => simp [scan, done]
    | seg sg => simp only [scan_map_push, ← ih]

end Heimdall

namespace Heimdall

variable {V : Type}

/-- no two nodes of the table carry the same expression -/
def NodupPats (t : Table V) : Prop := t.Pairwise (fun a b => a.pat ≠ b.pat)

theorem mem_below {t : Table V} {p : PTok} {n' : Node V} :
    n' ∈ below t p ↔ ∃ n ∈ t, ∃ rest, n.pat = p :: rest ∧ n' = { n with pat := rest } := by
  unfold below
  rw [List.mem_filterMap]
  constructor
  · rintro ⟨n, hn, h⟩
    refine ⟨n, hn, ?_⟩
    cases hp : n.pat with
    | nil => simp [hp] at h
    | cons q rest =>
      simp only [hp] at h
      by_cases hq : q = p
      · simp only [hq, if_true, Option.some.injEq] at h
        exact ⟨rest, by rw [hq], h.symm⟩
      · simp [hq] at h
  · rintro ⟨n, hn, rest, hp, he⟩
    refine ⟨n, hn, ?_⟩
    simp only [hp, if_true]
    rw [he]

theorem mem_below_of {t : Table V} {p : PTok} {n : Node V} {rest : List PTok}
    (hn : n ∈ t) (hp : n.pat = p :: rest) : { n with pat := rest } ∈ below t p :=
  mem_below.mpr ⟨n, hn, rest, hp, rfl⟩

theorem node_restore (n : Node V) (p : PTok) (rest : List PTok) (hp : n.pat = p :: rest) :
    ({ ({ n with pat := rest } : Node V) with pat := p :: rest } : Node V) = n := by
  cases n; simp at hp; simp [hp]

theorem here_some {t : Table V} {n : Node V} (h : here t = some n) : n ∈ t ∧ n.pat = [] := by
  unfold here at h
  exact ⟨List.mem_of_find?_eq_some h, by simpa using List.find?_some h⟩

theorem here_of_mem {t : Table V} (hnd : NodupPats t) {n : Node V} (hn : n ∈ t) (hp : n.pat = []) :
    here t = some n := by
  unfold here
  induction t with
  | nil => cases hn
  | cons a t ih =>
    rw [NodupPats, List.pairwise_cons] at hnd
    rw [List.find?_cons]
    by_cases ha : a.pat = []
    · simp only [ha, decide_true]
      rcases List.mem_cons.mp hn with h | h
      · rw [h]
      · exact absurd (ha.trans hp.symm) (hnd.1 n h)
    · simp only [ha, decide_false]
      rcases List.mem_cons.mp hn with h | h
      · exact absurd (h ▸ hp) ha
      · exact ih hnd.2 h

theorem nodup_below {t : Table V} (hnd : NodupPats t) (p : PTok) : NodupPats (below t p) := by
  unfold NodupPats below at *
  induction t with
  | nil => simp
  | cons a t ih =>
    rw [List.pairwise_cons] at hnd
    rw [List.filterMap_cons]
    cases hp : a.pat with
    | nil => simpa [hp] using ih hnd.2
    | cons q rest =>
      by_cases hq : q = p
      · simp only [hq, if_true]
        rw [List.pairwise_cons]
        refine ⟨?_, ih hnd.2⟩
        intro b hb
        obtain ⟨n, hn, r, hnp, hbe⟩ := mem_below.mp hb
        intro heq
        apply hnd.1 n hn
        rw [hp, hnp, hq]
        subst hbe
        simp only at heq
        rw [heq]
      · simpa [hq] using ih hnd.2

/-- every candidate is a node of the table whose expression matches the request tokens -/
theorem cands_sound (t : Table V) (toks : List Tok) (caps : List String) (c : Cand V)
    (hc : c ∈ cands t toks caps) :
    c.node ∈ t ∧ ∃ extra, matchCaps c.node.pat toks = some extra ∧ c.caps = caps ++ extra := by
  induction toks generalizing t caps c with
  | nil =>
    simp only [cands, List.mem_map, Option.mem_toList] at hc
    obtain ⟨n, hn, rfl⟩ := hc
    obtain ⟨h1, h2⟩ := here_some hn
    exact ⟨h1, [], by simp [h2, matchCaps], by simp⟩
  | cons tok rest ih =>
    simp only [cands, List.mem_append, List.mem_map] at hc
    rcases hc with (⟨c', hc', rfl⟩ | hc) | hc
    · obtain ⟨hm, extra, he, hcaps⟩ := ih _ _ _ hc'
      obtain ⟨n, hn, r, hnp, hne⟩ := mem_below.mp hm
      refine ⟨?_, extra, ?_, hcaps⟩
      · have : (Cand.push (.lit (tokStr tok)) c').node = n := by
          simp only [Cand.push]; rw [hne]; exact node_restore n _ _ hnp
        rw [this]; exact hn
      · simp [Cand.push, matchCaps, he]
    · cases tok with
      | sep => simp at hc
      | seg sg =>
        simp only [List.mem_map] at hc
        obtain ⟨c', hc', rfl⟩ := hc
        obtain ⟨hm, extra, he, hcaps⟩ := ih _ _ _ hc'
        obtain ⟨n, hn, r, hnp, hne⟩ := mem_below.mp hm
        refine ⟨?_, sg :: extra, ?_, by simp [Cand.push, hcaps]⟩
        · have : (Cand.push .wild c').node = n := by
            simp only [Cand.push]; rw [hne]; exact node_restore n _ _ hnp
          rw [this]; exact hn
        · simp [Cand.push, matchCaps, he]
    · simp only [Option.mem_toList] at hc
      obtain ⟨n', hn', rfl⟩ := hc
      obtain ⟨h1, h2⟩ := here_some hn'
      obtain ⟨n, hn, r, hnp, hne⟩ := mem_below.mp h1
      refine ⟨?_, [render (tok :: rest)], by simp [matchCaps], rfl⟩
      have hr : r = [] := by rw [hne] at h2; exact h2
      subst hr
      have : ({ n' with pat := [.catchAll] } : Node V) = n := by
        rw [hne]; exact node_restore n _ _ hnp
      rw [this]; exact hn

/-- every node of the table whose expression matches is a candidate, with exactly the matched values -/
theorem cands_complete (t : Table V) (hnd : NodupPats t) (toks : List Tok) (caps : List String) (n : Node V)
    (hn : n ∈ t) (extra : List String) (hm : matchCaps n.pat toks = some extra) :
    ⟨n, caps ++ extra⟩ ∈ cands t toks caps := by
  induction toks generalizing t caps n extra with
  | nil =>
    cases hp : n.pat with
    | nil =>
      simp only [hp, matchCaps, Option.some.injEq] at hm
      subst hm
      simp only [cands, List.mem_map, Option.mem_toList]
      exact ⟨n, here_of_mem hnd hn hp, by simp⟩
    | cons p ps => cases p <;> simp [hp, matchCaps] at hm
  | cons tok rest ih =>
    cases hp : n.pat with
    | nil => simp [hp, matchCaps] at hm
    | cons p ps =>
      simp only [cands, List.mem_append, List.mem_map]
      cases p with
      | lit s =>
        simp only [hp, matchCaps] at hm
        by_cases hs : s = tokStr tok
        · simp only [hs, if_true] at hm
          left; left
          refine ⟨⟨{ n with pat := ps }, caps ++ extra⟩, ?_, ?_⟩
          · exact ih _ (nodup_below hnd _) _ _ (mem_below_of hn (hs ▸ hp)) _ hm
          · simp only [Cand.push]; congr; cases n; simp_all
        · simp [hs] at hm
      | wild =>
        cases tok with
        | sep => simp [hp, matchCaps] at hm
        | seg sg =>
          simp only [hp, matchCaps, Option.map_eq_some_iff] at hm
          obtain ⟨e', he', rfl⟩ := hm
          left; right
          simp only [List.mem_map]
          refine ⟨⟨{ n with pat := ps }, (caps ++ [sg]) ++ e'⟩, ?_, ?_⟩
          · exact ih _ (nodup_below hnd _) _ _ (mem_below_of hn hp) _ he'
          · simp only [Cand.push, List.append_assoc, List.singleton_append]; congr; cases n; simp_all
      | catchAll =>
        simp only [hp, matchCaps] at hm
        by_cases hps : ps = []
        · simp only [hps, if_true, Option.some.injEq] at hm
          subst hm
          right
          simp only [Option.mem_toList]
          refine ⟨{ n with pat := [] }, ?_, ?_⟩
          · exact here_of_mem (nodup_below hnd _) (mem_below_of hn (hps ▸ hp)) rfl
          · congr; cases n; simp_all
        · simp [hps] at hm

theorem push_pat (p : PTok) (c : Cand V) : (c.push p).node.pat = p :: c.node.pat := rfl

theorem specLt_cons_same (p : PTok) (a b : List PTok) : specLt (p :: a) (p :: b) = specLt a b := by
  simp [specLt]

/-- the tree visits matching nodes from the most specific to the least specific -/
theorem cands_sorted (t : Table V) (toks : List Tok) (caps : List String) :
    (cands t toks caps).Pairwise (fun a b => specLt a.node.pat b.node.pat = true) := by
  induction toks generalizing t caps with
  | nil =>
    simp only [cands]
    cases here t <;> simp
  | cons tok rest ih =>
    simp only [cands]
    rw [List.pairwise_append, List.pairwise_append]
    refine ⟨⟨?_, ?_, ?_⟩, ?_, ?_⟩
    · rw [List.pairwise_map]
      exact (ih _ _).imp (by intro a b h; simpa [push_pat, specLt_cons_same] using h)
    · cases tok with
      | sep => simp
      | seg sg =>
        simp only
        rw [List.pairwise_map]
        exact (ih _ _).imp (by intro a b h; simpa [push_pat, specLt_cons_same] using h)
    · intro a ha b hb
      cases tok with
      | sep => simp at hb
      | seg sg =>
        simp only [List.mem_map] at ha hb
        obtain ⟨a', _, rfl⟩ := ha
        obtain ⟨b', _, rfl⟩ := hb
        simp [push_pat, specLt, rank]
    · cases here (below t .catchAll) <;> simp
    · intro a ha b hb
      simp only [List.mem_map, Option.mem_toList] at hb
      obtain ⟨n, _, rfl⟩ := hb
      rcases List.mem_append.mp ha with ha | ha
      · simp only [List.mem_map] at ha
        obtain ⟨a', _, rfl⟩ := ha
        simp [push_pat, specLt, rank]
      · cases tok with
        | sep => simp at ha
        | seg sg =>
          simp only [List.mem_map] at ha
          obtain ⟨a', _, rfl⟩ := ha
          simp [push_pat, specLt, rank]


theorem specLt_irrefl (a : List PTok) : specLt a a = false := by
  induction a with
  | nil => rfl
  | cons p ps ih => simp [specLt, ih]

theorem specLt_asymm (a b : List PTok) (h : specLt a b = true) : specLt b a = false := by
  induction a generalizing b with
  | nil => simp [specLt] at h
  | cons p ps ih =>
    cases b with
    | nil => simp [specLt] at h
    | cons q qs =>
      simp only [specLt] at h ⊢
      by_cases hpq : p = q
      · subst hpq; simp only [if_true] at h ⊢; exact ih _ h
      · have hqp : ¬ q = p := fun e => hpq e.symm
        simp only [hpq, hqp, if_false, decide_eq_true_eq, decide_eq_false_iff_not] at h ⊢
        omega

variable (m : V → List String → List String → Bool)

theorem tryNode_some {n : Node V} {caps : List String} {f : Found V}
    (h : (tryNode m n caps).1 = some f) :
    n.values.find? (fun v => m v n.keys caps) = some f.value ∧ f.keys = n.keys ∧ f.caps = caps := by
  unfold tryNode at h
  cases hv : n.values.find? (fun v => m v n.keys caps) with
  | none => simp [hv] at h
  | some v => simp only [hv, Option.some.injEq] at h; subst h; simp

theorem tryNode_none {n : Node V} {caps : List String}
    (h : (tryNode m n caps).1 = none) : accepts m n caps = false ∧ (tryNode m n caps).2 = n.bt := by
  unfold tryNode at h ⊢
  cases hv : n.values.find? (fun v => m v n.keys caps) with
  | none =>
    refine ⟨?_, by simp⟩
    unfold accepts
    rw [Bool.eq_false_iff]
    intro ha
    rw [List.any_eq_true] at ha
    obtain ⟨v, hv1, hv2⟩ := ha
    exact absurd hv2 (by simpa using List.find?_eq_none.mp hv v hv1)
  | some v => simp [hv] at h

theorem accepts_of_find {n : Node V} {caps : List String} {v : V}
    (h : n.values.find? (fun v => m v n.keys caps) = some v) : accepts m n caps = true := by
  unfold accepts
  rw [List.any_eq_true]
  exact ⟨v, List.mem_of_find?_eq_some h, by simpa using List.find?_some h⟩

/-- a successful scan: the winner is preceded only by candidates without an accepted value that allow backtracking -/
theorem scan_some {cs : List (Cand V)} {f : Found V} (h : (scan m cs).1 = some f) :
    ∃ pre c post, cs = pre ++ c :: post ∧
      (∀ c' ∈ pre, accepts m c'.node c'.caps = false ∧ c'.node.bt = true) ∧
      c.node.values.find? (fun v => m v c.node.keys c.caps) = some f.value ∧
      f.keys = c.node.keys ∧ f.caps = c.caps := by
  induction cs with
  | nil => simp [scan] at h
  | cons c cs ih =>
    simp only [scan] at h
    by_cases hd : done (tryCand m c)
    · simp only [hd, if_true] at h
      exact ⟨[], c, cs, rfl, by simp, tryNode_some m h⟩
    · simp only [hd] at h
      obtain ⟨pre, c0, post, hcs, hpre, hrest⟩ := ih h
      refine ⟨c :: pre, c0, post, by simp [hcs], ?_, hrest⟩
      intro c' hc'
      rcases List.mem_cons.mp hc' with rfl | hc'
      · have hnd := res_not_done _ hd
        have h1 : (tryNode m c'.node c'.caps).1 = none := by
          have := congrArg Prod.fst hnd; simpa [tryCand] using this
        have h2 := tryNode_none m h1
        have h3 : (tryNode m c'.node c'.caps).2 = true := by
          have := congrArg Prod.snd hnd; simpa [tryCand] using this
        exact ⟨h2.1, by rw [← h2.2]; exact h3⟩
      · exact hpre c' hc'

/-- an unsuccessful scan: every candidate with an accepted value is shadowed by an earlier candidate without one
    that forbids backtracking -/
theorem scan_none {cs : List (Cand V)} (h : (scan m cs).1 = none) :
    ∀ pre c post, cs = pre ++ c :: post → accepts m c.node c.caps = true →
      ∃ c' ∈ pre, accepts m c'.node c'.caps = false ∧ c'.node.bt = false := by
  induction cs with
  | nil => intro pre c post h'; simp at h'
  | cons c0 cs ih =>
    intro pre c post hcs hacc
    simp only [scan] at h
    have h0 : (tryNode m c0.node c0.caps).1 = none := by
      by_cases hd : done (tryCand m c0)
      · simp only [hd, if_true] at h; exact h
      · have := congrArg Prod.fst (res_not_done _ hd); simpa [tryCand] using this
    have hn0 := tryNode_none m h0
    cases pre with
    | nil =>
      simp only [List.nil_append, List.cons.injEq] at hcs
      obtain ⟨rfl, _⟩ := hcs
      rw [hn0.1] at hacc; cases hacc
    | cons p pre =>
      simp only [List.cons_append, List.cons.injEq] at hcs
      obtain ⟨rfl, hcs⟩ := hcs
      by_cases hd : done (tryCand m c0)
      · refine ⟨c0, by simp, hn0.1, ?_⟩
        rw [← hn0.2]
        simp only [done, tryCand, h0, Option.isSome_none, Bool.false_or, Bool.not_eq_true',
          ] at hd
        exact hd
      · simp only [hd] at h
        obtain ⟨c', hc', hr⟩ := ih h pre c post hcs hacc
        exact ⟨c', by simp [hc'], hr⟩

theorem flushSeg_nonempty (acc : List Char) : ∀ t ∈ flushSeg acc, ∀ s, t = .seg s → s ≠ "" := by
  intro t ht s hs
  unfold flushSeg at ht
  by_cases h : acc.isEmpty
  · simp [h] at ht
  · simp only [h, Bool.false_eq_true, if_false, List.mem_singleton] at ht
    subst ht
    cases hs
    intro he
    have : (String.ofList acc.reverse).toList = [] := by rw [he]; rfl
    simp at this
    simp [this] at h

theorem tokenizeAux_nonempty (cs acc : List Char) : ∀ t ∈ tokenizeAux cs acc, ∀ s, t = .seg s → s ≠ "" := by
  induction cs generalizing acc with
  | nil => exact flushSeg_nonempty acc
  | cons c cs ih =>
    intro t ht s hs
    unfold tokenizeAux at ht
    by_cases hc : c = '/'
    · simp only [hc, if_true, List.mem_append, List.mem_cons] at ht
      rcases ht with h | h | h
      · exact flushSeg_nonempty acc t h s hs
      · subst h; cases hs
      · exact ih [] t h s hs
    · simp only [hc, if_false] at ht
      exact ih (c :: acc) t ht s hs

/-- request tokens never contain an empty segment -/
theorem tokenize_seg_nonempty (p : String) : ∀ t ∈ tokenize p, ∀ s, t = .seg s → s ≠ "" :=
  tokenizeAux_nonempty _ _


theorem str_ne_empty_iff (s : String) : s ≠ "" ↔ s.toList ≠ [] := by
  constructor
  · intro h he; apply h; apply String.toList_injective; simp [he]
  · intro h he; apply h; rw [he]; rfl

theorem foldl_append_ne_empty (l : List String) (acc : String) (h : acc ≠ "") :
    l.foldl (fun r s => r ++ s) acc ≠ "" := by
  induction l generalizing acc with
  | nil => exact h
  | cons x xs ih =>
    apply ih
    rw [str_ne_empty_iff] at h ⊢
    simp [String.toList_append, h]

theorem render_ne_empty (tok : Tok) (rest : List Tok) (h : ∀ s, tok = .seg s → s ≠ "") : render (tok :: rest) ≠ "" := by
  unfold render String.join
  simp only [List.map_cons, List.foldl_cons]
  apply foldl_append_ne_empty
  cases tok with
  | sep => simp [tokStr]
  | seg sg =>
    have := h sg rfl
    rw [str_ne_empty_iff] at this ⊢
    simpa [tokStr, String.toList_append] using this

end Heimdall
