import HeimdallModel.Lemmas.MechHistory
import HeimdallModel.Model.MechTemplate
/-!
# Histories of creations and executions (C17): an execution renders what the object renders when created alone
-/
namespace Heimdall.Mech

variable {Inp Out : Type}

/-- what has been handed out so far answers the requests made so far as if each had been alone, and the objects
handed out exist -/
structure Answers (σ₀ σ : Store Entries Override) (hs : List Handed) (reqs : List CreateReq) : Prop where
  len : hs.length = reqs.length
  obs : ∀ (j : Nat) (h : Handed) (r : CreateReq), hs[j]? = some h → reqs[j]? = some r →
    h.observed σ = createAlone σ₀ r
  live : ∀ (j : Nat) (h : Handed), hs[j]? = some h →
    (∀ x, h = .proto x → ∃ i : Inst, σ.insts[x]? = some i) ∧ (∀ x, h = .variant x → ∃ i : Inst, σ.insts[x]? = some i)

theorem Answers.nil (σ₀ σ : Store Entries Override) : Answers σ₀ σ [] [] :=
  ⟨rfl, fun j h r hj _ => by simp at hj, fun j h hj => by simp at hj⟩

/-- the observation of a live answer survives a creation -/
theorem observed_keeps (σ σ' : Store Entries Override) (p : Option Nat) (ov : Option Override) (x : Nat) (hcl : Closed σ)
    (hc : create σ p ov = .variant σ' x) (h : Handed)
    (hl : (∀ y, h = .proto y → ∃ i : Inst, σ.insts[y]? = some i) ∧ (∀ y, h = .variant y → ∃ i : Inst, σ.insts[y]? = some i)) :
    h.observed σ' = h.observed σ ∧
    (∀ y, h = .proto y → ∃ i : Inst, σ'.insts[y]? = some i) ∧ (∀ y, h = .variant y → ∃ i : Inst, σ'.insts[y]? = some i) := by
  obtain ⟨_, hkeep⟩ := create_keeps_effective σ σ' p ov x hcl hc
  cases h with
  | notFound => exact ⟨rfl, fun y hy => (by cases hy), fun y hy => (by cases hy)⟩
  | configError => exact ⟨rfl, fun y hy => (by cases hy), fun y hy => (by cases hy)⟩
  | proto y =>
    obtain ⟨i, hi⟩ := hl.1 y rfl
    refine ⟨?_, fun z hz => ?_, fun z hz => (by cases hz)⟩
    · simp [Handed.observed, (hkeep y i hi).2]
    · cases hz; exact ⟨i, (hkeep y i hi).1⟩
  | variant y =>
    obtain ⟨i, hi⟩ := hl.2 y rfl
    refine ⟨?_, fun z hz => (by cases hz), fun z hz => ?_⟩
    · simp [Handed.observed, (hkeep y i hi).2]
    · cases hz; exact ⟨i, (hkeep y i hi).1⟩

/-- appending an answer that is right for its request -/
theorem Answers.snoc {σ₀ σ : Store Entries Override} {hs : List Handed} {reqs : List CreateReq}
    (ha : Answers σ₀ σ hs reqs) (h : Handed) (r : CreateReq) (hobs : h.observed σ = createAlone σ₀ r)
    (hl : (∀ x, h = .proto x → ∃ i : Inst, σ.insts[x]? = some i) ∧ (∀ x, h = .variant x → ∃ i : Inst, σ.insts[x]? = some i)) :
    Answers σ₀ σ (hs ++ [h]) (reqs ++ [r]) := by
  refine ⟨by simp [ha.len], ?_, ?_⟩
  · intro j h' r' hj hr
    by_cases hlt : j < hs.length
    · rw [List.getElem?_append_left hlt] at hj
      rw [List.getElem?_append_left (by rw [← ha.len]; exact hlt)] at hr
      exact ha.obs j h' r' hj hr
    · have hge : hs.length ≤ j := Nat.le_of_not_lt hlt
      rw [List.getElem?_append_right hge] at hj
      rw [List.getElem?_append_right (by rw [← ha.len]; exact hge)] at hr
      rw [← ha.len] at hr
      cases hidx : j - hs.length with
      | zero =>
        rw [hidx] at hj hr
        simp only [List.getElem?_cons_zero, Option.some.injEq] at hj hr
        subst hj; subst hr
        exact hobs
      | succ n => rw [hidx] at hj; simp at hj
  · intro j h' hj
    by_cases hlt : j < hs.length
    · rw [List.getElem?_append_left hlt] at hj
      exact ha.live j h' hj
    · have hge : hs.length ≤ j := Nat.le_of_not_lt hlt
      rw [List.getElem?_append_right hge] at hj
      cases hidx : j - hs.length with
      | zero =>
        rw [hidx] at hj
        simp only [List.getElem?_cons_zero, Option.some.injEq] at hj
        subst hj
        exact hl
      | succ n => rw [hidx] at hj; simp at hj

/-- all answers so far survive a creation -/
theorem Answers.step {σ₀ σ σ' : Store Entries Override} {hs : List Handed} {reqs : List CreateReq}
    (ha : Answers σ₀ σ hs reqs) (p : Option Nat) (ov : Option Override) (x : Nat) (hcl : Closed σ)
    (hc : create σ p ov = .variant σ' x) : Answers σ₀ σ' hs reqs := by
  refine ⟨ha.len, ?_, ?_⟩
  · intro j h r hj hr
    rw [(observed_keeps σ σ' p ov x hcl hc h (ha.live j h hj)).1]
    exact ha.obs j h r hj hr
  · intro j h hj
    exact (observed_keeps σ σ' p ov x hcl hc h (ha.live j h hj)).2

/-- an execution renders what the object of the k-th request renders alone -/
theorem execOut_alone (ρ : Entries → Inp → Out) {σ₀ σ : Store Entries Override} {hs : List Handed}
    {reqs : List CreateReq} (ha : Answers σ₀ σ hs reqs) (k : Nat) (inp : Inp) :
    execOut ρ σ hs k inp = (reqs[k]?).bind fun r => aloneOut ρ σ₀ r inp := by
  unfold execOut
  cases hk : hs[k]? with
  | none =>
    have : reqs[k]? = none := by
      rw [List.getElem?_eq_none_iff] at hk ⊢
      rw [← ha.len]; exact hk
    simp [this]
  | some h =>
    have hlt : k < reqs.length := by
      rw [← ha.len]
      exact (List.getElem?_eq_some_iff.mp hk).1
    obtain ⟨r, hr⟩ : ∃ r, reqs[k]? = some r := ⟨reqs[k], List.getElem?_eq_getElem hlt⟩
    have hobs := ha.obs k h r hk hr
    rw [hr]
    simp only [Option.bind_some, aloneOut]
    cases h with
    | notFound => simp only [Handed.observed] at hobs; rw [← hobs]
    | configError => simp only [Handed.observed] at hobs; rw [← hobs]
    | proto x => simp only [Handed.observed] at hobs; rw [← hobs]
    | variant x => simp only [Handed.observed] at hobs; rw [← hobs]

/-- the answer of one creation, observed right after it, is the answer of the request alone -/
theorem create_answers (σ₀ σ : Store Entries Override) (he : Extends σ₀ σ) (hcl₀ : Closed σ₀) (r : CreateReq)
    (hp : ∀ q, r.1 = some q → ∃ i : Inst, σ₀.insts[q]? = some i) :
    (match create σ r.1 r.2 with
     | .notFound => Observed.notFound
     | .configError => .configError
     | .proto h => .shows true (effective σ h)
     | .variant σ' h => .shows false (effective σ' h)) = createAlone σ₀ r := by
  obtain ⟨p, ov⟩ := r
  cases p with
  | none =>
    have h1 : create σ none ov = .notFound := by simp [create, decision]
    have h2 : createAlone σ₀ (none, ov) = .notFound := by simp [createAlone, create, decision]
    simp only [h1, h2]
  | some q =>
    obtain ⟨i, hq⟩ := hp q rfl
    exact create_extends_observed σ₀ σ he hcl₀ q i hq ov

/-- **the invariant along a history** -/
theorem runHist_kth (ρ : Entries → Inp → Out) (σ₀ : Store Entries Override) (hcl₀ : Closed σ₀) (pre : List (HEv Inp)) :
    ∀ (σ : Store Entries Override) (hs : List Handed) (reqs : List CreateReq), Extends σ₀ σ → Answers σ₀ σ hs reqs →
    (∀ r ∈ reqsOf pre, ∀ q, r.1 = some q → ∃ i : Inst, σ₀.insts[q]? = some i) →
    ∀ (post : List (HEv Inp)) (k : Nat) (inp : Inp),
    (runHist ρ σ hs (pre ++ .exec k inp :: post))[(execsOf pre).length]? =
      some (k, inp, ((reqs ++ reqsOf pre)[k]?).bind fun r => aloneOut ρ σ₀ r inp) := by
  induction pre with
  | nil =>
    intro σ hs reqs _ ha _ post k inp
    simp only [List.nil_append, execsOf, List.length_nil, runHist, List.getElem?_cons_zero, reqsOf, List.append_nil]
    rw [execOut_alone ρ ha k inp]
  | cons ev pre ih =>
    intro σ hs reqs he ha hcat post k inp
    cases ev with
    | exec k' inp' =>
      simp only [List.cons_append, execsOf, List.length_cons, runHist, List.getElem?_cons_succ, reqsOf]
      exact ih σ hs reqs he ha (fun r hr => hcat r (by simpa [reqsOf] using hr)) post k inp
    | create r =>
      have hr : ∀ q, r.1 = some q → ∃ i : Inst, σ₀.insts[q]? = some i := hcat r (by simp [reqsOf])
      have hcat' : ∀ r' ∈ reqsOf pre, ∀ q, r'.1 = some q → ∃ i : Inst, σ₀.insts[q]? = some i :=
        fun r' hr' => hcat r' (by simp [reqsOf, hr'])
      have hobs := create_answers σ₀ σ he hcl₀ r hr
      have happ : reqs ++ reqsOf (HEv.create r :: pre) = (reqs ++ [r]) ++ reqsOf pre := by simp [reqsOf]
      simp only [List.cons_append, execsOf, runHist]
      rw [happ]
      cases hc : create σ r.1 r.2 with
      | notFound =>
        rw [hc] at hobs
        simp only
        exact ih σ (hs ++ [.notFound]) (reqs ++ [r]) he
          (ha.snoc .notFound r (by simpa [Handed.observed] using hobs) ⟨fun x hx => (by cases hx), fun x hx => (by cases hx)⟩)
          hcat' post k inp
      | configError =>
        rw [hc] at hobs
        simp only
        exact ih σ (hs ++ [.configError]) (reqs ++ [r]) he
          (ha.snoc .configError r (by simpa [Handed.observed] using hobs)
            ⟨fun x hx => (by cases hx), fun x hx => (by cases hx)⟩)
          hcat' post k inp
      | proto h =>
        rw [hc] at hobs
        simp only
        have hlive : ∃ i : Inst, σ.insts[h]? = some i := by
          obtain ⟨p, ov⟩ := r
          cases p with
          | none => simp [create, decision] at hc
          | some q =>
            obtain ⟨i, hq⟩ := hr q rfl
            have := create_proto_handle σ q h ov hc
            subst this
            exact ⟨i, he.insts h i hq⟩
        exact ih σ (hs ++ [.proto h]) (reqs ++ [r]) he
          (ha.snoc (.proto h) r (by simpa [Handed.observed] using hobs)
            ⟨fun x hx => (by cases hx; exact hlive), fun x hx => (by cases hx)⟩)
          hcat' post k inp
      | variant σ' h =>
        rw [hc] at hobs
        simp only
        have he' := create_extends σ₀ σ σ' r.1 r.2 h he hc
        have hlive := create_variant_handle σ σ' r.1 r.2 h he.closed hc
        exact ih σ' (hs ++ [.variant h]) (reqs ++ [r]) he'
          ((ha.step r.1 r.2 h he.closed hc).snoc (.variant h) r (by simpa [Handed.observed] using hobs)
            ⟨fun x hx => (by cases hx), fun x hx => (by cases hx; exact hlive)⟩)
          hcat' post k inp

namespace Tpl

/-- every rendering of a process in which each template has its own table of named templates -/
theorem runOwn_kth (pre : List TEv) : ∀ (objs : List Src) (post : List TEv) (k : Nat) (inp : Inputs),
    (runOwn objs (pre ++ .render k inp :: post))[(rendersOf pre).length]? =
      some (((objs ++ newsOf pre)[k]?).bind fun s => renderOwn s inp) := by
  induction pre with
  | nil => intro objs post k inp; simp [runOwn, rendersOf, newsOf]
  | cons ev pre ih =>
    intro objs post k inp
    cases ev with
    | new s =>
      simp only [List.cons_append, runOwn, rendersOf, newsOf]
      rw [ih (objs ++ [s]) post k inp]
      simp
    | render k' inp' =>
      simp only [List.cons_append, runOwn, rendersOf, newsOf, List.length_cons, List.getElem?_cons_succ]
      exact ih objs post k inp

/-- as long as no template declares a named template, one shared table cannot be told from own tables -/
theorem runShared_eq_runOwn_of_no_defs (evs : List TEv) : ∀ (objs : List Src),
    (∀ s ∈ objs, defsOf s = []) → (∀ s ∈ newsOf evs, defsOf s = []) → runShared [] objs evs = runOwn objs evs := by
  induction evs with
  | nil => intro objs _ _; rfl
  | cons ev evs ih =>
    intro objs ho hn
    cases ev with
    | new s =>
      have hs : defsOf s = [] := hn s (by simp [newsOf])
      simp only [runShared, runOwn, hs, List.foldl_nil]
      refine ih (objs ++ [s]) ?_ (fun s' hs' => hn s' (by simp [newsOf, hs']))
      intro s' hs'
      rcases List.mem_append.mp hs' with h | h
      · exact ho s' h
      · simp only [List.mem_singleton] at h; subst h; exact hs
    | render k inp =>
      simp only [runShared, runOwn]
      rw [ih objs ho (fun s' hs' => hn s' (by simpa [newsOf] using hs'))]
      congr 1
      cases hk : objs[k]? with
      | none => rfl
      | some s =>
        have : defsOf s = [] := ho s (List.mem_of_getElem? hk)
        simp [renderOwn, this]

end Tpl

end Heimdall.Mech
