import HeimdallModel.Spec.ForwardedTrust
/-!
# Helper lemmas for C09 (request view, forwarded headers, trusted proxies)
-/
namespace Heimdall.Fwd

/-! ## characters -/

theorem toNat_ofNat_small (n : Nat) (h : n < 0xd800) : (Char.ofNat n).toNat = n := by
  unfold Char.ofNat
  have hv : n.isValidChar := Or.inl h
  simp [hv, Char.toNat, Char.ofNatAux]

theorem char_le_iff (a b : Char) : a ≤ b ↔ a.toNat ≤ b.toNat := by
  rw [Char.le_def, UInt32.le_iff_toNat_le]; rfl

theorem lowerAscii_toNat (c : Char) :
    (lowerAscii c).toNat = if 65 ≤ c.toNat ∧ c.toNat ≤ 90 then c.toNat + 32 else c.toNat := by
  unfold lowerAscii
  simp only [Bool.and_eq_true, decide_eq_true_eq, char_le_iff]
  have hA : 'A'.toNat = 65 := by decide
  have hZ : 'Z'.toNat = 90 := by decide
  rw [hA, hZ]
  split
  · rw [toNat_ofNat_small _ (by omega)]
  · rfl

theorem upperAscii_toNat (c : Char) :
    (upperAscii c).toNat = if 97 ≤ c.toNat ∧ c.toNat ≤ 122 then c.toNat - 32 else c.toNat := by
  unfold upperAscii
  simp only [Bool.and_eq_true, decide_eq_true_eq, char_le_iff]
  have hA : 'a'.toNat = 97 := by decide
  have hZ : 'z'.toNat = 122 := by decide
  rw [hA, hZ]
  split
  · rw [toNat_ofNat_small _ (by omega)]
  · rfl

theorem lower_lower (c : Char) : lowerAscii (lowerAscii c) = lowerAscii c := by
  apply Char.toNat_inj.mp
  rw [lowerAscii_toNat, lowerAscii_toNat]
  repeat' split
  all_goals omega

theorem lower_upper (c : Char) : lowerAscii (upperAscii c) = lowerAscii c := by
  apply Char.toNat_inj.mp
  rw [lowerAscii_toNat, lowerAscii_toNat, upperAscii_toNat]
  repeat' split
  all_goals omega

theorem upper_lower (c : Char) : upperAscii (lowerAscii c) = upperAscii c := by
  apply Char.toNat_inj.mp
  rw [upperAscii_toNat, upperAscii_toNat, lowerAscii_toNat]
  repeat' split
  all_goals omega

theorem lower_eq_dash (c : Char) : (lowerAscii c = '-') ↔ (c = '-') := by
  rw [← Char.toNat_inj, ← Char.toNat_inj, lowerAscii_toNat]
  have : '-'.toNat = 45 := by decide
  rw [this]
  repeat' split
  all_goals omega

theorem isTokenChar_lower (c : Char) : isTokenChar (lowerAscii c) = isTokenChar c := by
  rw [Bool.eq_iff_iff]
  simp only [isTokenChar, Bool.or_eq_true, Bool.and_eq_true, decide_eq_true_eq, beq_iff_eq, lowerAscii_toNat]
  repeat' split
  all_goals omega

/-! ## canonical header names -/

theorem canonChars_map_lower (up : Bool) (cs : List Char) :
    canonChars up (cs.map lowerAscii) = canonChars up cs := by
  induction cs generalizing up with
  | nil => rfl
  | cons c cs ih =>
    simp only [List.map_cons, canonChars, upper_lower, lower_lower]
    have : decide (lowerAscii c = '-') = decide (c = '-') := by simp [lower_eq_dash]
    rw [this, ih]

theorem map_lower_canonChars (up : Bool) (cs : List Char) :
    (canonChars up cs).map lowerAscii = cs.map lowerAscii := by
  induction cs generalizing up with
  | nil => rfl
  | cons c cs ih =>
    simp only [List.map_cons, canonChars, ih]
    cases up <;> simp [lower_upper, lower_lower]

theorem all_token_map_lower (cs : List Char) : (cs.map lowerAscii).all isTokenChar = cs.all isTokenChar := by
  induction cs with
  | nil => rfl
  | cons c cs ih => simp [List.all_cons, isTokenChar_lower, ih]

/-- a header line is filed under the canonical name `K` exactly when its name equals `K` up to ASCII case -/
theorem canonKey_eq_iff (K : String) (hK : K.toList.all isTokenChar = true) (hc : canonKey K = K) (n : String) :
    canonKey n = K ↔ eqIgnoreCase n K = true := by
  have hKc : String.ofList (canonChars true K.toList) = K := by
    have := hc; unfold canonKey at this; rw [if_pos hK] at this; exact this
  unfold eqIgnoreCase
  rw [beq_iff_eq]
  constructor
  · intro h
    unfold canonKey at h
    split at h
    · have : canonChars true n.toList = K.toList := by rw [← h, String.toList_ofList]
      rw [← map_lower_canonChars true n.toList, this]
    · rw [h]
  · intro h
    have hv : n.toList.all isTokenChar = true := by
      rw [← all_token_map_lower, h, all_token_map_lower]; exact hK
    unfold canonKey
    rw [if_pos hv, ← canonChars_map_lower, h, canonChars_map_lower]
    exact hKc

theorem canonKey_beq (K : String) (hK : K.toList.all isTokenChar = true) (hc : canonKey K = K) (n : String) :
    (canonKey n == K) = eqIgnoreCase n K := by
  rw [Bool.eq_iff_iff, beq_iff_eq]; exact canonKey_eq_iff K hK hc n

/-- the names of the tables are valid and canonical -/
theorem stripSet_canonical : ∀ K ∈ stripSet, K.toList.all isTokenChar = true ∧ canonKey K = K := by decide

/-! ## header lists -/

theorem stripSet_contains_canonKey (n : String) : stripSet.contains (canonKey n) = isFamilyName n := by
  have h := stripSet_canonical
  unfold isFamilyName
  rw [List.contains_eq_any_beq]
  simp only [stripSet, List.any_cons, List.any_nil, Bool.or_false] at h ⊢
  simp only [List.mem_cons, List.not_mem_nil, or_false, forall_eq_or_imp, forall_eq] at h
  obtain ⟨h1, h2, h3, h4, h5, h6, h7⟩ := h
  rw [canonKey_beq _ h1.1 h1.2, canonKey_beq _ h2.1 h2.2, canonKey_beq _ h3.1 h3.2, canonKey_beq _ h4.1 h4.2,
    canonKey_beq _ h5.1 h5.2, canonKey_beq _ h6.1 h6.2, canonKey_beq _ h7.1 h7.2]

/-- deleting the family after canonicalisation = dropping the family lines (any casing) before it -/
theorem strip_canonHeaders (w : Headers) : strip stripSet (canonHeaders w) = canonHeaders (nonFamily w) := by
  unfold strip canonHeaders nonFamily
  rw [List.filter_map]
  congr 1
  apply List.filter_congr
  intro kv _
  show (!stripSet.contains (canonKey kv.1)) = !isFamilyName kv.1
  rw [stripSet_contains_canonKey]

/-- `Header.Get` on the canonicalised lines = first line with that name, any casing -/
theorem hget_canonHeaders (w : Headers) (K : String) (hK : K ∈ stripSet) :
    hget (canonHeaders w) K = firstCI w K := by
  obtain ⟨hv, hc⟩ := stripSet_canonical K hK
  unfold hget firstCI canonHeaders
  rw [List.find?_map]
  have : ((fun kv : String × String => kv.1 == K) ∘ fun kv : String × String => (canonKey kv.1, kv.2))
      = fun kv => eqIgnoreCase kv.1 K := by
    funext kv; simp [Function.comp, canonKey_beq K hv hc]
  rw [this]
  cases w.find? (fun kv => eqIgnoreCase kv.1 K) <;> rfl

theorem hget_cons (kv : String × String) (h : Headers) (k : String) :
    hget (kv :: h) k = if kv.1 == k then kv.2 else hget h k := by
  unfold hget
  rw [List.find?_cons]
  cases kv.1 == k <;> rfl

theorem hget_strip_of_mem (names : List String) (h : Headers) (k : String) (hk : k ∈ names) :
    hget (strip names h) k = "" := by
  induction h with
  | nil => rfl
  | cons kv h ih =>
    unfold strip at ih ⊢
    rw [List.filter_cons]
    split
    · rename_i hkeep
      rw [hget_cons, ih]
      have : (kv.1 == k) = false := by
        cases he : kv.1 == k with
        | false => rfl
        | true =>
          rw [beq_iff_eq] at he
          rw [he, List.contains_iff_mem.mpr hk] at hkeep
          cases hkeep
      rw [this]; rfl
    · exact ih

theorem hget_strip_of_not_mem (names : List String) (h : Headers) (k : String) (hk : k ∉ names) :
    hget (strip names h) k = hget h k := by
  induction h with
  | nil => rfl
  | cons kv h ih =>
    unfold strip at ih ⊢
    rw [List.filter_cons]
    split
    · rw [hget_cons, hget_cons, ih]
    · rename_i hdrop
      rw [hget_cons, ih]
      have : (kv.1 == k) = false := by
        cases he : kv.1 == k with
        | false => rfl
        | true =>
          rw [beq_iff_eq] at he
          rw [he] at hdrop
          have : names.contains k = false := by
            cases hc : names.contains k with
            | false => rfl
            | true => exact absurd (List.contains_iff_mem.mp hc) hk
          rw [this] at hdrop
          exact absurd rfl hdrop
      rw [this]; rfl

theorem eqIgnoreCase_trans (a b c : String) (h1 : eqIgnoreCase a b = true) (h2 : eqIgnoreCase b c = true) :
    eqIgnoreCase a c = true := by
  unfold eqIgnoreCase at *
  rw [beq_iff_eq] at *
  rw [h1, h2]

theorem eqIgnoreCase_symm (a b : String) (h : eqIgnoreCase a b = true) : eqIgnoreCase b a = true := by
  unfold eqIgnoreCase at *
  rw [beq_iff_eq] at *
  exact h.symm

theorem firstCI_cons (kv : String × String) (w : Headers) (k : String) :
    firstCI (kv :: w) k = if eqIgnoreCase kv.1 k then kv.2 else firstCI w k := by
  unfold firstCI
  rw [List.find?_cons]
  cases eqIgnoreCase kv.1 k <;> rfl

/-- lines named `K` (any casing) removed: the first line with another name `K'` is unaffected -/
theorem firstCI_filter_other (w : Headers) (K K' : String) (hne : eqIgnoreCase K K' = false) :
    firstCI (w.filter fun kv => !eqIgnoreCase kv.1 K) K' = firstCI w K' := by
  induction w with
  | nil => rfl
  | cons kv w ih =>
    rw [List.filter_cons]
    split
    · rw [firstCI_cons, firstCI_cons, ih]
    · rename_i hdrop
      rw [firstCI_cons, ih]
      have h2 : eqIgnoreCase kv.1 K = true := by
        cases h : eqIgnoreCase kv.1 K with
        | true => rfl
        | false => rw [h] at hdrop; exact absurd rfl hdrop
      have : eqIgnoreCase kv.1 K' = false := by
        cases h1 : eqIgnoreCase kv.1 K' with
        | false => rfl
        | true =>
          have := eqIgnoreCase_trans K kv.1 K' (eqIgnoreCase_symm _ _ h2) h1
          rw [hne] at this; cases this
      rw [this]; rfl

/-! ## the trust decision -/

theorem div_eq_iff_range (x d q : Nat) (hd : 0 < d) : x / d = q ↔ q * d ≤ x ∧ x < (q + 1) * d := by
  constructor
  · intro h
    subst h
    refine ⟨Nat.div_mul_le_self x d, ?_⟩
    have := Nat.lt_mul_div_succ x hd
    rw [Nat.mul_comm] at this
    exact this
  · intro ⟨h1, h2⟩
    exact Nat.div_eq_of_lt_le h1 h2

theorem Net.contains_iff_lists (n : Net) (a : Nat) : n.contains a = true ↔ n.lists a := by
  unfold Net.contains Net.lists Net.lo Net.hi Net.bits
  cases hm : isV4Mapped a
  · simp only [Bool.false_eq_true, if_false, Bool.and_eq_true, Bool.not_eq_true', beq_iff_eq]
    constructor
    · intro ⟨hv, hd⟩
      rw [hv]
      simp only [Bool.false_eq_true, if_false, true_and]
      exact (div_eq_iff_range _ _ _ (Nat.pow_pos (by decide))).mp hd
    · intro ⟨hv, hr⟩
      rw [hv] at hr ⊢
      simp only [Bool.false_eq_true, if_false] at hr
      exact ⟨rfl, (div_eq_iff_range _ _ _ (Nat.pow_pos (by decide))).mpr hr⟩
  · simp only [if_true, Bool.and_eq_true, beq_iff_eq]
    constructor
    · intro ⟨hv, hd⟩
      rw [hv]
      simp only [if_true, true_and]
      exact (div_eq_iff_range _ _ _ (Nat.pow_pos (by decide))).mp hd
    · intro ⟨hv, hr⟩
      rw [hv] at hr ⊢
      simp only [if_true] at hr
      exact ⟨rfl, (div_eq_iff_range _ _ _ (Nat.pow_pos (by decide))).mpr hr⟩

theorem Entry.contains_iff_lists (e : Entry) (a : Nat) : e.contains (some a) = true ↔ e.lists a := by
  cases e with
  | single ip => simp [Entry.contains, Entry.lists]
  | net n => simp [Entry.contains, Entry.lists, Net.contains_iff_lists]

theorem trustedPeer_iff_listed (proxies : List String) (remoteAddr : String) :
    trustedPeer proxies remoteAddr = true ↔ Listed proxies remoteAddr := by
  unfold trustedPeer Listed trusted
  rw [List.any_eq_true]
  constructor
  · intro ⟨e, he, hc⟩
    cases hp : parseIP (ipFromHostPort remoteAddr) with
    | none => rw [hp] at hc; cases e <;> simp [Entry.contains] at hc
    | some a =>
      rw [hp] at hc
      obtain ⟨s, hs, hse⟩ := List.mem_filterMap.mp he
      exact ⟨a, rfl, s, hs, e, hse, (Entry.contains_iff_lists e a).mp hc⟩
  · intro ⟨a, hp, s, hs, e, hse, hl⟩
    refine ⟨e, List.mem_filterMap.mpr ⟨s, hs, hse⟩, ?_⟩
    rw [hp]
    exact (Entry.contains_iff_lists e a).mpr hl

/-! ## the view -/

theorem orElse_empty (b : String) : orElse "" b = b := by simp [orElse]

/-- no header of `readKeys` present ⇒ the view is the actual request -/
theorem viewOf_of_no_read (parse : UriParse) (h : Headers) (r : Req)
    (hno : ∀ k ∈ readKeys, hget h k = "") : viewOf parse h r = actualView r := by
  have h1 := hno "Forwarded" (by decide)
  have h2 := hno "X-Forwarded-For" (by decide)
  have h3 := hno "X-Forwarded-Host" (by decide)
  have h4 := hno "X-Forwarded-Method" (by decide)
  have h5 := hno "X-Forwarded-Proto" (by decide)
  have h6 := hno "X-Forwarded-Uri" (by decide)
  simp [viewOf, actualView, extractMethod, forwardedUri, uriOffer, clientIPs, peerIP, h1, h2, h3, h4, h5, h6, orElse_empty]

/-- the view built from the canonicalised lines = the view the property demands of a trusted peer -/
theorem viewOf_canonHeaders (parse : UriParse) (r : Req) :
    viewOf parse (canonHeaders r.wire) r = overriddenView parse r := by
  simp only [viewOf, overriddenView, extractMethod, forwardedUri, specUri, clientIPs, specAnnounced, peerIP]
  rw [hget_canonHeaders _ "Forwarded" (by decide), hget_canonHeaders _ "X-Forwarded-For" (by decide),
    hget_canonHeaders _ "X-Forwarded-Host" (by decide), hget_canonHeaders _ "X-Forwarded-Method" (by decide),
    hget_canonHeaders _ "X-Forwarded-Proto" (by decide), hget_canonHeaders _ "X-Forwarded-Uri" (by decide)]

/-! ## what mechanisms are shown -/

theorem hvalues_strip_of_mem (names : List String) (h : Headers) (k : String) (hk : k ∈ names) :
    hvalues (strip names h) k = [] := by
  unfold hvalues strip
  rw [List.filter_filter, List.map_eq_nil_iff, List.filter_eq_nil_iff]
  intro kv _
  simp only [Bool.and_eq_true, beq_iff_eq, Bool.not_eq_true', not_and]
  intro he
  rw [he]
  cases hc : names.contains k with
  | false => exact absurd (List.contains_iff_mem.mpr hk) (by rw [hc]; exact Bool.false_ne_true)
  | true => intro hx; cases hx

theorem mechHeaders_keys (names : List String) (h : Headers) (r : Req) (hHost : "Host" ∉ names) :
    ∀ kv ∈ mechHeaders (strip names h) r, kv.1 ∉ names := by
  intro kv hkv
  unfold mechHeaders at hkv
  rcases List.mem_cons.mp hkv with he | hm
  · rw [he]; exact hHost
  · obtain ⟨k, hk, hkk⟩ := List.mem_map.mp hm
    rw [← hkk]
    have hk' := List.mem_eraseDups.mp hk
    obtain ⟨kv', hkv', hk1⟩ := List.mem_map.mp hk'
    have := (List.mem_filter.mp (show kv' ∈ strip names h from hkv')).2
    intro hmem
    rw [← hk1] at hmem
    rw [List.contains_iff_mem.mpr hmem] at this
    cases this

/-! ## the upstream -/

theorem filter_strip_comm (p : String × String → Bool) (names : List String) (h : Headers) :
    (strip names h).filter p = strip names (h.filter p) := by
  unfold strip
  rw [List.filter_filter, List.filter_filter]
  apply List.filter_congr
  intro kv _
  exact Bool.and_comm _ _

theorem family_split (k : String) (hk : stripSet.contains k = true) :
    rpStripped.contains k = true ∨ outDel.contains k = true := by
  simp only [stripSet, rpStripped, outDel, List.contains_cons, List.contains_nil, Bool.or_false, Bool.or_eq_true,
    beq_iff_eq] at *
  rcases hk with h | h | h | h | h | h | h <;> simp [h]

/-- nothing of the forwarded family survives `ReverseProxy` (Rewrite set) and the deletions of rewriteRequest -/
theorem family_gone (h : Headers) :
    (strip outDel (strip rpStripped h)).filter (fun kv => stripSet.contains kv.1) = [] := by
  rw [List.filter_eq_nil_iff]
  intro kv hkv hfam
  have h1 := (List.mem_filter.mp (show kv ∈ strip outDel (strip rpStripped h) from hkv))
  have h2 := (List.mem_filter.mp (show kv ∈ strip rpStripped h from h1.1))
  rcases family_split kv.1 hfam with hc | hc
  · have := h2.2; rw [hc] at this; cases this
  · have := h1.2; rw [hc] at this; cases this

theorem filter_family_hset (x : Headers) (k v : String) (hk : stripSet.contains k = true) :
    (hset x k v).filter (fun kv => stripSet.contains kv.1) =
      strip [k] (x.filter fun kv => stripSet.contains kv.1) ++ [(k, v)] := by
  unfold hset
  rw [List.filter_append, filter_strip_comm]
  simp [List.contains_iff_mem.mp hk]

/-- the forwarded family as the upstream receives it: only what rewriteRequest creates -/
theorem upstreamFwd_eq (h : Headers) (r : Req) :
    upstreamFwd h r =
      if joinList (hvalues h "X-Forwarded-For") ≠ "" ∨ hget h "X-Forwarded-Proto" ≠ "" ∨
          hget h "X-Forwarded-Host" ≠ "" then
        [("X-Forwarded-For", if joinList (hvalues h "X-Forwarded-For") = "" then ipFromHostPort r.remoteAddr
            else joinList (hvalues h "X-Forwarded-For") ++ ", " ++ ipFromHostPort r.remoteAddr),
         ("X-Forwarded-Proto", orElse (hget h "X-Forwarded-Proto") (proto r)),
         ("X-Forwarded-Host", orElse (hget h "X-Forwarded-Host") r.host)]
      else
        [("Forwarded", if joinList (hvalues h "Forwarded") = "" then
            "for=" ++ ipFromHostPort r.remoteAddr ++ ";host=" ++ r.host ++ ";proto=" ++ proto r
          else joinList (hvalues h "Forwarded") ++ ", " ++
            ("for=" ++ ipFromHostPort r.remoteAddr ++ ";host=" ++ r.host ++ ";proto=" ++ proto r))] := by
  unfold upstreamFwd upstreamHeaders
  simp only [Bool.or_eq_true, decide_eq_true_eq, or_assoc]
  by_cases hc : joinList (hvalues h "X-Forwarded-For") ≠ "" ∨ hget h "X-Forwarded-Proto" ≠ "" ∨
      hget h "X-Forwarded-Host" ≠ ""
  · rw [if_pos hc, if_pos hc, filter_family_hset _ _ _ (by decide), filter_family_hset _ _ _ (by decide),
      filter_family_hset _ _ _ (by decide), family_gone]
    simp [strip]
  · rw [if_neg hc, if_neg hc, filter_family_hset _ _ _ (by decide), family_gone]
    simp [strip]

/-- `Header.Values` on the canonicalised lines = the values of all lines with that name, any casing -/
theorem hvalues_canonHeaders (w : Headers) (K : String) (hK : K ∈ stripSet) :
    hvalues (canonHeaders w) K = allCI w K := by
  obtain ⟨hv, hc⟩ := stripSet_canonical K hK
  unfold hvalues allCI canonHeaders
  rw [List.filter_map, List.map_map]
  have : ((fun kv : String × String => kv.1 == K) ∘ fun kv : String × String => (canonKey kv.1, kv.2))
      = fun kv => eqIgnoreCase kv.1 K := by
    funext kv; simp [Function.comp, canonKey_beq K hv hc]
  rw [this]
  rfl

/-- the upstream of a request whose lines all reach rewriteRequest (trusted peer) -/
theorem upstreamFwd_canonHeaders (r : Req) : upstreamFwd (canonHeaders r.wire) r = extendedUpstream r := by
  rw [upstreamFwd_eq]
  simp only [extendedUpstream, ownForwarded, peerIP]
  rw [hvalues_canonHeaders _ "X-Forwarded-For" (by decide), hvalues_canonHeaders _ "Forwarded" (by decide),
    hget_canonHeaders _ "X-Forwarded-Proto" (by decide), hget_canonHeaders _ "X-Forwarded-Host" (by decide)]

end Heimdall.Fwd
