import HeimdallModel.Lemmas.EntryView
/-!
# C13 — all three entry points decide alike and show the pipeline the same request

Model: `Model/EntryView.lean` (`serve`, `mkCtx`, `Ctx.withReq`; `Impl.fixed` = the code of /repo, i.e. with the patches
`fixes/C13-1 … C13-5`, `Impl.next` = with the proposed `fixes/C13-6` as well, `Impl.original` = the code without any).
The theorems hold for every implementation and request with `Spec.covered I lr`. Reference semantics: `Spec/EntryView.lean`
(`Spec.obj`, `Spec.funcs`, `Spec.serve`, `Spec.answer`).

Everything is stated for all logical requests (any method, host, path, query, header lines, body), all rule sets (any
routing table of `Model/Repo.lean`, any pipelines built from conditions and templates over the request view), any
decoder library, both ways Envoy delivers a body, every log level the services run with (`LogLevel`, consulted by the
`dump` middleware of the HTTP based services), every `buffer_limit` block (`Limits`, consulted by the `net/http` servers
of the HTTP based services for the head of a request: `reachesChain`, `listen`), all three entry points. Bodies are arbitrary
byte strings: no statement and no function of the model bounds their length. Hosts are arbitrary byte strings, with or
without a port. The two side conditions are the decidable
predicates `Spec.covered` (a repaired implementation; a logical request: a path `net/http` accepts — octets that may
not stand in a path only if the Envoy request context encodes them too, known finding `C13-envoy-raw-path-octets` —,
header names that are tokens and none of the hop headers, at most one `Cookie` line) and `Spec.singleValued` (no upstream header collected twice — the
input class of the known finding `C13-first-header-value`).
-/
namespace Heimdall.Props.C13
open Heimdall Heimdall.EntryView

/-! ## The request view -/

/-- **Same view.** For a well-formed logical request every entry point creates *the* request context of the reference
semantics: a caching `Request()` cell whose object is the reference view (method, scheme, host, decoded path, path
and query as written, no captures yet) and the reference view functions (`Header` for every spelling of every name
and for `Host`, `Cookie`, decoded `Body`) — whichever carrier brought the request (HTTP/1.1 message parsed by
`net/http`; `CheckRequest` with the body in either field). Only the `Headers()` map differs, and exactly by the `Host`
entry (`Spec.headersMapAt`, known finding `C13-headers-host-entry`). -/
theorem c13_same_view (D : Decoder) (level : LogLevel) (pack : Bool) {I : Impl} (lr : LReq)
    (hwf : Spec.covered I lr = true) (ep : EP) :
    mkCtx I D level pack ep lr =
      some { ctx := { caches := true, fresh := Spec.obj lr }, funcs := Spec.funcs D lr,
             headersMap := Spec.headersMapAt ep lr, client := Spec.headersMap lr, payload := Spec.payload lr } := by
  simp only [Spec.covered, Spec.repaired, Spec.wellFormed, Bool.and_eq_true, Bool.or_eq_true] at hwf
  obtain ⟨⟨⟨⟨⟨⟨hI1, hI2⟩, hI3⟩, hI4⟩, hI5⟩, ⟨hp, hh⟩, hc⟩, henc⟩ := hwf
  have hq : '?' ∉ lr.rawPath := by
    simp only [Spec.validPath, Bool.and_eq_true, Bool.not_eq_true'] at hp
    exact not_mem_of_contains_false hp.1.1.2
  cases ep with
  | envoy =>
    simp only [mkCtx, envoyObj_eq I pack lr hI2 hq henc, envoyFuncs_eq I D pack lr hI3 hI4 hI5 hh hc,
      envoyHeaders_toCheck pack lr hh, hI1]
    rfl
  | decision =>
    obtain ⟨r, hr, hm, hho, ht, he, hq, hhd, hb⟩ := toHTTP_some lr hp
    simp only [mkCtx, hr, Option.map_some, dumpMiddleware_id, httpObj_eq lr r hm hho ht he hq,
      httpFuncs_eq D lr r hh hho hhd hb, httpHeadersMap, hhd, strip_plain hh, hho, map_canon_group, hb, httpBody_getD]
    rfl
  | proxy =>
    obtain ⟨r, hr, hm, hho, ht, he, hq, hhd, hb⟩ := toHTTP_some lr hp
    simp only [mkCtx, hr, Option.map_some, dumpMiddleware_id, httpObj_eq lr r hm hho ht he hq,
      httpFuncs_eq D lr r hh hho hhd hb, httpHeadersMap, hhd, strip_plain hh, hho, map_canon_group, hb, httpBody_getD]
    rfl

/-- a well-formed logical request with an escaped path, a query, a header sent twice in different spellings,
    a cookie line and a body -/
def witnessReq : LReq :=
  { method := b!"POST", tls := true, host := b!"app.example.com", rawPath := b!"/files/a%2Fb%20c",
    query := b!"x=1&y=%2F",
    headers := [(b!"X-Tag", b!"a"), (b!"x-tag", b!"b"),
                (b!"Cookie", b!"sid=\"abc\"; t=1"), (b!"content-type", b!"application/json")],
    body := some b!"{\"k\":\"v\"}" }

example : Spec.covered Impl.fixed witnessReq = true := by decide

/-- a request whose path contains octets that may not stand in a path, next to an encoded slash -/
def witnessWide : LReq := { witnessReq with rawPath := b!"/files/a%2Fb<c>|d" }

/-- covered once the Envoy request context encodes such octets as well (proposed `fixes/C13-6`), not before -/
example : Spec.covered Impl.next witnessWide = true ∧ Spec.covered Impl.fixed witnessWide = false := by decide

/-- what the reference view of that request is -/
example : (Spec.obj witnessReq).url.path = b!"/files/a/b c" ∧
    Spec.header witnessReq b!"X-TAG" = b!"a,b" ∧ Spec.header witnessReq b!"host" = b!"app.example.com" ∧
    Spec.cookie witnessReq b!"sid" = b!"abc" := by decide

/-- **The raw path is the received spelling.** For every path `net/http` accepts — whatever Go's URL parser makes of
it — the raw path the HTTP based services show is the path as the client wrote it, with exactly the octets encoded
(`%XX`, upper case) that may not stand in a path; no escape of the client is re-spelled or decoded (so `%2F` next to a
`<` stays `%2F`); the query is the query as written. -/
theorem c13_http_raw_path_is_received_spelling (lr : LReq) (h : Spec.validPath lr.rawPath = true) :
    ∃ u, goParseTarget lr.target = some u ∧ httpEscapedPath u = receivedL lr.rawPath ∧ u.rawQuery = lr.query :=
  http_received_path lr h

/-- a path in valid encoding is shown as written -/
theorem c13_valid_path_is_kept (p : Bytes) (h : validEncodedPath p = true) : receivedL p = p :=
  receivedL_of_valid p h

example : receivedL b!"/a b/%2f<x>/é%41" = b!"/a%20b/%2f%3Cx%3E/%E9%41" := by decide

/-- header names are case-insensitive in both carriers: Envoy's lower-cased, merged header map, canonicalised, *is*
    the map `net/http` builds (same keys, same order, values joined) -/
theorem c13_header_maps_coincide (pack : Bool) (lr : LReq) (h : Spec.plainHeaders lr = true) :
    envoyHeaders (toCheck pack lr) = (group canonKey lr.headers).map fun kv => (kv.1, join comma kv.2) :=
  envoyHeaders_toCheck pack lr h

/-! ## The view is state: what lookup writes, execution reads -/

/-- **The cached view is a piece of state.** With a caching request context (all three entry points after `C13-1`)
any sequence of code blocks that each call `ctx.Request()` and write through the pointer behaves like a fold over one
object: the next caller sees exactly what the previous ones left. Any number of blocks. -/
theorem c13_view_is_state (c : Ctx) (hc : c.caches = true) (blocks : List (ReqObj → ReqObj)) :
    (c.runBlocks blocks).current = blocks.foldl (fun o f => f o) c.current :=
  runBlocks_caching c hc blocks

/-- … and without caching (the original Envoy request context) every write is lost, whatever was written and
    however often: the next caller is handed a freshly made object -/
theorem c13_uncached_view_forgets (c : Ctx) (hc : c.caches = false) (blocks : List (ReqObj → ReqObj)) :
    (c.runBlocks blocks).current = c.fresh :=
  runBlocks_not_caching c hc blocks

/-! ## The run -/

/-- **Every entry point refines the reference run.** For a well-formed logical request and any rule set, the answer
of each entry point is the answer the reference semantics gives for the run of the rule set on the reference view —
decision, the view shown to the mechanisms (with the captures), cookies and header names handed to the upstream side;
header values as `Spec.handOver` says. -/
theorem c13_refines_reference (cfg : Cfg) (pack : Bool) {I : Impl} (lr : LReq) (hwf : Spec.covered I lr = true) (ep : EP) :
    serve I cfg pack ep lr = some (Spec.delivered cfg.respond lr ep (Spec.serve cfg lr)) := by
  simp only [serve, c13_same_view cfg.D cfg.logLevel pack lr hwf ep, Option.map_some, Spec.serve]
  exact congrArg some (execute_caching cfg lr (Spec.funcs cfg.D lr) ep (Spec.obj lr))

/-- the Envoy service hands over all values; the others do when nothing was collected twice -/
theorem c13_delivered_is_answer (R : Respond) (lr : LReq) (ep : EP) (r : Spec.Run)
    (h : ep = .envoy ∨ Spec.singleValued r = true) :
    Spec.delivered R lr ep r = Spec.answer R lr ep r := by
  have hv : ∀ kv ∈ r.ups.headers, Spec.handOver ep kv.2 = join comma kv.2 := by
    intro kv hkv
    rcases h with h | h
    · simp [Spec.handOver, h]
    · have := (List.all_eq_true.mp h) kv hkv
      unfold Spec.handOver
      split
      · rfl
      · match hk : kv.2 with
        | [] => rfl
        | [v] => rfl
        | _ :: _ :: _ => simp [hk] at this
  have hm : (r.ups.headers.map fun kv => (kv.1, Spec.handOver ep kv.2)) =
      r.ups.headers.map fun kv => (kv.1, join comma kv.2) :=
    List.map_congr_left fun kv hkv => by rw [hv kv hkv]
  simp only [Spec.delivered, Spec.answer, Spec.answerWith, hm]

/-- **Same answer.** For a well-formed logical request, any rule set and any run in which no upstream header is
collected twice, the three entry points give the answer of the reference semantics: the same decision, the same
request view shown to the mechanisms, the same headers and cookies for the upstream side (a proxy additionally needs
an upstream, which only the default rule lacks). -/
theorem c13_same_answer (cfg : Cfg) (pack : Bool) {I : Impl} (lr : LReq) (hwf : Spec.covered I lr = true)
    (hsv : Spec.singleValued (Spec.serve cfg lr) = true) (ep : EP) :
    serve I cfg pack ep lr = some (Spec.answer cfg.respond lr ep (Spec.serve cfg lr)) := by
  rw [c13_refines_reference cfg pack lr hwf ep, c13_delivered_is_answer _ _ ep _ (Or.inr hsv)]

example : Spec.singleValued
    { dec := .ok, ups := (({} : Ups).addHeader (b!"x-a") (b!"1")).addHeader (b!"X-B") (b!"2") } = true := by decide

/-- the HTTP decision service and the Envoy gRPC decision service answer identically (`respond.with.accepted.code`
    only says how the HTTP decision service spells "allowed"; it is left unset here) -/
theorem c13_decision_eq_envoy (cfg : Cfg) (pack : Bool) {I : Impl} (lr : LReq) (hwf : Spec.covered I lr = true)
    (hsv : Spec.singleValued (Spec.serve cfg lr) = true) (hacc : cfg.respond.accepted = 0) :
    serve I cfg pack .decision lr = serve I cfg pack .envoy lr := by
  rw [c13_same_answer cfg pack lr hwf hsv, c13_same_answer cfg pack lr hwf hsv]
  simp only [Spec.answer, Spec.answerWith, okStatus, orDefault, hacc]
  cases (Spec.serve cfg lr).dec <;> simp

/-- … and so does the proxy service, for every rule that names an upstream (every rule but the default rule) -/
theorem c13_proxy_eq_decision (cfg : Cfg) (pack : Bool) {I : Impl} (lr : LReq) (hwf : Spec.covered I lr = true)
    (hsv : Spec.singleValued (Spec.serve cfg lr) = true) (hup : (Spec.serve cfg lr).isDefault = false)
    (hacc : cfg.respond.accepted = 0) :
    serve I cfg pack .proxy lr = serve I cfg pack .decision lr := by
  rw [c13_same_answer cfg pack lr hwf hsv, c13_same_answer cfg pack lr hwf hsv]
  simp only [Spec.answer, Spec.answerWith, okStatus, orDefault, hacc, hup]
  cases (Spec.serve cfg lr).dec <;> simp

/-- **Same decision**, with no condition on the run: whatever the pipeline collects, the three entry points decide
alike (a proxy without upstream answers with an internal error instead of forwarding). -/
theorem c13_same_decision (cfg : Cfg) (pack : Bool) {I : Impl} (lr : LReq) (hwf : Spec.covered I lr = true) (ep : EP) :
    (serve I cfg pack ep lr).map (·.dec) = some (Spec.decAt ep (Spec.serve cfg lr)) := by
  rw [c13_refines_reference cfg pack lr hwf ep]
  simp only [Option.map_some, Spec.delivered, answerWith_dec]

/-- **Same status, class by class**, for every response configuration: a refusal of class `d` is answered with
`respond.with.<d>.code` (or the default of the class) — as HTTP status by the decision and the proxy service, as
status of the denied response by the Envoy gRPC service; "allowed" is 200 / OK (`accepted.code` at the decision
service). -/
theorem c13_same_status (cfg : Cfg) (pack : Bool) {I : Impl} (lr : LReq) (hwf : Spec.covered I lr = true) (ep : EP) :
    (serve I cfg pack ep lr).map (·.status) =
      some (if Spec.decAt ep (Spec.serve cfg lr) = .ok then okStatus cfg.respond ep
            else cfg.respond.code (Spec.decAt ep (Spec.serve cfg lr))) := by
  rw [c13_refines_reference cfg pack lr hwf ep]
  simp only [Option.map_some, Spec.delivered, answerWith_status]

/-- a response configuration with pairwise different codes: every class is told apart by its status -/
example : let R : Respond := { argument := 422, authentication := 407, authorization := 404, communication := 504,
                               internal := 503, norule := 410 }
    ([Dec.norule, .argument, .authentication, .authorization, .communication, .internal].map R.code) =
      [410, 422, 407, 404, 504, 503] := by decide

/-- **Same refusal**: if the request is not allowed, the three entry points give the very same answer — with no
condition on the run or the response configuration -/
theorem c13_same_refusal (cfg : Cfg) (pack : Bool) {I : Impl} (lr : LReq) (hwf : Spec.covered I lr = true) (e1 e2 : EP)
    (h1 : Spec.decAt e1 (Spec.serve cfg lr) ≠ .ok) (h2 : Spec.decAt e2 (Spec.serve cfg lr) ≠ .ok)
    (hd : Spec.decAt e1 (Spec.serve cfg lr) = Spec.decAt e2 (Spec.serve cfg lr)) :
    serve I cfg pack e1 lr = serve I cfg pack e2 lr := by
  rw [c13_refines_reference cfg pack lr hwf, c13_refines_reference cfg pack lr hwf]
  simp only [Spec.delivered, answerWith_refused _ _ _ _ _ h1, answerWith_refused _ _ _ _ _ h2, hd]

/-- **Same view for the mechanisms**, with no condition on the run -/
theorem c13_same_mechanism_view (cfg : Cfg) (pack : Bool) {I : Impl} (lr : LReq) (hwf : Spec.covered I lr = true) (ep : EP) :
    (serve I cfg pack ep lr).map (·.seen.map fun s => (s.obj, s.stable)) =
      some ((Spec.serve cfg lr).view.map fun o => (o, true)) := by
  rw [c13_refines_reference cfg pack lr hwf ep]
  simp only [Option.map_some, Spec.delivered, answerWith_seen]
  cases (Spec.serve cfg lr).view <;> rfl

/-- **Same cookies and same header names for the upstream side**, with no condition on the run -/
theorem c13_same_upstream_cookies (cfg : Cfg) (pack : Bool) {I : Impl} (lr : LReq) (hwf : Spec.covered I lr = true)
    (e1 e2 : EP) (o1 o2 : Outcome) (h1 : serve I cfg pack e1 lr = some o1)
    (h2 : serve I cfg pack e2 lr = some o2) (hd1 : o1.dec = .ok) (hd2 : o2.dec = .ok) :
    o1.upCookies = o2.upCookies ∧ o1.upHeaders.map (·.1) = o2.upHeaders.map (·.1) := by
  rw [c13_refines_reference cfg pack lr hwf] at h1 h2
  cases h1; cases h2
  obtain ⟨hc1, hh1, _⟩ := answerWith_ok _ _ _ _ _ hd1
  obtain ⟨hc2, hh2, _⟩ := answerWith_ok _ _ _ _ _ hd2
  simp only [Spec.delivered] at *
  rw [hc1, hc2, hh1, hh2]
  simp [List.map_map, Function.comp_def]

/-- **The pipeline's header wins, at every entry point.** What the upstream application is shown under a header name
the pipeline handed over is the pipeline's value — whatever the client sent under that name, in whatever spelling and
however often —, and every other header of the client is passed on. -/
theorem c13_pipeline_header_replaces_client_header (cfg : Cfg) (pack : Bool) {I : Impl} (lr : LReq)
    (hwf : Spec.covered I lr = true) (ep : EP) (out : Outcome) (hs : serve I cfg pack ep lr = some out)
    (hok : out.dec = .ok) (name : Bytes) :
    EntryView.lookup name out.upSees =
      (EntryView.lookup name out.upHeaders).orElse fun _ => EntryView.lookup name (Spec.headersMap lr) := by
  rw [c13_refines_reference cfg pack lr hwf] at hs
  cases hs
  obtain ⟨_, hh, hsees⟩ := answerWith_ok _ _ _ _ _ hok
  simp only [Spec.delivered] at *
  rw [hsees, hh, lookup_overrideHeaders]

/-- the client sends `x-user: mallory`, the pipeline sets `X-User: alice`: the upstream is shown `alice` only -/
example : overrideHeaders [(b!"X-User", b!"mallory"), (b!"Accept", b!"*/*")] [(b!"X-User", b!"alice")] =
    [(b!"X-User", b!"alice"), (b!"Accept", b!"*/*")] := by decide

/-- **Captures survive.** When the lookup finds a rule with captured path values `ps`, the view every mechanism of
that rule is shown — at every entry point — carries exactly these values, decoded according to the rule's
`allow_encoded_slashes` setting, and `ctx.Request()` keeps returning that object. -/
theorem c13_captures_survive (cfg : Cfg) (pack : Bool) {I : Impl} (lr : LReq) (hwf : Spec.covered I lr = true) (ep : EP)
    (v : RVal) (ps : List (String × String))
    (hfind : cfg.repo.findRule cfg.hasDefault (Spec.obj lr).toReqView = .rule v ps)
    (out : Outcome) (s : Seen) (hs : serve I cfg pack ep lr = some out) (hseen : out.seen = some s) :
    s.stable = true ∧
    s.obj.captures = some ((toBytesPairs (lastWins ps)).map fun kv =>
      (kv.1, (unescapeCapture v.esh (str kv.2)).toList)) := by
  rw [c13_refines_reference cfg pack lr hwf ep] at hs
  cases hs
  have hview : (Spec.serve cfg lr).view = some s.obj ∧ s.stable = true := by
    simp only [Spec.delivered, answerWith_seen] at hseen
    cases hv : (Spec.serve cfg lr).view with
    | none => simp [hv] at hseen
    | some o => simp [hv] at hseen; rw [← hseen]; exact ⟨rfl, rfl⟩
  refine ⟨hview.2, ?_⟩
  have hv := hview.1
  simp only [Spec.serve, Spec.serveOn, hfind] at hv
  split at hv
  · simp at hv
  · rename_i hpre
    have hobj : (prelude v.esh { Spec.obj lr with captures := some (toBytesPairs (lastWins ps)) }).1 = s.obj :=
      runPipe_view _ _ _ _ _ hv
    rw [← hobj, prelude_captures _ _ (by simpa using hpre)]
    rfl

/-- how Envoy delivers the body (`body` or `raw_body`) is irrelevant -/
theorem c13_body_field_irrelevant (cfg : Cfg) {I : Impl} (lr : LReq) (hwf : Spec.covered I lr = true) (ep : EP) :
    serve I cfg true ep lr = serve I cfg false ep lr := by
  rw [c13_refines_reference cfg true lr hwf ep, c13_refines_reference cfg false lr hwf ep]

/-! ## The log level of the services and the length of the body -/

/-- **The view does not depend on the log level.** The services are created with the logger of the configured
`log.level`; the HTTP based services then run the `dump` middleware, which at level `trace` drains the body of the
request into the log and restores it (`dumpMiddleware`), the pipeline code writes more or fewer log lines — but the
request context an entry point creates (the `Request()` cell, `Header`, `Cookie`, decoded `Body`, `Headers()`, the
payload held for the upstream) and the whole answer (decision, status, view shown to the mechanisms, headers, cookies
and payload for the upstream side) are the same at every level. For every implementation variant, logical request
(well-formed or not, body of any length), rule set, decoder library, body attribute and entry point; no hypothesis. -/
theorem c13_view_independent_of_log_level (I : Impl) (cfg : Cfg) (level : LogLevel) (pack : Bool) (ep : EP) (lr : LReq) :
    mkCtx I cfg.D level pack ep lr = mkCtx I cfg.D cfg.logLevel pack ep lr ∧
    serve I { cfg with logLevel := level } pack ep lr = serve I cfg pack ep lr := by
  have hm : ∀ l, mkCtx I cfg.D l pack ep lr = mkCtx I cfg.D .disabled pack ep lr := by
    intro l
    cases ep <;> simp only [mkCtx, dumpMiddleware_id]
  refine ⟨by rw [hm level, hm cfg.logLevel], ?_⟩
  simp only [serve, hm level, hm cfg.logLevel]
  rfl

/-- a witness the tie replays at every level: the request of `witnessReq` at `trace` and at `disabled` -/
example (D : Decoder) : (mkCtx Impl.fixed D .trace true .decision witnessReq).map (·.payload) = some b!"{\"k\":\"v\"}" ∧
    (mkCtx Impl.fixed D .disabled true .proxy witnessReq).map (·.payload) = some b!"{\"k\":\"v\"}" := by
  constructor <;> rfl

/-- **Same decoded body and same payload for a body of any length, at every log level.** `b` is an arbitrary
non-empty byte string — there is no bound on its length anywhere in the statement or in the model (`drainBody`,
`Body()` and Envoy's buffered copy hold the whole body): every entry point shows the pipeline `b` decoded according to
the `Content-Type` of the request (the raw bytes if there is no decoder for it or decoding fails) and holds exactly
`b` as the payload for the upstream. (For no body or no bytes the view is the empty string: `c13_same_view`.) -/
theorem c13_same_body (D : Decoder) (level : LogLevel) (pack : Bool) {I : Impl} (lr : LReq)
    (hwf : Spec.covered I lr = true) (ep : EP) (b : Bytes) (hb : lr.body = some b) (hne : b ≠ []) :
    (mkCtx I D level pack ep lr).map (·.funcs.body) = some (decodeBody D (Spec.header lr b!"Content-Type") b) ∧
    (mkCtx I D level pack ep lr).map (·.payload) = some b := by
  rw [c13_same_view D level pack lr hwf ep]
  have he : b.isEmpty = false := by cases b <;> simp_all
  simp [Spec.funcs, Spec.body, Spec.payload, hb, he]

/-- a JSON body `{"data":"x…x"}` with `n` letters -/
def bodyOf (n : Nat) : Bytes := b!"{\"data\":\"" ++ List.replicate n 'x' ++ b!"\"}"

theorem bodyOf_length (n : Nat) : (bodyOf n).length = n + 11 := by
  simp only [bodyOf, List.length_append, List.length_replicate, List.length_cons, List.length_nil]
  omega

/-- a request with a JSON body of 300 011 bytes (well above the 16 KiB at which a bounded dump would stop) -/
def witnessBig : LReq := { witnessReq with body := some (bodyOf 300000) }

example : Spec.covered Impl.fixed witnessBig = true ∧ witnessBig.body = some (bodyOf 300000) := ⟨by decide, rfl⟩

example : bodyOf 300000 ≠ [] ∧ (bodyOf 300000).length = 300000 + 11 := by
  refine ⟨fun h => ?_, bodyOf_length _⟩
  have hl := congrArg List.length h
  rw [bodyOf_length] at hl
  exact absurd hl (by simp)

/-- **The upstream receives the payload the client sent**, whenever the request is allowed — at every entry point,
at every log level, for a body of any length. -/
theorem c13_same_payload (cfg : Cfg) (pack : Bool) {I : Impl} (lr : LReq) (hwf : Spec.covered I lr = true) (ep : EP)
    (out : Outcome) (hs : serve I cfg pack ep lr = some out) (hok : out.dec = .ok) :
    out.upBody = lr.body.getD [] := by
  rw [c13_refines_reference cfg pack lr hwf] at hs
  cases hs
  exact answerWith_upBody _ _ _ _ _ hok

/-! ## The host as written: a port that is spelled out, the default port of the scheme included -/

/-- **Same host, hostname and port.** For a covered logical request every entry point creates a view whose
`URL.Host` is the host as the client wrote it (the `Host` line of the HTTP message, the `host` attribute Envoy
delivers), so `URL.Hostname()` and `URL.Port()` (`net/url`'s `splitHostPort`) are the parts of *that* string, and
`Header("Host")` is the same string — for every host: with or without a port, whatever the port's number, whatever
the scheme. No entry point normalises the host. -/
theorem c13_same_host_and_port (D : Decoder) (level : LogLevel) (pack : Bool) {I : Impl} (lr : LReq)
    (hwf : Spec.covered I lr = true) (ep : EP) :
    (mkCtx I D level pack ep lr).map (fun e =>
        (e.ctx.fresh.url.host, e.ctx.fresh.url.hostname, e.ctx.fresh.url.port, e.funcs.header b!"Host")) =
      some (lr.host, (splitHostPort lr.host).1, (splitHostPort lr.host).2, lr.host) := by
  rw [c13_same_view D level pack lr hwf ep]
  have hk : canonKey b!"Host" = hostKey := by decide
  simp [Spec.obj, Spec.url, URLv.hostname, URLv.port, Spec.funcs, Spec.header, hk]

/-- **A port that is spelled out is shown, whatever its number.** If the client wrote `name:port` (a port of digits:
`:8443`, but just as well `:80` over http or `:443` over https, which name the default port of the scheme), every
entry point shows the pipeline that very host, `Hostname()` = `name` (without the brackets of an IPv6 literal) and
`Port()` = `port`. `name` is arbitrary (it may contain colons). -/
theorem c13_spelled_out_port_is_kept (D : Decoder) (level : LogLevel) (pack : Bool) {I : Impl} (lr : LReq)
    (hwf : Spec.covered I lr = true) (ep : EP) (name port : Bytes) (hh : lr.host = name ++ ':' :: port)
    (hd : port.all isDigitA = true) :
    (mkCtx I D level pack ep lr).map (fun e =>
        (e.ctx.fresh.url.host, e.ctx.fresh.url.hostname, e.ctx.fresh.url.port, e.funcs.header b!"Host")) =
      some (name ++ ':' :: port, stripBrackets name, port, name ++ ':' :: port) := by
  rw [c13_same_host_and_port D level pack lr hwf ep, hh, splitHostPort_port name port hd]

/-- the request of `witnessReq` (https) with the default port of its scheme spelled out, and over http with `:80` -/
def witnessPort443 : LReq := { witnessReq with host := b!"shop.example.com:443" }
def witnessPort80 : LReq := { witnessReq with tls := false, host := b!"[2001:db8::1]:80" }

example : Spec.covered Impl.fixed witnessPort443 = true ∧ Spec.covered Impl.fixed witnessPort80 = true ∧
    witnessPort443.scheme = b!"https" ∧ witnessPort80.scheme = b!"http" ∧
    witnessPort443.host = b!"shop.example.com" ++ ':' :: b!"443" ∧ (b!"443").all isDigitA = true ∧
    splitHostPort witnessPort443.host = (b!"shop.example.com", b!"443") ∧
    splitHostPort witnessPort80.host = (b!"2001:db8::1", b!"80") ∧
    splitHostPort b!"shop.example.com" = (b!"shop.example.com", b!"") ∧
    splitHostPort b!"[::1]" = (b!"::1", b!"") ∧ splitHostPort b!"a.example.com:" = (b!"a.example.com", b!"") ∧
    splitHostPort b!"a.example.com:http" = (b!"a.example.com:http", b!"") := by decide

/-- **Every mechanism reads the host as written.** Whatever rule answers and at whichever entry point: the view a
mechanism of the pipeline is shown has the host and the scheme of the logical request, so a template or a CEL
expression over `Request.URL.Host`, `Request.URL.Hostname()` or `Request.URL.Port()` yields the parts of the host as the
client wrote it — the same value at all three entry points. -/
theorem c13_mechanisms_read_the_written_host (cfg : Cfg) (pack : Bool) {I : Impl} (lr : LReq)
    (hwf : Spec.covered I lr = true) (ep : EP) (out : Outcome) (s : Seen) (hs : serve I cfg pack ep lr = some out)
    (hseen : out.seen = some s) (F : Funcs) :
    Probe.tmpl s.obj F .host = lr.host ∧ Probe.tmpl s.obj F .hostname = (splitHostPort lr.host).1 ∧
    Probe.tmpl s.obj F .port = (splitHostPort lr.host).2 ∧ Probe.tmpl s.obj F .scheme = lr.scheme := by
  rw [c13_refines_reference cfg pack lr hwf ep] at hs
  cases hs
  have hview : (Spec.serve cfg lr).view = some s.obj := by
    simp only [Spec.delivered, answerWith_seen] at hseen
    cases hv : (Spec.serve cfg lr).view with
    | none => simp [hv] at hseen
    | some o => simp [hv] at hseen; rw [← hseen]
  obtain ⟨hh, hsch⟩ := serve_view_host cfg lr s.obj hview
  simp [Probe.tmpl, URLv.hostname, URLv.port, hh, hsch]

/-! ## The configured buffer limits -/

/-- **The answer does not depend on `buffer_limit`.** `serve.decision.buffer_limit` / `serve.proxy.buffer_limit` bound
what the `net/http` servers read for the request line and the header block (`headerBudget`); a request they hand to
the handler chain (`reachesChain`; the Envoy gRPC service is handed every request) is answered in the same way under any
two configurations of the limits: same request context, same decision, view, headers, cookies and payload for the
upstream side. For every implementation variant, request (covered or not, body of any length), rule set and entry
point. -/
theorem c13_answer_independent_of_buffer_limit (I : Impl) (cfg : Cfg) (l : Limits) (pack : Bool) (ep : EP) (lr : LReq)
    (h1 : reachesChain l ep lr = true) (h2 : reachesChain cfg.limits ep lr = true) :
    listen I { cfg with limits := l } pack ep lr = listen I cfg pack ep lr ∧
    serve I { cfg with limits := l } pack ep lr = serve I cfg pack ep lr := by
  refine ⟨?_, rfl⟩
  simp only [listen, h1, h2, if_true]
  rfl

/-- the body does not count for the admission: only the request line and the header block do -/
theorem c13_admission_ignores_body (l : Limits) (ep : EP) (lr : LReq) (b : Option Bytes) :
    reachesChain l ep { lr with body := b } = reachesChain l ep lr := rfl

/-- **The body is not bounded by `buffer_limit.read`.** For a covered request whose head fits the configured limit and
whose body `b` is an arbitrary non-empty byte string — in particular one (far) longer than `buffer_limit.read` —
every entry point answers as the reference semantics says, shows the pipeline `b` decoded according to the
`Content-Type` of the request and holds exactly `b` as the payload for the upstream. -/
theorem c13_body_not_bounded_by_read_limit (cfg : Cfg) (pack : Bool) {I : Impl} (lr : LReq)
    (hwf : Spec.covered I lr = true) (ep : EP) (hfit : Spec.fits cfg.limits lr = true)
    (b : Bytes) (hb : lr.body = some b) (hne : b ≠ []) :
    listen I cfg pack ep lr = some (some (Spec.delivered cfg.respond lr ep (Spec.serve cfg lr))) ∧
    (mkCtx I cfg.D cfg.logLevel pack ep lr).map (·.funcs.body) =
      some (decodeBody cfg.D (Spec.header lr b!"Content-Type") b) ∧
    (mkCtx I cfg.D cfg.logLevel pack ep lr).map (·.payload) = some b := by
  have hadm : reachesChain cfg.limits ep lr = true := by
    simp only [Spec.fits] at hfit
    simp [reachesChain, hfit]
  refine ⟨?_, c13_same_body cfg.D cfg.logLevel pack lr hwf ep b hb hne⟩
  simp only [listen, hadm, if_true, c13_refines_reference cfg pack lr hwf ep]

/-- the documented defaults (4 KiB each): the head of `witnessBig` fits, its body is 300 011 bytes long -/
example : Spec.fits { read := 4096, write := 4096 } witnessBig = true ∧ witnessBig.headLength = 143 ∧
    headerBudget { read := 4096, write := 4096 } = 8192 ∧ headerBudget {} = 1052672 ∧
    (bodyOf 300000).length > 4096 := by
  refine ⟨by decide, by decide, by decide, by decide, ?_⟩
  rw [bodyOf_length]
  omega

/-- a head that does not fit is refused by the HTTP based services and decided by the Envoy service: outside the
    statement (`Spec.fits`) -/
example (v : Bytes) (hv : v.length = 5000) :
    let lr : LReq := { witnessReq with headers := [(b!"X-Pad", v)] }
    reachesChain { read := 512 } .decision lr = false ∧ reachesChain { read := 512 } .proxy lr = false ∧
    reachesChain { read := 512 } .envoy lr = true ∧ reachesChain {} .decision lr = true := by
  simp [reachesChain, LReq.headLength, LReq.target, headerBudget, witnessReq, hv]

/-! ## Known findings (kept in the model; the statements above say exactly where they bite) -/

/-- `C13-first-header-value`: a header collected twice reaches the upstream side of the decision and proxy services
    with its first value only, that of the Envoy service with all values -/
theorem c13_same_upstream_headers_partial (r : Spec.Run) (h : Spec.singleValued r = true) (e1 e2 : EP) :
    (r.ups.headers.map fun kv => (kv.1, Spec.handOver e1 kv.2)) =
      r.ups.headers.map fun kv => (kv.1, Spec.handOver e2 kv.2) := by
  refine List.map_congr_left fun kv hkv => ?_
  have := (List.all_eq_true.mp h) kv hkv
  match hk : kv.2 with
  | [] => simp [Spec.handOver]; split <;> split <;> rfl
  | [v] => simp [Spec.handOver]; split <;> split <;> rfl
  | _ :: _ :: _ => simp [hk] at this

/-- the side condition cannot be dropped: two finalizers setting `X-User` -/
example : let u := (({} : Ups).addHeader (b!"X-User") (b!"a")).addHeader (b!"x-user") (b!"b")
    (u.headers.map fun kv => (kv.1, Spec.handOver .decision kv.2)) = [(b!"X-User", b!"a")] ∧
    (u.headers.map fun kv => (kv.1, Spec.handOver .envoy kv.2)) = [(b!"X-User", b!"a,b")] := by decide

/-- `C13-headers-host-entry`: the `Headers()` maps of the HTTP based services and of the Envoy service differ by the
    `Host` entry and by nothing else -/
theorem c13_headers_map_partial (lr : LReq) :
    Spec.headersMapAt .decision lr = (hostKey, lr.host) :: Spec.headersMapAt .envoy lr ∧
    Spec.headersMapAt .proxy lr = Spec.headersMapAt .decision lr := by
  simp [Spec.headersMapAt]

/-- `C13-envoy-raw-path-octets`: for a path with octets that may not stand in a path the Envoy request context of
    /repo (`Impl.fixed`) keeps the octets in the raw path, the HTTP based services (and the reference view) show them
    encoded — the decoded path is the same; with the proposed `fixes/C13-6` (`Impl.next`) the views coincide
    (`c13_same_view` for `Impl.next`) -/
example : (envoyObj Impl.fixed (toCheck true witnessWide)).url.rawPath = b!"/files/a%2Fb<c>|d" ∧
    (Spec.obj witnessWide).url.rawPath = b!"/files/a%2Fb%3Cc%3E%7Cd" ∧
    (envoyObj Impl.fixed (toCheck true witnessWide)).url.path = (Spec.obj witnessWide).url.path ∧
    envoyObj Impl.next (toCheck true witnessWide) = Spec.obj witnessWide := by decide

/-! ## The defects of the original Envoy request context, at concrete witnesses (`Impl.original`) -/

def check0 : CheckReq := toCheck true witnessReq

/-- C13-1: the lookup stored the captures in an object the rule execution never sees -/
example : ((({ caches := Impl.original.cachesView, fresh := envoyObj Impl.original check0 } : Ctx).runBlocks
    [fun o => { o with captures := some [(b!"id", b!"42")] }]).current).captures = none := by decide

/-- C13-2: the request target was taken for the path: undecoded, with the query, no raw path (so `%2F` under
    `allow_encoded_slashes: off` was never noticed and re-encoded unreserved characters did not match) -/
example : (envoyObj Impl.original check0).url.path = b!"/files/a%2Fb%20c?x=1&y=%2F" ∧
    (envoyObj Impl.original check0).url.rawPath = [] ∧ (envoyObj Impl.original check0).url.rawQuery = [] ∧
    (Spec.obj witnessReq).url.path = b!"/files/a/b c" ∧
    (Spec.obj witnessReq).url.rawQuery = b!"x=1&y=%2F" := by decide

/-- C13-3: header lookup by the exact canonical spelling only; no `Host` -/
example : envoyHeader Impl.original check0 b!"x-tag" = [] ∧ envoyHeader Impl.original check0 b!"Host" = [] ∧
    envoyHeader Impl.fixed check0 b!"x-tag" = b!"a,b" ∧
    envoyHeader Impl.fixed check0 b!"Host" = b!"app.example.com" := by decide

/-- C13-4: cookie values were not parsed as `net/http` does (quotes kept) -/
example : envoyCookie Impl.original check0 b!"sid" = b!"\"abc\"" ∧
    envoyCookie Impl.fixed check0 b!"sid" = b!"abc" := by decide

/-- C13-5: a body delivered in the `body` attribute (Envoy's default) was ignored -/
example : ∀ D : Decoder, envoyBody Impl.original D (toCheck false witnessReq) = decodeBody D b!"application/json" [] ∧
    envoyBody Impl.fixed D (toCheck false witnessReq) =
      decodeBody D b!"application/json" b!"{\"k\":\"v\"}" := by
  intro D
  constructor <;> rfl

/-! ## A trusted gateway delegating the decision (`serve.decision.trusted_proxies`, `X-Forwarded-*`)

The HTTP decision service learns the logical request from a gateway (Traefik `forwardAuth`, NGINX `auth_request`, …)
that sends a request of its own — any method, any request target, over any transport — and describes the request of
the client in `X-Forwarded-Method`, `-Proto`, `-Host`, `-Uri` (`forwardAuth`). The peer is a trusted proxy, so the
`trustedproxy` middleware keeps the headers and `extractMethod` / `extractURL` read the view from them
(`httpObjFwd`, `mkCtxFwd`, `serveFwd`). -/

/-- **A delegated request is shown as the logical request.** For every gateway (method, transport and target of its
own request), every log level and every logical request with a path `net/http` accepts that can be described in the
forwarded headers (`Spec.forwardable`: method and host not empty, path in origin form, no `#`), the request context of
the decision service holds *the* view of the logical request — method, scheme, host as written, the path **as written
from its first to its last octet** (in the received spelling) and its decoding, the query as written, whatever octets
path and query consist of: a comma, a semicolon, `=`, `&`, `%2F` … are octets like any other and nothing of the
`X-Forwarded-Uri` value is cut off or treated as a list —, the view functions answer every header other than the hop
headers (in every spelling), `Host`, every cookie and the decoded body as the reference semantics says, and the payload
is the body. These are exactly the view and the functions `c13_same_view` establishes for the proxy service and the
Envoy gRPC service receiving the request itself. -/
theorem c13_delegated_request_is_the_logical_request (D : Decoder) (level : LogLevel) (g : Gateway) (lr : LReq)
    (hp : Spec.validPath lr.rawPath = true) (hf : Spec.forwardable lr = true) (hg : Spec.validPath g.path = true) :
    ∃ e, mkCtxFwd D level g lr = some e ∧ e.ctx.caches = true ∧ e.ctx.cell = none ∧ e.ctx.fresh = Spec.obj lr ∧
      (∀ name, untrustedHeaders.contains (canonKey name) = false → e.funcs.header name = Spec.header lr name) ∧
      e.funcs.cookie = Spec.cookie lr ∧ e.funcs.body = Spec.body D lr ∧ e.payload = Spec.payload lr := by
  obtain ⟨r, hr, hh, hhd, hb, ho⟩ := httpObjFwd_forwardAuth g lr hp hf hg
  obtain ⟨f1, f2, f3⟩ := httpFuncsOn_forwardAuth D g lr r hh hhd hb
  refine ⟨_, by simp only [mkCtxFwd, hr, Option.map_some, dumpMiddleware_id, trustedProxyMiddleware, if_true]; rfl,
    rfl, rfl, ho, f1, f2, f3, ?_⟩
  simp only [hb, Spec.payload]
  cases lr.body with
  | none => rfl
  | some b => by_cases hbe : b.isEmpty = true <;> simp_all

/-- **Delegated or received directly: the same view.** The object `Request()` hands to the rule lookup, to the rule
execution and to every mechanism at the decision service behind a trusted gateway is the object of every entry point
that receives the logical request itself (decision, proxy, Envoy gRPC), for every covered request that can be described
in forwarded headers. -/
theorem c13_delegated_view_eq_direct_view (D : Decoder) (level : LogLevel) (pack : Bool) {I : Impl} (g : Gateway)
    (lr : LReq) (hc : Spec.covered I lr = true) (hf : Spec.forwardable lr = true)
    (hg : Spec.validPath g.path = true) (ep : EP) :
    (mkCtxFwd D level g lr).map (·.ctx.fresh) = (mkCtx I D level pack ep lr).map (·.ctx.fresh) ∧
    (mkCtxFwd D level g lr).map (·.funcs.cookie) = (mkCtx I D level pack ep lr).map (·.funcs.cookie) ∧
    (mkCtxFwd D level g lr).map (·.funcs.body) = (mkCtx I D level pack ep lr).map (·.funcs.body) ∧
    (mkCtxFwd D level g lr).map (·.payload) = (mkCtx I D level pack ep lr).map (·.payload) := by
  have hp : Spec.validPath lr.rawPath = true := by
    simp only [Spec.covered, Spec.wellFormed, Bool.and_eq_true] at hc
    exact hc.1.2.1.1
  obtain ⟨e, he, -, -, ho, -, hck, hbd, hpl⟩ := c13_delegated_request_is_the_logical_request D level g lr hp hf hg
  rw [he, c13_same_view D level pack lr hc ep]
  refine ⟨?_, ?_, ?_, ?_⟩ <;> simp [ho, hck, hbd, hpl, Spec.funcs]

/-- a path and a query with commas (legal sub-delimiters, not list separators), delegated by a gateway that asks with
    `GET /decide` over a plain connection while the client used `POST` over TLS -/
def witnessComma : LReq :=
  { method := b!"POST", tls := true, host := b!"api.example.com", rawPath := b!"/items/1,2,3",
    query := b!"fields=name,price", headers := [(b!"X-Tag", b!"a")], body := none }

def witnessGateway : Gateway := { method := some b!"GET", tls := false, path := b!"/decide" }

example : Spec.covered Impl.fixed witnessComma = true ∧ Spec.forwardable witnessComma = true ∧
    Spec.validPath witnessGateway.path = true := by decide

example : (toHTTP (forwardAuth witnessGateway witnessComma)).map httpObjFwd =
    some { method := b!"POST",
           url := { scheme := b!"https", host := b!"api.example.com", path := b!"/items/1,2,3",
                    rawPath := b!"/items/1,2,3", rawQuery := b!"fields=name,price" },
           captures := none } := by decide

/-- outside `Spec.forwardable`: a `#` in the request target would be read as the start of a fragment -/
example : Spec.forwardable { witnessComma with rawPath := b!"/a#b" } = false := by decide

end Heimdall.Props.C13
