import HeimdallModel.Gen.EntrySrc
/-!
# C01 — the entry-point kernels *as they stand in the source*: no positive answer without a completed rule execution

`Gen/EntrySrc.lean` is regenerated on every run by the Go → Lean translator `extract/go2lean` (`cmd/entry`) from the whole
bodies of `(*ruleExecutor).Execute`, `(*handler).ServeHTTP` (decision and proxy services) and `(*Handler).Check` (Envoy
ext_authz). What the repository, the rule, the request context and the error handler do is a parameter; here each of
them logs its being called into the context (`Ev`), so the theorems say **which calls happen, in which order, for every
behaviour of the parts**:

* no rule found ⇒ the error is returned and no rule is executed;
* the request context is finalised (the accepted status is written / the request is forwarded / the OK check response
  is built) **only if** executing the rule returned no error - whatever the execution returned besides;
* every error (of the execution or of the finalisation) reaches the error handler exactly once, and nothing is written
  twice;
* a panic of the execution leaves the handler as a panic: nothing is finalised, no error response is invented.
These are the edges the model `Heimdall.EntryPoints.serve` (over which `Props/C01.lean` proves "positive answer only
after the whole effective pipeline succeeded") takes between its stages.
-/
namespace Heimdall.Props.C01
open Heimdall

namespace Entry

/-- what the parts of an entry point do, as far as the order of the calls goes -/
inductive Ev (Err : Type) where
  | found | executed | finalized | handled (e : Err)
deriving DecidableEq, Repr

variable {Err Rule Backend RC Resp : Type}

/-- a part that logs `ev` and returns `v` -/
def logs {α : Type} (ev : Ev Err) (v : α) : Go.M (List (Ev Err)) Unit α := fun l => .done v (l ++ [ev])

/-- the translated `ServeHTTP` with parts that log: `execResult` is what `Execute` returns, `finErr` what `Finalize`
returns -/
def serveSrc (rc : RC) (execResult : Option Backend × Option Err) (finErr : Option Err) :
    Go.M (List (Ev Err)) Unit Unit :=
  Entry.Src.HttpHandler.ServeHTTP (Go.pure rc) (fun _ => logs .executed execResult) (fun _ _ => logs .finalized finErr)
    (fun e => match e with | some e => logs (.handled e) () | none => Go.pure ()) ()

/-- the translated `Check` with parts that log -/
def checkSrc (rc : RC) (execResult : Option Backend × Option Err) (fin : Option Resp × Option Err) :
    Go.M (List (Ev Err)) Unit (Option Resp × Option Err) :=
  Entry.Src.EnvoyHandler.Check rc (fun _ => logs .executed execResult) (fun _ => logs .finalized fin) ()

end Entry

open Entry

/-- **The tie holds for this run:** `Gen/EntrySrc.lean` is the result of translating the current source. -/
theorem c01_entry_translated : Entry.Src.translationOk = true := by decide

variable {Err Rule Backend RC Resp : Type}

/-- **No rule, no execution**: when `FindRule` reports an error, `ruleExecutor.Execute` returns it and executes
nothing; otherwise it returns exactly what the rule's `Execute` returns. -/
theorem c01_entry_no_rule_no_execution (r : Rule) (findErr : Option Err)
    (executeRule : Rule → Go.M (List (Ev Err)) Unit (Option Backend × Option Err)) (l : List (Ev Err)) :
    Entry.Src.Executor.Execute (logs .found (r, findErr)) executeRule () l =
      match findErr with
      | some e => .done (none, some e) (l ++ [.found])
      | none => executeRule r (l ++ [.found]) := by
  unfold Entry.Src.Executor.Execute
  cases findErr <;> simp [Go.bind, Go.pure, logs, Go.cond_app]

/-- **What `ServeHTTP` does, for every outcome of its parts**: after a failed execution only the error handler runs;
after a successful one the context is finalised and the error handler runs iff finalising failed. -/
theorem c01_entry_serve_http (rc : RC) (b : Option Backend) (e fe : Option Err) :
    serveSrc rc (b, e) fe [] =
      .done () (match e, fe with
        | some e, _ => [.executed, .handled e]
        | none, some fe => [.executed, .finalized, .handled fe]
        | none, none => [.executed, .finalized]) := by
  unfold serveSrc Entry.Src.HttpHandler.ServeHTTP
  cases e <;> cases fe <;> simp [Go.bind, Go.pure, logs, Go.cond_app]

/-- **Finalised only after a successful execution** (decision: the accepted status; proxy: forwarding), whatever the
execution returned as backend. -/
theorem c01_entry_finalized_only_after_success (rc : RC) (b : Option Backend) (e fe : Option Err) (l : List (Ev Err))
    (h : serveSrc rc (b, e) fe [] = .done () l) (hf : Ev.finalized ∈ l) : e = none := by
  rw [c01_entry_serve_http] at h
  cases e with
  | none => rfl
  | some e0 =>
    simp only [Go.Res.done.injEq, true_and] at h
    subst h
    simp at hf

/-- **Every error is answered by the error handler exactly once.** -/
theorem c01_entry_error_handled_once (rc : RC) (b : Option Backend) (e fe : Option Err) (l : List (Ev Err))
    (h : serveSrc rc (b, e) fe [] = .done () l) :
    (l.filter fun ev => match ev with | .handled _ => true | _ => false).length
      = if e.isSome || fe.isSome then 1 else 0 := by
  rw [c01_entry_serve_http] at h
  simp only [Go.Res.done.injEq, true_and] at h
  subst h
  cases e <;> cases fe <;> simp

/-- **A panic of the execution is not turned into an answer**: `ServeHTTP` panics, nothing is finalised and the error
handler is not asked (the recovery middleware around it answers). -/
theorem c01_entry_panic_propagates (rc : RC) (finalize : RC → Option Backend → Go.M (List (Ev Err)) Unit (Option Err))
    (handle : Option Err → Go.M (List (Ev Err)) Unit Unit) (l : List (Ev Err)) :
    Entry.Src.HttpHandler.ServeHTTP (Go.pure rc) (fun _ => Go.panic ()) finalize handle () l = .panic () l := by
  unfold Entry.Src.HttpHandler.ServeHTTP
  simp [Go.bind, Go.pure, Go.panic]

/-- **Envoy: `Check` builds a response only after a successful execution**; a failed execution is returned as the
error (for the gRPC error interceptor), the request context is not finalised. -/
theorem c01_entry_check (rc : RC) (b : Option Backend) (e : Option Err) (fin : Option Resp × Option Err) :
    checkSrc rc (b, e) fin [] =
      match e with
      | some e => .done (none, some e) [.executed]
      | none => .done fin [.executed, .finalized] := by
  unfold checkSrc Entry.Src.EnvoyHandler.Check
  cases e <;> simp [Go.bind, Go.pure, logs, Go.cond_app]

/-- a failed execution with a backend value all the same (a rule returning `(upstream, err)`) is not finalised
(evaluated on the translated function) -/
example : serveSrc (Err := Nat) (Backend := Nat) () (some 7, some 1) none [] = .done () [.executed, .handled 1] := by
  decide

end Heimdall.Props.C01
