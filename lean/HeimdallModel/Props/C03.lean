import HeimdallModel.Lemmas.Matcher
import HeimdallModel.Lemmas.RepoInv
import HeimdallModel.Props.C02
/-!
# C03 — match conditions and captured path values behave as documented

Statements about `routeMatches` (`internal/rules/route_matcher.go`), the effective method list
(`createMethodMatcher`) and about what the repository exposes as captured values.  Glob and regular expressions are
trusted libraries; a typed matcher is any `TM` with its `matches` predicate.
-/
namespace Heimdall.Props.C03
open Heimdall

/-- **A route matches iff scheme, method, host and every path parameter condition hold**; the host has to satisfy
any one of the listed expressions. -/
theorem c03_route_matches (r : RouteM) (q : ReqView) (keys caps : List String) :
    routeMatches r q keys caps = true ↔
      (r.scheme = "" ∨ r.scheme = q.scheme) ∧
      (r.methods = [] ∨ q.method ∈ r.methods) ∧
      (r.hosts = [] ∨ ∃ h ∈ r.hosts, h.matches q.host = true) ∧
      ∀ pp ∈ r.pps, ppOk r.esh q keys caps pp = true := by
  unfold routeMatches schemeOk methodOk hostOk
  simp only [Bool.and_eq_true, Bool.or_eq_true, List.isEmpty_iff, beq_iff_eq, List.contains_eq_mem,
    decide_eq_true_eq, List.any_eq_true, List.all_eq_true, String.isEmpty_iff, and_assoc]

/-- **Path parameter condition**: the named wildcard exists among the route's wildcard names, and its matched
value — percent-decoded according to the rule's encoded-slash setting — satisfies the expression; with the setting
`off` a request containing an encoded slash satisfies no path parameter condition. -/
theorem c03_path_param (esh : SlashHandling) (q : ReqView) (keys caps : List String) (name : String) (tm : TM)
    (hraw : q.rawPath.isEmpty = false) :
    ppOk esh q keys caps (name, tm) = true ↔
      ∃ v, lookupKey keys caps name = some v ∧
        ¬ (esh = .off ∧ containsEncodedSlash q.rawPath = true) ∧
        tm.matches (unescapeCapture esh v) = true := by
  unfold ppOk
  simp only [hraw, Bool.false_eq_true, if_false]
  cases hl : lookupKey keys caps name with
  | none => simp
  | some v =>
    simp only [Option.some.injEq, exists_eq_left']
    by_cases hc : (decide (esh = SlashHandling.off) && containsEncodedSlash q.rawPath) = true
    · simp only [hc, if_true]
      simp only [Bool.and_eq_true, decide_eq_true_eq] at hc
      simp [hc]
    · simp only [hc, Bool.false_eq_true, if_false]
      simp only [Bool.and_eq_true, decide_eq_true_eq] at hc
      simp [hc]

/-- `lookupKey` finds the value captured for the first wildcard of that name -/
theorem c03_lookupKey_mem (keys caps : List String) (name v : String) (h : lookupKey keys caps name = some v) :
    (name, v) ∈ keys.zip caps := by
  induction keys generalizing caps with
  | nil => simp [lookupKey] at h
  | cons k ks ih =>
    cases caps with
    | nil => simp [lookupKey] at h
    | cons c cs =>
      simp only [lookupKey] at h
      by_cases hk : k = name
      · simp only [hk, if_true, Option.some.injEq] at h
        subst h; subst hk; simp
      · simp only [hk, if_false] at h
        simp [ih cs h]

/-- **Methods**: with `ALL` standing for the nine standard methods, a method is accepted iff it is listed, is not
itself a negated entry and is not excluded by a `!method` entry. -/
theorem c03_methods (l ms : List String) (h : mkMethods l = some ms) (m : String) :
    m ∈ ms ↔ m ∈ expandAll l ∧ isNeg m = false ∧ ("!" ++ m) ∉ expandAll l :=
  mem_mkMethods l ms h m

example : mkMethods ["ALL", "!POST", "!TRACE"] = some ["CONNECT", "DELETE", "GET", "HEAD", "OPTIONS", "PATCH", "PUT"] := by
  decide

/-- **The method clause, end to end**: for the route built from a configured list `l` the request's method is
accepted iff nothing is configured, or the method is listed (directly or through `ALL`), is not a negated entry and
is not excluded by `!method`.  In particular a configured list never degenerates to "any method": a list that allows
nothing (`["!GET"]`, `["GET", "!GET"]`) is a configuration error (`mkMethods = none`, second statement). -/
theorem c03_method_clause (l ms : List String) (h : mkMethods l = some ms) (r : RouteM) (hr : r.methods = ms)
    (q : ReqView) :
    methodOk r q = true ↔
      l = [] ∨ (q.method ∈ expandAll l ∧ isNeg q.method = false ∧ ("!" ++ q.method) ∉ expandAll l) := by
  by_cases hl : l = []
  · subst hl
    have : ms = [] := by
      have : mkMethods [] = some [] := by decide
      rw [this] at h; exact (Option.some.inj h).symm
    simp [methodOk, hr, this]
  · have hne := mkMethods_nonempty l ms hl h
    have hemp : ms.isEmpty = false := by cases ms <;> simp_all
    simp only [methodOk, hr, hemp, Bool.false_or, List.contains_iff_mem, hl, false_or]
    exact mem_mkMethods l ms h q.method

theorem c03_method_list_allowing_nothing_is_rejected :
    mkMethods ["!GET"] = none ∧ mkMethods ["GET", "!GET"] = none ∧ mkMethods ["ALL", "!GET"] ≠ none := by decide

/-- `ALL` expansion, spelled out -/
theorem c03_expandAll (l : List String) (m : String) :
    m ∈ expandAll l ↔ (m ∈ l ∧ ("ALL" ∈ l → m ≠ "ALL")) ∨ ("ALL" ∈ l ∧ m ∈ stdMethods) := by
  unfold expandAll
  by_cases h : l.contains "ALL"
  · have h' : "ALL" ∈ l := by simpa using h
    simp only [h, if_true, List.mem_append, List.mem_filter, decide_eq_true_eq, h', true_and, true_implies, ne_eq]
  · have h' : "ALL" ∉ l := by simpa using h
    simp [h']

/-- **Captured values.** Whenever the repository answers with a rule, that rule is one of the known rules, one of its
routes' path expressions matches the (normalised) request path in the sense of the reference semantics `matchCaps`,
the route's conditions hold for the wildcard names of that expression and the matched segments, and the exposed
parameters are exactly the named wildcards paired with their matched segments — unnamed wildcards (`*`) are not
exposed. -/
theorem c03_captures (s : Repo) (hinv : RepoInv s) (hasDefault : Bool) (q : ReqView) (v : RVal)
    (ps : List (String × String)) (h : s.findRule hasDefault q = .rule v ps) :
    ∃ r ∈ s.known, ∃ rt ∈ r.cfg.routes, ∃ pat keys caps,
      parsePat rt.1 = .ok (pat, keys) ∧
      v = ⟨r.cfg.id, r.src, r.cfg.esh, rt.2, r.cfg.ver⟩ ∧
      matchCaps pat (tokenize (lookupPath q)) = some caps ∧
      routeMatches rt.2 q keys caps = true ∧
      ps = (keys.zip caps).filter (fun kv => kv.1 ≠ "*") := by
  obtain ⟨items, hk, hh, hnd, hc⟩ := hinv
  unfold Repo.findRule at h
  cases hl : lookup (repoMatcher q) s.index (lookupPath q) with
  | none => cases hasDefault <;> simp [hl] at h
  | some vp =>
    simp only [hl, Found?.rule.injEq] at h
    unfold lookup at hl
    cases hf : (find (repoMatcher q) s.index (tokenize (lookupPath q)) []).1 with
    | none => simp [hf] at hl
    | some f =>
      simp only [hf, Option.some.injEq] at hl
      obtain ⟨n, hn, hmatch, hkeys, hval, _⟩ :=
        Heimdall.Props.C02.c02_most_specific (repoMatcher q) s.index hnd _ f hf
      have hvmem : f.value ∈ n.values := List.mem_of_find?_eq_some hval
      have hacc : repoMatcher q f.value n.keys f.caps = true := by simpa using List.find?_some hval
      have hg := getNode_of_mem hnd hn
      rw [hh n.pat, expected_eq] at hg
      cases hfl : items.filter (fun i => i.pat = n.pat) with
      | nil => simp [hfl] at hg
      | cons i rest =>
        simp only [hfl, Option.some.injEq] at hg
        have hvals : n.values = (i :: rest).map (·.val) := by rw [← hg]
        have hnkeys : n.keys = i.keys := by rw [← hg]
        rw [hvals, List.mem_map] at hvmem
        obtain ⟨j, hj, hje⟩ := hvmem
        have hjf : j ∈ items.filter (fun i => i.pat = n.pat) := by rw [hfl]; exact hj
        have hif : i ∈ items.filter (fun i => i.pat = n.pat) := by rw [hfl]; simp
        rw [List.mem_filter] at hjf hif
        have hjp : j.pat = n.pat := by simpa using hjf.2
        have hip : i.pat = n.pat := by simpa using hif.2
        have hjk : j.keys = i.keys := (hc j hjf.1 i hif.1 (hjp.trans hip.symm)).1
        obtain ⟨r, hr, rt, hrt, hmk⟩ := item_origin hk hjf.1
        unfold mkItem at hmk
        cases hp : parsePat rt.1 with
        | error e => simp [hp] at hmk
        | ok pk =>
          obtain ⟨pat, keys⟩ := pk
          simp only [hp, Option.some.injEq] at hmk
          refine ⟨r, hr, rt, hrt, pat, keys, f.caps, hp, ?_, ?_, ?_, ?_⟩
          · rw [← h.1, ← hl]; simp only; rw [← hje, ← hmk]
          · have : pat = n.pat := by rw [← hjp, ← hmk]
            rw [this]; exact hmatch
          · have hk' : keys = n.keys := by rw [hnkeys, ← hjk, ← hmk]
            have hv' : f.value.route = rt.2 := by rw [← hje, ← hmk]
            rw [hk', ← hv']; exact hacc
          · have hk' : keys = f.keys := by rw [hkeys, hnkeys, ← hjk, ← hmk]
            rw [← h.2, ← hl, hk']; rfl

/-- **Exposed values, end to end** (`serve` = lookup + the part of rule execution before the pipeline): when a
regular rule answers and the request is accepted, the values exposed under the wildcard names are the named wildcards
of one of the rule's routes paired with the matched segments of the (normalised) request path — a name used twice
keeps its last segment —, each percent-decoded according to the rule's encoded-slash setting; unnamed wildcards are
not exposed; and a rule with the setting `off` never accepts a request whose path contains an encoded slash. -/
theorem c03_exposed (s : Repo) (hinv : RepoInv s) (d : Bool) (q : ReqView) (src rid : String)
    (exposed : List (String × String)) (hsrc : src ≠ "config")
    (h : s.serve d q = ⟨some (src, rid), some (.ok exposed)⟩) :
    ∃ r ∈ s.known, ∃ rt ∈ r.cfg.routes, ∃ pat keys segs,
      r.src = src ∧ r.cfg.id = rid ∧
      parsePat rt.1 = .ok (pat, keys) ∧
      matchCaps pat (tokenize (lookupPath q)) = some segs ∧
      routeMatches rt.2 q keys segs = true ∧
      exposed = (lastWins ((keys.zip segs).filter (fun kv => kv.1 ≠ "*"))).map
        (fun kv => (kv.1, unescapeCapture r.cfg.esh kv.2)) ∧
      ¬ (r.cfg.esh = .off ∧ containsEncodedSlash q.rawPath = true) := by
  unfold Repo.serve at h
  cases hf : s.findRule d q with
  | none => simp [hf] at h
  | default =>
    simp only [hf, Served.mk.injEq, Option.some.injEq, Prod.mk.injEq] at h
    exact absurd h.1.1.symm hsrc
  | rule v ps =>
    simp only [hf, Served.mk.injEq, Option.some.injEq, Prod.mk.injEq] at h
    obtain ⟨⟨hs, hr⟩, hex⟩ := h
    obtain ⟨r, hrk, rt, hrt, pat, keys, segs, hp, hv, hm, hrm, hps⟩ := c03_captures s hinv d q v ps hf
    have hvs : v.src = r.src := by rw [hv]
    have hvr : v.rid = r.cfg.id := by rw [hv]
    have hve : v.esh = r.cfg.esh := by rw [hv]
    refine ⟨r, hrk, rt, hrt, pat, keys, segs, by rw [← hvs, hs], by rw [← hvr, hr], hp, hm, hrm, ?_, ?_⟩
    · unfold execPrelude at hex
      split at hex
      · cases hex
      · rw [← hps, ← hve]; exact (ExecResult.ok.inj hex).symm
    · intro ⟨hoff, hsl⟩
      unfold execPrelude at hex
      rw [hve, hoff] at hex
      simp [hsl] at hex

theorem lastWins_go (acc ps : List (String × String)) (h : ((acc ++ ps).map (·.1)).Nodup) :
    ps.foldl (fun acc kv => (acc.filter (fun a => a.1 != kv.1)) ++ [kv]) acc = acc ++ ps := by
  induction ps generalizing acc with
  | nil => simp
  | cons kv rest ih =>
    simp only [List.foldl_cons]
    have hfil : acc.filter (fun a => a.1 != kv.1) = acc := by
      apply List.filter_eq_self.mpr
      intro a ha
      simp only [bne_iff_ne, ne_eq]
      intro e
      rw [List.map_append, List.nodup_append] at h
      have := h.2.2 a.1 (List.mem_map.mpr ⟨a, ha, rfl⟩) kv.1 (by simp)
      exact this e
    rw [hfil, ih (acc ++ [kv]) (by simpa [List.append_assoc] using h)]
    simp

/-- with distinct names nothing is overwritten -/
theorem lastWins_nodup (ps : List (String × String)) (h : (ps.map (·.1)).Nodup) : lastWins ps = ps := by
  unfold lastWins
  simpa using lastWins_go [] ps (by simpa using h)

/-- **The value a condition is checked on is the value exposed** — when the named wildcards of the expression have
distinct names: the segment `path_params` looks up for `name` is the one exposed under `name`. -/
theorem c03_checked_value_is_exposed (keys caps : List String) (name v : String) (hname : name ≠ "*")
    (hnd : ((keys.zip caps).filter (fun kv => kv.1 ≠ "*")).map (·.1) |>.Nodup)
    (h : lookupKey keys caps name = some v) :
    (name, v) ∈ lastWins ((keys.zip caps).filter (fun kv => kv.1 ≠ "*")) := by
  rw [lastWins_nodup _ hnd]
  exact List.mem_filter.mpr ⟨c03_lookupKey_mem keys caps name v h, by simpa using hname⟩

/-- with a name used twice (`/d/:a/:a`) the condition is checked on the first segment and the last one is exposed -/
example : lookupKey ["a", "a"] ["x", "y"] "a" = some "x" ∧
    lastWins ((["a", "a"].zip ["x", "y"]).filter (fun kv => kv.1 ≠ "*")) = [("a", "y")] := by decide


end Heimdall.Props.C03
