import HeimdallModel.Lemmas.ErrMap
import HeimdallModel.Gen.ErrMapGen
/-!
# C12 — every failure maps to the response class of its kind, never to success

Theorems about the model of the two error translators (`Model/ErrMap.lean`): the HTTP error handler used by the
decision and proxy services and the Envoy gRPC interceptor, and about the error path of the request contexts.
They quantify over every error value (any nesting of chains, joins and wraps, any mix of kinds, redirects and
foreign errors), every configuration, every `Accept` header.  The model is tied to the source by `c12_gen_*`
(tables derived on every run from probes of the running handlers, request contexts and services) and by the
correspondence run against the real handlers
and the assembled services.
-/
namespace Heimdall.Props.C12
open Heimdall Heimdall.ErrMap

/-! ## the tie: what the running code exhibits today is what the theorems are about -/

/-- the `switch`, default statuses, option guards, media preference and fallback of the HTTP error handler -/
theorem c12_gen_http : Gen.http = ErrMap.http := by decide

/-- the same for the Envoy gRPC interceptor, with its gRPC status codes -/
theorem c12_gen_grpc : Gen.grpc = ErrMap.grpc := by decide

/-- every service passes the configured status of a kind to the option of that kind, and every request context
hands the challenge collected by an error handler on to the translator -/
theorem c12_gen_wiring :
    Gen.wiring = [ErrMap.wiring, ErrMap.wiring, ErrMap.wiring] ∧
      Gen.contextsAttachChallenge = ErrMap.contextsAttachChallenge := by decide

/-- round 5: `Endpoint.CreateRequest` and `Endpoint.SendRequest`, probed with an authentication strategy that fails
with an error of every kind and with a foreign error, put exactly one `ErrInternal` in front of the strategy's error
and keep that error in the chain — which is what `authenticateRequest` does -/
theorem c12_gen_endpoint :
    Gen.endpointLayer = [([Kind.internal], true), ([Kind.internal], true)] ∧
      ∀ s : Strategy, authenticateRequest s = s.apply.map (fun e => [Kind.internal].foldr wrapKind e) :=
  ⟨by decide, fun _ => rfl⟩

/-! ## chains: `errors.Is` / `errors.As` see exactly the failures a value consists of -/

/-- `errors.Is(e, sentinel)` holds iff the sentinel is one of the leaves of `e`, however deeply nested or wrapped -/
theorem c12_is_iff_leaf (e : Err) (k : Kind) : e.is k = true ↔ Leaf.kind k ∈ e.leaves :=
  is_iff_leaf e k

/-- `errors.As` yields the first redirect in depth-first order, and yields one whenever `errors.Is` against a
redirect error holds (the translators dereference the result without a check) -/
theorem c12_as_redirect (e : Err) :
    e.asRedirect = e.leaves.findSome? Leaf.redirect? ∧ e.isRedirect = e.asRedirect.isSome :=
  ⟨asRedirect_eq e, isRedirect_eq e⟩

/-! ## classification -/

/-- **Precedence.** Both translators answer with the class of the first of authentication, authorization,
communication/timeout, precondition, no rule, redirect that occurs anywhere in the value, and with "anything else"
(500) exactly when none of them occurs. -/
theorem c12_precedence (tr : Transport) (e : Err) :
    classify tr.translator.cases tr.translator.dflt e = e.action :=
  tr_classify tr e

/-- **Response of its kind.** A value all of whose failures have the same class is answered with that class; a
value without any failure inside (an empty chain) as an internal error. -/
theorem c12_single_class (tr : Transport) (e : Err) (a : Action) (hall : ∀ l ∈ e.leaves, l.action = a) :
    classify tr.translator.cases tr.translator.dflt e = if e.leaves.isEmpty then .respond .internal else a := by
  rw [c12_precedence]; exact single_class e a hall

example : ∀ l ∈ (Err.chain [.wrap (.kind .timeout), .join [.kind .communication]]).leaves,
    l.action = .respond .comm := by decide

/-- the class of each kind, as the property lists them -/
example : [Kind.authentication, .authorization, .communication, .timeout, .argument, .noRule, .configuration,
      .internal].map Kind.action =
    [.respond .authn, .respond .authz, .respond .comm, .respond .comm, .respond .precond, .respond .noRule,
      .respond .internal, .respond .internal] := by decide

/-- a mixed value: an authorization failure wrapped inside an internal error, next to a precondition failure -/
example : (Err.chain [.kind .internal, .chain [.wrap (.kind .authorization)], .kind .argument]).action =
    .respond .authz := by decide

/-- the class of an answer is always the class of one of the failures inside the value (500 only if nothing else
is inside) -/
theorem c12_class_admissible (tr : Transport) (e : Err) :
    classify tr.translator.cases tr.translator.dflt e ∈ e.admissible := by
  rw [c12_precedence]; exact action_mem_admissible e

/-! ## status -/

/-- **Status of the kind, or the configured one.** With a configuration whose overrides are HTTP status codes,
both translators answer a failure of class `c` with the configured status, else with 401 (authentication), 403
(authorization), 502 (communication, timeout), 400 (precondition), 404 (no rule), 500 (anything else). -/
theorem c12_status (tr : Transport) (cfg : Cfg) (acc : Accept) (f : Failure) (c : Class)
    (hv : cfg.valid = true) (hc : f.err.action = .respond c) :
    ∃ r, tr.translator.respond cfg acc f = .resp r ∧
      r.status = (if cfg.ov.get c == 0 then defaultCodes.get c else cfg.ov.get c) := by
  have hrv : ∃ r, tr.translator.respond cfg acc f = .resp r := by
    unfold Translator.respond
    rw [tr_classify, hc]
    exact ⟨_, emit_of_valid _ _ _ _ (Or.inr (by rw [(tr_code_valid tr hv c).1]; exact (tr_code_valid tr hv c).2))⟩
  obtain ⟨r, hr⟩ := hrv
  refine ⟨r, hr, ?_⟩
  rcases respond_inv hr with ⟨_, _, ha, _⟩ | ⟨c', ha, rfl⟩
  · rw [hc] at ha; cases ha
  · rw [hc] at ha; cases ha; exact (tr_code_valid tr hv c).1

example : (Cfg.mk true { ClassMap.const 0 with authn := 404, comm := 599 }).valid = true ∧
    defaultCodes = ⟨401, 403, 502, 400, 404, 500⟩ := by decide

/-- **The HTTP services and the Envoy gRPC service answer identically**: an answer in both cases, with the same
status, the same `Location`, the same challenges, for every error value — provided the configured statuses and
the redirect codes are HTTP status codes. -/
theorem c12_http_eq_grpc (cfg : Cfg) (acc : Accept) (f : Failure)
    (hv : cfg.valid = true) (hr : f.err.redirectsValid = true) :
    (ErrMap.http.respond cfg acc f).view = (ErrMap.grpc.respond cfg acc f).view ∧
      (ErrMap.http.respond cfg acc f).view.isSome = true := by
  obtain ⟨rh, hh⟩ := respond_of_valid .http cfg acc f (Or.inr ⟨hv, hr⟩)
  obtain ⟨rg, hg⟩ := respond_of_valid .grpc cfg acc f (Or.inl rfl)
  have vh := view_eq .http cfg acc f rh hh
  have vg := view_eq .grpc cfg acc f rg hg
  simp only [Transport.translator] at hh hg
  rw [hh, hg, vh, vg]
  refine ⟨?_, by rw [← vh]; rfl⟩
  cases f.err.action with
  | redirect => rfl
  | respond c => simp only [(tr_code_valid .http hv c).1, (tr_code_valid .grpc hv c).1]

example : (Cfg.mk false (ClassMap.const 418)).valid = true ∧
    (Err.chain [.kind .internal, .redirect 303 "/login"]).redirectsValid = true := by decide

/-- the hypothesis on the configuration is needed: a negative override is taken by the HTTP handler (whose
`WriteHeader` then panics) and ignored by the gRPC interceptor -/
example :
    ErrMap.http.respond ⟨false, { ClassMap.const 0 with authn := -1 }⟩ .absent (plain (.kind .authentication)) = .panic ∧
    ErrMap.grpc.respond ⟨false, { ClassMap.const 0 with authn := -1 }⟩ .absent (plain (.kind .authentication)) =
      .resp ⟨401, [], none, some 16⟩ := by decide

/-- **Never a success status.** Unless a success status is configured for a failure or carried by a redirect error,
no translator answers any error value with a 2xx status, and no translator ever lets the request pass. -/
theorem c12_never_success (tr : Transport) (cfg : Cfg) (acc : Accept) (f : Failure)
    (hc : cfg.noSuccess = true) (hr : f.err.redirectsNoSuccess = true) :
    tr.translator.respond cfg acc f ≠ .allowed ∧
      ∀ r, tr.translator.respond cfg acc f = .resp r → isSuccess r.status = false := by
  refine ⟨respond_ne_allowed tr cfg acc f, fun r h => ?_⟩
  rcases respond_inv h with ⟨c, to, _, _, hm, rfl⟩ | ⟨c, _, rfl⟩
  · exact redirectsNoSuccess_mem hr hm
  · exact tr_code_noSuccess tr hc c

example : (Cfg.mk true { ClassMap.const 0 with authz := 404 }).noSuccess = true ∧
    (Err.join [.redirect 302 "/x", .kind .noRule]).redirectsNoSuccess = true := by decide

/-- the hypothesis is needed: the configuration accepts any integer, so an operator can turn a failure into 200 -/
example : ErrMap.http.respond ⟨false, { ClassMap.const 0 with authz := 200 }⟩ .absent (plain (.kind .authorization)) =
    .resp ⟨200, [], none, none⟩ := by decide

/-- **Envoy never lets a failure pass.** Whatever the error value, the configuration and the headers, the gRPC
interceptor answers with a denied response whose gRPC status is not OK (Envoy forwards a request only on OK); it
never fails to answer. -/
theorem c12_grpc_never_ok (cfg : Cfg) (acc : Accept) (f : Failure) :
    ∃ r g, ErrMap.grpc.respond cfg acc f = .resp r ∧ r.grpc = some g ∧ g ≠ 0 := by
  obtain ⟨r, h⟩ := respond_of_valid .grpc cfg acc f (Or.inl rfl)
  rcases respond_inv h with ⟨_, _, _, _, _, hr⟩ | ⟨c, _, hr⟩
  · exact ⟨r, 9, h, by rw [hr]; rfl, by decide⟩
  · cases c <;> exact ⟨r, _, h, by rw [hr]; rfl, by decide⟩

/-- **The HTTP handler always answers** when the configured statuses and the redirect codes are HTTP status codes
(`WriteHeader` does not panic). -/
theorem c12_http_answers (cfg : Cfg) (acc : Accept) (f : Failure)
    (hv : cfg.valid = true) (hr : f.err.redirectsValid = true) :
    ∃ r, ErrMap.http.respond cfg acc f = .resp r :=
  respond_of_valid .http cfg acc f (Or.inr ⟨hv, hr⟩)

/-! ## redirect and challenge, through the request contexts -/

/-- **Redirect.** After a redirect error handler ran — whatever the pipeline did before — every service answers
with the handler's status code (302 if none is configured), the `Location` header and nothing else. -/
theorem c12_redirect (tr : Transport) (cfg : Cfg) (acc : Accept) (ctx : Ctx) (code : Int) (to : String)
    (hv : validStatus (if code != 0 then code else 302) = true) :
    ∃ r, serve tr.translator cfg acc (redirectExec code to ctx) = .resp r ∧
      r.status = (if code != 0 then code else 302) ∧ r.headers = [("Location", to)] ∧ r.body = none := by
  simp only [serve, finalize_redirect, respond_redirect_leaf]
  exact ⟨_, emit_of_valid _ _ _ _ (Or.inr hv), rfl, rfl, rfl⟩

example : validStatus (if (0 : Int) != 0 then 0 else 302) = true ∧
    validStatus (if (307 : Int) != 0 then 307 else 302) = true := by decide

/-- **Challenge.** After a `www_authenticate` error handler ran — whatever the pipeline did before — every service
answers with the status of an authentication failure (401 unless configured otherwise) and a `WWW-Authenticate`
header naming the configured realm ("Please authenticate" if none is configured). -/
theorem c12_www_authenticate (tr : Transport) (cfg : Cfg) (acc : Accept) (ctx : Ctx) (realm : String)
    (hv : cfg.valid = true) :
    ∃ r, serve tr.translator cfg acc (wwwAuthenticateExec realm ctx) = .resp r ∧
      r.status = (if cfg.ov.authn == 0 then 401 else cfg.ov.authn) ∧
      ("Www-Authenticate", "Basic realm=" ++ realmOf realm) ∈ r.headers := by
  simp only [serve, finalize_www]
  obtain ⟨r, hr, hs⟩ := c12_status tr cfg acc ⟨.kind .authentication,
    (ctx.upstream.filterMap fun kv => if kv.1 == "Www-Authenticate" then some kv.2 else none)
      ++ ["Basic realm=" ++ realmOf realm]⟩ .authn hv (show (Err.kind .authentication).action = _ by decide)
  refine ⟨r, hr, hs, ?_⟩
  rcases respond_inv hr with ⟨_, _, ha, _⟩ | ⟨c, _, rfl⟩
  · exact absurd ha (show (Err.kind .authentication).action ≠ .redirect by decide)
  · simp [challengeHeaders_eq]

example : (Cfg.mk true { ClassMap.const 0 with authn := 407 }).valid = true := by decide

/-- **No other collected header reaches an error response.** Whatever the pipeline collected for the upstream
before it failed, an answer to the failure carries only `Location`, `Content-Type`, `X-Content-Type-Options` and the
`WWW-Authenticate` values collected by error handlers. -/
theorem c12_no_upstream_leak (tr : Transport) (cfg : Cfg) (acc : Accept) (ctx : Ctx) (r : Resp)
    (h : serve tr.translator cfg acc ctx = .resp r) :
    ∀ kv ∈ r.headers, kv.1 ∈ errorHeaderNames ∧ (kv.1 = "Www-Authenticate" → kv ∈ ctx.upstream) := by
  obtain ⟨e, _, hr⟩ := serve_inv h
  have hspec := model_meets_spec tr cfg acc
    ⟨e, ctx.upstream.filterMap fun kv => if kv.1 == "Www-Authenticate" then some kv.2 else none⟩
  rw [hr] at hspec
  simp only [Spec.ok, Bool.and_eq_true, List.all_eq_true, Bool.or_eq_true, bne_iff_ne, ne_eq,
    List.contains_eq_mem, decide_eq_true_eq, List.mem_filterMap] at hspec
  obtain ⟨⟨⟨_, hnames⟩, hwww⟩, _⟩ := hspec
  intro kv hkv
  refine ⟨hnames kv hkv, fun hk => ?_⟩
  rcases hwww kv hkv with hne | ⟨kv', hkv', hv⟩
  · exact absurd hk hne
  · split at hv
    · rename_i hk'
      have : kv = kv' := by
        rw [Prod.ext_iff]; exact ⟨by rw [hk, beq_iff_eq.mp hk'], (Option.some.inj hv).symm⟩
      rw [this]; exact hkv'
    · cases hv

/-! ## CEL expressions and the error handlers of a rule -/

/-- **Expression outcomes.** An authorization expression that evaluates to false is an authorization failure (403),
one that cannot be evaluated for the concrete request / subject (missing attribute, index out of range, division
by zero …) is "anything else" (500); likewise a pipeline step whose `if` condition cannot be evaluated fails with
an error of the internal class, whatever the step would have done. -/
theorem c12_cel_outcomes (step : Option Err) :
    celAuthorize .holds = none ∧
      (celAuthorize .fails).map Err.action = some (.respond .authz) ∧
      (celAuthorize .error).map Err.action = some (.respond .internal) ∧
      stepIf .holds step = step ∧ stepIf .fails step = none ∧
      (stepIf .error step).map Err.action = some (.respond .internal) := by
  refine ⟨rfl, by decide, by decide, rfl, rfl, ?_⟩
  show some (Err.foreign).action = _
  rw [action_foreign]

/-- **First applicable handler.** Handlers whose condition does not hold are skipped; the first whose condition
holds handles the failure; if none applies the failure itself reaches the translator. -/
theorem c12_first_applicable_handler (hs₁ rest : List (Cel × Handler)) (hf : ∀ p ∈ hs₁, p.1 = .fails)
    (h : Handler) (cause : Err) (ctx : Ctx) :
    handleError (hs₁ ++ (.holds, h) :: rest) cause ctx = (h.exec cause ctx, none) ∧
      handleError hs₁ cause ctx = (ctx, some cause) := by
  constructor
  · rw [handleError_skip hs₁ hf]; rfl
  · have := handleError_skip hs₁ hf [] cause ctx
    rw [List.append_nil] at this; rw [this]; rfl

example : ∀ p ∈ [(Cel.fails, Handler.redirect 303 "/login"), (Cel.fails, Handler.default)], p.1 = .fails := by decide

/-- **A handler condition that cannot be evaluated is an internal error.** Whatever the failure was, whatever
handlers precede (not applicable) or follow, every service answers with the status of an internal error (500 unless
configured), without `Location` and without challenge. -/
theorem c12_handler_condition_error (tr : Transport) (cfg : Cfg) (acc : Accept) (hs₁ rest : List (Cel × Handler))
    (hf : ∀ p ∈ hs₁, p.1 = .fails) (h : Handler) (cause : Err) (ctx : Ctx) (hv : cfg.valid = true) :
    ∃ r, serveFailure tr.translator cfg acc (hs₁ ++ (.error, h) :: rest) cause ctx = .resp r ∧
      r.status = (if cfg.ov.internal == 0 then 500 else cfg.ov.internal) ∧
      ∀ kv ∈ r.headers, kv.1 ≠ "Location" ∧ kv.1 ≠ "Www-Authenticate" := by
  have hh : handleError (hs₁ ++ (.error, h) :: rest) cause ctx = (ctx, some .foreign) := by
    rw [handleError_skip hs₁ hf]; rfl
  obtain ⟨r, hr, hs⟩ := c12_status tr cfg acc (plain .foreign) .internal hv action_foreign
  refine ⟨r, by simp only [serveFailure, hh]; exact hr, hs, ?_⟩
  rcases respond_inv hr with ⟨_, _, ha, _⟩ | ⟨c, _, rfl⟩
  · exact absurd ha (by decide)
  · intro kv hkv
    simp only [challengeHeaders_eq, plain, List.map_nil, List.nil_append] at hkv
    rcases bodyHeaders_keys _ _ kv hkv with hk | hk <;> rw [hk] <;> decide

/-- **No error handler pipeline lets a failed request pass.** For every list of conditional handlers, every
failure and every state of the request context, no service gives the positive answer. -/
theorem c12_failure_never_allowed (tr : Transport) (cfg : Cfg) (acc : Accept) (hs : List (Cel × Handler))
    (cause : Err) (ctx : Ctx) : serveFailure tr.translator cfg acc hs cause ctx ≠ .allowed :=
  serveFailure_ne_allowed tr cfg acc hs cause ctx

/-! ## the context of the request -/

/-- **The answer to a failure depends neither on the state of the request's context nor on `context.Canceled` /
`context.DeadlineExceeded` inside the failure.** Heimdall hands the context of the request to every mechanism; when
the client goes away — or merely closes its sending direction and keeps reading, for which net/http cancels the
context as well — an outbound call is aborted and the failure carries a `context` error somewhere in its chain. For
every translator, configuration and `Accept` header, for any two states `rc`, `rc'` of the request's context and any
two error values `e`, `e'` that consist of the same failures once the `context` errors are deleted wherever they
occur (`Err.essential`): the handlers of the services give the same answer (status, headers, body, gRPC code), be the
failure returned by the rule executor or kept as pipeline error and returned by `Finalize`; the translators classify
both alike; and neither is ever given the positive answer. -/
theorem c12_independent_of_request_context (tr : Transport) (cfg : Cfg) (acc : Accept) (rc rc' : ReqCtx)
    (e e' : Err) (ctx : Ctx) (h : e.essential = e'.essential) :
    handlerServe tr.translator cfg acc rc (some e) ctx = handlerServe tr.translator cfg acc rc' (some e') ctx ∧
      handlerServe tr.translator cfg acc rc none { ctx with pipelineError := some e } =
        handlerServe tr.translator cfg acc rc' none { ctx with pipelineError := some e' } ∧
      classify tr.translator.cases tr.translator.dflt e = classify tr.translator.cases tr.translator.dflt e' ∧
      handlerServe tr.translator cfg acc rc (some e) ctx ≠ .allowed ∧
      handlerServe tr.translator cfg acc rc none { ctx with pipelineError := some e } ≠ .allowed := by
  refine ⟨respond_congr_essential tr cfg acc [] h, ?_, ?_, ?_, ?_⟩
  · simp only [handlerServe, serve, finalize, Option.map_some]
    exact respond_congr_essential tr cfg acc _ h
  · rw [tr_classify, tr_classify]; exact action_congr_essential h
  · exact handlerServe_ne_allowed tr cfg acc rc _ ctx (Or.inl rfl)
  · exact handlerServe_ne_allowed tr cfg acc rc none _ (Or.inr rfl)

/-- a communication failure caused by the cancelled request context (`errorchain` with the `*url.Error` of the
aborted call as cause) consists of the same failures as the bare communication failure; so does any value with a
`context` error joined, wrapped or chained in -/
example : (Err.chain [.kind .communication, .wrap (.ctxDone .canceled)]).essential =
      (Err.chain [.kind .communication]).essential ∧
    (Err.join [.wrap (.chain [.kind .authentication, .chain [.kind .timeout, .ctxDone .deadlineExceeded]]),
      .ctxDone .canceled]).essential = [.kind .authentication, .kind .timeout] := by decide

/-- the half-closing client of the demonstration: the pipeline waited on a remote system, the call was aborted,
the request's context is cancelled — 502 from the HTTP services, 502 / DeadlineExceeded from the Envoy service;
an authentication failure with that cause is a 401, the bare `context.Canceled` a 500 -/
example :
    handlerServe ErrMap.http ⟨false, ClassMap.const 0⟩ .absent .cancelled
        (some (.chain [.kind .communication, .wrap (.ctxDone .canceled)])) ⟨[], none⟩ =
      .resp ⟨502, [], none, none⟩ ∧
    handlerServe ErrMap.grpc ⟨false, ClassMap.const 0⟩ .absent .deadlineExceeded
        (some (.chain [.kind .timeout, .wrap (.ctxDone .deadlineExceeded)])) ⟨[], none⟩ =
      .resp ⟨502, [], none, some 4⟩ ∧
    handlerServe ErrMap.http ⟨false, ClassMap.const 0⟩ .absent .cancelled none
        ⟨[], some (.chain [.kind .authentication, .chain [.kind .communication, .ctxDone .canceled]])⟩ =
      .resp ⟨401, [], none, none⟩ ∧
    handlerServe ErrMap.http ⟨false, ClassMap.const 0⟩ .absent .cancelled (some (.ctxDone .canceled)) ⟨[], none⟩ =
      .resp ⟨500, [], none, none⟩ := by decide

/-- **A failure met while the request's context is done is answered with the status of its class.** If the
failures of a value other than the `context` errors all have class `c` (and there is at least one), then in every
state of the request's context every service answers with the status configured for `c`, else 401 / 403 / 502 /
400 / 404 / 500 — and not with a success status unless one is configured. -/
theorem c12_cancelled_request_status (tr : Transport) (cfg : Cfg) (acc : Accept) (rc : ReqCtx) (e : Err)
    (ctx : Ctx) (c : Class) (hv : cfg.valid = true) (hne : e.essential ≠ [])
    (hall : ∀ l ∈ e.essential, l.action = .respond c) :
    ∃ r, handlerServe tr.translator cfg acc rc (some e) ctx = .resp r ∧
      r.status = (if cfg.ov.get c == 0 then defaultCodes.get c else cfg.ov.get c) ∧
      (cfg.noSuccess = true → isSuccess r.status = false) := by
  obtain ⟨r, hr, hs⟩ := c12_status tr cfg acc (plain e) c hv (action_of_essential_class e c hne hall)
  refine ⟨r, hr, hs, fun hn => ?_⟩
  rcases respond_inv hr with ⟨_, _, ha, _⟩ | ⟨c', ha, rfl⟩
  · rw [show (plain e).err = e from rfl, action_of_essential_class e c hne hall] at ha; cases ha
  · exact tr_code_noSuccess tr hn c'

example : (Cfg.mk true { ClassMap.const 0 with comm := 503 }).valid = true ∧
    (Err.chain [.kind .communication, .wrap (.ctxDone .canceled)]).essential ≠ [] ∧
    ∀ l ∈ (Err.chain [.kind .communication, .wrap (.ctxDone .canceled)]).essential, l.action = .respond .comm := by
  decide

/-! ## wrapping by the endpoint layer, token endpoints, informational responses (round 5) -/

/-- `Action.rank` is the position in the precedence order the translators implement (`c12_precedence`); "anything
else" comes after every class of the list -/
theorem c12_rank_is_priority (a : Action) : a.rank = priority.idxOf a := by
  rcases action_cases a with rfl | rfl | rfl | rfl | rfl | rfl | rfl <;> decide

/-- **Putting an error of kind `k` in front of a failure** (`errorchain.NewWithMessage(heimdall.Err<k>, "…").
CausedBy(cause)`, what every layer of heimdall does when it hands a failure upwards) gives the class which comes
first in the precedence order: the wrapper's own class if it precedes (or equals) the class of the cause, else the
class of the cause — for every cause of any shape. -/
theorem c12_wrapping_by_kind (tr : Transport) (k : Kind) (cause : Err) :
    classify tr.translator.cases tr.translator.dflt (wrapKind k cause) =
      if k.action.rank ≤ cause.action.rank then k.action else cause.action := by
  rw [c12_precedence]; exact action_wrapKind k cause

/-- the wrapper's kind takes precedence over a communication failure exactly for authentication and authorization;
an argument, no-rule, configuration or internal error in front of it leaves the class alone -/
example : [Kind.authentication, .authorization, .communication, .timeout, .argument, .noRule, .configuration,
      .internal].map (fun k => (wrapKind k (.chain [.kind .communication, .wrap .foreign])).action) =
    [.respond .authn, .respond .authz, .respond .comm, .respond .comm, .respond .comm, .respond .comm,
      .respond .comm, .respond .comm] := by decide

/-- **The endpoint layer keeps the class of a failure.** A failure of an endpoint's authentication strategy leaves
the mechanism wrapped by `Endpoint.CreateRequest` (`ErrInternal "failed to authenticate request"`) and by the
mechanism (`ErrInternal "failed creating request"`). Both wrappers are of the internal kind, the last one in the
precedence order, so for EVERY cause — of any depth, any mix of kinds, with redirects, foreign and `context` errors —
the class is the class of the cause, and every translator gives the very same answer (status, headers, body, gRPC
code) as for the bare cause; no hypothesis is needed. -/
theorem c12_endpoint_wrapping_keeps_class (tr : Transport) (cfg : Cfg) (acc : Accept) (cause : Err)
    (ch : List String) :
    classify tr.translator.cases tr.translator.dflt (endpointWrap cause) =
        classify tr.translator.cases tr.translator.dflt cause ∧
      classify tr.translator.cases tr.translator.dflt (wrapKind .internal cause) =
        classify tr.translator.cases tr.translator.dflt cause ∧
      tr.translator.respond cfg acc ⟨endpointWrap cause, ch⟩ = tr.translator.respond cfg acc ⟨cause, ch⟩ := by
  refine ⟨?_, ?_, respond_congr tr cfg acc ch (action_endpointWrap cause) (asRedirect_endpointWrap cause)⟩
  · rw [c12_precedence, c12_precedence, action_endpointWrap]
  · rw [c12_precedence, c12_precedence, action_wrapInternal]

/-- the token endpoint of the remote authorizer's endpoint is unreachable: 502, as for the bare communication
failure; if the wrapper drops its cause (`ErrInternal "failed to authenticate request"` without `CausedBy`) the
class is lost: 500 -/
example :
    ErrMap.http.respond ⟨false, ClassMap.const 0⟩ .absent
        (plain (endpointWrap (.chain [.kind .communication, .wrap .foreign]))) = .resp ⟨502, [], none, none⟩ ∧
    ErrMap.grpc.respond ⟨false, { ClassMap.const 0 with comm := 504 }⟩ .absent
        (plain (endpointWrap (.chain [.kind .timeout, .wrap (.ctxDone .deadlineExceeded)]))) =
      .resp ⟨504, [], none, some 4⟩ ∧
    ErrMap.http.respond ⟨false, ClassMap.const 0⟩ .absent
        (plain (wrapKind .internal (.chain [.kind .internal]))) = .resp ⟨500, [], none, none⟩ := by decide

/-- **Failures of the token endpoint of an `oauth2_client_credentials` strategy have the class the property's table
gives them**, at the mechanism (`createRequest`) and at `Endpoint.SendRequest` (`authenticateRequest`): unreachable,
timed out, a status other than 200 / 400, a 400 with or without an OAuth2 error document, a 200 carrying an error
document → communication (502); a 200 that is not JSON → internal (500); an issued token → no failure. The cause
reported by net/http may be any value without a classified failure inside. -/
theorem c12_token_endpoint_fault_class (t : TokenOutcome) (hc : t.causeUnclassified = true) :
    (createRequest (.clientCredentials t)).map Err.action = t.expected ∧
      (authenticateRequest (.clientCredentials t)).map Err.action = t.expected := by
  have key : ∀ e, t.err = some e → e.action = (t.expected).getD (.respond .internal) → 
      (createRequest (.clientCredentials t)).map Err.action = some ((t.expected).getD (.respond .internal)) ∧
      (authenticateRequest (.clientCredentials t)).map Err.action = some ((t.expected).getD (.respond .internal)) := by
    intro e he ha
    simp only [createRequest, authenticateRequest, Strategy.apply, he, Option.map_some, action_endpointWrap,
      action_wrapInternal, ha, and_self]
  have hk : ∀ (k : Kind) (c : Err), c.unclassified = true → k.action = .respond .comm →
      (Err.chain [.kind k, c]).action = .respond .comm := by
    intro k c hu hka
    have := action_wrapKind k c
    rw [action_of_unclassified hu, hka] at this
    exact this
  cases t with
  | issued => exact ⟨rfl, rfl⟩
  | sendFailed c => exact key _ rfl (hk .communication c hc rfl)
  | sendTimedOut c => exact key _ rfl (hk .timeout c hc rfl)
  | unexpectedStatus => exact key _ rfl (by decide)
  | badRequest d => cases d <;> exact key _ rfl (by decide)
  | okUnparsable => exact key _ rfl (by decide)
  | okErrorDocument => exact key _ rfl (by decide)

example : (TokenOutcome.sendFailed (.wrap (.wrap (.ctxDone .canceled)))).causeUnclassified = true ∧
    (TokenOutcome.sendTimedOut (.wrap (.ctxDone .deadlineExceeded))).causeUnclassified = true ∧
    (createRequest (.clientCredentials (.sendFailed (.wrap .foreign)))) =
      some (.chain [.kind .internal, .chain [.kind .internal, .chain [.kind .communication, .wrap .foreign]]]) :=
  ⟨by decide, by decide, rfl⟩

/-- the other strategies: `basic_auth` and `api_key` cannot fail at request time; a signature that cannot be made
(a component to be signed is not on the request) is an internal error -/
example : createRequest .none = none ∧ createRequest .basicAuth = none ∧ createRequest .apiKey = none ∧
    createRequest (.signatures false) = none ∧
    (createRequest (.signatures true)).map Err.action = some (.respond .internal) := by decide

/-- **The final status survives informational responses.** For every log level (at `trace` the dump middleware hooks
`WriteHeader`), any number of informational statuses written first and a final status `code`: the writer ends with
exactly `code` — never with the implicit `200 OK` — the client got exactly those informational responses, and
whatever is written afterwards changes nothing. -/
theorem c12_final_status_survives_informational (lvl : LogLevel) (infos : List Int) (code : Int) (more : List Int)
    (hi : ∀ i ∈ infos, isInformational i = true) (hc : isInformational code = false) :
    (writeHeaders lvl (false, Writer.fresh) (infos ++ code :: more)).2 = ⟨infos, some code⟩ ∧
      (writeHeaders lvl (false, Writer.fresh) (infos ++ code :: more)).2.finish = code := by
  have h : (writeHeaders lvl (false, Writer.fresh) (infos ++ code :: more)).2 = ⟨infos, some code⟩ := by
    rw [writeHeaders_snd, List.foldl_append, foldl_informational _ rfl infos hi, List.foldl_cons,
      writeHeader_final _ rfl code hc]
    exact foldl_after_final _ code rfl more
  exact ⟨h, by rw [h]; rfl⟩

example : (∀ i ∈ [100, 102, 103, 103], isInformational i = true) ∧ isInformational 502 = false ∧
    isInformational 101 = false := by decide

/-- **Informational responses of the upstream do not change the answer of the proxy.** Whatever informational
responses (`100 Continue`, `102 Processing`, `103 Early Hints` …) the upstream sent before it died, at every log
level: the client gets exactly those and then the answer to the communication failure — the same answer as without
them, with the status configured for communication errors, else 502, and no 2xx unless one is configured. An
upstream which goes on to answer is forwarded. Hypotheses: the configured statuses are HTTP status codes and the
one for communication errors is not itself informational. -/
theorem c12_informational_responses_do_not_change_status (lvl : LogLevel) (cfg : Cfg) (acc : Accept)
    (infos : List Int) (hi : ∀ i ∈ infos, isInformational i = true) (hv : cfg.valid = true)
    (hc : isInformational (cfg.status .comm) = false) :
    proxyForward lvl cfg acc infos .dies = (infos, ErrMap.http.respond cfg acc (plain upstreamFailure)) ∧
      proxyForward lvl cfg acc infos .answers = (infos, .allowed) ∧
      ∃ r, ErrMap.http.respond cfg acc (plain upstreamFailure) = .resp r ∧ r.status = cfg.status .comm ∧
        (cfg.noSuccess = true → isSuccess r.status = false) := by
  obtain ⟨r, hr, hs⟩ := c12_status .http cfg acc (plain upstreamFailure) .comm hv (by decide)
  have hs' : r.status = cfg.status .comm := hs
  have hr' : ErrMap.http.respond cfg acc (plain upstreamFailure) = .resp r := hr
  have hinf : (writeHeaders lvl (false, Writer.fresh) infos).2 = ⟨infos, none⟩ := by
    rw [writeHeaders_snd, foldl_informational _ rfl infos hi]; simp [Writer.fresh]
  refine ⟨?_, ?_, r, hr', hs', fun hn => ?_⟩
  · have hfin : (writeHeaders lvl (writeHeaders lvl (false, Writer.fresh) infos) [r.status]).2 =
        ⟨infos, some r.status⟩ := by
      rw [writeHeaders_snd, hinf, List.foldl_cons, List.foldl_nil,
        writeHeader_final _ rfl r.status (by rw [hs']; exact hc)]
    simp only [proxyForward, hr', hfin, Writer.finish, Option.getD_some]
  · simp only [proxyForward, hinf]
  · rcases respond_inv hr with ⟨_, _, ha, _⟩ | ⟨c', _, rfl⟩
    · exact absurd ha (by decide)
    · exact tr_code_noSuccess .http hn c'

example : (∀ i ∈ [103, 103], isInformational i = true) ∧
    (Cfg.mk true { ClassMap.const 0 with comm := 503 }).valid = true ∧
    isInformational ((Cfg.mk true { ClassMap.const 0 with comm := 503 }).status .comm) = false ∧
    isInformational ((Cfg.mk false (ClassMap.const 0)).status .comm) = false := by decide

/-- the demonstration: log level `trace`, `103 Early Hints`, then the upstream closes the connection — 502 -/
example : proxyForward .trace ⟨false, ClassMap.const 0⟩ .absent [103] .dies =
    ([103], .resp ⟨502, [], none, none⟩) := by decide

/-- the last hypothesis is needed: an operator who configures an informational status for communication errors
turns the failure into net/http's implicit `200 OK` -/
example : proxyForward .info ⟨false, { ClassMap.const 0 with comm := 103 }⟩ .absent [] .dies =
    ([103], .resp ⟨200, [], none, none⟩) := by decide

/-! ## error details -/

/-- **No details unless verbose.** With verbose responses disabled no translator puts error details (nor a
`Content-Type`) into the answer to any error value. -/
theorem c12_not_verbose_no_details (tr : Transport) (cfg : Cfg) (acc : Accept) (f : Failure) (r : Resp)
    (hq : cfg.verbose = false) (h : tr.translator.respond cfg acc f = .resp r) :
    r.body = none ∧ ∀ kv ∈ r.headers, kv.1 ≠ "Content-Type" := by
  have hb : tr.translator.body cfg acc = none := by simp [Translator.body, hq]
  rcases respond_inv h with ⟨_, _, _, _, _, rfl⟩ | ⟨c, _, rfl⟩
  · exact ⟨rfl, by simp⟩
  · refine ⟨hb, ?_⟩
    rw [hb, challengeHeaders_eq]
    simp [bodyHeaders]

/-- **Details in the negotiated content type.** When an answer carries error details, verbose responses are
enabled, the `Content-Type` is that of the body, and that media type has a positive quality under the request's
`Accept` header (RFC 7231 5.3.2) — or no supported type has one and the default `text/html` is used (only the gRPC
interceptor does that; the HTTP handler sends no details then). -/
theorem c12_body_negotiated (tr : Transport) (cfg : Cfg) (acc : Accept) (f : Failure) (r : Resp) (m : Media)
    (h : tr.translator.respond cfg acc f = .resp r) (hb : r.body = some m) :
    cfg.verbose = true ∧ ("Content-Type", m.mime) ∈ r.headers ∧
      (quality acc m > 0 ∨ (m = .html ∧ ∀ m', quality acc m' = 0)) := by
  rcases respond_inv h with ⟨_, _, _, _, _, rfl⟩ | ⟨c, _, rfl⟩
  · cases hb
  · simp only at hb
    obtain ⟨hverb, hneg⟩ := body_some_verbose hb
    exact ⟨hverb, by simp [hb, bodyHeaders], negotiate_quality tr acc m hneg⟩

example : ErrMap.grpc.respond ⟨true, ClassMap.const 0⟩ (.ranges [⟨"text", "plain", 500, 0⟩, ⟨"image", "png", 1000, 0⟩])
    (plain (.chain [.kind .noRule])) = .resp ⟨404, [("Content-Type", "text/plain")], some .plain, some 5⟩ := by decide

/-! ## everything at once -/

/-- **The translators meet the property.** For every transport, configuration, `Accept` header and failure, the
answer of the model is accepted by the executable specification `Spec.ok` — the judgement that is also applied to
the answers of the real services: an answer (no panic inside the property's domain, never the positive answer),
class of one of the failures inside with the status of that class, no success status, `Location` / challenge
headers, details only when verbose and negotiated, no foreign headers. -/
theorem c12_model_meets_spec (tr : Transport) (cfg : Cfg) (acc : Accept) (f : Failure) :
    Spec.ok tr cfg acc f (tr.translator.respond cfg acc f) = true :=
  model_meets_spec tr cfg acc f

end Heimdall.Props.C12
