import HeimdallModel.Gen.TrustedSrc
import HeimdallModel.Model.NetAddr
/-!
# C09 — `trustedProxySet.Contains` *as it stands in the source* is the `trusted` of the C09 model

`Gen/TrustedSrc.lean` is regenerated on every run by the Go → Lean translator `extract/go2lean` (`cmd/trusted`) from the
whole body of `trustedProxySet.Contains`. For sets of **any size** and every peer: the loop answers `true` iff **some**
entry contains the peer (`Heimdall.Fwd.trusted`, the function the non-interference theorems of `Props/C09.lean` are
stated over), in particular `false` for the empty set, and adding entries never makes a trusted peer untrusted.
-/
namespace Heimdall.Props.C09
open Heimdall Heimdall.Fwd

/-- **The tie holds for this run:** `Gen/TrustedSrc.lean` is the result of translating the current source. -/
theorem c09_src_translated : Src.translationOk = true := by decide

/-- **`trustedProxySet.Contains` = some entry contains the peer**, for every list of entries and every peer. -/
theorem c09_src_contains_is_any {A : Type} (holds : A → Bool) (xs : List A) :
    Src.TrustedSet.Contains (Ctx := Unit) holds () xs () = .done (xs.any holds) () := by
  unfold Src.TrustedSet.Contains
  generalize (xs.length : Int) = n
  induction xs with
  | nil => simp [Src.TrustedSet.Contains_loop, Go.pure]
  | cons a xs ih =>
    unfold Src.TrustedSet.Contains_loop
    cases h : holds a <;> simp_all [Go.pure, Go.cond_app]

/-- **The translated membership test on the entries of the model is `trusted`.** -/
theorem c09_src_trusted (es : List Entry) (peer : Option Nat) :
    Src.TrustedSet.Contains (Ctx := Unit) (·.contains peer) () es () = .done (trusted es peer) () := by
  rw [c09_src_contains_is_any]; rfl

/-- **Nobody is trusted by an empty set.** -/
theorem c09_src_empty_trusts_nobody {A : Type} (holds : A → Bool) :
    Src.TrustedSet.Contains (Ctx := Unit) holds () [] () = .done false () := by
  rw [c09_src_contains_is_any]; rfl

/-- **Trust is decided by membership only**: a peer no entry contains is untrusted whatever the size and order of the
set, and a peer some entry contains stays trusted when entries are added in front or behind. -/
theorem c09_src_monotone {A : Type} (holds : A → Bool) (pre xs post : List A)
    (h : Src.TrustedSet.Contains (Ctx := Unit) holds () xs () = .done true ()) :
    Src.TrustedSet.Contains (Ctx := Unit) holds () (pre ++ xs ++ post) () = .done true () := by
  rw [c09_src_contains_is_any] at h ⊢
  simp only [Go.Res.done.injEq, and_true] at h
  simp [h]

end Heimdall.Props.C09
