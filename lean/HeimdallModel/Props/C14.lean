import HeimdallModel.Lemmas.Factory
import HeimdallModel.Lemmas.FactoryOverride
import HeimdallModel.Lemmas.FactoryProbe
import HeimdallModel.Model.FactoryCel
/-!
# C14 — effective pipelines follow stage-wise inheritance; malformed rules are rejected

Theorems about the rule factory model (`Model/Factory.lean`: `NewRuleFactory`, `createExecutePipeline`,
`createOnErrorPipeline`, `CreateRule` and the rule set validation in front of it; tied to
`internal/rules/rule_factory_impl.go` by the correspondence check of the `factory` family, which runs the very
function `Factory.load` these theorems are about).

All statements hold for every mechanism catalogue, both operation modes, every default rule (absent, partial,
complete, malformed) and every rule definition — lists of any length, any mix of keys, conditions and overrides.
The specification they refer to (`own`, `inherit`, `Ordered`, `WellFormed`, `Spec.effective`) is in
`Spec/Inheritance.lean`.  The last section is about rule-level overrides as typed values (`Model/FactoryOverride.lean`).
-/
namespace Heimdall.Props.C14
open Heimdall.Factory

/-- a catalogue with two authenticators, an authorizer, a contextualizer, a finalizer and two error handlers;
override tag 1 is acceptable for `z1` only -/
def cat₀ : Catalogue := fun k id =>
  match k, id with
  | .authn, "g1" => some [0]
  | .authn, "anon" => some [0]
  | .authz, "z1" => some [0, 1]
  | .ctx, "c1" => some [0]
  | .fin, "f1" => some [0]
  | .eh, "e1" => some [0]
  | .eh, "e2" => some [0]
  | _, _ => none

/-- a complete default rule with backtracking switched on -/
def dflt₀ : DefaultRule :=
  { backtracking := true
    execute := [{ authenticator := some "anon" }, { authorizer := some "z1" }, { finalizer := some "f1" }]
    onError := [{ errorHandler := some "e1" }] }

/-- a rule that names nothing but one *conditional* contextualizer -/
def rule₀ : RuleDef := { execute := [{ contextualizer := some "c1", cond := .expr "c" (some .bool) }] }

/-- **The loader implements the specification.**  A configuration and a rule are accepted exactly when the default
rule (if any) and the rule are well-formed, and then the factory state and the effective rule are the ones the
property prescribes: per stage the own mechanisms if there is at least one, otherwise the default rule's; the own
backtracking setting, otherwise the default rule's, otherwise off. -/
theorem c14_accepted_iff (cat : Catalogue) (proxy validated : Bool) (d : Option DefaultRule) (r : RuleDef)
    (f : Factory) (e : Effective) :
    load cat proxy validated d r = .accepted f e ↔
      ConfigWellFormed cat d ∧ WellFormed cat proxy validated d r ∧ f = Spec.factory proxy d ∧ e = Spec.effective d r := by
  unfold load
  cases hf : newFactory cat proxy d with
  | error why =>
    simp only [reduceCtorEq, false_iff, not_and]
    intro hc
    have := (newFactory_ok_iff cat proxy d (Spec.factory proxy d)).mpr ⟨hc, rfl⟩
    rw [hf] at this; cases this
  | ok f' =>
    obtain ⟨hc, rfl⟩ := (newFactory_ok_iff cat proxy d f').mp hf
    cases hl : loadRule cat validated (Spec.factory proxy d) r with
    | error why =>
      simp only [hl, reduceCtorEq, false_iff, not_and]
      intro _ hw _ he
      have := (loadRule_ok_iff cat proxy validated d r e).mpr ⟨hw, he⟩
      rw [hl] at this; cases this
    | ok e' =>
      obtain ⟨hw, rfl⟩ := (loadRule_ok_iff cat proxy validated d r e').mp hl
      simp only [hl, Outcome.accepted.injEq]
      constructor
      · rintro ⟨rfl, rfl⟩; exact ⟨hc, hw, rfl, rfl⟩
      · rintro ⟨_, _, rfl, rfl⟩; exact ⟨rfl, rfl⟩

example : load cat₀ false true (some dflt₀) rule₀ =
    .accepted (Spec.factory false (some dflt₀)) (Spec.effective (some dflt₀) rule₀) := by decide

/-- **Stage-wise inheritance.**  Every stage of an accepted rule consists of the rule's own mechanisms of that
stage if it names at least one, otherwise of the default rule's (nothing, when there is no default rule). -/
theorem c14_effective_stages {cat : Catalogue} {proxy validated : Bool} {d : Option DefaultRule} {r : RuleDef}
    {f : Factory} {e : Effective} (h : load cat proxy validated d r = .accepted f e) (st : Stage) :
    e.stage st = inherit (own st r.execute r.onError) (ownDefault st d) := by
  obtain ⟨_, _, _, rfl⟩ := (c14_accepted_iff cat proxy validated d r f e).mp h
  cases st <;> rfl

/-- the four stages of the example: authentication, finalization and error handling come from the default rule,
the authorization/contextualization stage is the rule's own -/
example : (Spec.effective (some dflt₀) rule₀).authn = [⟨.authn, "anon", false, none⟩] ∧
    (Spec.effective (some dflt₀) rule₀).sh = [⟨.ctx, "c1", true, none⟩] ∧
    (Spec.effective (some dflt₀) rule₀).fin = [⟨.fin, "f1", false, none⟩] ∧
    (Spec.effective (some dflt₀) rule₀).eh = [⟨.eh, "e1", false, none⟩] := by decide

/-- **A conditional step defines its stage.**  As soon as `execute` contains a step of a stage — even one guarded
by an `if` that may never hold — the default rule contributes nothing to that stage. -/
theorem c14_conditional_step_defines_stage {cat : Catalogue} {proxy validated : Bool} {d : Option DefaultRule}
    {r : RuleDef} {f : Factory} {e : Effective} (h : load cat proxy validated d r = .accepted f e)
    (s : Step) (hs : s ∈ r.execute) (st : Stage) (hst : s.stage = some st) :
    e.stage st = own st r.execute r.onError := by
  rw [c14_effective_stages h st]
  have hne : own st r.execute r.onError ≠ [] := by
    unfold Step.stage at hst
    cases ht : s.target with
    | none => simp [ht] at hst
    | some t =>
      have hm : ∃ m, s.mech = some m ∧ m.kind.stage = st := by
        obtain ⟨k, id⟩ := t
        simp only [ht, Option.map_some, Option.some.injEq] at hst
        unfold Step.mech
        cases k <;> simp [ht] <;> exact hst
      obtain ⟨m, hm, hk⟩ := hm
      have hmem : m ∈ own st r.execute r.onError := by
        have : st ≠ .errorHandling := by
          intro h0
          have := (mech_stage hm).2
          cases hk' : m.kind <;> simp_all [Kind.stage]
        cases st <;> simp_all [own] <;> exact ⟨s, hs, hm⟩
      intro h0; rw [h0] at hmem; cases hmem
  simp [inherit, hne]

example : rule₀.execute.head?.bind Step.stage = some .handling ∧
    (rule₀.execute.all fun s => s.cond == .expr "c" (some .bool)) = true := by decide

/-- **Backtracking inheritance.**  The effective setting is the rule's own if given, otherwise the default
rule's, otherwise off — whether or not a default rule is configured. -/
theorem c14_backtracking {cat : Catalogue} {proxy validated : Bool} {d : Option DefaultRule} {r : RuleDef}
    {f : Factory} {e : Effective} (h : load cat proxy validated d r = .accepted f e) :
    e.backtracking = r.backtracking.getD ((d.map (·.backtracking)).getD false) := by
  obtain ⟨_, _, _, rfl⟩ := (c14_accepted_iff cat proxy validated d r f e).mp h
  rfl

/-- a rule that switches backtracking on where no default rule is configured (the combination the code used to
get wrong) -/
def rule₁ : RuleDef := { backtracking := some true, execute := [{ authenticator := some "g1" }] }

/-- "no default rule, own setting on"; "inherited from the default rule"; "nothing given anywhere" -/
example : load cat₀ false true none rule₁ = .accepted (Spec.factory false none) (Spec.effective none rule₁) ∧
    (Spec.effective none rule₁).backtracking = true ∧
    (Spec.effective (some dflt₀) rule₀).backtracking = true ∧
    (Spec.effective none { rule₁ with backtracking := none }).backtracking = false := by decide

/-- **Rejection is exactly malformedness.**  With a loadable configuration, a rule is refused if and only if it
is not well-formed, i.e. iff `execute` is missing, or is not ordered authenticators – authorizers/contextualizers
– finalizers (or contains a step that is none of these), or a step references a mechanism the catalogue does not
know, carries an override its mechanism refuses or an unusable condition, or `on_error` has such a step, or proxy
mode lacks `forward_to`, or neither the rule nor the default rule provides an authenticator. -/
theorem c14_rejected_iff (cat : Catalogue) (proxy validated : Bool) (d : Option DefaultRule) (r : RuleDef)
    (hc : ConfigWellFormed cat d) :
    (∃ why, load cat proxy validated d r = .ruleRejected why) ↔ ¬ WellFormed cat proxy validated d r := by
  constructor
  · rintro ⟨why, h⟩ hw
    have := (c14_accepted_iff cat proxy validated d r _ _).mpr ⟨hc, hw, rfl, rfl⟩
    rw [h] at this; cases this
  · intro hnw
    cases h : load cat proxy validated d r with
    | ruleRejected why => exact ⟨why, rfl⟩
    | accepted f e => exact absurd ((c14_accepted_iff cat proxy validated d r f e).mp h).2.1 hnw
    | configRejected why =>
      exfalso
      unfold load at h
      have := (newFactory_ok_iff cat proxy d _).mpr ⟨hc, rfl⟩
      rw [this] at h
      cases hl : loadRule cat validated (Spec.factory proxy d) r <;> simp [hl] at h

example : ConfigWellFormed cat₀ (some dflt₀) := (configOk_iff cat₀ (some dflt₀)).mp (by decide)

/-- **The malformed rules of the property are rejected.**  Each of the five defects the property lists makes the
loader refuse the rule (the configuration being loadable): wrong order, no authenticator in the end, unknown
mechanism, bad override, proxy mode without `forward_to` — and so does an `if` that is not a boolean expression. -/
theorem c14_malformed_rejected (cat : Catalogue) (proxy validated : Bool) (d : Option DefaultRule) (r : RuleDef)
    (hc : ConfigWellFormed cat d)
    (h : ¬ Ordered r.execute ∨
      inherit (own .authentication r.execute r.onError) (ownDefault .authentication d) = [] ∨
      (∃ s ∈ r.execute, s.known cat = false) ∨
      (∃ s ∈ r.execute, s.overrideOk cat = false) ∨
      (∃ s ∈ r.onError, s.ehOk cat = false) ∨
      (proxy = true ∧ r.forwardTo = false) ∨
      (∃ s ∈ r.execute, s.condOk = false)) :
    ∃ why, load cat proxy validated d r = .ruleRejected why := by
  rw [c14_rejected_iff cat proxy validated d r hc]
  intro hw
  rcases h with h | h | ⟨s, hs, h⟩ | ⟨s, hs, h⟩ | ⟨s, hs, h⟩ | ⟨hp, h⟩ | ⟨s, hs, h⟩
  · exact h hw.ordered
  · exact hw.authenticator h
  · simp [hw.known s hs] at h
  · simp [hw.overrides s hs] at h
  · simp [hw.handlers s hs] at h
  · simp [hw.forward hp] at h
  · simp [hw.conds s hs] at h

/-- one witness per defect, all of them rejected by the model: finalizer before authorizer; authenticator after an
authorizer; no authenticator and no default rule; unknown mechanism; refused override (tag 1 on `f1`); unknown
error handler; proxy mode without `forward_to` -/
example :
    ¬ Ordered [({ finalizer := some "f1" } : Step), { authorizer := some "z1" }] ∧
    load cat₀ false true none
      { execute := [{ authenticator := some "g1" }, { finalizer := some "f1" }, { authorizer := some "z1" }] }
      = .ruleRejected .handlerAfterFinalizer ∧
    load cat₀ false true none { execute := [{ authorizer := some "z1" }, { authenticator := some "g1" }] }
      = .ruleRejected .authenticatorAfterOther ∧
    load cat₀ false true none { execute := [{ authorizer := some "z1" }] } = .ruleRejected .noAuthenticator ∧
    load cat₀ false true none { execute := [{ authenticator := some "nope" }] } = .ruleRejected .unknownMechanism ∧
    load cat₀ false true none
      { execute := [{ authenticator := some "g1" }, { finalizer := some "f1", config := some 1 }] }
      = .ruleRejected .badOverride ∧
    load cat₀ false true none
      { execute := [{ authenticator := some "g1" }], onError := [{ errorHandler := some "e9" }] }
      = .ruleRejected .unknownMechanism ∧
    load cat₀ true true none { execute := [{ authenticator := some "g1" }] } = .ruleRejected .noForwardTo := by
  refine ⟨?_, by decide⟩
  rw [← ordered_iff]; decide

/-- **A configuration is refused exactly when its default rule is malformed**: lists that are not well-formed,
repeated entries, or no authenticator.  Without a default rule every configuration loads. -/
theorem c14_config_rejected_iff (cat : Catalogue) (proxy validated : Bool) (d : Option DefaultRule) (r : RuleDef) :
    (∃ why, load cat proxy validated d r = .configRejected why) ↔ ¬ ConfigWellFormed cat d := by
  unfold load
  constructor
  · rintro ⟨why, h⟩ hc
    have := (newFactory_ok_iff cat proxy d _).mpr ⟨hc, rfl⟩
    rw [this] at h
    cases hl : loadRule cat validated (Spec.factory proxy d) r <;> simp [hl] at h
  · intro hnc
    cases hf : newFactory cat proxy d with
    | error why => exact ⟨why, rfl⟩
    | ok f => exact absurd ((newFactory_ok_iff cat proxy d f).mp hf).1 hnc

example : load cat₀ false true (some { execute := [{ authorizer := some "z1" }] }) rule₀
    = .configRejected .noAuthenticator := by decide

/-- **The executable specification is the loader.**  `Spec.load` — the oracle the correspondence check runs next
to the model — gives the same verdict and the same effective rule as `load` on every input. -/
theorem c14_spec_oracle (cat : Catalogue) (proxy validated : Bool) (d : Option DefaultRule) (r : RuleDef) :
    Spec.load cat proxy validated d r =
      match load cat proxy validated d r with
      | .configRejected _ => none
      | .ruleRejected _ => some none
      | .accepted f e => some (some (f, e)) := by
  unfold Spec.load
  by_cases hc : ConfigWellFormed cat d
  · have hcb := (configOk_iff cat d).mpr hc
    by_cases hw : WellFormed cat proxy validated d r
    · have hwb := (ruleOk_iff cat proxy validated d r).mpr hw
      rw [(c14_accepted_iff cat proxy validated d r _ _).mpr ⟨hc, hw, rfl, rfl⟩]
      simp [hcb, hwb]
    · have hwb : Spec.ruleOk cat proxy validated d r = false := by
        cases hb : Spec.ruleOk cat proxy validated d r
        · rfl
        · exact absurd ((ruleOk_iff cat proxy validated d r).mp hb) hw
      obtain ⟨why, h⟩ := (c14_rejected_iff cat proxy validated d r hc).mpr hw
      rw [h]; simp [hcb, hwb]
  · have hcb : Spec.configOk cat d = false := by
      cases hb : Spec.configOk cat d
      · rfl
      · exact absurd ((configOk_iff cat d).mp hb) hc
    obtain ⟨why, h⟩ := (c14_config_rejected_iff cat proxy validated d r).mpr hc
    rw [h]; simp [hcb]

/-- **A stage without own mechanisms is inherited**, however the rule spells that: if the rule names no mechanism
of stage `st` (key absent, `null`, empty list, or only steps of other stages), the stage is the default rule's. -/
theorem c14_empty_stage_inherits {cat : Catalogue} {proxy validated : Bool} {d : Option DefaultRule} {r : RuleDef}
    {f : Factory} {e : Effective} (h : load cat proxy validated d r = .accepted f e) (st : Stage)
    (hown : own st r.execute r.onError = []) :
    e.stage st = ownDefault st d := by
  rw [c14_effective_stages h st, hown]; rfl

/-- a rule with an explicitly empty `on_error` list under the complete default rule: the error handling stage is
the default rule's; a rule without `execute` coming from a kubernetes resource (no rule set validation) inherits
all four stages -/
example : own .errorHandling rule₀.execute (Listed.items []).steps = [] ∧
    (Spec.effective (some dflt₀) { rule₀ with onError := (Listed.items []).steps }).eh = [⟨.eh, "e1", false, none⟩] ∧
    load cat₀ false false (some dflt₀) {} = .accepted (Spec.factory false (some dflt₀)) (Spec.effective (some dflt₀) {}) ∧
    (Spec.effective (some dflt₀) {}).toPipelines = (Spec.factory false (some dflt₀)).dflt.getD {} ∧
    load cat₀ false true (some dflt₀) {} = .ruleRejected .emptyExecute := by decide

/-- **The spelling of a list is irrelevant.**  An absent key, `null` and an explicitly empty list decode to the same
rule, for `execute` and for `on_error`; and rule set documents that decode to the same rules load alike. -/
theorem c14_spelling_irrelevant (cat : Catalogue) (proxy validated : Bool) (d : Option RawDefault)
    (r : RawRule) (rs₁ rs₂ : List RawRule) :
    ({ r with onError := .items [] }).decode = ({ r with onError := .absent }).decode ∧
    ({ r with onError := .null }).decode = ({ r with onError := .absent }).decode ∧
    ({ r with execute := .items [] }).decode = ({ r with execute := .absent }).decode ∧
    ({ r with execute := .null }).decode = ({ r with execute := .absent }).decode ∧
    (rs₁.map RawRule.decode = rs₂.map RawRule.decode →
      loadDocuments cat proxy validated d rs₁ = loadDocuments cat proxy validated d rs₂) := by
  refine ⟨rfl, rfl, rfl, rfl, ?_⟩
  intro h
  unfold loadDocuments
  rw [h]

/-- for the default rule the configuration schema insists on an array: `null` is refused, an empty list is the
same as an absent key -/
example : loadDocuments cat₀ false true (some { execute := .items dflt₀.execute, onError := .null }) [] =
      .configRejected .notAList ∧
    loadDocuments cat₀ false true (some { execute := .items dflt₀.execute, onError := .items [] }) [] =
      loadDocuments cat₀ false true (some { execute := .items dflt₀.execute }) [] := by decide

/-- **History independence.**  The result of creating a rule does not depend on what the factory created before
(nor on what it creates afterwards): in any history of rules loaded by one factory, the entry of a rule is the
result of loading that rule alone with the same configuration. -/
theorem c14_history_independent (cat : Catalogue) (proxy validated : Bool) (d : Option DefaultRule)
    (pre post : List RuleDef) (r : RuleDef) :
    match loadHistory cat proxy validated d (pre ++ r :: post) with
    | .configRejected why => load cat proxy validated d r = .configRejected why
    | .loaded f results =>
      ∃ res, results[pre.length]? = some res ∧
        load cat proxy validated d r =
          match res with
          | .ok e => .accepted f e
          | .error why => .ruleRejected why := by
  unfold loadHistory load
  cases hf : newFactory cat proxy d with
  | error why => rfl
  | ok f =>
    refine ⟨loadRule cat validated f r, ?_, ?_⟩
    · simp [loadAll_eq_map]
    · cases hl : loadRule cat validated f r <;> simp [hl]

/-- a shared id: `keto` is an authorizer, a contextualizer and a finalizer; `z1` is an authorizer only -/
def cat₁ : Catalogue := fun k id =>
  match k, id with
  | .authn, "anon" => some [0]
  | .authz, "keto" => some [0]
  | .ctx, "keto" => some [0]
  | .fin, "keto" => some [0]
  | .authz, "z1" => some [0]
  | _, _ => none

/-- after a rule that used the authorizer `keto` and the authorizer `z1`, a rule referencing the finalizer `keto`
gets the finalizer, and a rule referencing a finalizer `z1` is refused as before -/
example : loadHistory cat₁ false true none
      [{ execute := [{ authenticator := some "anon" }, { authorizer := some "keto" }, { authorizer := some "z1" }] },
       { execute := [{ authenticator := some "anon" }, { finalizer := some "keto" }] },
       { execute := [{ authenticator := some "anon" }, { finalizer := some "z1" }] }] =
    .loaded (Spec.factory false none)
      [.ok { authn := [⟨.authn, "anon", false, none⟩], sh := [⟨.authz, "keto", false, none⟩, ⟨.authz, "z1", false, none⟩] },
       .ok { authn := [⟨.authn, "anon", false, none⟩], fin := [⟨.fin, "keto", false, none⟩] },
       .error .unknownMechanism] := by decide

/-- **The specification of a history is the loader**: `Spec.loadHistory`, the oracle of the correspondence check
for histories, judges every rule by itself and agrees with `loadHistory` on every input. -/
theorem c14_spec_oracle_history (cat : Catalogue) (proxy validated : Bool) (d : Option DefaultRule)
    (rs : List RuleDef) :
    Spec.loadHistory cat proxy validated d rs =
      match loadHistory cat proxy validated d rs with
      | .configRejected _ => none
      | .loaded _ results => some (results.map fun res =>
          match res with
          | .ok e => some e
          | .error _ => none) := by
  unfold Spec.loadHistory loadHistory
  by_cases hc : ConfigWellFormed cat d
  · have hcb := (configOk_iff cat d).mpr hc
    rw [(newFactory_ok_iff cat proxy d _).mpr ⟨hc, rfl⟩]
    simp only [hcb, Bool.not_true, Bool.false_eq_true, if_false, loadAll_eq_map, List.map_map, Option.some.injEq]
    apply List.map_congr_left
    intro r _
    simp only [Function.comp]
    by_cases hw : WellFormed cat proxy validated d r
    · rw [(loadRule_ok_iff cat proxy validated d r _).mpr ⟨hw, rfl⟩, if_pos ((ruleOk_iff cat proxy validated d r).mpr hw)]
    · have hwb : ¬ Spec.ruleOk cat proxy validated d r = true := fun hb => hw ((ruleOk_iff cat proxy validated d r).mp hb)
      rw [if_neg hwb]
      cases hl : loadRule cat validated (Spec.factory proxy d) r with
      | error why => rfl
      | ok e => exact absurd ((loadRule_ok_iff cat proxy validated d r e).mp hl).1 hw
  · have hcb : Spec.configOk cat d = false := by
      cases hb : Spec.configOk cat d
      · rfl
      · exact absurd ((configOk_iff cat d).mp hb) hc
    cases hf : newFactory cat proxy d with
    | error why => simp [hcb]
    | ok f => exact absurd ((newFactory_ok_iff cat proxy d f).mp hf).1 hc

/-! ## Rule-level overrides are values: every rule is judged by its OWN override, whatever was created before

`Model/FactoryOverride.lean`: a `config` is a typed value tree (`Val`); what `prototype.WithConfig` returns is a
function `overlay` of the prototype and that value; `Typed.catalogue` is the abstract catalogue (accepted tags) that
a typed catalogue and a table of values induce, so every theorem above applies to it. -/

/-- an anonymous authenticator (subject `anon`), a header finalizer and a www_authenticate error handler -/
def typed₀ : Typed :=
  { mech := fun k id =>
      match k, id with
      | .authn, "anon" => some { type := .anonymous, proto := { subject := t!"anon" } }
      | .fin, "f1" => some { type := .header, proto := { headers := [(t!"X-Fin", t!"f1/base")] } }
      | .eh, "w1" => some { type := .wwwAuthenticate, proto := { realm := t!"base" } }
      | _, _ => none
    ovr := fun n =>
      match n with
      | 100 => some (.obj (.cons t!"subject" (.str t!"1") .nil))      -- subject: "1"
      | 101 => some (.obj (.cons t!"subject" (.num 1) .nil))          -- subject: 1
      | 102 => some (.obj (.cons t!"headers" (.obj (.cons t!"X-A" (.str t!"1 X-B:2") .nil)) .nil))
      | 103 => some (.obj (.cons t!"headers" (.obj (.cons t!"X-A" (.str t!"1") (.cons t!"X-B" (.str t!"2") .nil))) .nil))
      | _ => none
    tags := [100, 101, 102, 103] }

/-- the two subjects, and the two header maps, print alike — and are different values -/
example : (typed₀.ovr 100).map Val.render = (typed₀.ovr 101).map Val.render ∧ typed₀.ovr 100 ≠ typed₀.ovr 101 ∧
    (typed₀.ovr 102).map Val.render = (typed₀.ovr 103).map Val.render ∧ typed₀.ovr 102 ≠ typed₀.ovr 103 ∧
    Val.render (.str t!"[a b]") = Val.render (.list (.cons (.str t!"a") (.cons (.str t!"b") .nil))) ∧
    Val.render (.str t!"<nil>") = Val.render .null ∧ Val.render (.str t!"true") = Val.render (.bool true) := by decide

/-- **A variant is a function of the prototype and the rule's own override value.**  In every history of `Create…`
calls on one mechanism factory, the answer to a call is `WithConfig` of the catalogue entry with the value of
*that* call: nothing an earlier (or later) call was given plays a role. -/
theorem c14_variant_is_overlay_of_own_override (T : Typed) (pre post : List Request) (k : Kind) (id : String)
    (v : Val) :
    (T.createAll (pre ++ (k, id, some v) :: post))[pre.length]? =
      some ((T.mech k id).bind fun m => overlay T.cel m.type m.proto v) := by
  unfold Typed.createAll
  rw [List.map_append, List.map_cons, List.getElem?_append_right (by simp)]
  simp only [List.length_map, Nat.sub_self, List.getElem?_cons_zero, Typed.create]
  cases T.mech k id <;> rfl

/-- `subject: "1"` gives the subject `1`, `subject: 1` is refused — also right after the look-alike was accepted;
the two header maps give one header and two headers -/
example : typed₀.createAll [(.authn, "anon", typed₀.ovr 100), (.authn, "anon", typed₀.ovr 101),
      (.fin, "f1", typed₀.ovr 102), (.fin, "f1", typed₀.ovr 103)] =
    [some { subject := t!"1" }, none, some { headers := [(t!"X-A", t!"1 X-B:2")] },
     some { headers := [(t!"X-A", t!"1"), (t!"X-B", t!"2")] }] := by decide

/-- **A memo is harmless exactly as long as its key tells values apart.**  A factory that remembers the variants
it has created under (kind, id, `key config`) answers every history like the factory without memo, provided `key`
is injective. -/
theorem c14_memo_with_injective_key_is_invisible (T : Typed) (key : Val → Text)
    (hinj : ∀ a b, key a = key b → a = b) (h : List Request) : T.memoAll key [] h = T.createAll h :=
  memoAll_eq_createAll T key hinj h [] (memoOk_nil T key)

/-- … and a memo keyed by what `fmt.Sprint` prints is not: the rule with `subject: 1` is accepted after the rule
with `subject: "1"` and gets that rule's authenticator; the rule that sets two headers gets the finalizer of the
rule that sets one (the histories of the seeded defects) -/
example : typed₀.memoAll Val.render [] [(.authn, "anon", typed₀.ovr 100), (.authn, "anon", typed₀.ovr 101),
      (.fin, "f1", typed₀.ovr 102), (.fin, "f1", typed₀.ovr 103)] =
    [some { subject := t!"1" }, some { subject := t!"1" }, some { headers := [(t!"X-A", t!"1 X-B:2")] },
     some { headers := [(t!"X-A", t!"1 X-B:2")] }] ∧
    typed₀.memoAll Val.render [] [(.authn, "anon", typed₀.ovr 101), (.authn, "anon", typed₀.ovr 100)] =
      typed₀.createAll [(.authn, "anon", typed₀.ovr 101), (.authn, "anon", typed₀.ovr 100)] := by decide

/-- **An accepted rule got mechanisms built from its own overrides — in every history.**  If one factory loads
`pre ++ r :: post` and accepts `r`, then the effective rule is the prescribed one and every mechanism `r` names
exists and accepts the override *value* that `r` itself carries for it (so the variant in `r`'s pipeline is
`overlay prototype value`): what the rules of `pre` carried for the same mechanism is irrelevant. -/
theorem c14_accepted_rule_gets_own_variants (T : Typed) (proxy validated : Bool) (d : Option DefaultRule)
    (pre post : List RuleDef) (r : RuleDef) (f : Factory) (results : List (Except Reason Effective)) (e : Effective)
    (hl : loadHistory T.catalogue proxy validated d (pre ++ r :: post) = .loaded f results)
    (hk : results[pre.length]? = some (.ok e)) :
    e = Spec.effective d r ∧
    (∀ s ∈ r.execute, ∀ k id, s.target = some (k, id) → (T.variant k id s.config).isSome = true) ∧
    (∀ s ∈ r.onError, ∀ id, s.errorHandler = some id → (T.variant .eh id s.config).isSome = true) := by
  have h := c14_history_independent T.catalogue proxy validated d pre post r
  rw [hl] at h
  obtain ⟨res, hres, hload⟩ := h
  rw [hk] at hres
  cases hres
  obtain ⟨_, hw, _, he⟩ := (c14_accepted_iff T.catalogue proxy validated d r f e).mp hload
  refine ⟨he, ?_, ?_⟩
  · intro s hs k id ht
    exact step_variant_of_ok T s k id ht (hw.known s hs) (hw.overrides s hs)
  · intro s hs id hi
    exact ehStep_variant_of_ok T s id hi (hw.handlers s hs)

/-- **A rule whose own override is refused is rejected in every history.**  If some step of `r` names a mechanism
that does not exist or whose `WithConfig` refuses the value the step carries, `r` is rejected at whatever position
of whatever history it is loaded — also behind rules whose overrides print like `r`'s. -/
theorem c14_refused_override_rejected_in_every_history (T : Typed) (proxy validated : Bool) (d : Option DefaultRule)
    (pre post : List RuleDef) (r : RuleDef) (hc : ConfigWellFormed T.catalogue d)
    (h : (∃ s ∈ r.execute, ∃ k id, s.target = some (k, id) ∧ T.variant k id s.config = none) ∨
      (∃ s ∈ r.onError, ∃ id, s.errorHandler = some id ∧ T.variant .eh id s.config = none)) :
    ∃ f results why, loadHistory T.catalogue proxy validated d (pre ++ r :: post) = .loaded f results ∧
      results[pre.length]? = some (.error why) := by
  have hrej : ∃ why, load T.catalogue proxy validated d r = .ruleRejected why := by
    apply c14_malformed_rejected T.catalogue proxy validated d r hc
    rcases h with ⟨s, hs, k, id, ht, hv⟩ | ⟨s, hs, id, hi, hv⟩
    · rcases step_not_ok_of_no_variant T s k id ht hv with h1 | h1
      · exact Or.inr (Or.inr (Or.inl ⟨s, hs, h1⟩))
      · exact Or.inr (Or.inr (Or.inr (Or.inl ⟨s, hs, h1⟩)))
    · exact Or.inr (Or.inr (Or.inr (Or.inr (Or.inl ⟨s, hs, ehStep_not_ok_of_no_variant T s id hi hv⟩))))
  obtain ⟨why, hwhy⟩ := hrej
  have hh := c14_history_independent T.catalogue proxy validated d pre post r
  cases hl : loadHistory T.catalogue proxy validated d (pre ++ r :: post) with
  | configRejected w => rw [hl] at hh; simp only at hh; rw [hwhy] at hh; cases hh
  | loaded f results =>
    rw [hl] at hh
    obtain ⟨res, hres, hload⟩ := hh
    rw [hwhy] at hload
    cases res with
    | ok e => cases hload
    | error w => exact ⟨f, results, w, rfl, hres⟩

/-- witnesses: after the rule with `subject: "1"` the rule with `subject: 1` is rejected, in the other order the
first one is rejected and the second one accepted; the hypotheses of the two theorems hold for these histories -/
example :
    loadHistory typed₀.catalogue false true none
      [{ execute := [{ authenticator := some "anon", config := some 100 }] },
       { execute := [{ authenticator := some "anon", config := some 101 }] }] =
      .loaded (Spec.factory false none)
        [.ok { authn := [⟨.authn, "anon", false, some 100⟩] }, .error .badOverride] ∧
    loadHistory typed₀.catalogue false true none
      [{ execute := [{ authenticator := some "anon", config := some 101 }] },
       { execute := [{ authenticator := some "anon", config := some 100 }] }] =
      .loaded (Spec.factory false none)
        [.error .badOverride, .ok { authn := [⟨.authn, "anon", false, some 100⟩] }] ∧
    typed₀.variant .authn "anon" (some 100) = some { subject := t!"1" } ∧
    typed₀.variant .authn "anon" (some 101) = none ∧
    typed₀.variant .fin "f1" (some 103) = some { headers := [(t!"X-A", t!"1"), (t!"X-B", t!"2")] } ∧
    ConfigWellFormed typed₀.catalogue none := by
  refine ⟨by decide, by decide, by decide, by decide, by decide, trivial⟩

/-! ## Unknown references, conditions and expressions

The catalogue is the only source of mechanisms: a reference is usable iff the catalogue defines that id **for that
kind** — whatever the id looks like (the name of a mechanism type such as `allow`, `noop`, `default`, `anonymous`; an
id another kind defines; a catalogue id in another case or with white space around it).  An `if` is usable iff it is
absent or an expression whose **static result type is `bool`**: expressions of type `int`, `string`, list, map — and
`dyn`, i.e. every attribute / index chain ending in `Subject.…`, `Payload.…`, `Outputs.…`, `Request.…` — are refused
like expressions that do not compile.  The same holds for the `expressions` a rule puts over a cel / remote authorizer. -/

/-- **A reference the catalogue does not define for its kind makes the rule malformed** — on `execute` steps of every
kind and on error handlers. -/
theorem c14_unknown_reference_rejected (cat : Catalogue) (proxy validated : Bool) (d : Option DefaultRule)
    (r : RuleDef) (hc : ConfigWellFormed cat d)
    (h : (∃ s ∈ r.execute, ∃ k id, s.target = some (k, id) ∧ cat k id = none) ∨
      (∃ s ∈ r.onError, ∃ id, s.errorHandler = some id ∧ cat .eh id = none)) :
    ∃ why, load cat proxy validated d r = .ruleRejected why := by
  apply c14_malformed_rejected cat proxy validated d r hc
  rcases h with ⟨s, hs, k, id, ht, hn⟩ | ⟨s, hs, id, hi, hn⟩
  · refine Or.inr (Or.inr (Or.inl ⟨s, hs, ?_⟩))
    simp [Step.known, ht, hn]
  · refine Or.inr (Or.inr (Or.inr (Or.inr (Or.inl ⟨s, hs, ?_⟩))))
    simp [Step.ehOk, hi, hn]

/-- **An accepted rule references defined mechanisms only**: every step of `execute` names an id the catalogue
defines for the kind of its key, every step of `on_error` an error handler of the catalogue.  Nothing is created on
the fly. -/
theorem c14_accepted_references_defined {cat : Catalogue} {proxy validated : Bool} {d : Option DefaultRule}
    {r : RuleDef} {f : Factory} {e : Effective} (h : load cat proxy validated d r = .accepted f e) :
    (∀ s ∈ r.execute, ∃ k id, s.target = some (k, id) ∧ (cat k id).isSome = true) ∧
    (∀ s ∈ r.onError, ∃ id, s.errorHandler = some id ∧ (cat .eh id).isSome = true) := by
  obtain ⟨_, hw, _, _⟩ := (c14_accepted_iff cat proxy validated d r f e).mp h
  constructor
  · intro s hs
    have hk := hw.known s hs
    unfold Step.known at hk
    cases ht : s.target with
    | none => simp [ht] at hk
    | some t => obtain ⟨k, id⟩ := t; simp only [ht] at hk; exact ⟨k, id, rfl, hk⟩
  · intro s hs
    have hk := hw.handlers s hs
    unfold Step.ehOk at hk
    cases hi : s.errorHandler with
    | none => simp [hi] at hk
    | some id =>
      refine ⟨id, rfl, ?_⟩
      cases hc : cat .eh id with
      | none => simp [hi, hc] at hk
      | some _ => rfl

/-- ids named like mechanism types, an authorizer id used as finalizer, a catalogue id in capitals / with a trailing
blank: all unknown to `cat₀` for that kind, all rejected (also under the complete default rule, whose stage the step
would otherwise replace); the same ids where the catalogue defines them are accepted -/
example :
    load cat₀ false true (some dflt₀) { execute := [{ authorizer := some "allow" }] } = .ruleRejected .unknownMechanism ∧
    load cat₀ false true (some dflt₀) { execute := [{ finalizer := some "noop" }] } = .ruleRejected .unknownMechanism ∧
    load cat₀ false true (some dflt₀) { execute := [{ authenticator := some "anonymous" }] }
      = .ruleRejected .unknownMechanism ∧
    load cat₀ false true (some dflt₀)
      { execute := [{ authenticator := some "g1" }], onError := [{ errorHandler := some "default" }] }
      = .ruleRejected .unknownMechanism ∧
    load cat₀ false true none { execute := [{ authenticator := some "g1" }, { finalizer := some "z1" }] }
      = .ruleRejected .unknownMechanism ∧
    load cat₀ false true none { execute := [{ authenticator := some "g1" }, { authorizer := some "Z1" }] }
      = .ruleRejected .unknownMechanism ∧
    load cat₀ false true none { execute := [{ authenticator := some "g1" }, { authorizer := some "z1 " }] }
      = .ruleRejected .unknownMechanism ∧
    load cat₀ false true none { execute := [{ authenticator := some "g1" }, { authorizer := some "z1" }] }
      = .accepted (Spec.factory false none)
          { authn := [⟨.authn, "g1", false, none⟩], sh := [⟨.authz, "z1", false, none⟩] } := by
  refine ⟨by decide, by decide, by decide, by decide, by decide, by decide, by decide, by decide⟩

/-- **A condition is usable exactly when it is absent or boolean**: `getExecutionCondition` succeeds iff the `if` is
absent or an expression that compiles with the static result type `bool`. -/
theorem c14_condition_usable_iff_bool (c : Cond) :
    (∃ b, condition c = .ok b) ↔ c = .absent ∨ ∃ src, c = .expr src (some .bool) := by
  cases c with
  | expr src t =>
    cases t with
    | none => simp [condition]
    | some t => cases t <;> simp [condition, compiles]
  | _ => simp [condition]

/-- **A step guarded by a non-boolean expression makes the rule malformed**: if a step of `execute` that is not an
authenticator, or a step of `on_error`, carries an `if` that does not compile or whose static type is not `bool`
(`dyn` included), the rule is rejected when its rule set is loaded. -/
theorem c14_nonboolean_condition_rejected (cat : Catalogue) (proxy validated : Bool) (d : Option DefaultRule)
    (r : RuleDef) (hc : ConfigWellFormed cat d)
    (h : (∃ s ∈ r.execute, s.authenticator = none ∧ ∃ src t, s.cond = .expr src t ∧ t ≠ some .bool) ∨
      (∃ s ∈ r.onError, ∃ src t, s.cond = .expr src t ∧ t ≠ some .bool)) :
    ∃ why, load cat proxy validated d r = .ruleRejected why := by
  apply c14_malformed_rejected cat proxy validated d r hc
  rcases h with ⟨s, hs, ha, src, t, hcnd, hne⟩ | ⟨s, hs, src, t, hcnd, hne⟩
  · refine Or.inr (Or.inr (Or.inr (Or.inr (Or.inr (Or.inr ⟨s, hs, ?_⟩)))))
    simp [Step.condOk, ha, hcnd, Cond.usable, hne]
  · refine Or.inr (Or.inr (Or.inr (Or.inr (Or.inl ⟨s, hs, ?_⟩))))
    unfold Step.ehOk
    cases s.errorHandler with
    | none => rfl
    | some id => simp [hcnd, Cond.usable, hne]

/-- **The static type decides.**  A step whose `if` is the expression `e` is usable iff the type checker gives `e`
the type `bool` (`Model/FactoryCel.lean`). -/
theorem c14_expression_usable_iff_static_bool (e : Cel) (src : String) :
    (e.cond src).usable = true ↔ e.check = some .bool := by
  simp [Cel.cond, Cond.usable]

/-- **Attribute chains of the dynamically typed variables are `dyn`.**  `Subject`, `Payload`, `Request` followed by
any number of field selections (`Subject.Attributes.external`, `Payload.x.y`, `Request.URL.Path`) have the static type
`dyn` — never `bool`. -/
theorem c14_attribute_chain_is_dyn (root : String) (hroot : declared root = some .dyn) (fields : List String) :
    (fields.foldl Cel.sel (.var root)).check = some .dyn := by
  suffices h : ∀ (e : Cel), e.check = some .dyn → (fields.foldl Cel.sel e).check = some .dyn from
    h (.var root) (by simpa [Cel.check] using hroot)
  induction fields with
  | nil => intro e he; simpa using he
  | cons f fs ih => intro e he; exact ih (.sel e f) (by simp [Cel.check, he])

/-- … and so are the values of `Outputs` and everything selected from them (`Outputs.y`, `Outputs.y.z`) -/
theorem c14_outputs_chain_is_dyn (key : String) (fields : List String) :
    (fields.foldl Cel.sel (.sel (.var "Outputs") key)).check = some .dyn := by
  suffices h : ∀ (e : Cel), e.check = some .dyn → (fields.foldl Cel.sel e).check = some .dyn from
    h _ (by simp [Cel.check, declared])
  induction fields with
  | nil => intro e he; simpa using he
  | cons f fs ih => intro e he; exact ih (.sel e f) (by simp [Cel.check, he])

/-- **A rule guarded by an attribute of a dynamically typed variable is rejected**, on every kind of step that reads
its `if`: whatever follows `Subject.` / `Payload.` / `Request.`, the condition is not boolean. -/
theorem c14_dyn_condition_rejected (cat : Catalogue) (proxy validated : Bool) (d : Option DefaultRule) (r : RuleDef)
    (hc : ConfigWellFormed cat d) (root : String) (hroot : declared root = some .dyn) (fields : List String)
    (src : String)
    (h : (∃ s ∈ r.execute, s.authenticator = none ∧ s.cond = (fields.foldl Cel.sel (.var root)).cond src) ∨
      (∃ s ∈ r.onError, s.cond = (fields.foldl Cel.sel (.var root)).cond src)) :
    ∃ why, load cat proxy validated d r = .ruleRejected why := by
  have hdyn : (fields.foldl Cel.sel (.var root)).cond src = .expr src (some .dyn) := by
    unfold Cel.cond; rw [c14_attribute_chain_is_dyn root hroot fields]
  apply c14_nonboolean_condition_rejected cat proxy validated d r hc
  rcases h with ⟨s, hs, ha, hcnd⟩ | ⟨s, hs, hcnd⟩
  · exact Or.inl ⟨s, hs, ha, src, some .dyn, hcnd.trans hdyn, by decide⟩
  · exact Or.inr ⟨s, hs, src, some .dyn, hcnd.trans hdyn, by decide⟩

/-- `Subject.Attributes.external`, `Subject.Attributes.groups[0]`, `Payload.x`, `Outputs.y` -/
def subjectExternal : Cel := .sel (.sel (.var "Subject") "Attributes") "external"
def subjectGroup0 : Cel := .idx (.sel (.sel (.var "Subject") "Attributes") "groups") (.int 0)
def payloadX : Cel := .sel (.var "Payload") "x"
def outputsY : Cel := .sel (.var "Outputs") "y"
/-- `Subject.Attributes.x == true`, `Subject.Attributes.a && Subject.Attributes.b`: boolean over `dyn` sub-terms -/
def attrIsTrue : Cel := .eq (.sel (.sel (.var "Subject") "Attributes") "x") (.bool true)
def attrsBoth : Cel :=
  .and (.sel (.sel (.var "Subject") "Attributes") "a") (.sel (.sel (.var "Subject") "Attributes") "b")

/-- the static types of the witnesses: four `dyn`-typed expressions, two boolean ones over `dyn` sub-terms, the
query parameters (`map(string, list(string))`), a literal, an undeclared variable, an operator without overload,
text the parser refuses -/
example : subjectExternal.check = some .dyn ∧ subjectGroup0.check = some .dyn ∧ payloadX.check = some .dyn ∧
    outputsY.check = some .dyn ∧ attrIsTrue.check = some .bool ∧ attrsBoth.check = some .bool ∧
    (Cel.call0 (.sel (.var "Request") "URL") "Query").check = some (.map (.list .str)) ∧
    (Cel.int 1).check = some .int ∧ (Cel.var "subject").check = none ∧
    (Cel.eq (.int 1) (.str "a")).check = none ∧ Cel.garbage.check = none ∧
    subjectExternal = ["Attributes", "external"].foldl Cel.sel (.var "Subject") := by decide

/-- **a `dyn`-typed condition is rejected** — on an authorizer, a contextualizer, a finalizer and an error handler,
with and without default rule — while the boolean conditions over `dyn` sub-terms are accepted and a `dyn`-typed `if`
on an authenticator step is never read; statically non-boolean conditions and conditions that do not compile are
rejected alike -/
example :
    load cat₀ false true none
      { execute := [{ authenticator := some "g1" }, { authorizer := some "z1", cond := subjectExternal.cond }] }
      = .ruleRejected .badCondition ∧
    load cat₀ false true (some dflt₀) { execute := [{ contextualizer := some "c1", cond := subjectGroup0.cond }] }
      = .ruleRejected .badCondition ∧
    load cat₀ false true (some dflt₀) { execute := [{ finalizer := some "f1", cond := payloadX.cond }] }
      = .ruleRejected .badCondition ∧
    load cat₀ false true none
      { execute := [{ authenticator := some "g1" }], onError := [{ errorHandler := some "e1", cond := outputsY.cond }] }
      = .ruleRejected .badCondition ∧
    load cat₀ false true none
      { execute := [{ authenticator := some "g1" }, { authorizer := some "z1", cond := (Cel.int 1).cond }] }
      = .ruleRejected .badCondition ∧
    load cat₀ false true none
      { execute := [{ authenticator := some "g1" }, { authorizer := some "z1", cond := Cel.garbage.cond }] }
      = .ruleRejected .badCondition ∧
    load cat₀ false true none
      { execute := [{ authenticator := some "g1" }, { authorizer := some "z1", cond := attrIsTrue.cond },
                    { finalizer := some "f1", cond := attrsBoth.cond }] }
      = .accepted (Spec.factory false none)
          { authn := [⟨.authn, "g1", false, none⟩], sh := [⟨.authz, "z1", true, none⟩], fin := [⟨.fin, "f1", true, none⟩] } ∧
    load cat₀ false true none { execute := [{ authenticator := some "g1", cond := subjectExternal.cond }] }
      = .accepted (Spec.factory false none) { authn := [⟨.authn, "g1", false, none⟩] } := by
  refine ⟨by decide, by decide, by decide, by decide, by decide, by decide, by decide, by decide⟩

/-- the text of an `if` is part of the step: a default rule with two steps that differ in that text only has no
repeated entry (`uniqueItems`), with the same text it has -/
example :
    (match newFactory cat₀ false (some { execute := [{ authenticator := some "g1" },
        { finalizer := some "f1", cond := .expr "a" (some .bool) },
        { finalizer := some "f1", cond := .expr "b" (some .bool) }] }) with
      | .ok f => (f.dflt.map (·.fin.length)) == some 2
      | .error _ => false) = true ∧
    newFactory cat₀ false (some { execute := [{ authenticator := some "g1" },
        { finalizer := some "f1", cond := .expr "a" (some .bool) },
        { finalizer := some "f1", cond := .expr "a" (some .bool) }] }) = .error .duplicateSteps := by
  refine ⟨by decide, by decide⟩

/-- the hypotheses of `c14_dyn_condition_rejected` / `c14_nonboolean_condition_rejected` hold for the first witness -/
example : declared "Subject" = some .dyn ∧ ConfigWellFormed cat₀ none ∧
    (({ authorizer := some "z1", cond := subjectExternal.cond } : Step).authenticator = none) ∧
    subjectExternal.cond = .expr "" (some .dyn) ∧ some CelTy.dyn ≠ some CelTy.bool := by
  refine ⟨by decide, trivial, rfl, by decide, by decide⟩

/-- **An `expressions` override is accepted iff every expression is boolean** (cel authorizer): a rule-level
`config: {expressions: [{expression: src}]}` is accepted by `WithConfig` iff the static type of `src` is `bool`. -/
theorem c14_cel_expression_override_accepted_iff (Γ : CelEnv) (p : Shown) (src : Text) (hne : src ≠ []) :
    (overlay Γ .cel p (.obj (.cons t!"expressions"
      (.list (.cons (.obj (.cons t!"expression" (.str src) .nil)) .nil)) .nil))).isSome = true ↔ Γ src = some .bool := by
  have hk1 : ∀ v, knownKeys (.cons t!"expressions" v .nil) [t!"expressions"] = true := fun v => by
    simp [knownKeys, Flds.keys]
  have hk2 : ∀ v, knownKeys (.cons t!"expression" v .nil) [t!"expression", t!"message"] = true := fun v => by
    simp [knownKeys, Flds.keys]
  have hg : ∀ v, Flds.get (.cons t!"expression" v .nil) t!"message" = none := fun v => by
    simp [Flds.get]
  have hg2 : ∀ v, Flds.get (.cons t!"expression" v .nil) t!"expression" = some v := fun v => by
    simp [Flds.get]
  have hg3 : ∀ v, Flds.get (.cons t!"expressions" v .nil) t!"expressions" = some v := fun v => by
    simp [Flds.get]
  have hemp : src.isEmpty = false := by cases src <;> simp_all
  simp only [overlay, Flds.isEmpty, hk1, hg3, decExpressions, Vals.expressions, hk2, hg, hg2, decText, hemp]
  cases hΓ : Γ src with
  | none => simp
  | some t => cases t <;> simp [compiles]

/-- … and the same for the remote authorizer -/
theorem c14_remote_expression_override_accepted_iff (Γ : CelEnv) (p : Shown) (src : Text) (hne : src ≠ []) :
    (overlay Γ .remote p (.obj (.cons t!"expressions"
      (.list (.cons (.obj (.cons t!"expression" (.str src) .nil)) .nil)) .nil))).isSome = true ↔ Γ src = some .bool := by
  have hk1 : ∀ v, knownKeys (.cons t!"expressions" v .nil) [t!"cache_ttl", t!"values", t!"expressions"] = true :=
    fun v => by simp [knownKeys, Flds.keys]
  have hk2 : ∀ v, knownKeys (.cons t!"expression" v .nil) [t!"expression", t!"message"] = true := fun v => by
    simp [knownKeys, Flds.keys]
  have hg : ∀ v, Flds.get (.cons t!"expression" v .nil) t!"message" = none := fun v => by
    simp [Flds.get]
  have hg2 : ∀ v, Flds.get (.cons t!"expression" v .nil) t!"expression" = some v := fun v => by
    simp [Flds.get]
  have hg3 : ∀ v, Flds.get (.cons t!"expressions" v .nil) t!"expressions" = some v := fun v => by
    simp [Flds.get]
  have hg4 : ∀ v, Flds.get (.cons t!"expressions" v .nil) t!"cache_ttl" = none := fun v => by
    simp [Flds.get]
  have hg5 : ∀ v, Flds.get (.cons t!"expressions" v .nil) t!"values" = none := fun v => by
    simp [Flds.get]
  have hemp : src.isEmpty = false := by cases src <;> simp_all
  simp only [overlay, Flds.isEmpty, hk1, hg3, hg4, hg5, decDuration, decTemplates, decExpressions, Vals.expressions,
    hk2, hg, hg2, decText, hemp]
  cases hΓ : Γ src with
  | none => simp
  | some t => cases t <;> simp [compiles]

/-- a cel authorizer `x1` and a remote authorizer `z1`; the override values: `expressions` holding
`Subject.Attributes.admin` (100), `Subject.Attributes.x == true` (101), `Payload.x` (102); the expression table is
filled by the type checker -/
def typed₁ : Typed :=
  { mech := fun k id =>
      match k, id with
      | .authn, "anon" => some { type := .anonymous, proto := { subject := t!"anon" } }
      | .authz, "x1" => some { type := .cel, proto := { expressions := [t!"true"] } }
      | .authz, "z1" => some { type := .remote, proto := {} }
      | _, _ => none
    ovr := fun n =>
      let one (src : Text) : Val :=
        .obj (.cons t!"expressions" (.list (.cons (.obj (.cons t!"expression" (.str src) .nil)) .nil)) .nil)
      match n with
      | 100 => some (one t!"Subject.Attributes.admin")
      | 101 => some (one t!"Subject.Attributes.x == true")
      | 102 => some (one t!"Payload.x")
      | _ => none
    tags := [100, 101, 102]
    cel := fun src =>
      if src = t!"Subject.Attributes.admin" then (Cel.sel (.sel (.var "Subject") "Attributes") "admin").check
      else if src = t!"Subject.Attributes.x == true" then attrIsTrue.check
      else if src = t!"Payload.x" then payloadX.check
      else none }

/-- the `dyn`-typed expression is refused by both authorizers, the boolean one over a `dyn` sub-term is accepted and
shown by the variant; in a history the rule with the bad override is rejected after (and before) the rule with the
good one -/
example :
    typed₁.variant .authz "x1" (some 100) = none ∧ typed₁.variant .authz "z1" (some 102) = none ∧
    typed₁.variant .authz "x1" (some 101) = some { expressions := [t!"Subject.Attributes.x == true"] } ∧
    typed₁.variant .authz "z1" (some 101) = some { expressions := [t!"Subject.Attributes.x == true"] } ∧
    loadHistory typed₁.catalogue false true none
      [{ execute := [{ authenticator := some "anon" }, { authorizer := some "x1", config := some 101 }] },
       { execute := [{ authenticator := some "anon" }, { authorizer := some "x1", config := some 100 }] },
       { execute := [{ authenticator := some "anon" }, { authorizer := some "z1", config := some 102 }] }] =
      .loaded (Spec.factory false none)
        [.ok { authn := [⟨.authn, "anon", false, none⟩], sh := [⟨.authz, "x1", false, some 101⟩] },
         .error .badOverride, .error .badOverride] := by
  refine ⟨by decide, by decide, by decide, by decide, by decide⟩

/-! ## Identity: the mechanism an error names is one the stage's owner references

A stage "consists of the rule's own mechanisms" also means: of the catalogue entries the rule *names*, not of other
entries that happen to behave alike.  A mechanism that calls nobody (a cel authorizer) shows which entry it is through
the error it raises: `Error.Source` in the conditions of the `on_error` steps, `Trace.src` in the executed trace
(`Model/FactoryProbe.lean`).  For every way the mechanisms show themselves (`sh`, `fl`), every set of mechanisms that
refuse a request (`den`) and every request (`p`): -/

/-- **The source of an error is a mechanism of the stage-wise inherited pipeline.**  Whatever request an accepted
rule executes, the error it ends with names nobody, or an authenticator, authorizer or contextualizer that the rule
references itself if it defines that stage, and one the default rule references otherwise. -/
theorem c14_error_source_is_stage_member {cat : Catalogue} {proxy validated : Bool} {d : Option DefaultRule}
    {r : RuleDef} {f : Factory} {e : Effective} (h : load cat proxy validated d r = .accepted f e)
    (sh : Showing) (fl : Flavours) (den : Refusing) (p : Probe) :
    (execute sh fl den e p).src = "" ∨
      ∃ st, (st = .authentication ∨ st = .handling) ∧
        ∃ m ∈ inherit (own st r.execute r.onError) (ownDefault st d), m.id = (execute sh fl den e p).src := by
  rcases execute_src sh fl den e p with h0 | ⟨m, hm, hid⟩ | ⟨m, hm, _, hid⟩
  · exact Or.inl h0
  · refine Or.inr ⟨.authentication, Or.inl rfl, m, ?_, hid⟩
    rw [← c14_effective_stages h .authentication]; exact hm
  · refine Or.inr ⟨.handling, Or.inr rfl, m, ?_, hid⟩
    rw [← c14_effective_stages h .handling]; exact hm

/-- **A refused request blames the first listening mechanism of the rule's own stage.**  If an accepted rule defines
the authorization/contextualization stage itself and one of its mechanisms refuses the request, the refusing
mechanism is the first own mechanism of that stage that refuses, it is referenced — kind and id — by a step of the
rule's `execute`, and without an error pipeline in the way the trace names exactly its id.  The default rule's
mechanisms play no role, whatever they are configured with. -/
theorem c14_refused_request_blames_own_step {cat : Catalogue} {proxy validated : Bool} {d : Option DefaultRule}
    {r : RuleDef} {f : Factory} {e : Effective} (h : load cat proxy validated d r = .accepted f e)
    (hown : own .handling r.execute r.onError ≠ [])
    (fl : Flavours) (den : Refusing) (p : Probe) (m : Mech) (href : (reached fl den p e.sh).2 = some m) :
    (∃ pre post, own .handling r.execute r.onError = pre ++ m :: post ∧
      (∀ x ∈ pre, x.refuses fl den p = false) ∧ m.refuses fl den p = true) ∧
    (∃ s ∈ r.execute, s.target = some (m.kind, m.id) ∧ m.kind.stage = .handling) ∧
    (∀ (sh : Showing) (kind : String), (errorStage sh fl p kind m.id []).src = m.id) := by
  have hst : e.sh = own .handling r.execute r.onError := by
    have := c14_effective_stages h .handling
    simpa [Pipelines.stage, inherit, hown] using this
  rw [hst] at href
  have hsplit := (reached_some_iff fl den p m _).mp href
  refine ⟨hsplit, ?_, fun _ _ => rfl⟩
  exact own_mem_step (by decide) (reached_some_mem href).1

/-- **A rule that defines both stages is never blamed on foreign mechanisms**: if the rule names at least one
authenticator and at least one authorizer / contextualizer, every error any request ends with names nobody or a
mechanism — kind and id — that a step of the rule's own `execute` references. -/
theorem c14_error_source_names_own_step {cat : Catalogue} {proxy validated : Bool} {d : Option DefaultRule}
    {r : RuleDef} {f : Factory} {e : Effective} (h : load cat proxy validated d r = .accepted f e)
    (ha : own .authentication r.execute r.onError ≠ []) (hh : own .handling r.execute r.onError ≠ [])
    (sh : Showing) (fl : Flavours) (den : Refusing) (p : Probe) :
    (execute sh fl den e p).src = "" ∨
      ∃ s ∈ r.execute, ∃ k, s.target = some (k, (execute sh fl den e p).src) := by
  rcases c14_error_source_is_stage_member h sh fl den p with h0 | ⟨st, hst, m, hm, hid⟩
  · exact Or.inl h0
  · right
    rcases hst with rfl | rfl
    · simp only [inherit, ha, ne_eq, not_false_eq_true, if_true] at hm
      obtain ⟨s, hs, ht, _⟩ := own_mem_step (by decide) hm
      exact ⟨s, hs, m.kind, by rw [← hid]; exact ht⟩
    · simp only [inherit, hh, ne_eq, not_false_eq_true, if_true] at hm
      obtain ⟨s, hs, ht, _⟩ := own_mem_step (by decide) hm
      exact ⟨s, hs, m.kind, by rw [← hid]; exact ht⟩

/-- **… at every position of every history**: what the factory (or the mechanism catalogue behind it) created for
other rules before — the same rule-level config over another catalogue entry, say — does not change whom the errors
of a rule name. -/
theorem c14_error_source_in_every_history (cat : Catalogue) (proxy validated : Bool) (d : Option DefaultRule)
    (pre post : List RuleDef) (r : RuleDef) (f : Factory) (results : List (Except Reason Effective)) (e : Effective)
    (hl : loadHistory cat proxy validated d (pre ++ r :: post) = .loaded f results)
    (hk : results[pre.length]? = some (.ok e))
    (sh : Showing) (fl : Flavours) (den : Refusing) (p : Probe) :
    (execute sh fl den e p).src = "" ∨
      ∃ st, (st = .authentication ∨ st = .handling) ∧
        ∃ m ∈ inherit (own st r.execute r.onError) (ownDefault st d), m.id = (execute sh fl den e p).src := by
  have h := c14_history_independent cat proxy validated d pre post r
  rw [hl] at h
  obtain ⟨res, hres, hload⟩ := h
  rw [hk] at hres
  cases hres
  exact c14_error_source_is_stage_member hload sh fl den p

/-- two cel authorizers `x1`, `x2` whose prototypes listen to the request that asks to be refused, an anonymous
authenticator, a `default` error handler; override 100 is the listening expression again, 101 is `true` -/
def typed₂ : Typed :=
  { mech := fun k id =>
      match k, id with
      | .authn, "anon" => some { type := .anonymous, proto := { subject := t!"anon" } }
      | .authz, "x1" => some { type := .cel, proto := { expressions := [t!"deny"] } }
      | .authz, "x2" => some { type := .cel, proto := { expressions := [t!"deny"] } }
      | .eh, "edef" => some { type := .dflt, proto := {} }
      | _, _ => none
    ovr := fun n =>
      let one (src : Text) : Val :=
        .obj (.cons t!"expressions" (.list (.cons (.obj (.cons t!"expression" (.str src) .nil)) .nil)) .nil)
      match n with
      | 100 => some (one t!"deny")
      | 101 => some (one t!"true")
      | _ => none
    tags := [100, 101]
    cel := fun src => if src = t!"deny" ∨ src = t!"true" then some .bool else none }

def flav₂ : Flavours := fun k id =>
  match k, id with
  | .authn, _ => .constant
  | .authz, _ => .silent
  | _, _ => .passthrough

def show₂ : Showing := fun m => (typed₂.variant m.kind m.id m.config).getD {}

/-- `deny` spells `Request.Header("X-Deny") != "1"` -/
def trees₂ : CelTrees := fun src =>
  if src = t!"deny" then some (.ne (.call1 (.var "Request") "Header" (.str "X-Deny")) (.str "1"))
  else if src = t!"true" then some (.bool true) else none

def deny₂ : Probe := { authnOk := true, skip := false, deny := true }

/-- the default rule puts the listening expression over `x1`, the rule the same value over `x2` -/
def dflt₂ : DefaultRule :=
  { execute := [{ authenticator := some "anon" }, { authorizer := some "x1", config := some 100 }] }
def rule₂ : RuleDef := { execute := [{ authorizer := some "x2", config := some 100 }] }

/-- the witness of the seeded defect: the rule is accepted with its own `x2`, the refused request names `x2` — with
and without a `default` error handler — and `x1` when the rule leaves the stage to the default rule; a rule
overriding `x2` with `true` is not refused at all; an effective rule holding the default rule's instance in place of
the rule's own (what a mechanism factory sharing variants by config alone hands out) names `x1`, which no step of the
rule references: it contradicts `c14_refused_request_blames_own_step` -/
example :
    load typed₂.catalogue false true (some dflt₂) rule₂ =
      .accepted (Spec.factory false (some dflt₂)) (Spec.effective (some dflt₂) rule₂) ∧
    (Spec.effective (some dflt₂) rule₂).sh = [⟨.authz, "x2", false, some 100⟩] ∧
    (execute show₂ flav₂ (refusing show₂ trees₂) (Spec.effective (some dflt₂) rule₂) deny₂).src = "x2" ∧
    (execute show₂ flav₂ (refusing show₂ trees₂)
      (Spec.effective (some dflt₂) { rule₂ with onError := [{ errorHandler := some "edef" }] }) deny₂).src = "x2" ∧
    (execute show₂ flav₂ (refusing show₂ trees₂)
      (Spec.effective (some dflt₂) { execute := [{ authenticator := some "anon" }] }) deny₂).src = "x1" ∧
    (execute show₂ flav₂ (refusing show₂ trees₂)
      (Spec.effective (some dflt₂) { execute := [{ authorizer := some "x2", config := some 101 }] }) deny₂).src = "" ∧
    (execute show₂ flav₂ (refusing show₂ trees₂)
      { Spec.effective (some dflt₂) rule₂ with sh := [⟨.authz, "x1", false, some 100⟩] } deny₂).src = "x1" ∧
    (rule₂.execute.all fun s => s.target.map (·.2) != some "x1") = true ∧
    own .handling rule₂.execute rule₂.onError ≠ [] ∧
    (reached flav₂ (refusing show₂ trees₂) deny₂ (Spec.effective (some dflt₂) rule₂).sh).2 =
      some ⟨.authz, "x2", false, some 100⟩ := by
  refine ⟨by decide, by decide, by decide, by decide, by decide, by decide, by decide, by decide, by decide, by decide⟩

end Heimdall.Props.C14
