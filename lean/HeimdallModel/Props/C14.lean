import HeimdallModel.Lemmas.Factory
/-!
# C14 — effective pipelines follow stage-wise inheritance; malformed rules are rejected

Theorems about the rule factory model (`Model/Factory.lean`: `NewRuleFactory`, `createExecutePipeline`,
`createOnErrorPipeline`, `CreateRule` and the rule set validation in front of it; tied to
`internal/rules/rule_factory_impl.go` by the correspondence check of the `factory` family, which runs the very
function `Factory.load` these theorems are about).

All statements hold for every mechanism catalogue, both operation modes, every default rule (absent, partial,
complete, malformed) and every rule definition — lists of any length, any mix of keys, conditions and overrides.
The specification they refer to (`own`, `inherit`, `Ordered`, `WellFormed`, `Spec.effective`) is in
`Spec/Inheritance.lean`.
-/
namespace Heimdall.Props.C14
open Heimdall.Factory

/-- a catalogue with two authenticators, an authorizer, a contextualizer, a finalizer and two error handlers;
override tag 1 is acceptable for `z1` only -/
def cat₀ : Catalogue := fun k id =>
  match k, id with
  | .authn, "g1" => some [0]
  | .authn, "anon" => some [0]
  | .authz, "z1" => some [0, 1]
  | .ctx, "c1" => some [0]
  | .fin, "f1" => some [0]
  | .eh, "e1" => some [0]
  | .eh, "e2" => some [0]
  | _, _ => none

/-- a complete default rule with backtracking switched on -/
def dflt₀ : DefaultRule :=
  { backtracking := true
    execute := [{ authenticator := some "anon" }, { authorizer := some "z1" }, { finalizer := some "f1" }]
    onError := [{ errorHandler := some "e1" }] }

/-- a rule that names nothing but one *conditional* contextualizer -/
def rule₀ : RuleDef := { execute := [{ contextualizer := some "c1", cond := .expr }] }

/-- **The loader implements the specification.**  A configuration and a rule are accepted exactly when the default
rule (if any) and the rule are well-formed, and then the factory state and the effective rule are the ones the
property prescribes: per stage the own mechanisms if there is at least one, otherwise the default rule's; the own
backtracking setting, otherwise the default rule's, otherwise off. -/
theorem c14_accepted_iff (cat : Catalogue) (proxy : Bool) (d : Option DefaultRule) (r : RuleDef)
    (f : Factory) (e : Effective) :
    load cat proxy d r = .accepted f e ↔
      ConfigWellFormed cat d ∧ WellFormed cat proxy d r ∧ f = Spec.factory proxy d ∧ e = Spec.effective d r := by
  unfold load
  cases hf : newFactory cat proxy d with
  | error why =>
    simp only [reduceCtorEq, false_iff, not_and]
    intro hc
    have := (newFactory_ok_iff cat proxy d (Spec.factory proxy d)).mpr ⟨hc, rfl⟩
    rw [hf] at this; cases this
  | ok f' =>
    obtain ⟨hc, rfl⟩ := (newFactory_ok_iff cat proxy d f').mp hf
    cases hl : loadRule cat (Spec.factory proxy d) r with
    | error why =>
      simp only [hl, reduceCtorEq, false_iff, not_and]
      intro _ hw _ he
      have := (loadRule_ok_iff cat proxy d r e).mpr ⟨hw, he⟩
      rw [hl] at this; cases this
    | ok e' =>
      obtain ⟨hw, rfl⟩ := (loadRule_ok_iff cat proxy d r e').mp hl
      simp only [hl, Outcome.accepted.injEq]
      constructor
      · rintro ⟨rfl, rfl⟩; exact ⟨hc, hw, rfl, rfl⟩
      · rintro ⟨_, _, rfl, rfl⟩; exact ⟨rfl, rfl⟩

example : load cat₀ false (some dflt₀) rule₀ =
    .accepted (Spec.factory false (some dflt₀)) (Spec.effective (some dflt₀) rule₀) := by decide

/-- **Stage-wise inheritance.**  Every stage of an accepted rule consists of the rule's own mechanisms of that
stage if it names at least one, otherwise of the default rule's (nothing, when there is no default rule). -/
theorem c14_effective_stages {cat : Catalogue} {proxy : Bool} {d : Option DefaultRule} {r : RuleDef}
    {f : Factory} {e : Effective} (h : load cat proxy d r = .accepted f e) (st : Stage) :
    e.stage st = inherit (own st r.execute r.onError) (ownDefault st d) := by
  obtain ⟨_, _, _, rfl⟩ := (c14_accepted_iff cat proxy d r f e).mp h
  cases st <;> rfl

/-- the four stages of the example: authentication, finalization and error handling come from the default rule,
the authorization/contextualization stage is the rule's own -/
example : (Spec.effective (some dflt₀) rule₀).authn = [⟨.authn, "anon", false, none⟩] ∧
    (Spec.effective (some dflt₀) rule₀).sh = [⟨.ctx, "c1", true, none⟩] ∧
    (Spec.effective (some dflt₀) rule₀).fin = [⟨.fin, "f1", false, none⟩] ∧
    (Spec.effective (some dflt₀) rule₀).eh = [⟨.eh, "e1", false, none⟩] := by decide

/-- **A conditional step defines its stage.**  As soon as `execute` contains a step of a stage — even one guarded
by an `if` that may never hold — the default rule contributes nothing to that stage. -/
theorem c14_conditional_step_defines_stage {cat : Catalogue} {proxy : Bool} {d : Option DefaultRule}
    {r : RuleDef} {f : Factory} {e : Effective} (h : load cat proxy d r = .accepted f e)
    (s : Step) (hs : s ∈ r.execute) (st : Stage) (hst : s.stage = some st) :
    e.stage st = own st r.execute r.onError := by
  rw [c14_effective_stages h st]
  have hne : own st r.execute r.onError ≠ [] := by
    unfold Step.stage at hst
    cases ht : s.target with
    | none => simp [ht] at hst
    | some t =>
      have hm : ∃ m, s.mech = some m ∧ m.kind.stage = st := by
        obtain ⟨k, id⟩ := t
        simp only [ht, Option.map_some, Option.some.injEq] at hst
        unfold Step.mech
        cases k <;> simp [ht] <;> exact hst
      obtain ⟨m, hm, hk⟩ := hm
      have hmem : m ∈ own st r.execute r.onError := by
        have : st ≠ .errorHandling := by
          intro h0
          have := (mech_stage hm).2
          cases hk' : m.kind <;> simp_all [Kind.stage]
        cases st <;> simp_all [own] <;> exact ⟨s, hs, hm⟩
      intro h0; rw [h0] at hmem; cases hmem
  simp [inherit, hne]

example : rule₀.execute.head?.bind Step.stage = some .handling ∧
    (rule₀.execute.all fun s => s.cond == .expr) = true := by decide

/-- **Backtracking inheritance.**  The effective setting is the rule's own if given, otherwise the default
rule's, otherwise off — whether or not a default rule is configured. -/
theorem c14_backtracking {cat : Catalogue} {proxy : Bool} {d : Option DefaultRule} {r : RuleDef}
    {f : Factory} {e : Effective} (h : load cat proxy d r = .accepted f e) :
    e.backtracking = r.backtracking.getD ((d.map (·.backtracking)).getD false) := by
  obtain ⟨_, _, _, rfl⟩ := (c14_accepted_iff cat proxy d r f e).mp h
  rfl

/-- a rule that switches backtracking on where no default rule is configured (the combination the code used to
get wrong) -/
def rule₁ : RuleDef := { backtracking := some true, execute := [{ authenticator := some "g1" }] }

/-- "no default rule, own setting on"; "inherited from the default rule"; "nothing given anywhere" -/
example : load cat₀ false none rule₁ = .accepted (Spec.factory false none) (Spec.effective none rule₁) ∧
    (Spec.effective none rule₁).backtracking = true ∧
    (Spec.effective (some dflt₀) rule₀).backtracking = true ∧
    (Spec.effective none { rule₁ with backtracking := none }).backtracking = false := by decide

/-- **Rejection is exactly malformedness.**  With a loadable configuration, a rule is refused if and only if it
is not well-formed, i.e. iff `execute` is missing, or is not ordered authenticators – authorizers/contextualizers
– finalizers (or contains a step that is none of these), or a step references a mechanism the catalogue does not
know, carries an override its mechanism refuses or an unusable condition, or `on_error` has such a step, or proxy
mode lacks `forward_to`, or neither the rule nor the default rule provides an authenticator. -/
theorem c14_rejected_iff (cat : Catalogue) (proxy : Bool) (d : Option DefaultRule) (r : RuleDef)
    (hc : ConfigWellFormed cat d) :
    (∃ why, load cat proxy d r = .ruleRejected why) ↔ ¬ WellFormed cat proxy d r := by
  constructor
  · rintro ⟨why, h⟩ hw
    have := (c14_accepted_iff cat proxy d r _ _).mpr ⟨hc, hw, rfl, rfl⟩
    rw [h] at this; cases this
  · intro hnw
    cases h : load cat proxy d r with
    | ruleRejected why => exact ⟨why, rfl⟩
    | accepted f e => exact absurd ((c14_accepted_iff cat proxy d r f e).mp h).2.1 hnw
    | configRejected why =>
      exfalso
      unfold load at h
      have := (newFactory_ok_iff cat proxy d _).mpr ⟨hc, rfl⟩
      rw [this] at h
      cases hl : loadRule cat (Spec.factory proxy d) r <;> simp [hl] at h

example : ConfigWellFormed cat₀ (some dflt₀) := (configOk_iff cat₀ (some dflt₀)).mp (by decide)

/-- **The malformed rules of the property are rejected.**  Each of the five defects the property lists makes the
loader refuse the rule (the configuration being loadable): wrong order, no authenticator in the end, unknown
mechanism, bad override, proxy mode without `forward_to`. -/
theorem c14_malformed_rejected (cat : Catalogue) (proxy : Bool) (d : Option DefaultRule) (r : RuleDef)
    (hc : ConfigWellFormed cat d)
    (h : ¬ Ordered r.execute ∨
      inherit (own .authentication r.execute r.onError) (ownDefault .authentication d) = [] ∨
      (∃ s ∈ r.execute, s.known cat = false) ∨
      (∃ s ∈ r.execute, s.overrideOk cat = false) ∨
      (∃ s ∈ r.onError, s.ehOk cat = false) ∨
      (proxy = true ∧ r.forwardTo = false)) :
    ∃ why, load cat proxy d r = .ruleRejected why := by
  rw [c14_rejected_iff cat proxy d r hc]
  intro hw
  rcases h with h | h | ⟨s, hs, h⟩ | ⟨s, hs, h⟩ | ⟨s, hs, h⟩ | ⟨hp, h⟩
  · exact h hw.ordered
  · exact hw.authenticator h
  · simp [hw.known s hs] at h
  · simp [hw.overrides s hs] at h
  · simp [hw.handlers s hs] at h
  · simp [hw.forward hp] at h

/-- one witness per defect, all of them rejected by the model: finalizer before authorizer; authenticator after an
authorizer; no authenticator and no default rule; unknown mechanism; refused override (tag 1 on `f1`); unknown
error handler; proxy mode without `forward_to` -/
example :
    ¬ Ordered [({ finalizer := some "f1" } : Step), { authorizer := some "z1" }] ∧
    load cat₀ false none
      { execute := [{ authenticator := some "g1" }, { finalizer := some "f1" }, { authorizer := some "z1" }] }
      = .ruleRejected .handlerAfterFinalizer ∧
    load cat₀ false none { execute := [{ authorizer := some "z1" }, { authenticator := some "g1" }] }
      = .ruleRejected .authenticatorAfterOther ∧
    load cat₀ false none { execute := [{ authorizer := some "z1" }] } = .ruleRejected .noAuthenticator ∧
    load cat₀ false none { execute := [{ authenticator := some "nope" }] } = .ruleRejected .unknownMechanism ∧
    load cat₀ false none
      { execute := [{ authenticator := some "g1" }, { finalizer := some "f1", config := some 1 }] }
      = .ruleRejected .badOverride ∧
    load cat₀ false none
      { execute := [{ authenticator := some "g1" }], onError := [{ errorHandler := some "e9" }] }
      = .ruleRejected .unknownMechanism ∧
    load cat₀ true none { execute := [{ authenticator := some "g1" }] } = .ruleRejected .noForwardTo := by
  refine ⟨?_, by decide⟩
  rw [← ordered_iff]; decide

/-- **A configuration is refused exactly when its default rule is malformed**: lists that are not well-formed,
repeated entries, or no authenticator.  Without a default rule every configuration loads. -/
theorem c14_config_rejected_iff (cat : Catalogue) (proxy : Bool) (d : Option DefaultRule) (r : RuleDef) :
    (∃ why, load cat proxy d r = .configRejected why) ↔ ¬ ConfigWellFormed cat d := by
  unfold load
  constructor
  · rintro ⟨why, h⟩ hc
    have := (newFactory_ok_iff cat proxy d _).mpr ⟨hc, rfl⟩
    rw [this] at h
    cases hl : loadRule cat (Spec.factory proxy d) r <;> simp [hl] at h
  · intro hnc
    cases hf : newFactory cat proxy d with
    | error why => exact ⟨why, rfl⟩
    | ok f => exact absurd ((newFactory_ok_iff cat proxy d f).mp hf).1 hnc

example : load cat₀ false (some { execute := [{ authorizer := some "z1" }] }) rule₀
    = .configRejected .noAuthenticator := by decide

/-- **The executable specification is the loader.**  `Spec.load` — the oracle the correspondence check runs next
to the model — gives the same verdict and the same effective rule as `load` on every input. -/
theorem c14_spec_oracle (cat : Catalogue) (proxy : Bool) (d : Option DefaultRule) (r : RuleDef) :
    Spec.load cat proxy d r =
      match load cat proxy d r with
      | .configRejected _ => none
      | .ruleRejected _ => some none
      | .accepted f e => some (some (f, e)) := by
  unfold Spec.load
  by_cases hc : ConfigWellFormed cat d
  · have hcb := (configOk_iff cat d).mpr hc
    by_cases hw : WellFormed cat proxy d r
    · have hwb := (ruleOk_iff cat proxy d r).mpr hw
      rw [(c14_accepted_iff cat proxy d r _ _).mpr ⟨hc, hw, rfl, rfl⟩]
      simp [hcb, hwb]
    · have hwb : Spec.ruleOk cat proxy d r = false := by
        cases hb : Spec.ruleOk cat proxy d r
        · rfl
        · exact absurd ((ruleOk_iff cat proxy d r).mp hb) hw
      obtain ⟨why, h⟩ := (c14_rejected_iff cat proxy d r hc).mpr hw
      rw [h]; simp [hcb, hwb]
  · have hcb : Spec.configOk cat d = false := by
      cases hb : Spec.configOk cat d
      · rfl
      · exact absurd ((configOk_iff cat d).mp hb) hc
    obtain ⟨why, h⟩ := (c14_config_rejected_iff cat proxy d r).mpr hc
    rw [h]; simp [hcb]

end Heimdall.Props.C14
