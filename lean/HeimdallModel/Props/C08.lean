import HeimdallModel.Lemmas.UrlEscape
import HeimdallModel.Model.Repo
import HeimdallModel.Lemmas.Trie
/-!
# C08 — percent-encoding cannot change the matched rule; encoded slashes obey the rule

A raw request path is a sequence of units (literal octets and percent-escapes, `PU`).  `Reenc us us'` says that
`us'` spells the same path as `us` with an arbitrary subset of the unreserved octets percent-encoded, hex digits in
either case.  The statements are about `Repo.serve` (lookup + the part of rule execution that precedes the
pipeline), which is what the correspondence check runs against the real request context, repository and rule.
-/
namespace Heimdall.Props.C08
open Heimdall

/-- request views that differ only in the spelling of the raw path -/
def respell (q : ReqView) (raw : List Char) : ReqView :=
  { q with rawPath := String.ofList raw, path := String.ofList ((pathUnescapeL raw).getD []) }

theorem ofList_isEmpty (l : List Char) : (String.ofList l).isEmpty = l.isEmpty := by
  cases l <;> simp [String.isEmpty_iff]

theorem renderU_isEmpty (us : List PU) : (renderU us).isEmpty = us.isEmpty := by
  cases us with
  | nil => rfl
  | cons u rest => cases u <;> simp [renderU, PU.render]

/-- **The lookup key ignores the encoding of unreserved octets.** -/
theorem c08_normalize_reenc (us us' : List PU) (hwf : ∀ u ∈ us, u.wf) (h : Reenc us us') :
    normalizeL (renderU us') = normalizeL (renderU us) := by
  rw [normalizeL_render us hwf, normalizeL_render us' (h.wf hwf), h.norm_eq]

/-- **Re-encoding unreserved octets changes nothing observable**: the same rule is selected, the same captured
values are exposed, the request is accepted or rejected alike — for every repository state, with or without default
rule, for every method, host and scheme. -/
theorem c08_reencode_invariant (s : Repo) (hasDefault : Bool) (q : ReqView) (us us' : List PU)
    (hwf : ∀ u ∈ us, u.wf) (h : Reenc us us') :
    s.serve hasDefault (respell q (renderU us')) = s.serve hasDefault (respell q (renderU us)) := by
  have hwf' := h.wf hwf
  have hempty : (String.ofList (renderU us')).isEmpty = (String.ofList (renderU us)).isEmpty := by
    rw [ofList_isEmpty, ofList_isEmpty, renderU_isEmpty, renderU_isEmpty]
    cases h <;> rfl
  have hslash : containsEncodedSlash (String.ofList (renderU us')) = containsEncodedSlash (String.ofList (renderU us)) := by
    unfold containsEncodedSlash
    simp only [String.toList_ofList]
    rw [containsEncodedSlashL_render us hwf, containsEncodedSlashL_render us' hwf', h.slash_eq]
  have hpath : (respell q (renderU us')).path = (respell q (renderU us)).path := by
    simp only [respell]
    rw [pathUnescapeL_render us hwf, pathUnescapeL_render us' hwf', h.dec_eq]
  have hkey : lookupPath (respell q (renderU us')) = lookupPath (respell q (renderU us)) := by
    unfold lookupPath
    simp only [respell] at hpath ⊢
    simp only [hempty]
    by_cases he : (String.ofList (renderU us)).isEmpty
    · simp only [he, if_true]; exact hpath
    · simp only [he, Bool.false_eq_true, if_false]
      unfold normalizeUnreserved
      simp only [String.toList_ofList]
      rw [c08_normalize_reenc us us' hwf h]
  have hpp : ∀ esh keys caps pp, ppOk esh (respell q (renderU us')) keys caps pp =
      ppOk esh (respell q (renderU us)) keys caps pp := by
    intro esh keys caps pp
    unfold ppOk
    simp only [respell, hempty, hslash]
    cases lookupKey keys caps pp.1 <;> rfl
  have hm : repoMatcher (respell q (renderU us')) = repoMatcher (respell q (renderU us)) := by
    funext v keys caps
    unfold repoMatcher routeMatches
    have h1 : schemeOk v.route (respell q (renderU us')) = schemeOk v.route (respell q (renderU us)) := rfl
    have h2 : methodOk v.route (respell q (renderU us')) = methodOk v.route (respell q (renderU us)) := rfl
    have h3 : hostOk v.route (respell q (renderU us')) = hostOk v.route (respell q (renderU us)) := rfl
    have hall : v.route.pps.all (ppOk v.route.esh (respell q (renderU us')) keys caps) =
        v.route.pps.all (ppOk v.route.esh (respell q (renderU us)) keys caps) := by
      congr 1
      funext pp
      exact hpp _ _ _ pp
    rw [h1, h2, h3, hall]
  have hex : ∀ esh ps, execPrelude esh (respell q (renderU us')) ps = execPrelude esh (respell q (renderU us)) ps := by
    intro esh ps
    unfold execPrelude
    simp only [respell, hslash]
    rfl
  unfold Repo.serve Repo.findRule
  rw [hkey, hm]
  cases lookup (repoMatcher (respell q (renderU us))) s.index (lookupPath (respell q (renderU us))) with
  | none => cases hasDefault <;> simp [hex]
  | some vp => simp [hex]

example : Reenc [.lit '/', .lit 'a', .lit 'd'] [.lit '/', .esc '6' '1', .lit 'd'] :=
  .keep _ (.enc 'a' '6' '1' (by decide) (by decide) (by decide) (by decide) (.keep _ .nil))

/-- **Encoded slash, setting `off`** (the setting of the default rule as well): the request is answered with the
precondition error before any pipeline step runs — for `%2F` and `%2f` alike. -/
theorem c08_slash_off (q : ReqView) (us : List PU) (hwf : ∀ u ∈ us, u.wf) (hs : us.any PU.isSlash = true)
    (params : List (String × String)) :
    execPrelude .off (respell q (renderU us)) params = .argument := by
  unfold execPrelude containsEncodedSlash
  simp only [respell, String.toList_ofList]
  rw [containsEncodedSlashL_render us hwf, hs]
  rfl

example : ([PU.lit '/', .esc '2' 'f'] : List PU).any PU.isSlash = true := by decide

/-- the default rule always runs with the setting `off` -/
theorem c08_default_rule_rejects_encoded_slash (s : Repo) (q : ReqView) (us : List PU)
    (hwf : ∀ u ∈ us, u.wf) (hs : us.any PU.isSlash = true)
    (hd : (s.serve true (respell q (renderU us))).rule = some ("config", "default")) (hne : ∀ v ∈ s.index, ∀ x ∈ v.values, x.src ≠ "config") :
    (s.serve true (respell q (renderU us))).exec = some .argument := by
  unfold Repo.serve at hd ⊢
  cases hf : s.findRule true (respell q (renderU us)) with
  | none => simp [hf] at hd
  | default => simp only [hf]; rw [c08_slash_off q us hwf hs]
  | rule v ps =>
    exfalso
    simp only [hf, Option.some.injEq, Prod.mk.injEq] at hd
    unfold Repo.findRule at hf
    cases hl : lookup (repoMatcher (respell q (renderU us))) s.index (lookupPath (respell q (renderU us))) with
    | none => simp [hl] at hf
    | some vp =>
      simp only [hl, Found?.rule.injEq] at hf
      unfold lookup at hl
      cases hfi : (find (repoMatcher (respell q (renderU us))) s.index
          (tokenize (lookupPath (respell q (renderU us)))) []).1 with
      | none => simp [hfi] at hl
      | some f =>
        simp only [hfi, Option.some.injEq] at hl
        rw [find_eq_scan] at hfi
        obtain ⟨pre, c, post, hcs, _, hval, _, _⟩ := scan_some _ hfi
        have hc : c ∈ cands s.index (tokenize (lookupPath (respell q (renderU us)))) [] := by rw [hcs]; simp
        have hmem := (cands_sound _ _ _ c hc).1
        have hv : f.value ∈ c.node.values := List.mem_of_find?_eq_some hval
        have := hne c.node hmem f.value hv
        apply this
        rw [← hl] at hf
        simp only at hf
        rw [hf.1]; exact hd.1

/-- **Settings `on` and `no_decode` never reject because of an encoded slash.** -/
theorem c08_slash_allowed (h : SlashHandling) (hne : h ≠ .off) (q : ReqView) (params : List (String × String)) :
    ∃ caps, execPrelude h q params = .ok caps := by
  unfold execPrelude
  cases h with
  | off => exact absurd rfl hne
  | on => exact ⟨_, rfl⟩
  | noDecode => exact ⟨_, rfl⟩

/-- **`no_decode`: an encoded slash stays encoded in the captured value**, every other escape is decoded. -/
theorem c08_no_decode_capture (us : List PU) (hwf : ∀ u ∈ us, u.wf) :
    unescapeCapture .noDecode (String.ofList (renderU us)) = String.ofList (us.flatMap PU.decKeep) := by
  unfold unescapeCapture
  simp only [String.toList_ofList]
  rw [unescapeKeepSlashL_render us hwf]
  rfl

/-- **`on`: every escape, the encoded slash included, is decoded in the captured value.** -/
theorem c08_on_capture (us : List PU) (hwf : ∀ u ∈ us, u.wf) :
    unescapeCapture .on (String.ofList (renderU us)) = String.ofList (us.map PU.dec) := by
  unfold unescapeCapture
  simp only [String.toList_ofList]
  rw [pathUnescapeL_render us hwf]
  rfl

example : PU.decKeep (.esc '2' 'f') = ['%', '2', 'f'] ∧ PU.dec (.esc '2' 'f') = '/' ∧
    PU.decKeep (.esc '2' '0') = [' '] := by decide

/-- captured values are the same for every spelling: decoding undoes the re-encoding -/
theorem c08_capture_reenc (us us' : List PU) (hwf : ∀ u ∈ us, u.wf) (h : Reenc us us') :
    unescapeCapture .on (String.ofList (renderU us')) = unescapeCapture .on (String.ofList (renderU us)) := by
  rw [c08_on_capture us hwf, c08_on_capture us' (h.wf hwf), h.dec_eq]

/-! ## Captures as the code computes them, every spelling, the default setting -/

/-- a unit with the escapes of unreserved octets undone: what `normalizeUnreserved` makes of it -/
def normUnit : PU → PU
  | .lit c => .lit c
  | .esc a b => if isUnreserved (octet a b) then .lit (octet a b) else .esc a b

theorem unres_ne_percent {c : Char} (h : isUnreserved c = true) : c ≠ '%' := by
  intro e; subst e; revert h; decide

theorem norm_eq_render (us : List PU) : us.flatMap PU.norm = renderU (us.map normUnit) := by
  induction us with
  | nil => rfl
  | cons u rest ih =>
    cases u with
    | lit c => simp [renderU, PU.norm, normUnit, PU.render] at ih ⊢; exact ih
    | esc a b =>
      by_cases h : isUnreserved (octet a b) <;> simp [renderU, PU.norm, normUnit, PU.render, h] at ih ⊢ <;> exact ih

theorem normUnit_wf (us : List PU) (hwf : ∀ u ∈ us, u.wf) : ∀ u ∈ us.map normUnit, u.wf := by
  intro u hu
  obtain ⟨x, hx, rfl⟩ := List.mem_map.mp hu
  have := hwf x hx
  cases x with
  | lit c => exact this
  | esc a b =>
    by_cases h : isUnreserved (octet a b)
    · simp only [normUnit, h, if_true]; exact unres_ne_percent h
    · simp only [normUnit, h]; exact this

/-- **What the code really decodes** — the tree cuts captures out of the *normalised* raw path: under `on` the
captured value is still the fully decoded segment. -/
theorem c08_on_capture_after_normalise (us : List PU) (hwf : ∀ u ∈ us, u.wf) :
    unescapeCapture .on (String.ofList (normalizeL (renderU us))) = String.ofList (us.map PU.dec) := by
  rw [normalizeL_render us hwf, norm_eq_render, c08_on_capture _ (normUnit_wf us hwf)]
  congr 1
  rw [List.map_map]
  apply List.map_congr_left
  intro x _
  cases x with
  | lit c => rfl
  | esc a b => by_cases h : isUnreserved (octet a b) <;> simp [normUnit, PU.dec, h]

/-- **The default setting `off`**: a value without encoded slash is decoded completely. -/
theorem c08_off_capture (us : List PU) (hwf : ∀ u ∈ us, u.wf) (hs : us.any PU.isSlash = false) :
    unescapeCapture .off (String.ofList (renderU us)) = String.ofList (us.map PU.dec) := by
  unfold unescapeCapture
  simp only [String.toList_ofList]
  rw [unescapeKeepSlashL_render us hwf]
  simp only [Option.map_some, Option.getD_some]
  congr 1
  induction us with
  | nil => rfl
  | cons u rest ih =>
    simp only [List.any_cons, Bool.or_eq_false_iff] at hs
    have := ih (fun x hx => hwf x (by simp [hx])) hs.2
    cases u with
    | lit c => simp [PU.decKeep, PU.dec, this]
    | esc a b =>
      have h1 : PU.isSlash (.esc a b) = false := hs.1
      simp only [PU.isSlash] at h1
      simp [PU.decKeep, PU.dec, this, h1]

/-- **`off` at the level of `serve`**: whatever rule with the setting `off` the lookup selects, a request whose raw
path contains an encoded slash is answered with the precondition error. -/
theorem c08_off_never_accepts (s : Repo) (d : Bool) (q : ReqView) (h : containsEncodedSlash q.rawPath = true)
    (v : RVal) (ps : List (String × String)) (hf : s.findRule d q = .rule v ps) (hv : v.esh = .off) :
    (s.serve d q).exec = some .argument := by
  unfold Repo.serve
  simp [hf, execPrelude, hv, h]

/-- every spelling is a re-encoding of its normal form -/
theorem reenc_of_norm (us : List PU) (hwf : ∀ u ∈ us, u.wf) : Reenc (us.map normUnit) us := by
  induction us with
  | nil => exact .nil
  | cons u rest ih =>
    have ih' := ih (fun x hx => hwf x (by simp [hx]))
    cases u with
    | lit c => exact .keep _ ih'
    | esc a b =>
      have hw := hwf (.esc a b) (by simp)
      by_cases h : isUnreserved (octet a b)
      · simp only [List.map_cons, normUnit, h, if_true]
        exact .enc _ a b h hw.1 hw.2 rfl ih'
      · simp only [List.map_cons, normUnit, h]
        exact .keep _ ih'

/-- **All equivalent spellings, symmetrically**: two raw paths that agree once the escapes of unreserved octets are
undone (any subset encoded on either side, either hex case, `%6a` vs `%6A`, `%61b` vs `a%62`) are served alike. -/
theorem c08_spellings_equivalent (s : Repo) (hasDefault : Bool) (q : ReqView) (us us' : List PU)
    (hwf : ∀ u ∈ us, u.wf) (hwf' : ∀ u ∈ us', u.wf) (h : us.map normUnit = us'.map normUnit) :
    s.serve hasDefault (respell q (renderU us)) = s.serve hasDefault (respell q (renderU us')) := by
  have e1 := c08_reencode_invariant s hasDefault q (us.map normUnit) us (normUnit_wf us hwf) (reenc_of_norm us hwf)
  have e2 := c08_reencode_invariant s hasDefault q (us'.map normUnit) us' (normUnit_wf us' hwf') (reenc_of_norm us' hwf')
  rw [e1, e2, h]

example : [PU.esc '6' 'a', .lit 'b'].map normUnit = [PU.lit 'j', .esc '6' '2'].map normUnit := by decide

/-! ## From the request line to the request view

`extractURL` keeps the path as received and percent-encodes only the octets that may not stand in a path
(`receivedPathL`, unit by unit `receivedUnit`).  The statements above are about a raw path given as units; these say
that the raw path of the request view has the same encoded slashes and the same decoding as the request line, for
every sequence of octets — so "`%2F` next to an octet Go does not accept" can neither slip past the check nor change
what is captured. -/

/-- the request view of a request line -/
def viewOfLine (q : ReqView) (us : List PU) : ReqView := respell q (receivedPathL (renderU us))

theorem c08_request_line_view (q : ReqView) (us : List PU) (hwf : ∀ u ∈ us, u.wf) (hb : ∀ u ∈ us, u.byte) :
    containsEncodedSlash (viewOfLine q us).rawPath = us.any PU.isSlash ∧
      (viewOfLine q us).path = String.ofList (us.map PU.dec) := by
  have hwf' := receivedUnit_wf us hwf
  constructor
  · simp only [viewOfLine, respell, containsEncodedSlash, String.toList_ofList]
    rw [receivedPathL_render us hwf, containsEncodedSlashL_render _ hwf', receivedU_slash us hb]
  · simp only [viewOfLine, respell]
    rw [receivedPathL_render us hwf, pathUnescapeL_render _ hwf', receivedU_dec us hb]
    rfl

/-- **`off`, stated for the request line**: whatever octets surround it, an encoded slash in the request line leads to
the precondition error. -/
theorem c08_slash_off_request_line (q : ReqView) (us : List PU) (hwf : ∀ u ∈ us, u.wf) (hb : ∀ u ∈ us, u.byte)
    (hs : us.any PU.isSlash = true) (params : List (String × String)) :
    execPrelude .off (viewOfLine q us) params = .argument := by
  unfold execPrelude
  rw [(c08_request_line_view q us hwf hb).1, hs]
  rfl

example : receivedPathL "/y/a%2Fb^".toList = "/y/a%2Fb%5E".toList := by decide


end Heimdall.Props.C08
