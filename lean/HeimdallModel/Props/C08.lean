import HeimdallModel.Lemmas.UrlEscape
import HeimdallModel.Lemmas.UpstreamUrl
import HeimdallModel.Model.Repo
import HeimdallModel.Lemmas.Trie
import HeimdallModel.Lemmas.SlashSetting
/-!
# C08 — percent-encoding cannot change the matched rule; encoded slashes obey the rule

A raw request path is a sequence of units (literal octets and percent-escapes, `PU`).  `Reenc us us'` says that
`us'` spells the same path as `us` with an arbitrary subset of the unreserved octets percent-encoded, hex digits in
either case.  The statements are about `Repo.serve` (lookup + the part of rule execution that precedes the
pipeline), which is what the correspondence check runs against the real request context, repository and rule.
-/
namespace Heimdall.Props.C08
open Heimdall

/-- request views that differ only in the spelling of the raw path -/
def respell (q : ReqView) (raw : List Char) : ReqView :=
  { q with rawPath := String.ofList raw, path := String.ofList ((pathUnescapeL raw).getD []) }

theorem ofList_isEmpty (l : List Char) : (String.ofList l).isEmpty = l.isEmpty := by
  cases l <;> simp [String.isEmpty_iff]

theorem renderU_isEmpty (us : List PU) : (renderU us).isEmpty = us.isEmpty := by
  cases us with
  | nil => rfl
  | cons u rest => cases u <;> simp [renderU, PU.render]

/-- **The lookup key ignores the encoding of unreserved octets.** -/
theorem c08_normalize_reenc (us us' : List PU) (hwf : ∀ u ∈ us, u.wf) (h : Reenc us us') :
    normalizeL (renderU us') = normalizeL (renderU us) := by
  rw [normalizeL_render us hwf, normalizeL_render us' (h.wf hwf), h.norm_eq]

/-- **Re-encoding unreserved octets changes nothing observable**: the same rule is selected, the same captured
values are exposed, the request is accepted or rejected alike — for every repository state, with or without default
rule, for every method, host and scheme. -/
theorem c08_reencode_invariant (s : Repo) (hasDefault : Bool) (q : ReqView) (us us' : List PU)
    (hwf : ∀ u ∈ us, u.wf) (h : Reenc us us') :
    s.serve hasDefault (respell q (renderU us')) = s.serve hasDefault (respell q (renderU us)) := by
  have hwf' := h.wf hwf
  have hempty : (String.ofList (renderU us')).isEmpty = (String.ofList (renderU us)).isEmpty := by
    rw [ofList_isEmpty, ofList_isEmpty, renderU_isEmpty, renderU_isEmpty]
    cases h <;> rfl
  have hslash : containsEncodedSlash (String.ofList (renderU us')) = containsEncodedSlash (String.ofList (renderU us)) := by
    unfold containsEncodedSlash
    simp only [String.toList_ofList]
    rw [containsEncodedSlashL_render us hwf, containsEncodedSlashL_render us' hwf', h.slash_eq]
  have hpath : (respell q (renderU us')).path = (respell q (renderU us)).path := by
    simp only [respell]
    rw [pathUnescapeL_render us hwf, pathUnescapeL_render us' hwf', h.dec_eq]
  have hkey : lookupPath (respell q (renderU us')) = lookupPath (respell q (renderU us)) := by
    unfold lookupPath
    simp only [respell] at hpath ⊢
    simp only [hempty]
    by_cases he : (String.ofList (renderU us)).isEmpty
    · simp only [he, if_true]; exact hpath
    · simp only [he, Bool.false_eq_true, if_false]
      unfold normalizeUnreserved
      simp only [String.toList_ofList]
      rw [c08_normalize_reenc us us' hwf h]
  have hpp : ∀ esh keys caps pp, ppOk esh (respell q (renderU us')) keys caps pp =
      ppOk esh (respell q (renderU us)) keys caps pp := by
    intro esh keys caps pp
    unfold ppOk
    simp only [respell, hempty, hslash]
    cases lookupKey keys caps pp.1 <;> rfl
  have hm : repoMatcher (respell q (renderU us')) = repoMatcher (respell q (renderU us)) := by
    funext v keys caps
    unfold repoMatcher routeMatches
    have h1 : schemeOk v.route (respell q (renderU us')) = schemeOk v.route (respell q (renderU us)) := rfl
    have h2 : methodOk v.route (respell q (renderU us')) = methodOk v.route (respell q (renderU us)) := rfl
    have h3 : hostOk v.route (respell q (renderU us')) = hostOk v.route (respell q (renderU us)) := rfl
    have hall : v.route.pps.all (ppOk v.route.esh (respell q (renderU us')) keys caps) =
        v.route.pps.all (ppOk v.route.esh (respell q (renderU us)) keys caps) := by
      congr 1
      funext pp
      exact hpp _ _ _ pp
    rw [h1, h2, h3, hall]
  have hex : ∀ esh ps, execPrelude esh (respell q (renderU us')) ps = execPrelude esh (respell q (renderU us)) ps := by
    intro esh ps
    unfold execPrelude
    simp only [respell, hslash]
    rfl
  unfold Repo.serve Repo.findRule
  rw [hkey, hm]
  cases lookup (repoMatcher (respell q (renderU us))) s.index (lookupPath (respell q (renderU us))) with
  | none => cases hasDefault <;> simp [hex]
  | some vp => simp [hex]

example : Reenc [.lit '/', .lit 'a', .lit 'd'] [.lit '/', .esc '6' '1', .lit 'd'] :=
  .keep _ (.enc 'a' '6' '1' (by decide) (by decide) (by decide) (by decide) (.keep _ .nil))

/-- **Encoded slash, setting `off`** (the setting of the default rule as well): the request is answered with the
precondition error before any pipeline step runs — for `%2F` and `%2f` alike. -/
theorem c08_slash_off (q : ReqView) (us : List PU) (hwf : ∀ u ∈ us, u.wf) (hs : us.any PU.isSlash = true)
    (params : List (String × String)) :
    execPrelude .off (respell q (renderU us)) params = .argument := by
  unfold execPrelude containsEncodedSlash
  simp only [respell, String.toList_ofList]
  rw [containsEncodedSlashL_render us hwf, hs]
  rfl

example : ([PU.lit '/', .esc '2' 'f'] : List PU).any PU.isSlash = true := by decide

/-- the default rule always runs with the setting `off` -/
theorem c08_default_rule_rejects_encoded_slash (s : Repo) (q : ReqView) (us : List PU)
    (hwf : ∀ u ∈ us, u.wf) (hs : us.any PU.isSlash = true)
    (hd : (s.serve true (respell q (renderU us))).rule = some ("config", "default")) (hne : ∀ v ∈ s.index, ∀ x ∈ v.values, x.src ≠ "config") :
    (s.serve true (respell q (renderU us))).exec = some .argument := by
  unfold Repo.serve at hd ⊢
  cases hf : s.findRule true (respell q (renderU us)) with
  | none => simp [hf] at hd
  | default => simp only [hf]; rw [c08_slash_off q us hwf hs]
  | rule v ps =>
    exfalso
    simp only [hf, Option.some.injEq, Prod.mk.injEq] at hd
    unfold Repo.findRule at hf
    cases hl : lookup (repoMatcher (respell q (renderU us))) s.index (lookupPath (respell q (renderU us))) with
    | none => simp [hl] at hf
    | some vp =>
      simp only [hl, Found?.rule.injEq] at hf
      unfold lookup at hl
      cases hfi : (find (repoMatcher (respell q (renderU us))) s.index
          (tokenize (lookupPath (respell q (renderU us)))) []).1 with
      | none => simp [hfi] at hl
      | some f =>
        simp only [hfi, Option.some.injEq] at hl
        rw [find_eq_scan] at hfi
        obtain ⟨pre, c, post, hcs, _, hval, _, _⟩ := scan_some _ hfi
        have hc : c ∈ cands s.index (tokenize (lookupPath (respell q (renderU us)))) [] := by rw [hcs]; simp
        have hmem := (cands_sound _ _ _ c hc).1
        have hv : f.value ∈ c.node.values := List.mem_of_find?_eq_some hval
        have := hne c.node hmem f.value hv
        apply this
        rw [← hl] at hf
        simp only at hf
        rw [hf.1]; exact hd.1

/-- **Settings `on` and `no_decode` never reject because of an encoded slash.** -/
theorem c08_slash_allowed (h : SlashHandling) (hne : h ≠ .off) (q : ReqView) (params : List (String × String)) :
    ∃ caps, execPrelude h q params = .ok caps := by
  unfold execPrelude
  cases h with
  | off => exact absurd rfl hne
  | on => exact ⟨_, rfl⟩
  | noDecode => exact ⟨_, rfl⟩

/-- **`no_decode`: an encoded slash stays encoded in the captured value**, every other escape is decoded. -/
theorem c08_no_decode_capture (us : List PU) (hwf : ∀ u ∈ us, u.wf) :
    unescapeCapture .noDecode (String.ofList (renderU us)) = String.ofList (us.flatMap PU.decKeep) := by
  unfold unescapeCapture
  simp only [String.toList_ofList]
  rw [unescapeKeepSlashL_render us hwf]
  rfl

/-- **`on`: every escape, the encoded slash included, is decoded in the captured value.** -/
theorem c08_on_capture (us : List PU) (hwf : ∀ u ∈ us, u.wf) :
    unescapeCapture .on (String.ofList (renderU us)) = String.ofList (us.map PU.dec) := by
  unfold unescapeCapture
  simp only [String.toList_ofList]
  rw [pathUnescapeL_render us hwf]
  rfl

example : PU.decKeep (.esc '2' 'f') = ['%', '2', 'f'] ∧ PU.dec (.esc '2' 'f') = '/' ∧
    PU.decKeep (.esc '2' '0') = [' '] := by decide

/-- captured values are the same for every spelling: decoding undoes the re-encoding -/
theorem c08_capture_reenc (us us' : List PU) (hwf : ∀ u ∈ us, u.wf) (h : Reenc us us') :
    unescapeCapture .on (String.ofList (renderU us')) = unescapeCapture .on (String.ofList (renderU us)) := by
  rw [c08_on_capture us hwf, c08_on_capture us' (h.wf hwf), h.dec_eq]

/-! ## Captures as the code computes them, every spelling, the default setting -/

/-- a unit with the escapes of unreserved octets undone: what `normalizeUnreserved` makes of it -/
def normUnit : PU → PU
  | .lit c => .lit c
  | .esc a b => if isUnreserved (octet a b) then .lit (octet a b) else .esc a b

theorem unres_ne_percent {c : Char} (h : isUnreserved c = true) : c ≠ '%' := by
  intro e; subst e; revert h; decide

theorem norm_eq_render (us : List PU) : us.flatMap PU.norm = renderU (us.map normUnit) := by
  induction us with
  | nil => rfl
  | cons u rest ih =>
    cases u with
    | lit c => simp [renderU, PU.norm, normUnit, PU.render] at ih ⊢; exact ih
    | esc a b =>
      by_cases h : isUnreserved (octet a b) <;> simp [renderU, PU.norm, normUnit, PU.render, h] at ih ⊢ <;> exact ih

theorem normUnit_wf (us : List PU) (hwf : ∀ u ∈ us, u.wf) : ∀ u ∈ us.map normUnit, u.wf := by
  intro u hu
  obtain ⟨x, hx, rfl⟩ := List.mem_map.mp hu
  have := hwf x hx
  cases x with
  | lit c => exact this
  | esc a b =>
    by_cases h : isUnreserved (octet a b)
    · simp only [normUnit, h, if_true]; exact unres_ne_percent h
    · simp only [normUnit, h]; exact this

/-- **What the code really decodes** — the tree cuts captures out of the *normalised* raw path: under `on` the
captured value is still the fully decoded segment. -/
theorem c08_on_capture_after_normalise (us : List PU) (hwf : ∀ u ∈ us, u.wf) :
    unescapeCapture .on (String.ofList (normalizeL (renderU us))) = String.ofList (us.map PU.dec) := by
  rw [normalizeL_render us hwf, norm_eq_render, c08_on_capture _ (normUnit_wf us hwf)]
  congr 1
  rw [List.map_map]
  apply List.map_congr_left
  intro x _
  cases x with
  | lit c => rfl
  | esc a b => by_cases h : isUnreserved (octet a b) <;> simp [normUnit, PU.dec, h]

/-- **The default setting `off`**: a value without encoded slash is decoded completely. -/
theorem c08_off_capture (us : List PU) (hwf : ∀ u ∈ us, u.wf) (hs : us.any PU.isSlash = false) :
    unescapeCapture .off (String.ofList (renderU us)) = String.ofList (us.map PU.dec) := by
  unfold unescapeCapture
  simp only [String.toList_ofList]
  rw [unescapeKeepSlashL_render us hwf]
  simp only [Option.map_some, Option.getD_some]
  congr 1
  induction us with
  | nil => rfl
  | cons u rest ih =>
    simp only [List.any_cons, Bool.or_eq_false_iff] at hs
    have := ih (fun x hx => hwf x (by simp [hx])) hs.2
    cases u with
    | lit c => simp [PU.decKeep, PU.dec, this]
    | esc a b =>
      have h1 : PU.isSlash (.esc a b) = false := hs.1
      simp only [PU.isSlash] at h1
      simp [PU.decKeep, PU.dec, this, h1]

/-- **`off` at the level of `serve`**: whatever rule with the setting `off` the lookup selects, a request whose raw
path contains an encoded slash is answered with the precondition error. -/
theorem c08_off_never_accepts (s : Repo) (d : Bool) (q : ReqView) (h : containsEncodedSlash q.rawPath = true)
    (v : RVal) (ps : List (String × String)) (hf : s.findRule d q = .rule v ps) (hv : v.esh = .off) :
    (s.serve d q).exec = some .argument := by
  unfold Repo.serve
  simp [hf, execPrelude, hv, h]

/-- every spelling is a re-encoding of its normal form -/
theorem reenc_of_norm (us : List PU) (hwf : ∀ u ∈ us, u.wf) : Reenc (us.map normUnit) us := by
  induction us with
  | nil => exact .nil
  | cons u rest ih =>
    have ih' := ih (fun x hx => hwf x (by simp [hx]))
    cases u with
    | lit c => exact .keep _ ih'
    | esc a b =>
      have hw := hwf (.esc a b) (by simp)
      by_cases h : isUnreserved (octet a b)
      · simp only [List.map_cons, normUnit, h, if_true]
        exact .enc _ a b h hw.1 hw.2 rfl ih'
      · simp only [List.map_cons, normUnit, h]
        exact .keep _ ih'

/-- **All equivalent spellings, symmetrically**: two raw paths that agree once the escapes of unreserved octets are
undone (any subset encoded on either side, either hex case, `%6a` vs `%6A`, `%61b` vs `a%62`) are served alike. -/
theorem c08_spellings_equivalent (s : Repo) (hasDefault : Bool) (q : ReqView) (us us' : List PU)
    (hwf : ∀ u ∈ us, u.wf) (hwf' : ∀ u ∈ us', u.wf) (h : us.map normUnit = us'.map normUnit) :
    s.serve hasDefault (respell q (renderU us)) = s.serve hasDefault (respell q (renderU us')) := by
  have e1 := c08_reencode_invariant s hasDefault q (us.map normUnit) us (normUnit_wf us hwf) (reenc_of_norm us hwf)
  have e2 := c08_reencode_invariant s hasDefault q (us'.map normUnit) us' (normUnit_wf us' hwf') (reenc_of_norm us' hwf')
  rw [e1, e2, h]

example : [PU.esc '6' 'a', .lit 'b'].map normUnit = [PU.lit 'j', .esc '6' '2'].map normUnit := by decide

/-! ## From the request line to the request view

`extractURL` keeps the path as received and percent-encodes only the octets that may not stand in a path
(`receivedPathL`, unit by unit `receivedUnit`).  The statements above are about a raw path given as units; these say
that the raw path of the request view has the same encoded slashes and the same decoding as the request line, for
every sequence of octets — so "`%2F` next to an octet Go does not accept" can neither slip past the check nor change
what is captured. -/

/-- the request view of a request line -/
def viewOfLine (q : ReqView) (us : List PU) : ReqView := respell q (receivedPathL (renderU us))

theorem c08_request_line_view (q : ReqView) (us : List PU) (hwf : ∀ u ∈ us, u.wf) (hb : ∀ u ∈ us, u.byte) :
    containsEncodedSlash (viewOfLine q us).rawPath = us.any PU.isSlash ∧
      (viewOfLine q us).path = String.ofList (us.map PU.dec) := by
  have hwf' := receivedUnit_wf us hwf
  constructor
  · simp only [viewOfLine, respell, containsEncodedSlash, String.toList_ofList]
    rw [receivedPathL_render us hwf, containsEncodedSlashL_render _ hwf', receivedU_slash us hb]
  · simp only [viewOfLine, respell]
    rw [receivedPathL_render us hwf, pathUnescapeL_render _ hwf', receivedU_dec us hb]
    rfl

/-- **`off`, stated for the request line**: whatever octets surround it, an encoded slash in the request line leads to
the precondition error. -/
theorem c08_slash_off_request_line (q : ReqView) (us : List PU) (hwf : ∀ u ∈ us, u.wf) (hb : ∀ u ∈ us, u.byte)
    (hs : us.any PU.isSlash = true) (params : List (String × String)) :
    execPrelude .off (viewOfLine q us) params = .argument := by
  unfold execPrelude
  rw [(c08_request_line_view q us hwf hb).1, hs]
  rfl

example : receivedPathL "/y/a%2Fb^".toList = "/y/a%2Fb%5E".toList := by decide

/-! ## The path sent upstream

For a rule with a backend (`forward_to`) `ruleImpl.Execute` hands `Backend.CreateURL` the request URL as the
encoded-slash switch left it (`on`: raw path dropped; `off` / `no_decode`: raw path kept), `URLRewriter.Rewrite` cuts
`strip_path_prefix` **literally** from the escaped path and puts `add_path_prefix` in front.  `upstreamPath` is what
`EscapedPath()` of the result gives, i.e. what the proxy writes into the request line.

The request views are `respell q raw` for a raw path given as units that may stand in a path (`PU.sendable`; the raw
path of every request view is of that kind, `c08_request_view_sendable`). -/
open Upstream

theorem respell_raw (q : ReqView) (us : List PU) : (respell q (renderU us)).rawPath.toList = renderU us := by
  simp [respell]

theorem respell_path (q : ReqView) (us : List PU) (hwf : ∀ u ∈ us, u.wf) :
    (respell q (renderU us)).path.toList = us.map PU.dec := by
  simp [respell, pathUnescapeL_render us hwf]

/-- the raw path of a request view (`receivedPathL` of whatever octets were received) consists of sendable units -/
theorem c08_request_view_sendable (us : List PU) (hwf : ∀ u ∈ us, u.wf) : ∀ u ∈ us.map receivedUnit, u.sendable :=
  receivedUnits_sendable us hwf

/-- **From the request line**: the view of a request line `us` is `respell q` of the sendable units
`us.map receivedUnit`, and two request lines that are re-spellings of one another have views whose raw paths are
re-spellings of one another — so every `c08_upstream_…` statement above applies to request lines as received (octets a
path may not contain included). -/
theorem c08_upstream_request_line (q : ReqView) (us us' : List PU) (hwf : ∀ u ∈ us, u.wf) (h : Reenc us us') :
    viewOfLine q us = respell q (renderU (us.map receivedUnit)) ∧
    viewOfLine q us' = respell q (renderU (us'.map receivedUnit)) ∧
    (∀ u ∈ us.map receivedUnit, u.sendable) ∧ Reenc (us.map receivedUnit) (us'.map receivedUnit) := by
  refine ⟨?_, ?_, c08_request_view_sendable us hwf, h.received⟩
  · simp only [viewOfLine]; rw [receivedPathL_render us hwf]
  · simp only [viewOfLine]; rw [receivedPathL_render us' (h.wf hwf)]

/-- **`off` / `no_decode`: the path sent upstream is the received spelling** — `add_path_prefix`, then the received raw
path with the literal prefix cut, every escape as the client wrote it.  (`hcut` names what the literal cut leaves; see
`c08_upstream_prefix_as_configured` and `c08_upstream_no_strip` for the two ways it is met.) -/
theorem c08_upstream_kept_verbatim (esh : SlashHandling) (hesh : esh ≠ .on) (q : ReqView) (r : RewriteCfg)
    (us as ws : List PU) (hus : ∀ u ∈ us, u.sendable) (hne : us ≠ []) (has : ∀ u ∈ as, u.sendable)
    (hws : ∀ u ∈ ws, u.sendable) (hadd : r.add.toList = renderU as)
    (hcut : cutPrefixL r.strip.toList (renderU us) = renderU ws) :
    upstreamPath esh (some r) (respell q (renderU us)) = renderU as ++ renderU ws := by
  rw [← renderU_append]
  exact upstreamPath_kept esh hesh _ r us as ws (respell_raw q us) (respell_path q us (sendable_wf hus))
    hus hne has hws hadd hcut

/-- without `rewrite` the received spelling is sent as it is -/
theorem c08_upstream_kept_verbatim_no_rewrite (esh : SlashHandling) (hesh : esh ≠ .on) (q : ReqView)
    (us : List PU) (hus : ∀ u ∈ us, u.sendable) :
    upstreamPath esh none (respell q (renderU us)) = renderU us :=
  upstreamPath_kept_no_rewrite esh hesh _ us (respell_raw q us) (respell_path q us (sendable_wf hus)) hus

/-- the literal cut when the request spells the prefix as it is configured -/
theorem c08_upstream_prefix_as_configured (strip : String) (ps ws : List PU) (h : strip.toList = renderU ps) :
    cutPrefixL strip.toList (renderU (ps ++ ws)) = renderU ws := by
  rw [h, renderU_append, cutPrefixL_append]

/-- no `strip_path_prefix`: nothing is cut -/
theorem c08_upstream_no_strip (us : List PU) : cutPrefixL "".toList (renderU us) = renderU us := cutPrefixL_nil _

/-- **`no_decode`: every encoded slash of the request is an encoded slash at the corresponding position of the path
sent upstream**, in the hex case the client used: for a request `prefix ++ pre ++ %2F|%2f ++ post` the path sent is
`add ++ pre ++ %2F|%2f ++ post`. -/
theorem c08_upstream_no_decode_slash_stays_encoded (q : ReqView) (r : RewriteCfg) (ps pre post as : List PU) (x : Char)
    (hx : x = 'F' ∨ x = 'f')
    (hps : ∀ u ∈ ps, u.sendable) (hpre : ∀ u ∈ pre, u.sendable) (hpost : ∀ u ∈ post, u.sendable)
    (has : ∀ u ∈ as, u.sendable) (hadd : r.add.toList = renderU as) (hstrip : r.strip.toList = renderU ps) :
    upstreamPath .noDecode (some r) (respell q (renderU (ps ++ (pre ++ .esc '2' x :: post)))) =
      renderU as ++ renderU pre ++ '%' :: '2' :: x :: renderU post := by
  have hxh : isHex x = true := by rcases hx with rfl | rfl <;> decide
  have hws : ∀ u ∈ pre ++ .esc '2' x :: post, u.sendable := by
    intro u hu
    rcases List.mem_append.mp hu with h | h
    · exact hpre u h
    · rcases List.mem_cons.mp h with rfl | h
      · exact ⟨by decide, hxh⟩
      · exact hpost u h
  have hus : ∀ u ∈ ps ++ (pre ++ .esc '2' x :: post), u.sendable := by
    intro u hu
    rcases List.mem_append.mp hu with h | h
    · exact hps u h
    · exact hws u h
  rw [c08_upstream_kept_verbatim .noDecode (by decide) q r _ as _ hus (by simp) has hws hadd
    (c08_upstream_prefix_as_configured r.strip ps _ hstrip)]
  simp [renderU_append, renderU_cons, PU.render]

example : renderU [PU.lit '/', .lit 'a', .esc '2' 'f', .lit 'b'] = "/a%2fb".toList := by decide

/-- **`on`: the path sent upstream is the default encoding of the decoded path** (prefix cut from, and
`add_path_prefix` put in front of, that encoding): it does not depend on how the client spelled the path. -/
theorem c08_upstream_on_canonical (q : ReqView) (r : RewriteCfg) (us : List PU) (ad wd : List Char)
    (hwf : ∀ u ∈ us, u.wf) (hstar : us.map PU.dec ≠ ['*']) (hb : ∀ c ∈ ad ++ wd, c.toNat < 256)
    (hadd : r.add.toList = escapePathL ad)
    (hcut : cutPrefixL r.strip.toList (escapePathL (us.map PU.dec)) = escapePathL wd) :
    upstreamPath .on (some r) (respell q (renderU us)) = escapePathL ad ++ escapePathL wd := by
  rw [← escapePathL_append]
  exact upstreamPath_on _ r _ ad wd (respell_path q us hwf) hstar hb hadd hcut

theorem c08_upstream_on_canonical_no_rewrite (q : ReqView) (us : List PU) (hwf : ∀ u ∈ us, u.wf)
    (hstar : us.map PU.dec ≠ ['*']) :
    upstreamPath .on none (respell q (renderU us)) = escapePathL (us.map PU.dec) :=
  upstreamPath_on_no_rewrite _ _ (respell_path q us hwf) hstar

/-- the default encoding never contains an encoded slash … -/
theorem c08_upstream_on_no_encoded_slash (p : List Char) (hb : ∀ c ∈ p, c.toNat < 256) :
    containsEncodedSlashL (escapePathL p) = false := escapePathL_no_encoded_slash p hb

/-- … **and under `on` every encoded slash of the request is the path separator `/` at the corresponding position of
the path sent upstream** (no prefix cut; `add_path_prefix` in its default encoding, e.g. `/v2`). -/
theorem c08_upstream_on_slash_decoded (q : ReqView) (r : RewriteCfg) (pre post : List PU) (x : Char) (ad : List Char)
    (hx : x = 'F' ∨ x = 'f') (hpre : ∀ u ∈ pre, u.wf) (hpost : ∀ u ∈ post, u.wf)
    (hbpre : ∀ u ∈ pre, u.byte) (hbpost : ∀ u ∈ post, u.byte) (hbad : ∀ c ∈ ad, c.toNat < 256)
    (hadd : r.add.toList = escapePathL ad) (hstrip : r.strip = "") :
    upstreamPath .on (some r) (respell q (renderU (pre ++ .esc '2' x :: post))) =
      escapePathL ad ++ escapePathL (pre.map PU.dec) ++ '/' :: escapePathL (post.map PU.dec) := by
  have hxh : isHex x = true := by rcases hx with rfl | rfl <;> decide
  have hdx : PU.dec (.esc '2' x) = '/' := by rcases hx with rfl | rfl <;> decide
  have hwf : ∀ u ∈ pre ++ .esc '2' x :: post, u.wf := by
    intro u hu
    rcases List.mem_append.mp hu with h | h
    · exact hpre u h
    · rcases List.mem_cons.mp h with rfl | h
      · exact ⟨by decide, hxh⟩
      · exact hpost u h
  have hmap : (pre ++ .esc '2' x :: post).map PU.dec = pre.map PU.dec ++ '/' :: post.map PU.dec := by
    simp [hdx]
  have hstar : (pre ++ .esc '2' x :: post).map PU.dec ≠ ['*'] := by
    rw [hmap]
    intro e
    cases hp : pre.map PU.dec with
    | nil => rw [hp] at e; simp at e
    | cons c t =>
      rw [hp] at e
      simp only [List.cons_append, List.cons.injEq] at e
      have := e.2
      cases t <;> simp at this
  have hb : ∀ c ∈ ad ++ (pre.map PU.dec ++ '/' :: post.map PU.dec), c.toNat < 256 := by
    intro c hc
    rcases List.mem_append.mp hc with h | h
    · exact hbad c h
    · rcases List.mem_append.mp h with h | h
      · exact decs_byte pre hbpre c h
      · rcases List.mem_cons.mp h with rfl | h
        · decide
        · exact decs_byte post hbpost c h
  have hcut : cutPrefixL r.strip.toList (escapePathL ((pre ++ .esc '2' x :: post).map PU.dec)) =
      escapePathL (pre.map PU.dec ++ '/' :: post.map PU.dec) := by
    rw [hstrip, hmap]; exact cutPrefixL_nil _
  rw [c08_upstream_on_canonical q r _ ad _ hwf hstar hb hadd hcut, escapePathL_append]
  have : escapePathL ('/' :: post.map PU.dec) = '/' :: escapePathL (post.map PU.dec) := by
    simp [escapePathL, shouldEscape_slash]
  rw [this]
  simp

/-- **Spelling invariance of the path sent upstream, setting `on`**: the whole upstream URL is the same for two
spellings of one path, whatever `rewrite` says. -/
theorem c08_upstream_on_spelling_invariant (be : BackendCfg) (q : ReqView) (us us' : List PU) (rq : String)
    (hwf : ∀ u ∈ us, u.wf) (h : Reenc us us') :
    upstreamUrl .on be (respell q (renderU us')) rq = upstreamUrl .on be (respell q (renderU us)) rq := by
  have hp : (respell q (renderU us')).path = (respell q (renderU us)).path := by
    simp only [respell]
    rw [pathUnescapeL_render us hwf, pathUnescapeL_render us' (h.wf hwf), h.dec_eq]
  unfold upstreamUrl upstreamPath
  simp only [if_true, hp]
  rfl

/-- **Spelling invariance of the path sent upstream, settings `off` and `no_decode`**: if the literal cut of
`strip_path_prefix` leaves re-spellings of one another (`hrw`; always so without `strip_path_prefix` and whenever both
requests spell the prefix as configured, see the corollaries), then the two paths sent upstream are re-spellings of one
another: they are equal once the escapes of unreserved octets are undone — so they agree on every encoded slash and on
every other escape, position by position — and they decode to the same octets. -/
theorem c08_upstream_spelling_invariant (esh : SlashHandling) (hesh : esh ≠ .on) (q : ReqView) (r : RewriteCfg)
    (us us' as ws ws' : List PU) (hus : ∀ u ∈ us, u.sendable) (hne : us ≠ []) (has : ∀ u ∈ as, u.sendable)
    (hws : ∀ u ∈ ws, u.sendable) (hadd : r.add.toList = renderU as)
    (hcut : cutPrefixL r.strip.toList (renderU us) = renderU ws)
    (hcut' : cutPrefixL r.strip.toList (renderU us') = renderU ws')
    (hre : Reenc us us') (hrw : Reenc ws ws') :
    normalizeL (upstreamPath esh (some r) (respell q (renderU us'))) =
        normalizeL (upstreamPath esh (some r) (respell q (renderU us))) ∧
      pathUnescapeL (upstreamPath esh (some r) (respell q (renderU us'))) =
        pathUnescapeL (upstreamPath esh (some r) (respell q (renderU us))) := by
  have hall : ∀ u ∈ as ++ ws, u.sendable := by
    intro u hu
    rcases List.mem_append.mp hu with h | h
    · exact has u h
    · exact hws u h
  have hr2 : Reenc (as ++ ws) (as ++ ws') := Reenc.append_left as hrw
  rw [c08_upstream_kept_verbatim esh hesh q r us as ws hus hne has hws hadd hcut,
    c08_upstream_kept_verbatim esh hesh q r us' as ws' (hre.sendable hus) (hre.ne_nil hne) has (hrw.sendable hws) hadd hcut',
    ← renderU_append, ← renderU_append]
  constructor
  · exact c08_normalize_reenc _ _ (sendable_wf hall) hr2
  · rw [pathUnescapeL_render _ (sendable_wf hall), pathUnescapeL_render _ (hr2.wf (sendable_wf hall)), hr2.dec_eq]

/-- corollary: no `strip_path_prefix` -/
theorem c08_upstream_spelling_invariant_no_strip (esh : SlashHandling) (hesh : esh ≠ .on) (q : ReqView) (r : RewriteCfg)
    (us us' as : List PU) (hus : ∀ u ∈ us, u.sendable) (hne : us ≠ []) (has : ∀ u ∈ as, u.sendable)
    (hadd : r.add.toList = renderU as) (hstrip : r.strip = "") (hre : Reenc us us') :
    normalizeL (upstreamPath esh (some r) (respell q (renderU us'))) =
        normalizeL (upstreamPath esh (some r) (respell q (renderU us))) ∧
      pathUnescapeL (upstreamPath esh (some r) (respell q (renderU us'))) =
        pathUnescapeL (upstreamPath esh (some r) (respell q (renderU us))) :=
  c08_upstream_spelling_invariant esh hesh q r us us' as us us' hus hne has hus hadd
    (by rw [hstrip]; exact cutPrefixL_nil _) (by rw [hstrip]; exact cutPrefixL_nil _) hre hre

/-- corollary: both requests spell the prefix as it is configured, and differ behind it -/
theorem c08_upstream_spelling_invariant_prefix_as_configured (esh : SlashHandling) (hesh : esh ≠ .on) (q : ReqView)
    (r : RewriteCfg) (ps ws ws' as : List PU) (hps : ∀ u ∈ ps, u.sendable) (hws : ∀ u ∈ ws, u.sendable)
    (hne : ps ++ ws ≠ []) (has : ∀ u ∈ as, u.sendable) (hadd : r.add.toList = renderU as)
    (hstrip : r.strip.toList = renderU ps) (hrw : Reenc ws ws') :
    normalizeL (upstreamPath esh (some r) (respell q (renderU (ps ++ ws')))) =
        normalizeL (upstreamPath esh (some r) (respell q (renderU (ps ++ ws)))) ∧
      pathUnescapeL (upstreamPath esh (some r) (respell q (renderU (ps ++ ws')))) =
        pathUnescapeL (upstreamPath esh (some r) (respell q (renderU (ps ++ ws)))) := by
  have hus : ∀ u ∈ ps ++ ws, u.sendable := by
    intro u hu
    rcases List.mem_append.mp hu with h | h
    · exact hps u h
    · exact hws u h
  exact c08_upstream_spelling_invariant esh hesh q r _ _ as ws ws' hus hne has hws hadd
    (c08_upstream_prefix_as_configured r.strip ps ws hstrip) (c08_upstream_prefix_as_configured r.strip ps ws' hstrip)
    (Reenc.append_left ps hrw) hrw

/-- corollary: no `rewrite` at all -/
theorem c08_upstream_spelling_invariant_no_rewrite (esh : SlashHandling) (hesh : esh ≠ .on) (q : ReqView)
    (us us' : List PU) (hus : ∀ u ∈ us, u.sendable) (hre : Reenc us us') :
    normalizeL (upstreamPath esh none (respell q (renderU us'))) =
        normalizeL (upstreamPath esh none (respell q (renderU us))) := by
  rw [c08_upstream_kept_verbatim_no_rewrite esh hesh q us hus,
    c08_upstream_kept_verbatim_no_rewrite esh hesh q us' (hre.sendable hus)]
  exact c08_normalize_reenc _ _ (sendable_wf hus) hre

/-- non-vacuity: `/api/f/a%2Fb` and `/api/%66/a%2Fb`, prefix `/api` -/
example : Reenc [PU.lit '/', .lit 'f', .lit '/', .lit 'a', .esc '2' 'F', .lit 'b']
    [PU.lit '/', .esc '6' '6', .lit '/', .lit 'a', .esc '2' 'F', .lit 'b'] :=
  .keep _ (.enc 'f' '6' '6' (by decide) (by decide) (by decide) (by decide) (.keep _ (.keep _ (.keep _ (.keep _ .nil)))))

example : "/api".toList = renderU [PU.lit '/', .lit 'a', .lit 'p', .lit 'i'] ∧
    ∀ u ∈ [PU.lit '/', .lit 'a', .lit 'p', .lit 'i'], u.sendable := by
  refine ⟨by decide, ?_⟩
  intro u hu
  simp only [List.mem_cons, List.not_mem_nil, or_false] at hu
  rcases hu with rfl | rfl | rfl | rfl <;> exact ⟨by decide, by decide⟩

/-- **Observation (recorded, not part of C08): the cut of `strip_path_prefix` is literal.**  A request that spells an
unreserved octet of the prefix percent-encoded selects the same rule, but its prefix is not cut; the property speaks
about the matched rule, captured values, acceptance and encoded slashes in the path sent upstream, not about the prefix
(design/C08.md, "literal prefix cut"). -/
example : cutPrefixL "/api".toList "/api/x".toList = "/x".toList ∧
    cutPrefixL "/api".toList "/%61pi/x".toList = "/%61pi/x".toList := by decide

/-- scheme, host and query of the upstream URL do not depend on the path at all -/
theorem c08_upstream_rest_independent_of_spelling (esh : SlashHandling) (be : BackendCfg) (q : ReqView)
    (raw : List Char) (rq : String) :
    (upstreamUrl esh be (respell q raw) rq).scheme = (upstreamUrl esh be q rq).scheme ∧
    (upstreamUrl esh be (respell q raw) rq).host = (upstreamUrl esh be q rq).host ∧
    (upstreamUrl esh be (respell q raw) rq).query = (upstreamUrl esh be q rq).query := by
  refine ⟨?_, rfl, rfl⟩
  unfold upstreamUrl
  cases be.rewrite <;> rfl

/-! ### At the level of the repository -/

/-- the lookup selects the same entry of the routing tree for every spelling -/
theorem c08_same_entry_for_every_spelling (s : Repo) (hasDefault : Bool) (q : ReqView) (us us' : List PU)
    (hwf : ∀ u ∈ us, u.wf) (h : Reenc us us') :
    s.findRule hasDefault (respell q (renderU us')) = s.findRule hasDefault (respell q (renderU us)) := by
  have hwf' := h.wf hwf
  have hempty : (String.ofList (renderU us')).isEmpty = (String.ofList (renderU us)).isEmpty := by
    rw [ofList_isEmpty, ofList_isEmpty, renderU_isEmpty, renderU_isEmpty]
    cases h <;> rfl
  have hslash : containsEncodedSlash (String.ofList (renderU us')) = containsEncodedSlash (String.ofList (renderU us)) := by
    unfold containsEncodedSlash
    simp only [String.toList_ofList]
    rw [containsEncodedSlashL_render us hwf, containsEncodedSlashL_render us' hwf', h.slash_eq]
  have hpath : (respell q (renderU us')).path = (respell q (renderU us)).path := by
    simp only [respell]
    rw [pathUnescapeL_render us hwf, pathUnescapeL_render us' hwf', h.dec_eq]
  have hkey : lookupPath (respell q (renderU us')) = lookupPath (respell q (renderU us)) := by
    unfold lookupPath
    simp only [respell] at hpath ⊢
    simp only [hempty]
    by_cases he : (String.ofList (renderU us)).isEmpty
    · simp only [he, if_true]; exact hpath
    · simp only [he, Bool.false_eq_true, if_false]
      unfold normalizeUnreserved
      simp only [String.toList_ofList]
      rw [c08_normalize_reenc us us' hwf h]
  have hm : repoMatcher (respell q (renderU us')) = repoMatcher (respell q (renderU us)) := by
    funext v keys caps
    unfold repoMatcher routeMatches
    have h1 : schemeOk v.route (respell q (renderU us')) = schemeOk v.route (respell q (renderU us)) := rfl
    have h2 : methodOk v.route (respell q (renderU us')) = methodOk v.route (respell q (renderU us)) := rfl
    have h3 : hostOk v.route (respell q (renderU us')) = hostOk v.route (respell q (renderU us)) := rfl
    have hall : v.route.pps.all (ppOk v.route.esh (respell q (renderU us')) keys caps) =
        v.route.pps.all (ppOk v.route.esh (respell q (renderU us)) keys caps) := by
      congr 1
      funext pp
      unfold ppOk
      simp only [respell, hempty, hslash]
      cases lookupKey keys caps pp.1 <;> rfl
    rw [h1, h2, h3, hall]
  unfold Repo.findRule
  rw [hkey, hm]

/-- **Forwarded alike**: whether a request is forwarded at all (the matched rule has a backend and did not answer with
the precondition error) does not depend on the spelling. -/
theorem c08_upstream_forwarded_alike (s : Repo) (hasDefault : Bool) (q : ReqView) (us us' : List PU) (rq : String)
    (hwf : ∀ u ∈ us, u.wf) (h : Reenc us us') :
    (s.upstream hasDefault (respell q (renderU us')) rq).isSome =
      (s.upstream hasDefault (respell q (renderU us)) rq).isSome := by
  have hslash : containsEncodedSlash (String.ofList (renderU us')) = containsEncodedSlash (String.ofList (renderU us)) := by
    unfold containsEncodedSlash
    simp only [String.toList_ofList]
    rw [containsEncodedSlashL_render us hwf, containsEncodedSlashL_render us' (h.wf hwf), h.slash_eq]
  unfold Repo.upstream
  rw [c08_same_entry_for_every_spelling s hasDefault q us us' hwf h]
  cases s.findRule hasDefault (respell q (renderU us)) with
  | none => rfl
  | default => rfl
  | rule v ps =>
    have hex : execPrelude v.esh (respell q (renderU us')) ps = execPrelude v.esh (respell q (renderU us)) ps := by
      unfold execPrelude
      simp only [respell, hslash]
      rfl
    simp only [hex]
    cases execPrelude v.esh (respell q (renderU us)) ps <;> cases (s.ruleOf v).bind (·.cfg.backend) <;> rfl

/-- **`off`: a request with an encoded slash is never forwarded** (and the default rule, which always runs with `off`,
never forwards anything: it has no backend). -/
theorem c08_upstream_off_never_forwarded (s : Repo) (d : Bool) (q : ReqView) (rq : String)
    (h : containsEncodedSlash q.rawPath = true) (v : RVal) (ps : List (String × String))
    (hf : s.findRule d q = .rule v ps) (hv : v.esh = .off) :
    s.upstream d q rq = none := by
  unfold Repo.upstream
  simp [hf, execPrelude, hv, h]

theorem c08_upstream_default_rule_never_forwards (s : Repo) (q : ReqView) (rq : String)
    (hf : s.findRule true q = .default) : s.upstream true q rq = none := by
  unfold Repo.upstream
  simp [hf]

/-- whatever is forwarded was not answered with the precondition error -/
theorem c08_upstream_only_if_accepted (s : Repo) (d : Bool) (q : ReqView) (rq : String) (u : UpUrl)
    (h : s.upstream d q rq = some u) : ∃ caps, (s.serve d q).exec = some (.ok caps) := by
  unfold Repo.upstream at h
  unfold Repo.serve
  cases hf : s.findRule d q with
  | none => simp [hf] at h
  | default => simp [hf] at h
  | rule v ps =>
    simp only [hf] at h ⊢
    cases he : execPrelude v.esh q ps with
    | argument => simp [he] at h
    | ok caps => exact ⟨caps, rfl⟩

/-! ### The two constructors of the request view -/

/-- **Both request contexts build the same view** of every request line the HTTP server accepts: same raw path, same
decoded path — hence the same rule, captured values, acceptance and upstream URL (`Repo.serve` and `Repo.upstream` are
functions of the view). -/
theorem c08_request_contexts_agree (received : String) (v : String × String) (h : httpViewPath received = some v) :
    envoyViewPath received = v := by
  unfold httpViewPath at h
  unfold envoyViewPath
  cases h1 : pathUnescape received with
  | none => simp [h1] at h
  | some p =>
    cases h2 : pathUnescape (receivedPath received) with
    | none => simp [h1, h2] at h
    | some p' =>
      simp [h1, h2] at h
      simp [h2, h]

/-- non-vacuity: a request line the HTTP server accepts, and one only the Envoy context sees -/
example : pathUnescapeL ['/', '%', '2', '5', '4', '1'] = some ['/', '%', '4', '1'] ∧
    pathUnescapeL ['/', '%', 'z', 'z'] = none := by decide

/-! ## The setting that governs a route is the setting of its rule, whatever was loaded before

`allow_encoded_slashes` reaches the matching code twice: baked into the `path_params` matcher of every route when the
rule factory creates the rule (`RVal.route.esh`), and as `ruleImpl.slashesHandling` (`RVal.esh`).  The statements
below are for **every history** of creations, updates and deletions of rule sets (rejected ones included) in which the
rules are as the factory creates them (`CoherentHistory`: both copies are the setting of the rule) — in particular
for histories in which several rules carry the very same `path_params` definition under different settings, and in
which a rule set comes back with nothing but the setting of a rule changed. -/

/-- **Every entry of the routing tree carries the setting of its own rule**, after any history. -/
theorem c08_index_carries_rule_setting (ops : List RepoOp) (hc : CoherentHistory ops) :
    ∀ n ∈ (Repo.run ops).index, ∀ v ∈ n.values, v.route.esh = v.esh :=
  allVals_run ops hc

/-- for an entry whose matcher carries the setting of its rule, the conditions as implemented are the conditions
judged under the setting of the rule -/
theorem c08_matcher_is_spec_under_rule_setting (q : ReqView) (v : RVal) (hv : v.coherent) (keys caps : List String) :
    repoMatcher q v keys caps = entrySpec q v keys caps := by
  unfold repoMatcher routeMatches entrySpec
  have hv' : v.route.esh = v.esh := hv
  rw [hv']
  congr 1
  exact List.all_congr rfl fun pp => ppOk_eq_ppSpec v.esh q keys caps pp

/-- **The lookup follows the setting of the rule, for every history**: `FindRule` answers as the lookup in which every
`path_params` condition is judged under the setting its rule is currently loaded with — which rule answers a request
with an encoded slash does not depend on what other rules (or earlier versions of the rule) with the same
`path_params` definition were loaded with. -/
theorem c08_lookup_follows_rule_setting (ops : List RepoOp) (hc : CoherentHistory ops) (hasDefault : Bool)
    (q : ReqView) : (Repo.run ops).findRule hasDefault q = (Repo.run ops).findRuleSpec hasDefault q := by
  unfold Repo.findRule Repo.findRuleSpec
  rw [lookup_matcher_congr (repoMatcher q) (entrySpec q) _ _
    (fun n hn v hv keys caps => c08_matcher_is_spec_under_rule_setting q v (allVals_run ops hc n hn v hv) keys caps)]
  rfl

/-- **`on` / `no_decode`: an encoded slash alone is never a reason for a route not to answer** — the condition holds
exactly when the parameter was captured and the expression accepts the value the pipeline is shown (`%2F` decoded to
`/` under `on`, kept as written under `no_decode`). -/
theorem c08_encoded_slash_alone_never_refuses (esh : SlashHandling) (hne : esh ≠ .off) (q : ReqView)
    (keys caps : List String) (pp : String × TM) :
    ppSpec esh q keys caps pp =
      match lookupKey keys caps pp.1 with
      | none => false
      | some raw => pp.2.matches (exposedValue esh q raw) := by
  unfold ppSpec
  cases lookupKey keys caps pp.1 with
  | none => rfl
  | some raw => cases esh <;> simp at hne ⊢

/-- what a condition is applied to is what `ruleImpl.Execute` puts into the captured values (`execPrelude`), for a
request with a raw path -/
theorem c08_condition_sees_exposed_capture (esh : SlashHandling) (q : ReqView) (raw : String)
    (h : q.rawPath.isEmpty = false) : exposedValue esh q raw = unescapeCapture esh raw := by
  simp [exposedValue, h]

/-- **`off`: a route with `path_params` is not for a request with an encoded slash** (and a route without them answers
with the precondition error, `c08_off_never_accepts`). -/
theorem c08_off_path_params_refuse_encoded_slash (q : ReqView) (keys caps : List String) (pp : String × TM)
    (hraw : q.rawPath.isEmpty = false) (hs : containsEncodedSlash q.rawPath = true) :
    ppSpec .off q keys caps pp = false := by
  unfold ppSpec
  cases lookupKey keys caps pp.1 with
  | none => rfl
  | some raw => simp [hraw, hs]

/-- non-vacuity: a history in which two rules carry the same `path_params` definition (`x`: glob `a*`) under different
settings, and the rule set is then re-loaded with only the setting of the first rule changed -/
def sharedDef : String × TM := ("x", .glob [.lit 'a', .star] '/')
def ruleWith (id : String) (e : String) (esh : SlashHandling) (ver : Nat) : RuleCfg :=
  { id, bt := false, esh, routes := [(e, { scheme := "", methods := [], hosts := [], pps := [sharedDef], esh })], ver }

example : CoherentHistory
    [.add "s1" [ruleWith "A" "/f/:x" .off 1, ruleWith "B" "/g/:x" .on 2],
     .upd "s1" [ruleWith "A" "/f/:x" .on 3, ruleWith "B" "/g/:x" .on 2]] := by
  intro op hop c hcm rt hrt
  simp only [List.mem_cons, List.not_mem_nil, or_false] at hop
  rcases hop with rfl | rfl <;>
    (simp only [RepoOp.rules, List.mem_cons, List.not_mem_nil, or_false] at hcm
     rcases hcm with rfl | rfl <;>
       (simp only [ruleWith, List.mem_cons, List.not_mem_nil, or_false] at hrt
        subst hrt
        rfl))

/-- … and what an entry whose matcher was compiled for ANOTHER setting than its rule's would do (the entry the
hypothesis `CoherentHistory` excludes): the rule says `on`, its matcher refuses the encoded slash. -/
example :
    let v : RVal := ⟨"B", "s1", .on, { scheme := "", methods := [], hosts := [], pps := [sharedDef], esh := .off }, 2⟩
    let q : ReqView := { method := "GET", scheme := "http", host := "h", rawPath := "/g/a%2Fb", path := "/g/a/b" }
    repoMatcher q v ["x"] ["a%2Fb"] = false ∧ ¬ v.coherent := by
  refine ⟨by decide, ?_⟩
  show ¬ (SlashHandling.off = SlashHandling.on)
  decide

/-! ## What the proxy writes into the request line of the request it sends upstream

`Repo.sent` is the request target the proxy service (`requestContext.Finalize`, `rewriteRequest`) writes to the
upstream connection: `RequestURI()` of the URL the rule returned, nothing of the URL of the received request.  Its
path part (`targetPath`: everything before the first `?`) is the path of that URL — so every statement about
`upstreamPath` above is a statement about the octets the upstream service receives. -/

/-- The path the rule computes never contains a `?` (`upstreamPath_no_qmark`), **so the path part of the request line
the proxy writes is exactly the path the rule computed** (`/` standing for the empty path), whatever the query is. -/
theorem c08_sent_path_is_upstream_path (esh : SlashHandling) (be : BackendCfg) (q : ReqView) (rq : String) :
    targetPath (requestTarget (upstreamUrl esh be q rq)) =
      if (upstreamPath esh be.rewrite q).isEmpty then ['/'] else upstreamPath esh be.rewrite q := by
  have hnq := upstreamPath_no_qmark esh be.rewrite q
  unfold targetPath requestTarget
  have hp : (upstreamUrl esh be q rq).path = String.ofList (upstreamPath esh be.rewrite q) := rfl
  rw [hp, ofList_isEmpty]
  generalize (upstreamUrl esh be q rq).query = query
  cases hpe : (upstreamPath esh be.rewrite q).isEmpty with
  | true =>
    simp only [if_true]
    cases hq : query.isEmpty with
    | true => simp only [if_true]; decide
    | false =>
      simp only [Bool.false_eq_true, if_false, String.toList_append]
      exact takeWhile_no_qmark ['/'] query.toList (by decide)
  | false =>
    simp only [Bool.false_eq_true, if_false]
    cases hq : query.isEmpty with
    | true =>
      simp only [if_true, String.toList_append, String.toList_ofList]
      simpa using takeWhile_no_qmark_all _ hnq
    | false =>
      simp only [Bool.false_eq_true, if_false, String.toList_append, String.toList_ofList]
      exact takeWhile_no_qmark _ query.toList hnq

/-- **`on`: an encoded slash of the request arrives at the upstream as the path separator `/`** — the request line
written for `pre ++ %2F|%2f ++ post` has the path `add ++ escape(dec pre) ++ "/" ++ escape(dec post)`. -/
theorem c08_sent_on_slash_decoded (q : ReqView) (host : String) (r : RewriteCfg) (pre post : List PU) (x : Char)
    (ad : List Char) (rq : String)
    (hx : x = 'F' ∨ x = 'f') (hpre : ∀ u ∈ pre, u.wf) (hpost : ∀ u ∈ post, u.wf)
    (hbpre : ∀ u ∈ pre, u.byte) (hbpost : ∀ u ∈ post, u.byte) (hbad : ∀ c ∈ ad, c.toNat < 256)
    (hadd : r.add.toList = escapePathL ad) (hstrip : r.strip = "") :
    targetPath (requestTarget (upstreamUrl .on ⟨host, some r⟩ (respell q (renderU (pre ++ .esc '2' x :: post))) rq)) =
      escapePathL ad ++ escapePathL (pre.map PU.dec) ++ '/' :: escapePathL (post.map PU.dec) := by
  rw [c08_sent_path_is_upstream_path]
  simp only [c08_upstream_on_slash_decoded q r pre post x ad hx hpre hpost hbpre hbpost hbad hadd hstrip]
  simp

/-- **`on`: the request line written to the upstream has no encoded slash in its path** (prefixes in their default
encoding, as in `c08_upstream_on_canonical`). -/
theorem c08_sent_on_no_encoded_slash (q : ReqView) (host : String) (r : RewriteCfg) (us : List PU) (ad wd : List Char)
    (rq : String) (hwf : ∀ u ∈ us, u.wf) (hstar : us.map PU.dec ≠ ['*']) (hb : ∀ c ∈ ad ++ wd, c.toNat < 256)
    (hadd : r.add.toList = escapePathL ad)
    (hcut : cutPrefixL r.strip.toList (escapePathL (us.map PU.dec)) = escapePathL wd) :
    containsEncodedSlashL
      (targetPath (requestTarget (upstreamUrl .on ⟨host, some r⟩ (respell q (renderU us)) rq))) = false := by
  rw [c08_sent_path_is_upstream_path]
  simp only [c08_upstream_on_canonical q r us ad wd hwf hstar hb hadd hcut]
  split
  · decide
  · rw [← escapePathL_append]
    exact escapePathL_no_encoded_slash _ hb

/-- **`no_decode`: an encoded slash of the request arrives at the upstream as the client wrote it**, same hex case,
same position. -/
theorem c08_sent_no_decode_slash_stays_encoded (q : ReqView) (host : String) (r : RewriteCfg)
    (ps pre post as : List PU) (x : Char) (rq : String) (hx : x = 'F' ∨ x = 'f')
    (hps : ∀ u ∈ ps, u.sendable) (hpre : ∀ u ∈ pre, u.sendable) (hpost : ∀ u ∈ post, u.sendable)
    (has : ∀ u ∈ as, u.sendable) (hadd : r.add.toList = renderU as) (hstrip : r.strip.toList = renderU ps) :
    targetPath (requestTarget
        (upstreamUrl .noDecode ⟨host, some r⟩ (respell q (renderU (ps ++ (pre ++ .esc '2' x :: post)))) rq)) =
      renderU as ++ renderU pre ++ '%' :: '2' :: x :: renderU post := by
  rw [c08_sent_path_is_upstream_path]
  simp only [c08_upstream_no_decode_slash_stays_encoded q r ps pre post as x hx hps hpre hpost has hadd hstrip]
  simp

/-- **`on`: the request line written to the upstream does not depend on the spelling of the request.** -/
theorem c08_sent_on_spelling_invariant (s : Repo) (hasDefault : Bool) (q : ReqView) (us us' : List PU) (rq : String)
    (hwf : ∀ u ∈ us, u.wf) (h : Reenc us us') (v : RVal) (ps : List (String × String))
    (hf : s.findRule hasDefault (respell q (renderU us)) = .rule v ps) (hv : v.esh = .on) :
    s.sent hasDefault (respell q (renderU us')) rq = s.sent hasDefault (respell q (renderU us)) rq := by
  unfold Repo.sent Repo.upstream
  rw [c08_same_entry_for_every_spelling s hasDefault q us us' hwf h, hf]
  simp only [hv, execPrelude]
  have hoff : (SlashHandling.on = SlashHandling.off) = False := by simp
  simp only [hoff, decide_false, Bool.false_and, Bool.false_eq_true, if_false]
  cases (s.ruleOf v).bind (·.cfg.backend) with
  | none => rfl
  | some be => simp only [c08_upstream_on_spelling_invariant be q us us' rq hwf h]

/-- **`off`: for a request with an encoded slash nothing is written to any upstream**; … -/
theorem c08_off_nothing_sent (s : Repo) (d : Bool) (q : ReqView) (rq : String)
    (h : containsEncodedSlash q.rawPath = true) (v : RVal) (ps : List (String × String))
    (hf : s.findRule d q = .rule v ps) (hv : v.esh = .off) : s.sent d q rq = none := by
  unfold Repo.sent
  rw [c08_upstream_off_never_forwarded s d q rq h v ps hf hv]
  rfl

/-- … the default rule never writes anything; … -/
theorem c08_default_rule_nothing_sent (s : Repo) (q : ReqView) (rq : String) (hf : s.findRule true q = .default) :
    s.sent true q rq = none := by
  unfold Repo.sent
  rw [c08_upstream_default_rule_never_forwards s q rq hf]
  rfl

/-- … and whatever is written belongs to a request that was not answered with the precondition error, and is the
request target of the URL the matched rule computed. -/
theorem c08_sent_only_what_the_rule_computed (s : Repo) (d : Bool) (q : ReqView) (rq : String) (t : String)
    (h : s.sent d q rq = some t) :
    ∃ u, s.upstream d q rq = some u ∧ t = requestTarget u ∧ ∃ caps, (s.serve d q).exec = some (.ok caps) := by
  unfold Repo.sent at h
  cases hu : s.upstream d q rq with
  | none => simp [hu] at h
  | some u =>
    simp only [hu, Option.bind_some] at h
    split at h
    · exact ⟨u, rfl, (Option.some.inj h).symm, c08_upstream_only_if_accepted s d q rq u hu⟩
    · cases h

/-- non-vacuity: the request lines written for `/files/a/b` with and without a query, and for the empty path -/
example : requestTarget ⟨"http", "up:8080", "/files/a/b", ""⟩ = "/files/a/b" ∧
    requestTarget ⟨"http", "up:8080", "/files/a/b", "x=1"⟩ = "/files/a/b?x=1" ∧
    requestTarget ⟨"https", "up", "", ""⟩ = "/" ∧
    targetPath "/files/a%2Fb?x=%2F" = "/files/a%2Fb".toList ∧ transportSpeaks "ws" = false := by decide

/-! ## Dot segments

`.` is unreserved, so `/files/./a`, `/files/%2E/a`, `/files/%2e/a` are spellings of one request, and `..`, `%2E%2E`,
`.%2E`, `%2e.` are spellings of one segment (`DotSpelling`).  Next to an encoded slash the decoded path even has segment
borders the received one has not (`docs%2F..`).  Nothing between the request line and the upstream connection resolves,
drops or re-spells such a segment: what is written upstream decodes to what was received, octet by octet; under
`off` / `no_decode` it is the received spelling itself (so the encoded slashes around a dot segment stay encoded), under
`on` the dots arrive as dots between the same neighbours.  A change that resolves dot segments on the decoded and on the
received form of the path separately (each one right on its own) lets the two forms disagree; `EscapedPath` then
discards the received form and an encoded slash is written as `/` under `no_decode`. -/

/-- **What is sent decodes to what was received**, for every setting (no `rewrite`): the decoded path of the request
line written upstream is the decoded path of the request, all of it — no segment, dot segment or other, is resolved,
dropped or added. -/
theorem c08_sent_decodes_to_received (esh : SlashHandling) (q : ReqView) (host : String) (us : List PU) (rq : String)
    (hus : ∀ u ∈ us, u.sendable) (hb : ∀ u ∈ us, u.byte) (hne : us ≠ []) (hstar : us.map PU.dec ≠ ['*']) :
    pathUnescapeL (targetPath (requestTarget (upstreamUrl esh ⟨host, none⟩ (respell q (renderU us)) rq))) =
      some (us.map PU.dec) := by
  rw [c08_sent_path_is_upstream_path]
  show pathUnescapeL (if (upstreamPath esh none (respell q (renderU us))).isEmpty then ['/']
    else upstreamPath esh none (respell q (renderU us))) = _
  by_cases hesh : esh = .on
  · subst hesh
    rw [c08_upstream_on_canonical_no_rewrite q us (sendable_wf hus) hstar]
    have hne' : (escapePathL (us.map PU.dec)).isEmpty = false := by
      cases us with
      | nil => exact absurd rfl hne
      | cons u t => simp only [List.map_cons, escapePathL]; split <;> rfl
    rw [hne']
    exact pathUnescapeL_escapePathL _ (decs_byte us hb)
  · rw [c08_upstream_kept_verbatim_no_rewrite esh hesh q us hus, renderU_ne_nil hne]
    exact pathUnescapeL_render us (sendable_wf hus)

/-- **`off` / `no_decode`: a dot segment is sent as the client spelled it**, between the neighbours the client gave
it: for a request `prefix ++ pre ++ seg ++ post` with `seg` any spelling of `.` / `..` the path of the request line
written upstream is `add ++ pre ++ seg ++ post` — whatever stands in `pre` and `post`, encoded slashes included
(`docs%2F..`, `%2e%2e/a%2Fb`). -/
theorem c08_sent_dot_segment_as_received (esh : SlashHandling) (hesh : esh ≠ .on) (q : ReqView) (host : String)
    (r : RewriteCfg) (ps pre seg post as : List PU) (rq : String) (hseg : DotSpelling seg)
    (hps : ∀ u ∈ ps, u.sendable) (hpre : ∀ u ∈ pre, u.sendable) (hpost : ∀ u ∈ post, u.sendable)
    (has : ∀ u ∈ as, u.sendable) (hadd : r.add.toList = renderU as) (hstrip : r.strip.toList = renderU ps) :
    targetPath (requestTarget (upstreamUrl esh ⟨host, some r⟩ (respell q (renderU (ps ++ (pre ++ seg ++ post)))) rq)) =
      renderU as ++ renderU pre ++ renderU seg ++ renderU post := by
  have hws : ∀ u ∈ pre ++ seg ++ post, u.sendable := by
    intro u hu
    rcases List.mem_append.mp hu with h | h
    · rcases List.mem_append.mp h with h | h
      · exact hpre u h
      · exact hseg.sendable u h
    · exact hpost u h
  have hus : ∀ u ∈ ps ++ (pre ++ seg ++ post), u.sendable := by
    intro u hu
    rcases List.mem_append.mp hu with h | h
    · exact hps u h
    · exact hws u h
  have hsne : seg ≠ [] := hseg.ne_nil
  have hne : ps ++ (pre ++ seg ++ post) ≠ [] := by
    cases seg with
    | nil => exact absurd rfl hsne
    | cons u t => cases ps <;> cases pre <;> simp
  rw [c08_sent_path_is_upstream_path]
  show (if (upstreamPath esh (some r) _).isEmpty then ['/'] else upstreamPath esh (some r) _) = _
  rw [c08_upstream_kept_verbatim esh hesh q r _ as _ hus hne has hws hadd
    (c08_upstream_prefix_as_configured r.strip ps _ hstrip)]
  have hne2 : (renderU as ++ renderU (pre ++ seg ++ post)).isEmpty = false := by
    rw [← renderU_append]
    apply renderU_ne_nil
    cases seg with
    | nil => exact absurd rfl hsne
    | cons u t => cases as <;> cases pre <;> simp
  rw [hne2]
  simp [renderU_append]

/-- **`on`: a dot segment arrives as dots, unresolved**, between the same (decoded, default-encoded) neighbours, in
whatever way the client spelled it (no prefix cut; `add_path_prefix` in its default encoding). -/
theorem c08_sent_dot_segment_on (q : ReqView) (host : String) (r : RewriteCfg) (pre seg post : List PU) (ad : List Char)
    (rq : String) (hseg : DotSpelling seg) (hpre : ∀ u ∈ pre, u.wf) (hpost : ∀ u ∈ post, u.wf)
    (hbpre : ∀ u ∈ pre, u.byte) (hbpost : ∀ u ∈ post, u.byte) (hbad : ∀ c ∈ ad, c.toNat < 256)
    (hadd : r.add.toList = escapePathL ad) (hstrip : r.strip = "") :
    targetPath (requestTarget (upstreamUrl .on ⟨host, some r⟩ (respell q (renderU (pre ++ seg ++ post))) rq)) =
      escapePathL ad ++ escapePathL (pre.map PU.dec) ++ seg.map PU.dec ++ escapePathL (post.map PU.dec) ∧
    (seg.map PU.dec = ['.'] ∨ seg.map PU.dec = ['.', '.']) := by
  refine ⟨?_, hseg.dec⟩
  have hwf : ∀ u ∈ pre ++ seg ++ post, u.wf := by
    intro u hu
    rcases List.mem_append.mp hu with h | h
    · rcases List.mem_append.mp h with h | h
      · exact hpre u h
      · exact (hseg.sendable u h).wf
    · exact hpost u h
  have hmap : (pre ++ seg ++ post).map PU.dec = pre.map PU.dec ++ seg.map PU.dec ++ post.map PU.dec := by simp
  have hdot : '.' ∈ (pre ++ seg ++ post).map PU.dec := by
    rw [hmap]
    rcases hseg.dec with e | e <;> rw [e] <;> simp
  have hstar : (pre ++ seg ++ post).map PU.dec ≠ ['*'] := by
    intro e
    rw [e] at hdot
    simp at hdot
  have hb : ∀ c ∈ ad ++ (pre ++ seg ++ post).map PU.dec, c.toNat < 256 := by
    intro c hc
    rcases List.mem_append.mp hc with h | h
    · exact hbad c h
    · refine decs_byte (pre ++ seg ++ post) ?_ c h
      intro u hu
      rcases List.mem_append.mp hu with h | h
      · rcases List.mem_append.mp h with h | h
        · exact hbpre u h
        · exact hseg.byte u h
      · exact hbpost u h
  have hcut : cutPrefixL r.strip.toList (escapePathL ((pre ++ seg ++ post).map PU.dec)) =
      escapePathL ((pre ++ seg ++ post).map PU.dec) := by
    rw [hstrip]; exact cutPrefixL_nil _
  rw [c08_sent_path_is_upstream_path]
  show (if (upstreamPath .on (some r) _).isEmpty then ['/'] else upstreamPath .on (some r) _) = _
  rw [c08_upstream_on_canonical q r _ ad _ hwf hstar hb hadd hcut, hmap, escapePathL_append, escapePathL_append,
    hseg.escape_dec]
  have hne : (escapePathL ad ++ (escapePathL (pre.map PU.dec) ++ seg.map PU.dec ++ escapePathL (post.map PU.dec))).isEmpty
      = false := by
    rcases hseg.dec with e | e <;> rw [e] <;> simp
  rw [hne]
  simp

/-- **All spellings of a dot segment are forwarded alike** (`off` / `no_decode`): the paths written upstream for
`… seg …` and `… seg' …`, two spellings of the same dot segment, are equal once the escapes of unreserved octets are
undone — in particular they have the same encoded slashes at the same places. -/
theorem c08_sent_dot_spellings_alike (esh : SlashHandling) (hesh : esh ≠ .on) (q : ReqView) (host : String)
    (r : RewriteCfg) (ps pre seg seg' post as : List PU) (dots : List PU) (rq : String)
    (hd : dots = [.lit '.'] ∨ dots = [.lit '.', .lit '.']) (h1 : Reenc dots seg) (h2 : Reenc dots seg')
    (hps : ∀ u ∈ ps, u.sendable) (hpre : ∀ u ∈ pre, u.sendable) (hpost : ∀ u ∈ post, u.sendable)
    (has : ∀ u ∈ as, u.sendable) (hadd : r.add.toList = renderU as) (hstrip : r.strip.toList = renderU ps) :
    normalizeL (targetPath (requestTarget
        (upstreamUrl esh ⟨host, some r⟩ (respell q (renderU (ps ++ (pre ++ seg ++ post)))) rq))) =
      normalizeL (targetPath (requestTarget
        (upstreamUrl esh ⟨host, some r⟩ (respell q (renderU (ps ++ (pre ++ seg' ++ post)))) rq))) := by
  have hs1 : DotSpelling seg := by rcases hd with rfl | rfl; exact .inl h1; exact .inr h1
  have hs2 : DotSpelling seg' := by rcases hd with rfl | rfl; exact .inl h2; exact .inr h2
  have hdots : ∀ u ∈ dots, u.sendable := by
    rcases hd with rfl | rfl <;> intro u hu <;> simp only [List.mem_cons, List.not_mem_nil, or_false] at hu
    · subst hu; exact dot_sendable
    · rcases hu with rfl | rfl <;> exact dot_sendable
  have key : ∀ sg, Reenc dots sg →
      normalizeL (renderU as ++ renderU pre ++ renderU sg ++ renderU post) =
        normalizeL (renderU as ++ renderU pre ++ renderU dots ++ renderU post) := by
    intro sg hsg
    have hall : ∀ u ∈ as ++ (pre ++ (dots ++ post)), u.sendable := by
      intro u hu
      rcases List.mem_append.mp hu with h | h
      · exact has u h
      · rcases List.mem_append.mp h with h | h
        · exact hpre u h
        · rcases List.mem_append.mp h with h | h
          · exact hdots u h
          · exact hpost u h
    have hre : Reenc (as ++ (pre ++ (dots ++ post))) (as ++ (pre ++ (sg ++ post))) := by
      exact Reenc.append_left as (Reenc.append_left pre (hsg.append_right post))
    have := c08_normalize_reenc _ _ (sendable_wf hall) hre
    simpa [renderU_append, List.append_assoc] using this
  rw [c08_sent_dot_segment_as_received esh hesh q host r ps pre seg post as rq hs1 hps hpre hpost has hadd hstrip,
    c08_sent_dot_segment_as_received esh hesh q host r ps pre seg' post as rq hs2 hps hpre hpost has hadd hstrip,
    key seg h1, key seg' h2]

/-- non-vacuity: `%2E`, `%2e%2E`, `.%2e` are dot segments; `/d%2F..` decodes to `/d/..`: the decoded form has a dot
segment the received one has not -/
example : DotSpelling [.esc '2' 'E'] ∧ DotSpelling [.esc '2' 'e', .esc '2' 'E'] ∧ DotSpelling [.lit '.', .esc '2' 'e'] :=
  ⟨.inl (.enc '.' '2' 'E' (by decide) (by decide) (by decide) (by decide) .nil),
   .inr (.enc '.' '2' 'e' (by decide) (by decide) (by decide) (by decide)
     (.enc '.' '2' 'E' (by decide) (by decide) (by decide) (by decide) .nil)),
   .inr (.keep _ (.enc '.' '2' 'e' (by decide) (by decide) (by decide) (by decide) .nil))⟩

example : renderU [PU.lit '/', .lit 'd', .esc '2' 'F', .lit '.', .lit '.'] = "/d%2F..".toList ∧
    [PU.lit '/', .lit 'd', .esc '2' 'F', .lit '.', .lit '.'].map PU.dec = "/d/..".toList := by decide

end Heimdall.Props.C08
