import HeimdallModel.Lemmas.CacheValidity
/-!
# C10 — nothing is reused from a cache beyond its validity

Theorems about the model of the cache users (`Model/CacheTTL.lean`, `Model/HttpFreshness.lean`,
`Model/CacheFlow.lean`) and of the TTL stores (`Model/TtlStore.lean`); the model is tied to the real mechanisms, the
real HTTP round tripper and the real in-memory and Redis caches by the correspondence check (`tools/props/c10.py`),
the reuse predicates `mayReuse` / `mayServe` / `mayStore` of `Spec/CacheValidity.lean` also judge the traces of the
implementation.

Time is an integer in any unit; there is no bound on expiry times, TTLs, clock values or on the length of a
history. A *history* is any list of requests `⟨dt, key, up⟩`: `dt` time units after the previous request a request
for cache entry `key` arrives, and the remote party would answer it with `up` (for the mechanisms: the an `Answer`:
the absolute expiry it reports, `none` = no expiry information, plus — for a JWK — the `NotAfter` of the further
certificates of its `x5c` chain; for the HTTP cache: the whole exchange).
-/
namespace Heimdall.Props.C10
open Heimdall.Validity

/-- **The tie to the source holds for this run:** the leeway and default-TTL constants the model uses
(`Gen/CacheConsts.lean`) were read from the current source. When the extractor cannot find one of them it writes a
stub with `extractionOk := false` and this theorem — and only this property — stops checking. The sign facts the
theorems rely on are re-checked by the kernel in `Lemmas/CacheValidity.lean` (`leeway_nonneg`, `token_leeway_pos`,
`default_validity_leeway_pos`). -/
theorem c10_constants_read_from_source : Gen.extractionOk = true := by decide

/-! ## the stores -/

/-- **Expiry is enforced for every TTL.** Whatever `get` returns for a key right after a `set` of that key is
either the value just written, no later than `now + ttl` and only if `ttl` was positive, or — when the TTL was zero
or negative and nothing was written — what the store held before. In particular a non-positive TTL never creates
an entry ("TTL zero" can never mean "forever"). -/
theorem c10_store_get_after_set {V : Type} (k : StoreKind) (s : Store V) (key : Nat) (v v' : V)
    (ttl now t : Int) (h : (s.set key v ttl now).get k key t = some v') :
    (0 < ttl ∧ v' = v ∧ t ≤ now + ttl) ∨ (ttl ≤ 0 ∧ s.get k key t = some v') := by
  by_cases hpos : 0 < ttl
  · left
    have hf := Store.find_set_same s key v ttl now hpos
    simp only [Store.get, hf] at h
    split at h
    · rename_i ha
      exact ⟨hpos, by simpa using h.symm, alive_le ha⟩
    · cases h
  · right
    refine ⟨by omega, ?_⟩
    simpa [Store.set, hpos] using h

example : Store.get .memory (Store.set ([] : Store Nat) 1 7 5 100) 1 105 = some 7 := by decide
example : Store.get .redis (Store.set ([] : Store Nat) 1 7 5 100) 1 105 = none := by decide
example : Store.get .memory (Store.set ([] : Store Nat) 1 7 0 100) 1 100 = none := by decide

/-- Writing one key does not change what any other key returns. -/
theorem c10_store_other_keys_untouched {V : Type} (k : StoreKind) (s : Store V) (key key' : Nat) (v : V)
    (ttl now t : Int) (hne : key' ≠ key) : (s.set key v ttl now).get k key' t = s.get k key' t := by
  unfold Store.get
  rw [Store.find_set_other s key key' v ttl now hne]

example : (1 : Nat) ≠ 2 := by decide

/-! ## the TTL handed to the store -/

/-- **The TTL never exceeds what is left of the cached thing's own lifetime, minus the leeway** — for every
mechanism, every configuration and every remaining lifetime (far, inside the leeway, zero, negative). `remaining`
is the lifetime the mechanism knows of: `exp − now` as reported by the remote party, the `ttl` of the JWT finalizer
for the tokens it issues itself, nothing for the remote authorizer and the contextualizer. -/
theorem c10_ttl_le_remaining (m : Mech) (cfg : Option Int) (now : Int) (exp : Answer) (r : Int)
    (hr : remaining m cfg now exp = some r) : cacheTTL m cfg (some r) ≤ max 0 (r - m.leeway) :=
  cacheTTL_le_remaining m cfg now exp r hr

example : remaining .introspection (some 300) 1000 ⟨some 1005, []⟩ = some 5 := by decide
example : cacheTTL .introspection (some 300) (some 0) = 0 := by decide
example : cacheTTL .jwtKey (some 40) (some 1000000) = 40 := by decide

/-- **A configured cache TTL can only shorten:** whatever the remote party reports, the TTL is at most the
configured one. (The JWT finalizer has no `cache_ttl`; its `ttl` is the lifetime of the tokens it issues and is
covered by `c10_ttl_le_remaining`.) -/
theorem c10_ttl_le_configured (m : Mech) (hm : m ≠ .jwtFinalizer) (c : Int) (rem : Option Int) :
    cacheTTL m (some c) rem ≤ max 0 c :=
  cacheTTL_le_configured m hm c rem

example : Mech.clientCreds ≠ .jwtFinalizer := by decide
example : cacheTTL .clientCreds (some 30) (some 3600) = 30 := by decide

/-- **A TTL of zero (or below) disables caching for that mechanism**, also when it comes from a rule-level
override of a prototype that has caching enabled: over any history the cache is never read (every request goes to
the remote party: no outcome is a hit), never written (no outcome carries a stored TTL) and the store stays as it
was. -/
theorem c10_nonpositive_ttl_disables (m : Mech) (hm : m ≠ .jwtFinalizer) (proto : Option Int) (c : Int)
    (hc : c ≤ 0) (vl : Int) (k : StoreKind) (s : Store (Item Answer)) (now : Int) (idx : Nat)
    (reqs : List (Req Answer)) :
    let p := mechPolicy m (effective proto (some c)) vl
    (∀ u, p.lookup u = false) ∧ runStore p k s now idx reqs = s ∧
      ∀ t o, (t, o) ∈ run p k s now idx reqs → o = .denied ∨ ∃ it, o = .fresh it none := by
  intro p
  have hl := mech_lookup_off m hm proto c hc vl
  exact ⟨hl, run_disabled hl (mech_ttl_off m hm proto c hc vl) k reqs s now idx⟩

example : Mech.remoteAuthz ≠ .jwtFinalizer ∧ (0 : Int) ≤ 0 := by decide
example : effective (some 300) (some 0) = some 0 := by decide

/-! ## histories -/

/-- **Nothing is reused beyond its validity.** For every mechanism, every prototype and override TTL, every
validity leeway, both stores and every history of requests starting from an empty cache: whenever a request is
answered from the cache at time `t` with the cached result `it`, that reuse is permitted by the specification
(`mayReuse`): an authentication result only while `t < exp + leeway`, a verification key only while
`t ≤ NotAfter`, a token only while `t < exp`. -/
theorem c10_reuse_within_validity (m : Mech) (proto ovr : Option Int) (vl : Int) (hvl : 0 ≤ vl) (k : StoreKind)
    (reqs : List (Req Answer)) (now : Int) (t : Int) (it : Item Answer)
    (h : (t, Outcome.hit it) ∈ run (mechPolicy m (effective proto ovr) vl) k [] now 0 reqs) :
    mayReuse m (effective proto ovr) vl it t = true :=
  run_hits (mech_sound m (effective proto ovr) vl hvl) k reqs [] now 0 (inv_nil _) t it h

/- the validity leeway is a configured duration; a negative one is refused when the configuration is loaded
   (fix C10-5), `0` stands for "not set" -/
example : (0 : Int) ≤ 0 ∧ (0 : Int) ≤ 30 := by decide

/- a hit does happen: a token good for a long time, cached at 0 for the configured 300 s, is reused at 15 -/
example : (15, Outcome.hit ⟨⟨some 1000000, []⟩, 0, 0⟩) ∈
    run (mechPolicy .introspection (effective (some 300) none) 0) .memory [] 0 0
      [⟨0, 1, ⟨some 1000000, []⟩⟩, ⟨15, 1, ⟨some 200, []⟩⟩] := by decide

/-- An authentication result (introspection response, session) is not accepted from the cache at or after the
credential's expiry plus the validity leeway. -/
theorem c10_authn_not_accepted_after_expiry (m : Mech) (hm : m = .introspection ∨ m = .generic)
    (proto ovr : Option Int) (vl : Int) (hvl : 0 ≤ vl) (k : StoreKind) (reqs : List (Req Answer)) (now t e : Int)
    (it : Item Answer) (he : it.ans.exp = some e)
    (h : (t, Outcome.hit it) ∈ run (mechPolicy m (effective proto ovr) vl) k [] now 0 reqs) :
    t < e + validityLeeway m vl := by
  have := c10_reuse_within_validity m proto ovr vl hvl k reqs now t it h
  rcases hm with hm | hm <;> subst hm <;> simpa [mayReuse, he] using this

example : (20, Outcome.hit ⟨⟨some 1000000, []⟩, 0, 0⟩) ∈
    run (mechPolicy .generic (effective none (some 60)) 5) .redis [] 0 0
      [⟨0, 3, ⟨some 1000000, []⟩⟩, ⟨20, 3, ⟨some 2000, []⟩⟩] := by decide

/-- A cached verification key is not used after `NotAfter` of its certificate — its own certificate, the first
element of the `x5c` chain (`it.ans.exp`); the rest of the chain (`it.ans.more`, any length, any expiry) is
irrelevant for this bound. -/
theorem c10_key_not_used_after_cert_expiry (proto ovr : Option Int) (vl : Int) (hvl : 0 ≤ vl) (k : StoreKind)
    (reqs : List (Req Answer)) (now t e : Int) (it : Item Answer) (he : it.ans.exp = some e)
    (h : (t, Outcome.hit it) ∈ run (mechPolicy .jwtKey (effective proto ovr) vl) k [] now 0 reqs) :
    t ≤ e := by
  simpa [mayReuse, he] using c10_reuse_within_validity .jwtKey proto ovr vl hvl k reqs now t it h

example : (590, Outcome.hit ⟨⟨some 1000000, []⟩, 0, 0⟩) ∈
    run (mechPolicy .jwtKey (effective (some 600) none) 0) .memory [] 0 0
      [⟨0, 0, ⟨some 1000000, []⟩⟩, ⟨590, 0, ⟨some 9000, []⟩⟩] := by decide

/-- **Only the key's own certificate bounds the TTL of a JWK, for `x5c` chains of any length.** Whatever further
certificates the chain contains (issuing CAs that expire later, earlier, or long ago), the TTL handed to the cache is
at most what is left of the key's own certificate `x5c[0]` minus the leeway. A later `NotAfter` further down the
chain never extends it. -/
theorem c10_key_ttl_le_own_certificate (cfg : Option Int) (now e : Int) (more : List Int) :
    cacheTTL .jwtKey cfg (remaining .jwtKey cfg now ⟨some e, more⟩) ≤ max 0 (e - now - Mech.jwtKey.leeway) := by
  have hr : remaining .jwtKey cfg now ⟨some e, more⟩ = some (e - now) := by simp [remaining]
  rw [hr]
  exact cacheTTL_le_remaining .jwtKey cfg now ⟨some e, more⟩ (e - now) hr

/- own certificate good for 70 s, intermediate and root CA for much longer: 30 min configured, far less granted;
   the same chain is accepted as fresh (all of it is valid) -/
example : cacheTTL .jwtKey (some 1800) (remaining .jwtKey (some 1800) 1000 ⟨some 1070, [90000, 900000]⟩) ≤ 70 := by
  decide
example : (mechPolicy .jwtKey (some 1800) 0).accept 1000 ⟨some 1070, [90000, 900000]⟩ = true := by decide
/- a key whose chain outlives its own certificate: reused before the certificate expires, fetched again after -/
example : (40, Outcome.hit ⟨⟨some 70, [90000]⟩, 0, 0⟩) ∈
      run (mechPolicy .jwtKey (effective (some 1800) none) 0) .memory [] 0 0
        [⟨0, 0, ⟨some 70, [90000]⟩⟩, ⟨40, 0, ⟨some 5000, [90000]⟩⟩, ⟨40, 0, ⟨some 5000, [90000]⟩⟩]
    ∧ (80, Outcome.hit ⟨⟨some 70, [90000]⟩, 0, 0⟩) ∉
      run (mechPolicy .jwtKey (effective (some 1800) none) 0) .memory [] 0 0
        [⟨0, 0, ⟨some 70, [90000]⟩⟩, ⟨40, 0, ⟨some 5000, [90000]⟩⟩, ⟨40, 0, ⟨some 5000, [90000]⟩⟩] := by
  decide

/-- A token obtained (client credentials) or issued (JWT finalizer) by a finalizer is never handed out from the
cache when it is already expired. -/
theorem c10_token_not_handed_out_expired (proto ovr : Option Int) (vl : Int) (hvl : 0 ≤ vl) (k : StoreKind)
    (reqs : List (Req Answer)) (now t : Int) (it : Item Answer) :
    ((t, Outcome.hit it) ∈ run (mechPolicy .clientCreds (effective proto ovr) vl) k [] now 0 reqs →
      ∀ e, it.ans.exp = some e → t < e) ∧
    ((t, Outcome.hit it) ∈ run (mechPolicy .jwtFinalizer (effective proto ovr) vl) k [] now 0 reqs →
      t < it.time + tokenLifetime (effective proto ovr)) := by
  constructor
  · intro h e he
    simpa [mayReuse, he] using c10_reuse_within_validity .clientCreds proto ovr vl hvl k reqs now t it h
  · intro h
    simpa [mayReuse] using c10_reuse_within_validity .jwtFinalizer proto ovr vl hvl k reqs now t it h

example : (1, Outcome.hit ⟨⟨none, []⟩, 0, 0⟩) ∈
    run (mechPolicy .jwtFinalizer (effective (some 3600) none) 0) .memory [] 0 0
      [⟨0, 0, ⟨none, []⟩⟩, ⟨1, 0, ⟨none, []⟩⟩] := by decide
example : (50, Outcome.hit ⟨⟨some 1000000, []⟩, 0, 0⟩) ∈
    run (mechPolicy .clientCreds (effective (some 50) none) 0) .memory [] 0 0
      [⟨0, 0, ⟨some 1000000, []⟩⟩, ⟨50, 0, ⟨none, []⟩⟩] := by decide

/-- **The cache leeway survives any history:** a cached result with a known expiry `e` is reused no later than
`e` minus the mechanism's leeway constant (10 s for authentication results and keys, 5 s for tokens). -/
theorem c10_reuse_keeps_leeway (m : Mech) (hm : m ≠ .jwtFinalizer) (proto ovr : Option Int) (vl : Int)
    (k : StoreKind) (reqs : List (Req Answer)) (now t e : Int) (it : Item Answer)
    (he : it.ans.exp = some e) (hm' : m ≠ .remoteAuthz ∧ m ≠ .contextualizer)
    (h : (t, Outcome.hit it) ∈ run (mechPolicy m (effective proto ovr) vl) k [] now 0 reqs) :
    t + m.leeway ≤ e := by
  have := run_hits (margin_sound m hm hm' (effective proto ovr) vl) k reqs [] now 0 (inv_nil _) t it h
  simpa [withinMargin, he] using this

example : Mech.clientCreds ≠ .jwtFinalizer ∧ Mech.clientCreds ≠ .remoteAuthz ∧ Mech.clientCreds ≠ .contextualizer := by
  decide
example : (50, Outcome.hit ⟨⟨some 1000000, []⟩, 1, 0⟩) ∈
    run (mechPolicy .clientCreds (effective none (some 50)) 0) .redis [] 1 0
      [⟨0, 0, ⟨some 1000000, []⟩⟩, ⟨49, 0, ⟨some 300, []⟩⟩] := by decide

/-- **Instances that share the cache.** Rules can override `cache_ttl` and the validity leeway of one and the same
authenticator / client-credentials mechanism; the resulting instances read and write the same cache entries (the
TTL is not part of their cache key). For every history in which each request is handled by an instance with its own
settings `(cache_ttl, validity leeway)`: whatever is served from the cache keeps the cache leeway, hence the reuse
is permitted from the point of view of *every* instance, in particular of the one that serves it. -/
theorem c10_shared_entries_reuse_within_validity (m : Mech) (hm : m ≠ .jwtFinalizer)
    (hm' : m ≠ .remoteAuthz ∧ m ≠ .contextualizer) (k : StoreKind)
    (reqs : List ((Option Int × Int) × Req Answer)) (now t : Int) (it : Item Answer)
    (h : (t, Outcome.hit it) ∈
      runMixed k [] now 0 (reqs.map (fun cr => (mechPolicy m cr.1.1 cr.1.2, cr.2)))) :
    withinMargin m it t = true ∧ ∀ cfg vl, 0 ≤ vl → mayReuse m cfg vl it t = true := by
  have hw : withinMargin m it t = true := by
    apply runMixed_hits k _ _ [] now 0 (inv_nil _) t it h
    intro pr hpr
    obtain ⟨cr, _, rfl⟩ := List.mem_map.mp hpr
    exact margin_sound m hm hm' cr.1.1 cr.1.2
  exact ⟨hw, fun cfg vl hvl => mayReuse_of_withinMargin m hm cfg vl hvl it t hw⟩

/- a rule with `cache_ttl: 1h` stores, a rule with `cache_ttl: 5s` and a tight validity leeway reuses the entry -/
example : (100, Outcome.hit ⟨⟨some 1000000, []⟩, 0, 0⟩) ∈
    runMixed .memory [] 0 0 ([((some 3600, 0), ⟨0, 0, ⟨some 1000000, []⟩⟩), ((some 5, 1), ⟨100, 0, ⟨some 1000000, []⟩⟩)].map
      (fun (cr : (Option Int × Int) × Req Answer) => (mechPolicy .introspection cr.1.1 cr.1.2, cr.2))) := by
  decide

/-- **The configured TTL also bounds every reuse by the instance that has it.** One instance of a mechanism with
`cache_ttl = c` (any mechanism but the JWT finalizer, which has no `cache_ttl`), any history: whatever it serves
from the cache was obtained at most `max 0 c` ago. -/
theorem c10_hit_within_configured_ttl (m : Mech) (hm : m ≠ .jwtFinalizer) (c : Int) (vl : Int) (k : StoreKind)
    (reqs : List (Req Answer)) (now t : Int) (it : Item Answer)
    (h : (t, Outcome.hit it) ∈ run (mechPolicy m (some c) vl) k [] now 0 reqs) :
    t ≤ it.time + max 0 c := by
  have := run_hits (configured_sound m hm c vl) k reqs [] now 0 (inv_nil _) t it h
  simpa [withinConfigured] using this

example : Mech.generic ≠ .jwtFinalizer := by decide
example : (60, Outcome.hit ⟨⟨none, []⟩, 0, 0⟩) ∈ run (mechPolicy .generic (some 60) 0) .memory [] 0 0
    [⟨0, 0, ⟨none, []⟩⟩, ⟨60, 0, ⟨none, []⟩⟩] := by decide

/-- This does **not** carry over to instances that share entries: a rule with `cache_ttl: 5s` is served an entry
that a rule with `cache_ttl: 1h` of the same authenticator stored 100 s earlier. The reader's TTL limits only what
the reader stores (validity is kept all the same: `c10_shared_entries_reuse_within_validity`). -/
theorem c10_shared_entries_ignore_readers_ttl :
    ∃ (t : Int) (it : Item Answer), (t, Outcome.hit it) ∈
      runMixed .memory [] 0 0 [(mechPolicy .introspection (some 3600) 0, ⟨0, 0, ⟨some 1000000, []⟩⟩),
                               (mechPolicy .introspection (some 5) 0, ⟨100, 0, ⟨some 1000000, []⟩⟩)]
      ∧ ¬ (t ≤ it.time + max 0 5) :=
  ⟨100, ⟨⟨some 1000000, []⟩, 0, 0⟩, by decide, by decide⟩

/-- **Whatever is served from the cache would also pass the validity check of a fresh answer at that moment** —
the check the introspection authenticator repeats on every cache hit never fails for an entry that is still alive,
so a hit is never turned into a refusal. -/
theorem c10_hit_passes_revalidation (m : Mech) (hm : m = .introspection ∨ m = .generic)
    (proto ovr : Option Int) (vl : Int) (hvl : 0 ≤ vl) (k : StoreKind) (reqs : List (Req Answer)) (now t : Int)
    (it : Item Answer)
    (h : (t, Outcome.hit it) ∈ run (mechPolicy m (effective proto ovr) vl) k [] now 0 reqs) :
    acceptsFresh m vl (remaining m (effective proto ovr) t it.ans) = true :=
  acceptsFresh_of_mayReuse m hm _ vl it t (c10_reuse_within_validity m proto ovr vl hvl k reqs now t it h)

example : Mech.introspection = .introspection ∨ Mech.introspection = .generic := by decide

/-! ## HTTP responses of remote endpoints -/

/-- **A response is never served from the cache after its freshness lifetime.** For every `default_ttl`, both
stores and every history of exchanges (any method, body, `Cache-Control` / `Expires` / `Date` / `Age` /
`Last-Modified` / `Vary` combination), whenever a request is answered from the cache at `t`, the cached response's
current age — the age it arrived with (RFC 7234 section 4.2.3) plus the time spent in the cache — is within its
freshness lifetime, and a response without explicit expiration time is not older than `default_ttl` (`mayServe`). -/
theorem c10_http_served_only_while_fresh (dttl : Int) (k : StoreKind) (reqs : List (Req Exchange)) (now t : Int)
    (it : Item Exchange) (h : (t, Outcome.hit it) ∈ run (httpPolicy dttl) k [] now 0 reqs) :
    mayServe dttl it t = true :=
  run_hits (http_sound dttl) k reqs [] now 0 (inv_nil _) t it h

/-- a plain `GET` answered with `200` and `max-age=60`, no other headers -/
def sampleExchange : Exchange :=
  { method := .get, hasBody := false, reqAuth := false, reqNoStore := false, status := 200, noStore := false,
    noCache := false, isPublic := false, mustRevalidate := false, vary := false, maxAge := some 60, sMaxAge := none,
    badCC := false, expires := .absent, date := none, age := none, lastModified := none }

example : (60, Outcome.hit ⟨sampleExchange, 0, 0⟩) ∈ run (httpPolicy 0) .memory [] 0 0
    [⟨0, 0, sampleExchange⟩, ⟨60, 0, sampleExchange⟩] := by decide
/- the same response arriving with `Age: 20` is served until 40 s after its receipt only -/
example : (40, Outcome.hit ⟨{ sampleExchange with age := some 20 }, 0, 0⟩) ∈ run (httpPolicy 0) .memory [] 0 0
      [⟨0, 0, { sampleExchange with age := some 20 }⟩, ⟨40, 0, sampleExchange⟩]
    ∧ (41, Outcome.hit ⟨{ sampleExchange with age := some 20 }, 0, 0⟩) ∉ run (httpPolicy 0) .memory [] 0 0
      [⟨0, 0, { sampleExchange with age := some 20 }⟩, ⟨41, 0, sampleExchange⟩] := by decide

/-- **A response that must not be stored is not stored at all**: freshness lifetime zero or negative (`max-age=0`,
`Expires` not after `Date`, `Expires` that is not a date — whatever `Last-Modified` says), `no-cache`, or no explicit
expiration time while `default_ttl` is not positive. For every store content: no `Set` happens and the store is
unchanged. -/
theorem c10_http_not_stored_without_lifetime (dttl : Int) (k : StoreKind) (s : Store (Item Exchange))
    (now : Int) (idx : Nat) (r : Req Exchange) (h : mayStore dttl now r.up = false) :
    (step (httpPolicy dttl) k s now idx r).1 = s ∧
      ∀ it ttl, (step (httpPolicy dttl) k s now idx r).2 ≠ .fresh it (some ttl) :=
  step_no_store (httpPolicy dttl) k s now idx r (httpTTL_nonpos dttl now r.up h)

example : mayStore 30 1000 { sampleExchange with maxAge := some 0 } = false := by decide
example : mayStore 30 1000 { sampleExchange with maxAge := none, expires := .valid 990, date := some 995 } = false := by
  decide
example : mayStore 1800 1000
    { sampleExchange with maxAge := none, lastModified := some (-85400), expires := .invalid } = false := by decide
example : mayStore 0 1000 { sampleExchange with maxAge := none, lastModified := some (-863000) } = false := by decide
example : mayStore 30 1000 { sampleExchange with noCache := true } = false := by decide

/-- **`default_ttl` never extends an explicit lifetime:** when the response states a freshness lifetime `l`, the
TTL is at most what is left of `l` after the age the response arrived with, whatever the configured default. -/
theorem c10_http_ttl_le_lifetime (dttl now : Int) (x : Exchange) (l : Int)
    (hl : freshnessLifetime now x = some l) : httpTTL dttl now x ≤ max 0 (l - initialAge now x) :=
  httpTTL_le_lifetime dttl now x l hl

example : freshnessLifetime 1000 sampleExchange = some 60 := by decide
example : httpTTL 1800 1000 sampleExchange = 60 := by decide

/-- **Without an explicit lifetime the configured `default_ttl` is all a response can get** — in particular no
heuristic lifetime is derived from `Last-Modified`, and a `default_ttl` of zero (or below) means "not cached". -/
theorem c10_http_ttl_le_default_ttl (dttl now : Int) (x : Exchange) (hl : freshnessLifetime now x = none) :
    httpTTL dttl now x ≤ max 0 dttl :=
  httpTTL_le_default dttl now x hl

example : freshnessLifetime 1000 { sampleExchange with maxAge := none, lastModified := some (-863000) } = none := by
  decide
example : httpTTL 10 1000 { sampleExchange with maxAge := none, lastModified := some (-863000) } = 10 := by decide

/-- **Endpoint settings.** Without `http_cache`, or with `enabled: false`, there is no response cache: over any
history nothing is read from or written to it. The OAuth2 metadata endpoint differs only in what "not configured"
means (enabled, 30 minutes): a configured `default_ttl` — zero included — is used as it is, so `default_ttl: 0s`
still means "responses without explicit expiration time are not cached". -/
theorem c10_http_cache_settings (c : Option HttpCacheConf) (d : Int) (k : StoreKind) (s : Store (Item Exchange))
    (now : Int) (idx : Nat) (reqs : List (Req Exchange)) :
    (c = none ∨ (∃ d', c = some ⟨false, d'⟩) →
      runStore (endpointPolicy c) k s now idx reqs = s ∧
      ∀ t o, (t, o) ∈ run (endpointPolicy c) k s now idx reqs → o = .denied ∨ ∃ it, o = .fresh it none) ∧
    endpointPolicy (some ⟨true, d⟩) = httpPolicy d ∧
    metadataPolicy (some ⟨true, d⟩) = httpPolicy d ∧
    metadataPolicy (some ⟨false, d⟩) = noCachePolicy ∧
    metadataPolicy none = httpPolicy Gen.metadataDefaultTTL := by
  refine ⟨?_, rfl, rfl, rfl, rfl⟩
  intro h
  have hp : endpointPolicy c = noCachePolicy := by
    rcases h with h | ⟨d', h⟩ <;> subst h <;> rfl
  rw [hp]
  exact run_disabled noCachePolicy_off.1 noCachePolicy_off.2 k reqs s now idx

example : metadataPolicy (some ⟨true, 0⟩) = httpPolicy 0 := rfl
example : (1, Outcome.hit ⟨{ sampleExchange with maxAge := none }, 0, 0⟩) ∉ run (metadataPolicy (some ⟨true, 0⟩))
    .memory [] 0 0 [⟨0, 0, { sampleExchange with maxAge := none }⟩, ⟨1, 0, sampleExchange⟩] := by decide
example : (1, Outcome.hit ⟨{ sampleExchange with maxAge := none }, 0, 0⟩) ∈ run (metadataPolicy none)
    .memory [] 0 0 [⟨0, 0, { sampleExchange with maxAge := none }⟩, ⟨1, 0, sampleExchange⟩] := by decide

end Heimdall.Props.C10
