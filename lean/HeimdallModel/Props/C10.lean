import HeimdallModel.Lemmas.CacheValidity
/-!
# C10 — nothing is reused from a cache beyond its validity

Theorems about the model of the cache users (`Model/CacheTTL.lean`, `Model/HttpFreshness.lean`,
`Model/CacheFlow.lean`) and of the TTL stores (`Model/TtlStore.lean`); the model is tied to the real mechanisms, the
real HTTP round tripper and the real in-memory and Redis caches by the correspondence check (`tools/props/c10.py`),
the reuse predicates `mayReuse` / `mayServe` / `mayStore` of `Spec/CacheValidity.lean` also judge the traces of the
implementation.

Time is an integer in any unit; there is no bound on expiry times, TTLs, clock values or on the length of a
history. A *history* is any list of requests `⟨dt, key, up⟩`: `dt` time units after the previous request a request
for cache entry `key` arrives, and the remote party would answer it with `up` (for the mechanisms: the an `Answer`:
the absolute expiry it reports, `none` = no expiry information, plus — for a JWK — the `NotAfter` of the further
certificates of its `x5c` chain; for the HTTP cache: the whole exchange).
-/
namespace Heimdall.Props.C10
open Heimdall.Validity

/-! ## the stores -/

/-- **Expiry is enforced for every TTL.** Whatever `get` returns for a key right after a `set` of that key is
either the value just written, no later than `now + ttl` and only if `ttl` was positive, or — when the TTL was zero
or negative and nothing was written — what the store held before. In particular a non-positive TTL never creates
an entry ("TTL zero" can never mean "forever"). -/
theorem c10_store_get_after_set {V : Type} (k : StoreKind) (s : Store V) (key : Nat) (v v' : V)
    (ttl now t : Int) (h : (s.set key v ttl now).get k key t = some v') :
    (0 < ttl ∧ v' = v ∧ t ≤ now + ttl) ∨ (ttl ≤ 0 ∧ s.get k key t = some v') := by
  by_cases hpos : 0 < ttl
  · left
    have hf := Store.find_set_same s key v ttl now hpos
    simp only [Store.get, hf] at h
    split at h
    · rename_i ha
      exact ⟨hpos, by simpa using h.symm, alive_le ha⟩
    · cases h
  · right
    refine ⟨by omega, ?_⟩
    simpa [Store.set, hpos] using h

example : Store.get .memory (Store.set ([] : Store Nat) 1 7 5 100) 1 105 = some 7 := by decide
example : Store.get .redis (Store.set ([] : Store Nat) 1 7 5 100) 1 105 = none := by decide
example : Store.get .memory (Store.set ([] : Store Nat) 1 7 0 100) 1 100 = none := by decide

/-- Writing one key does not change what any other key returns. -/
theorem c10_store_other_keys_untouched {V : Type} (k : StoreKind) (s : Store V) (key key' : Nat) (v : V)
    (ttl now t : Int) (hne : key' ≠ key) : (s.set key v ttl now).get k key' t = s.get k key' t := by
  unfold Store.get
  rw [Store.find_set_other s key key' v ttl now hne]

example : (1 : Nat) ≠ 2 := by decide

/-! ## the TTL handed to the store -/

/-- **The TTL never exceeds what is left of the cached thing's own lifetime, minus the leeway** — for every
mechanism, every configuration and every remaining lifetime (far, inside the leeway, zero, negative). `remaining`
is the lifetime the mechanism knows of: `exp − now` as reported by the remote party, the `ttl` of the JWT finalizer
for the tokens it issues itself, nothing for the remote authorizer and the contextualizer. -/
theorem c10_ttl_le_remaining (m : Mech) (cfg : Option Int) (now : Int) (exp : Answer) (r : Int)
    (hr : remaining m cfg now exp = some r) : cacheTTL m cfg (some r) ≤ max 0 (r - m.leeway) :=
  cacheTTL_le_remaining m cfg now exp r hr

example : remaining .introspection (some 300) 1000 ⟨some 1005, []⟩ = some 5 := by decide
example : cacheTTL .introspection (some 300) (some 0) = 0 := by decide
example : cacheTTL .jwtKey (some 40) (some 1000000) = 40 := by decide

/-- **A configured cache TTL can only shorten:** whatever the remote party reports, the TTL is at most the
configured one. (The JWT finalizer has no `cache_ttl`; its `ttl` is the lifetime of the tokens it issues and is
covered by `c10_ttl_le_remaining`.) -/
theorem c10_ttl_le_configured (m : Mech) (hm : m ≠ .jwtFinalizer) (c : Int) (rem : Option Int) :
    cacheTTL m (some c) rem ≤ max 0 c :=
  cacheTTL_le_configured m hm c rem

example : Mech.clientCreds ≠ .jwtFinalizer := by decide
example : cacheTTL .clientCreds (some 30) (some 3600) = 30 := by decide

/-- **A TTL of zero (or below) disables caching for that mechanism**, also when it comes from a rule-level
override of a prototype that has caching enabled: over any history the cache is never read (every request goes to
the remote party: no outcome is a hit), never written (no outcome carries a stored TTL) and the store stays as it
was. -/
theorem c10_nonpositive_ttl_disables (m : Mech) (hm : m ≠ .jwtFinalizer) (proto : Option Int) (c : Int)
    (hc : c ≤ 0) (vl : Nat) (k : StoreKind) (s : Store (Item Answer)) (now : Int) (idx : Nat)
    (reqs : List (Req Answer)) :
    let p := mechPolicy m (effective proto (some c)) vl
    p.lookup = false ∧ runStore p k s now idx reqs = s ∧
      ∀ t o, (t, o) ∈ run p k s now idx reqs → o = .denied ∨ ∃ it, o = .fresh it none := by
  intro p
  have hl := mech_lookup_off m hm proto c hc vl
  exact ⟨hl, run_disabled hl (mech_ttl_off m hm proto c hc vl) k reqs s now idx⟩

example : Mech.remoteAuthz ≠ .jwtFinalizer ∧ (0 : Int) ≤ 0 := by decide
example : effective (some 300) (some 0) = some 0 := by decide

/-! ## histories -/

/-- **Nothing is reused beyond its validity.** For every mechanism, every prototype and override TTL, every
validity leeway, both stores and every history of requests starting from an empty cache: whenever a request is
answered from the cache at time `t` with the cached result `it`, that reuse is permitted by the specification
(`mayReuse`): an authentication result only while `t < exp + leeway`, a verification key only while
`t ≤ NotAfter`, a token only while `t < exp`. -/
theorem c10_reuse_within_validity (m : Mech) (proto ovr : Option Int) (vl : Nat) (k : StoreKind)
    (reqs : List (Req Answer)) (now : Int) (t : Int) (it : Item Answer)
    (h : (t, Outcome.hit it) ∈ run (mechPolicy m (effective proto ovr) vl) k [] now 0 reqs) :
    mayReuse m (effective proto ovr) vl it t = true :=
  run_hits (mech_sound m (effective proto ovr) vl) k reqs [] now 0 (inv_nil _) t it h

/- a hit does happen: a token good for a long time, cached at 0 for the configured 300 s, is reused at 15 -/
example : (15, Outcome.hit ⟨⟨some 1000000, []⟩, 0, 0⟩) ∈
    run (mechPolicy .introspection (effective (some 300) none) 0) .memory [] 0 0
      [⟨0, 1, ⟨some 1000000, []⟩⟩, ⟨15, 1, ⟨some 200, []⟩⟩] := by decide

/-- An authentication result (introspection response, session) is not accepted from the cache at or after the
credential's expiry plus the validity leeway. -/
theorem c10_authn_not_accepted_after_expiry (m : Mech) (hm : m = .introspection ∨ m = .generic)
    (proto ovr : Option Int) (vl : Nat) (k : StoreKind) (reqs : List (Req Answer)) (now t e : Int)
    (it : Item Answer) (he : it.ans.exp = some e)
    (h : (t, Outcome.hit it) ∈ run (mechPolicy m (effective proto ovr) vl) k [] now 0 reqs) :
    t < e + validityLeeway m vl := by
  have := c10_reuse_within_validity m proto ovr vl k reqs now t it h
  rcases hm with hm | hm <;> subst hm <;> simpa [mayReuse, he] using this

example : (20, Outcome.hit ⟨⟨some 1000000, []⟩, 0, 0⟩) ∈
    run (mechPolicy .generic (effective none (some 60)) 5) .redis [] 0 0
      [⟨0, 3, ⟨some 1000000, []⟩⟩, ⟨20, 3, ⟨some 2000, []⟩⟩] := by decide

/-- A cached verification key is not used after `NotAfter` of its certificate — its own certificate, the first
element of the `x5c` chain (`it.ans.exp`); the rest of the chain (`it.ans.more`, any length, any expiry) is
irrelevant for this bound. -/
theorem c10_key_not_used_after_cert_expiry (proto ovr : Option Int) (vl : Nat) (k : StoreKind)
    (reqs : List (Req Answer)) (now t e : Int) (it : Item Answer) (he : it.ans.exp = some e)
    (h : (t, Outcome.hit it) ∈ run (mechPolicy .jwtKey (effective proto ovr) vl) k [] now 0 reqs) :
    t ≤ e := by
  simpa [mayReuse, he] using c10_reuse_within_validity .jwtKey proto ovr vl k reqs now t it h

example : (590, Outcome.hit ⟨⟨some 1000000, []⟩, 0, 0⟩) ∈
    run (mechPolicy .jwtKey (effective (some 600) none) 0) .memory [] 0 0
      [⟨0, 0, ⟨some 1000000, []⟩⟩, ⟨590, 0, ⟨some 9000, []⟩⟩] := by decide

/-- **Only the key's own certificate bounds the TTL of a JWK, for `x5c` chains of any length.** Whatever further
certificates the chain contains (issuing CAs that expire later, earlier, or long ago), the TTL handed to the cache is
at most what is left of the key's own certificate `x5c[0]` minus the leeway. A later `NotAfter` further down the
chain never extends it. -/
theorem c10_key_ttl_le_own_certificate (cfg : Option Int) (now e : Int) (more : List Int) :
    cacheTTL .jwtKey cfg (remaining .jwtKey cfg now ⟨some e, more⟩) ≤ max 0 (e - now - Mech.jwtKey.leeway) := by
  have hr : remaining .jwtKey cfg now ⟨some e, more⟩ = some (e - now) := by simp [remaining]
  rw [hr]
  exact cacheTTL_le_remaining .jwtKey cfg now ⟨some e, more⟩ (e - now) hr

/- own certificate good for 70 s, intermediate and root CA for much longer: 30 min configured, far less granted;
   the same chain is accepted as fresh (all of it is valid) -/
example : cacheTTL .jwtKey (some 1800) (remaining .jwtKey (some 1800) 1000 ⟨some 1070, [90000, 900000]⟩) ≤ 70 := by
  decide
example : (mechPolicy .jwtKey (some 1800) 0).accept 1000 ⟨some 1070, [90000, 900000]⟩ = true := by decide
/- a key whose chain outlives its own certificate: reused before the certificate expires, fetched again after -/
example : (40, Outcome.hit ⟨⟨some 70, [90000]⟩, 0, 0⟩) ∈
      run (mechPolicy .jwtKey (effective (some 1800) none) 0) .memory [] 0 0
        [⟨0, 0, ⟨some 70, [90000]⟩⟩, ⟨40, 0, ⟨some 5000, [90000]⟩⟩, ⟨40, 0, ⟨some 5000, [90000]⟩⟩]
    ∧ (80, Outcome.hit ⟨⟨some 70, [90000]⟩, 0, 0⟩) ∉
      run (mechPolicy .jwtKey (effective (some 1800) none) 0) .memory [] 0 0
        [⟨0, 0, ⟨some 70, [90000]⟩⟩, ⟨40, 0, ⟨some 5000, [90000]⟩⟩, ⟨40, 0, ⟨some 5000, [90000]⟩⟩] := by
  decide

/-- A token obtained (client credentials) or issued (JWT finalizer) by a finalizer is never handed out from the
cache when it is already expired. -/
theorem c10_token_not_handed_out_expired (proto ovr : Option Int) (vl : Nat) (k : StoreKind)
    (reqs : List (Req Answer)) (now t : Int) (it : Item Answer) :
    ((t, Outcome.hit it) ∈ run (mechPolicy .clientCreds (effective proto ovr) vl) k [] now 0 reqs →
      ∀ e, it.ans.exp = some e → t < e) ∧
    ((t, Outcome.hit it) ∈ run (mechPolicy .jwtFinalizer (effective proto ovr) vl) k [] now 0 reqs →
      t < it.time + tokenLifetime (effective proto ovr)) := by
  constructor
  · intro h e he
    simpa [mayReuse, he] using c10_reuse_within_validity .clientCreds proto ovr vl k reqs now t it h
  · intro h
    simpa [mayReuse] using c10_reuse_within_validity .jwtFinalizer proto ovr vl k reqs now t it h

example : (1, Outcome.hit ⟨⟨none, []⟩, 0, 0⟩) ∈
    run (mechPolicy .jwtFinalizer (effective (some 3600) none) 0) .memory [] 0 0
      [⟨0, 0, ⟨none, []⟩⟩, ⟨1, 0, ⟨none, []⟩⟩] := by decide
example : (50, Outcome.hit ⟨⟨some 1000000, []⟩, 0, 0⟩) ∈
    run (mechPolicy .clientCreds (effective (some 50) none) 0) .memory [] 0 0
      [⟨0, 0, ⟨some 1000000, []⟩⟩, ⟨50, 0, ⟨none, []⟩⟩] := by decide

/-- **The cache leeway survives any history:** a cached result with a known expiry `e` is reused no later than
`e` minus the mechanism's leeway constant (10 s for authentication results and keys, 5 s for tokens). -/
theorem c10_reuse_keeps_leeway (m : Mech) (hm : m ≠ .jwtFinalizer) (proto ovr : Option Int) (vl : Nat)
    (k : StoreKind) (reqs : List (Req Answer)) (now t e : Int) (it : Item Answer)
    (he : it.ans.exp = some e) (hm' : m ≠ .remoteAuthz ∧ m ≠ .contextualizer)
    (h : (t, Outcome.hit it) ∈ run (mechPolicy m (effective proto ovr) vl) k [] now 0 reqs) :
    t + m.leeway ≤ e := by
  have := run_hits (margin_sound m hm hm' (effective proto ovr) vl) k reqs [] now 0 (inv_nil _) t it h
  simpa [withinMargin, he] using this

example : Mech.clientCreds ≠ .jwtFinalizer ∧ Mech.clientCreds ≠ .remoteAuthz ∧ Mech.clientCreds ≠ .contextualizer := by
  decide
example : (50, Outcome.hit ⟨⟨some 1000000, []⟩, 1, 0⟩) ∈
    run (mechPolicy .clientCreds (effective none (some 50)) 0) .redis [] 1 0
      [⟨0, 0, ⟨some 1000000, []⟩⟩, ⟨49, 0, ⟨some 300, []⟩⟩] := by decide

/-- **Instances that share the cache.** Rules can override `cache_ttl` and the validity leeway of one and the same
authenticator / client-credentials mechanism; the resulting instances read and write the same cache entries (the
TTL is not part of their cache key). For every history in which each request is handled by an instance with its own
settings `(cache_ttl, validity leeway)`: whatever is served from the cache keeps the cache leeway, hence the reuse
is permitted from the point of view of *every* instance, in particular of the one that serves it. -/
theorem c10_shared_entries_reuse_within_validity (m : Mech) (hm : m ≠ .jwtFinalizer)
    (hm' : m ≠ .remoteAuthz ∧ m ≠ .contextualizer) (k : StoreKind)
    (reqs : List ((Option Int × Nat) × Req Answer)) (now t : Int) (it : Item Answer)
    (h : (t, Outcome.hit it) ∈
      runMixed k [] now 0 (reqs.map (fun cr => (mechPolicy m cr.1.1 cr.1.2, cr.2)))) :
    withinMargin m it t = true ∧ ∀ cfg vl, mayReuse m cfg vl it t = true := by
  have hw : withinMargin m it t = true := by
    apply runMixed_hits k _ _ [] now 0 (inv_nil _) t it h
    intro pr hpr
    obtain ⟨cr, _, rfl⟩ := List.mem_map.mp hpr
    exact margin_sound m hm hm' cr.1.1 cr.1.2
  exact ⟨hw, fun cfg vl => mayReuse_of_withinMargin m hm cfg vl it t hw⟩

/- a rule with `cache_ttl: 1h` stores, a rule with `cache_ttl: 5s` and a tight validity leeway reuses the entry -/
example : (100, Outcome.hit ⟨⟨some 1000000, []⟩, 0, 0⟩) ∈
    runMixed .memory [] 0 0 ([((some 3600, 0), ⟨0, 0, ⟨some 1000000, []⟩⟩), ((some 5, 1), ⟨100, 0, ⟨some 1000000, []⟩⟩)].map
      (fun (cr : (Option Int × Nat) × Req Answer) => (mechPolicy .introspection cr.1.1 cr.1.2, cr.2))) := by
  decide

/-! ## HTTP responses of remote endpoints -/

/-- **A response is never served from the cache after its freshness lifetime.** For every `default_ttl`, both
stores and every history of exchanges (any `Cache-Control` / `Expires` / `Date` combination), whenever a request is
answered from the cache at `t`, the cached response's age `t − received` is within its RFC 7234 freshness lifetime
(`mayServe`). -/
theorem c10_http_served_only_while_fresh (dttl : Int) (k : StoreKind) (reqs : List (Req Exchange)) (now t : Int)
    (it : Item Exchange) (h : (t, Outcome.hit it) ∈ run (httpPolicy dttl) k [] now 0 reqs) :
    mayServe it t = true :=
  run_hits (http_sound dttl) k reqs [] now 0 (inv_nil _) t it h

/-- a plain `GET` answered with `200` and `max-age=60`, no other headers -/
def sampleExchange : Exchange :=
  { method := .get, reqAuth := false, reqNoStore := false, status := 200, noStore := false, isPublic := false,
    mustRevalidate := false, maxAge := some 60, sMaxAge := none, badCC := false, expires := .absent, date := none }

example : (60, Outcome.hit ⟨sampleExchange, 0, 0⟩) ∈ run (httpPolicy 0) .memory [] 0 0
    [⟨0, 0, sampleExchange⟩, ⟨60, 0, sampleExchange⟩] := by decide

/-- **A response whose freshness lifetime is zero or negative is not stored at all** (`max-age=0`, `Expires` not
after `Date`, `Expires` that is not a date), for every `default_ttl` and every store content: no `Set` happens and
the store is unchanged. -/
theorem c10_http_not_stored_without_lifetime (dttl : Int) (k : StoreKind) (s : Store (Item Exchange))
    (now : Int) (idx : Nat) (r : Req Exchange) (h : mayStore now r.up = false) :
    (step (httpPolicy dttl) k s now idx r).1 = s ∧
      ∀ it ttl, (step (httpPolicy dttl) k s now idx r).2 ≠ .fresh it (some ttl) :=
  step_no_store (httpPolicy dttl) k s now idx r (httpTTL_nonpos dttl now r.up h)

example : mayStore 1000 { sampleExchange with maxAge := some 0 } = false := by decide
example : mayStore 1000 { sampleExchange with maxAge := none, expires := .valid 990, date := some 995 } = false := by
  decide
example : mayStore 1000 { sampleExchange with maxAge := none, expires := .invalid } = false := by decide

/-- **`default_ttl` never extends an explicit lifetime:** when the response states a freshness lifetime `l`, the
TTL is at most `l`, whatever the configured default. -/
theorem c10_http_ttl_le_lifetime (dttl now : Int) (x : Exchange) (l : Int)
    (hl : freshnessLifetime now x = some l) : httpTTL dttl now x ≤ max 0 l :=
  httpTTL_le_lifetime dttl now x l hl

example : freshnessLifetime 1000 sampleExchange = some 60 := by decide
example : httpTTL 1800 1000 sampleExchange = 60 := by decide

end Heimdall.Props.C10
