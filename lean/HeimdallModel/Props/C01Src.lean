import HeimdallModel.Model.PipelineSrc
/-!
# C01 — the pipeline code *as it stands in the source* is the model the C01 theorems speak about

`Gen/CompositeSrc.lean` (namespace `Heimdall.Rules.Src`) is regenerated on every run of the C01 check by the Go → Lean
translator `extract/go2lean` (`cmd/composite`): the whole bodies of `compositeSubjectCreator.Execute`,
`compositeSubjectHandler.Execute`, `compositeErrorHandler.Execute`, `(*conditionalSubjectHandler).Execute`,
`(*conditionalErrorHandler).Execute` and `(*ruleImpl).Execute`, statement by statement; a `for … range` loop is a
structurally recursive function over the list. The theorems below are proof obligations about *that* code, for lists of
**any length** and **every behaviour** of the mechanisms (outcome: subject / error with any sentinels / panic; flags;
conditions that hold, do not hold or cannot be evaluated):

* `c01_src_subject_creator`: the translated creator **equals** `createSubject` — in particular the guard
  `idx < len(ca)` is true in every iteration (proved, not assumed: `c01_src_creator_loop` carries the invariant
  `idx + remaining = len`);
* `c01_src_conditional_subject_handler`, `c01_src_subject_handlers`: the translated conditional handler equals
  `Handler.execute` — whatever the log level and `json.Marshal` do —, the translated composite over such handlers equals
  `runHandlers`;
* `c01_src_conditional_error_handler`, `c01_src_error_handlers`: the same for the error pipeline and
  `runErrorHandlers`; the package-private sentinel `errErrorHandlerNotApplicable` never leaves the composite;
* `c01_src_rule_execute`: the translated `ruleImpl.Execute` over the translated composites equals `Rule.execute`
  (`c01_src_rule_refuses_encoded_slash` for the one path the model does not have).

How the parameters of the translation are filled is in `Model/PipelineSrc.lean`. Every proof is induction on the list
with one script (`unfold` once, case distinction on the outcome of the element, `simp`, `src_cases`) so that
semantics-preserving edits of the Go code (inverted `if`s and early returns, a condition extracted into a helper method
or a local variable, `switch` instead of `if` chains) keep proving.
-/
namespace Heimdall.Props.C01
open Heimdall Heimdall.Pipeline Heimdall.Rules Heimdall.Pipeline.SrcTie

set_option linter.unusedSimpArgs false

/-- case distinctions left after unfolding, then rewriting with what is known -/
macro "src_cases" : tactic =>
  `(tactic| ((try simp only [Bool.cond_eq_ite] at *) <;> (repeat' split) <;>
      (try simp_all [Go.pure, Go.bind, Go.panic, Go.ite_app, Go.cond_app, ofRun, Go.Res.map, pairOf]) <;> (try grind)))

/-- **The tie holds for this run:** `Gen/CompositeSrc.lean` is the result of translating the current source (when the
source leaves the translatable subset a stub without definitions is written and this module stops building). -/
theorem c01_src_translated : Src.translationOk = true := by decide

/-- The loop of `compositeSubjectCreator.Execute` started at position `idx` of a slice of length `n` with the
authenticators `a :: rest` still to come (`idx + |a :: rest| = n`): it is `createSubject a rest`, whatever `sub` and
`err` hold from earlier iterations. The index guard `idx < len(ca)` holds in every iteration. -/
theorem c01_src_creator_loop (nilV : List Kind) (n : Int) (rest : List Authenticator) :
    ∀ (a : Authenticator) (idx : Int) (sub : Option String) (err : Option Err) (c : Ctx),
      idx + (rest.length + 1 : Nat) = n →
      Src.SubjectCreator.Execute_loop authExec (·.fallback) (·.is .argument) nilV n idx (a :: rest) sub err c
        = (ofRun (createSubject a rest c)).map pairOf := by
  induction rest with
  | nil =>
    intro a idx sub err c h
    have hlt : idx < n := by omega
    unfold createSubject
    cases ha : a.out <;>
      simp [Src.SubjectCreator.Execute_loop, Go.bind, Go.pure, Go.panic, Go.cond_app, authExec, ha, ofRun, Go.Res.map,
        pairOf, Err.is, Err.ofKinds, hlt] <;> src_cases
  | cons b bs ih =>
    intro a idx sub err c h
    have hlt : idx < n := by omega
    have h' : idx + 1 + ((bs.length + 1 : Nat) : Int) = n := by simp at h ⊢; omega
    unfold createSubject Src.SubjectCreator.Execute_loop
    cases ha : a.out <;>
      simp only [Go.bind, Go.cond_app, authExec, ha, ih b (idx + 1) _ _ _ h'] <;>
      simp [Go.bind, Go.pure, Go.panic, Go.cond_app, ofRun, Go.Res.map, pairOf, Err.is, Err.ofKinds, hlt] <;> src_cases

/-- **`compositeSubjectCreator.Execute` is `createSubject`**: the first subject wins; an error lets the next
authenticator try only if it is an argument error or the authenticator allows fallback; after the last one the last
error is returned; a panic of an authenticator propagates; no nil dereference (`nilV` never shows up). -/
theorem c01_src_subject_creator (a : Authenticator) (rest : List Authenticator) (nilV : List Kind) (c : Ctx) :
    Src.SubjectCreator.Execute authExec (·.fallback) (·.is .argument) nilV (a :: rest) c
      = (ofRun (createSubject a rest c)).map pairOf := by
  unfold Src.SubjectCreator.Execute
  exact c01_src_creator_loop nilV _ rest a 0 none none c (by simp)

/-! ## handlers -/

/-- **`(*conditionalSubjectHandler).Execute` is `Handler.execute`**, whatever the log level and whatever
`json.Marshal` makes of the subject. -/
theorem c01_src_conditional_subject_handler {Dump : Type} (h : Handler) (s : String) (trace : Bool)
    (marshal : Option String → Option Dump × Option Err) (nilV : List Kind) (c : Ctx) :
    Src.ConditionalSubjectHandler.Execute (condOnSubject h) (stepExec h) trace marshal nilV (some s) c
      = ofRun (h.execute s c) := by
  unfold Src.ConditionalSubjectHandler.Execute Handler.execute
  cases hc : h.cond.onSubject s <;> cases ho : h.out <;>
    simp [Go.bind, Go.pure, Go.panic, Go.cond_app, condOnSubject, stepExec, condPair, hc, ho, ofRun] <;> src_cases

/-- the loop of `compositeSubjectHandler.Execute` on the steps still to come is `runHandlers` -/
theorem c01_src_handlers_loop {Dump : Type} (trace : Bool) (marshal : Option String → Option Dump × Option Err)
    (nilV : List Kind) (n : Int) (s : String) (hs : List Handler) :
    ∀ c : Ctx, Src.SubjectHandler.Execute_loop (handlerExec trace marshal nilV) (·.continueOnError) nilV (some s) n hs c
      = ofRun (runHandlers hs s c) := by
  induction hs with
  | nil => intro c; simp [Src.SubjectHandler.Execute_loop, runHandlers, Go.pure, ofRun]
  | cons h hs ih =>
    intro c
    unfold Src.SubjectHandler.Execute_loop runHandlers
    simp only [Go.bind, handlerExec, c01_src_conditional_subject_handler]
    cases hr : h.execute s c with
    | panic v c' => simp [ofRun]
    | done e c' =>
      cases e <;> simp only [ofRun, Go.cond_app, ih] <;> simp [Go.pure, Go.cond_app, ofRun] <;> src_cases

/-- **`compositeSubjectHandler.Execute` over conditional handlers is `runHandlers`.** -/
theorem c01_src_subject_handlers {Dump : Type} (hs : List Handler) (s : String) (trace : Bool)
    (marshal : Option String → Option Dump × Option Err) (nilV : List Kind) (c : Ctx) :
    Src.SubjectHandler.Execute (handlerExec trace marshal nilV) (·.continueOnError) nilV hs (some s) c
      = ofRun (runHandlers hs s c) := by
  unfold Src.SubjectHandler.Execute
  exact c01_src_handlers_loop trace marshal nilV _ s hs c

/-! ## error handlers -/

/-- **`(*conditionalErrorHandler).Execute`**: a condition that cannot be evaluated returns that (foreign) error, a
condition that does not hold returns the not-applicable sentinel, otherwise the handler runs. -/
theorem c01_src_conditional_error_handler (h : ErrorHandler) (cause : Err) (nilV : List Kind) (c : Ctx) :
    errorHandlerExec nilV h (some (.real cause)) c =
      match h.cond.onError cause with
      | .fails => .done (some (.real .foreign)) c
      | .no => .done (some .notApplicable) c
      | .yes => .done ((h.kind.run cause c).1.map .real) (h.kind.run cause c).2 := by
  unfold errorHandlerExec Src.ConditionalErrorHandler.Execute
  cases hc : h.cond.onError cause <;>
    simp [Go.bind, Go.pure, Go.cond_app, condOnError, kindExec, condPair, hc] <;> src_cases

/-- the loop of `compositeErrorHandler.Execute` on the handlers still to come is `runErrorHandlers` -/
theorem c01_src_error_handlers_loop (nilV : List Kind) (n : Int) (cause : Err) (ehs : List ErrorHandler) :
    ∀ c : Ctx, Src.ErrorHandler.Execute_loop (errorHandlerExec nilV) EErr.isNotApplicable nilV (some (.real cause)) n ehs c
      = .done ((runErrorHandlers ehs cause c).1.map .real) (runErrorHandlers ehs cause c).2 := by
  induction ehs with
  | nil => intro c; simp [Src.ErrorHandler.Execute_loop, runErrorHandlers, Go.pure]
  | cons h hs ih =>
    intro c
    unfold Src.ErrorHandler.Execute_loop runErrorHandlers
    simp only [Go.bind, c01_src_conditional_error_handler]
    cases hc : h.cond.onError cause <;> simp only [Go.cond_app, ih] <;>
      simp [Go.pure, Go.cond_app, EErr.isNotApplicable, EErr.real_not_sentinel] <;> src_cases

/-- **`compositeErrorHandler.Execute` over conditional error handlers is `runErrorHandlers`**: the first applicable
handler decides, with none applicable the error that was handed in comes back; the not-applicable sentinel never
leaves the composite. -/
theorem c01_src_error_handlers (ehs : List ErrorHandler) (cause : Err) (nilV : List Kind) (c : Ctx) :
    Src.ErrorHandler.Execute (errorHandlerExec nilV) EErr.isNotApplicable nilV ehs (some (.real cause)) c
      = .done ((runErrorHandlers ehs cause c).1.map .real) (runErrorHandlers ehs cause c).2 := by
  unfold Src.ErrorHandler.Execute
  exact c01_src_error_handlers_loop nilV _ cause ehs c

/-! ## the whole rule -/

/-- `r.sc.Execute(ctx)` -/
theorem c01_src_creator_src (r : Rule) (c : Ctx) :
    creatorSrc r c = (ofRun (createSubject r.auth r.auths c)).map fun x => ((pairOf x).1, (pairOf x).2.map EErr.real) := by
  unfold creatorSrc Go.map Rule.authenticators
  rw [c01_src_subject_creator]
  cases createSubject r.auth r.auths c <;> simp [ofRun, Go.Res.map]

/-- `r.sh.Execute(ctx, sub)` / `r.fi.Execute(ctx, sub)` -/
theorem c01_src_handlers_src (trace : Bool) (hs : List Handler) (s : String) (c : Ctx) :
    handlersSrc trace hs (some s) c = (ofRun (runHandlers hs s c)).map (Option.map EErr.real) := by
  unfold handlersSrc Go.map
  rw [c01_src_subject_handlers]

/-- `r.eh.Execute(ctx, err)` -/
theorem c01_src_on_error (r : Rule) (e : Err) (c : Ctx) :
    errorPipelineSrc r (some (.real e)) c
      = .done ((runErrorHandlers r.errorHandlers e c).1.map .real) (runErrorHandlers r.errorHandlers e c).2 := by
  unfold errorPipelineSrc
  exact c01_src_error_handlers r.errorHandlers e nilPanic c

/-- **`ruleImpl.Execute`, as it stands in the source, over the composites as they stand in the source, is
`Rule.execute`** — unless the rule forbids encoded slashes and the path contains one (`c01_src_rule_refuses_encoded_slash`).
What the C01 theorems say about `Rule.execute` they say about the pipeline code of the current tree: authenticators,
then authorizers / contextualizers, then finalizers; the first failing stage hands its error to the error pipeline,
whose result is returned with a nil backend; a backend only after all three stages. -/
theorem c01_src_rule_execute (trace slashesOn slashesOff encodedSlash : Bool) (r : Rule) (c : Ctx)
    (h : (slashesOff && encodedSlash && !slashesOn) = false) :
    executeSrc trace slashesOn slashesOff encodedSlash r c = ofRun (r.execute c) := by
  unfold executeSrc Src.Rule.Execute Rule.execute Rule.onError
  cases slashesOn <;> cases slashesOff <;> cases encodedSlash <;> simp at h <;>
    simp only [cond_true, cond_false, Go.bind, Go.cond_app, c01_src_creator_src] <;>
    (cases h1 : createSubject r.auth r.auths c with
     | panic v c1 => simp [ofRun, Go.Res.map]
     | done x c1 =>
       cases x with
       | error e =>
         simp [ofRun, Go.Res.map, pairOf, Go.bind, Go.pure, Go.cond_app, c01_src_on_error, execOut, EErr.toErr]
         cases (runErrorHandlers r.errorHandlers e c1).1 <;> simp [EErr.toErr]
       | ok s =>
         simp only [ofRun, Go.Res.map, pairOf, Go.bind, Go.cond_app, c01_src_handlers_src, Option.map, Option.isSome,
           cond_false]
         cases h2 : runHandlers r.handlers s c1 with
         | panic v c2 => simp [ofRun, Go.Res.map]
         | done e2 c2 =>
           cases e2 with
           | some e =>
             simp [ofRun, Go.Res.map, Go.bind, Go.pure, Go.cond_app, c01_src_on_error, execOut, EErr.toErr]
             cases (runErrorHandlers r.errorHandlers e c2).1 <;> simp [EErr.toErr]
           | none =>
             simp only [ofRun, Go.Res.map, Go.bind, Go.cond_app, c01_src_handlers_src, Option.map, Option.isSome,
               cond_false]
             cases h3 : runHandlers r.finalizers s c2 with
             | panic v c3 => simp [ofRun, Go.Res.map]
             | done e3 c3 =>
               cases e3 with
               | some e =>
                 simp [ofRun, Go.Res.map, Go.bind, Go.pure, Go.cond_app, c01_src_on_error, execOut, EErr.toErr]
                 cases (runErrorHandlers r.errorHandlers e c3).1 <;> simp [EErr.toErr]
               | none => cases hb : r.hasBackend <;> simp [ofRun, Go.Res.map, Go.pure, Go.cond_app, execOut, hb])

/- the hypothesis holds for every rule that allows encoded slashes and for every request without one -/
example : ((false && true && !false) = false) ∧ ((true && false && !false) = false) := by decide

/-- With `allow_encoded_slashes: off` a path that contains an encoded slash is refused with an argument error before
any mechanism runs: nothing is executed, nothing recorded, no backend. -/
theorem c01_src_rule_refuses_encoded_slash (trace : Bool) (r : Rule) (c : Ctx) :
    executeSrc trace false true true r c = .done ⟨false, some (.ofKind .argument)⟩ c := by
  simp [executeSrc, Src.Rule.Execute, Go.pure, Go.cond_app, Go.Res.map, execOut, EErr.toErr]

end Heimdall.Props.C01
