import HeimdallModel.Lemmas.Mech
import HeimdallModel.Lemmas.MechTypes
import HeimdallModel.Lemmas.MechHistory
import HeimdallModel.Lemmas.MechTemplate
import HeimdallModel.Lemmas.MechClient
import HeimdallModel.Model.Footprint
import HeimdallModel.Gen.Footprints
/-!
# C17 — mechanisms are immutable once loaded; rule-level overrides stay local

The statements quantify over every configuration reachable in the machine of `Model/Mech.lean`: any number of
threads, each calling a method on some prototype or variant (`Execute`, `ID`, … or `WithConfig(ov)`), every
interleaving of their micro-steps (reads of receiver slots, the slot-by-slot shallow copy of `WithConfig`, the
publication of the new object), any mechanism types, any overrides (`V`, `Ov`, `D` are parameters).  The only
hypothesis is that no method writes its receiver in place (`ReadOnly`).  The first group of theorems discharges
that hypothesis for the *current source*: the write footprints which `/verif/extract/footprint` (go/ssa) reads off
the working tree on every run (`Gen/Footprints.lean`) contain no write to receiver or package-level memory, and
the thread programs derived from them are read-only.
-/
namespace Heimdall.Props.C17
open Heimdall Heimdall.Mech Heimdall.Footprint Heimdall.Spec.Overlay

/-! ## The tie: what the source does to shared memory -/

/-- no method of any mechanism type (closed under all calls inside the module) stores to, updates, appends to or
deletes from memory reachable from its receiver or from a package-level variable; every library call on such
memory is one of the calls trusted to be safe for concurrent use -/
theorem c17_footprints_clean : clean Gen.footprints = true := by decide +kernel

/-- every mechanism type has a row for every method the pipeline calls -/
theorem c17_footprints_complete : complete Gen.footprints = true := by decide +kernel

/-- the mechanism types of the source and their fields are those of the model, as sets (a new type, or a new field
— for instance one that caches something — breaks this obligation; a reordering does not) -/
def coverOk (gen model : List (String × String × List String)) : Bool :=
  (model.all fun m => gen.any fun g => g.1 == m.1 && g.2.1 == m.2.1 && sameSet g.2.2 m.2.2) &&
  (gen.all fun g => model.any fun m => g.2.1 == m.2.1)

theorem c17_footprints_cover_model :
    coverOk ((Footprint.types Gen.footprints).filter fun x => x.1 != "factory" && x.1 != "reload")
      (Mech.types.map fun t => (t.kind, t.go, t.fields)) = true := by decide +kernel

/-- … down to the leaves: every leaf field of every mechanism struct (fields of embedded by-value structs
followed), with its being a reference or a plain value, is a slot of the model with the same classification, and
vice versa -/
def leavesOk (gen : List (String × List (String × Bool))) (model : List TypeD) : Bool :=
  model.all fun t => gen.any fun g => g.1 == t.go &&
    (g.2.all fun l => t.slots.any fun s => s.name == l.1 && s.ref == l.2) &&
    (t.slots.all fun s => g.2.any fun l => s.name == l.1 && s.ref == l.2)

theorem c17_struct_leaves_match_model : leavesOk Gen.structLeaves Mech.types = true := by decide +kernel

/-- the only writers of loaded state that are meant to exist — the reload callbacks of the key material
(`jwtSigner.OnChanged`, `HTTPMessageSignatures.OnChanged`) — write under the write lock, and the jwt finalizer reads
its signer under the read lock (what a reload does to the tokens issued is C16's subject) -/
theorem c17_reloadable_state_is_lock_guarded : reloadGuarded Gen.footprints = true := by decide +kernel

/-- the table `heimdall` looks rules up in is consistent: every slot of every type is found under its Go type and
name -/
theorem c17_table_consistent : tableConsistent = true := by decide +kernel

/-- hence `heimdall` does with a slot exactly what the slot's rule says -/
theorem c17_heimdall_replace_table (t : TypeD) (ht : t ∈ Mech.types) (s : SlotD) (hs : s ∈ t.slots)
    (old : Entries) (ov : Override) :
    heimdall.replace t.go s.name old ov = applyRule s.rule old ov ∧ heimdall.byValue t.go s.name = !s.ref :=
  heimdall_replace_of_consistent c17_table_consistent t ht s hs old ov

/-- a clean row gives a thread program without in-place writes, however fields are split into slots -/
theorem c17_clean_program_read_only (t : List Row) (hc : clean t = true) (r : Row) (hr : r ∈ t)
    (hk : r.kind ≠ "reload") (slotsOf : String → List String) (s : String) : Op.wr s ∉ r.program slotsOf := by
  have hrow : r.clean = true := List.all_eq_true.mp hc r hr
  have hk' : (r.kind == "reload") = false := by simpa using hk
  simp only [Row.clean, hk', Bool.false_or, Bool.and_eq_true, List.isEmpty_iff] at hrow
  intro hm
  simp only [Row.program, hrow.1.1.1.1, List.flatMap_nil, List.append_nil, List.mem_flatMap, List.mem_map] at hm
  rcases hm with ⟨_, _, _, _, h⟩
  cases h

example : ∃ r ∈ Gen.footprints, r.typ = "jwtAuthenticator" ∧ r.method = "Execute" ∧ r.reads ≠ [] := by
  decide +kernel

/-- the programs of the current source are read-only -/
theorem c17_current_programs_read_only (r : Row) (hr : r ∈ Gen.footprints) (hk : r.kind ≠ "reload")
    (slotsOf : String → List String) (s : String) : Op.wr s ∉ r.program slotsOf :=
  c17_clean_program_read_only Gen.footprints c17_footprints_clean r hr hk slotsOf s

/-! ## Immutability and race freedom, for every run -/

section machine
variable {V Ov : Type} (D : Desc V Ov)

/-- the store only grows: cells and objects are added, none is ever changed or removed -/
theorem c17_store_only_grows (c₀ c : Config V Ov) (hi : Initial c₀) (hro : ReadOnly c₀) (h : Reach D c₀ c) :
    (∃ t, c.store.cells = c₀.store.cells ++ t) ∧ (∃ u, c.store.insts = c₀.store.insts ++ u) :=
  ⟨(reach_grows h hro (initial_inv D c₀ hi)).1, (reach_grows h hro (initial_inv D c₀ hi)).2.1⟩

/-- **Executing mechanisms and creating variants changes no mechanism.**  Whatever is observable of a prototype or
variant at some point of a run is observable unchanged ever after: executions of any objects by any number of
threads, creations of any further variants with any overrides, in any interleaving, do not touch it. -/
theorem c17_loaded_mechanisms_never_change (c₀ c : Config V Ov) (hi : Initial c₀) (hro : ReadOnly c₀)
    (h : Reach D c₀ c) : Immutable D c := by
  intro c' h' k hk
  have hinv := reach_inv h hro (initial_inv D c₀ hi)
  have hro' := reach_readOnly h hro
  rcases reach_grows h' hro' hinv with ⟨⟨t, ht⟩, ⟨u, hu⟩, _⟩
  cases hik : c.store.insts[k]? with
  | none => simp [Store.view, hik] at hk
  | some inst => exact view_ext c.store c'.store t u hinv.closed ht hu hik

example : ∃ (c : Config Nat Unit), Initial c ∧ ReadOnly c ∧ (c.store.view 0).isSome = true :=
  ⟨⟨⟨[7], [⟨"t", [("f", 0)]⟩], [none]⟩, fun _ => ⟨0, [.rd "f"], [.rd "f"], [], .run⟩⟩,
   ⟨⟨by simp, rfl⟩, by simp, fun _ => ⟨rfl, rfl, Or.inl rfl⟩⟩, by intro i s; simp, rfl⟩

/-! A run in which a variant (override `9` for the by-value slot `ttl`, reference slot `e` inherited) is created
while its prototype is being executed: the hypotheses of the theorems below are met by a non-trivial run. -/

def demoD : Desc Nat Nat := ⟨fun _ s => s == "ttl", fun _ s _ ov => if s == "ttl" then some ov else none⟩

def demo₀ : Config Nat Nat :=
  ⟨⟨[5, 7], [⟨"t", [("ttl", 0), ("e", 1)]⟩], [none]⟩,
   fun i => if i = 0 then ⟨0, [], [], [], .create 9⟩ else ⟨0, [.rd "e", .rd "ttl"], [.rd "e", .rd "ttl"], [], .run⟩⟩

def demoRun : Config Nat Nat := runSched demoD demo₀ [0, 1, 0, 1, 0, 0]

example : Initial demo₀ ∧ ReadOnly demo₀ ∧ Reach demoD demo₀ demoRun ∧
    demoRun.store.origin[1]? = some (some (0, 9)) ∧
    demoRun.store.view 1 = some [("ttl", some 9), ("e", some 7)] ∧ demoRun.store.view 0 = demo₀.store.view 0 ∧
    (demoRun.store.insts[1]?).map (·.slots) = some [("ttl", 2), ("e", 1)] ∧
    (demoRun.threads 1).ops = [] ∧ (demoRun.threads 1).seen = [("e", 7), ("ttl", 5)] := by
  refine ⟨⟨⟨by decide, rfl⟩, by decide, ?_⟩, ?_, runSched_reach demoD _ demo₀, by decide, by decide, by decide,
    by decide, by decide, by decide⟩
  · intro i
    by_cases h : i = 0
    · subst h; exact ⟨rfl, rfl, Or.inr ⟨9, rfl⟩⟩
    · simp [demo₀, h]
  · intro i s
    by_cases h : i = 0
    · subst h; simp [demo₀]
    · simp [demo₀, h]

/-- **Overrides stay local and are observed exactly.**  Every variant shows, slot by slot, the view of the
prototype it was created from overlaid with its own override — at every point of every run after its creation. -/
theorem c17_variant_is_prototype_overlaid (c₀ c : Config V Ov) (hi : Initial c₀) (hro : ReadOnly c₀)
    (h : Reach D c₀ c) (k p : Nat) (ov : Ov) (hk : c.store.origin[k]? = some (some (p, ov))) :
    Local D c.store k p ov := by
  rcases (reach_inv h hro (initial_inv D c₀ hi)).orig k p ov hk with ⟨pi, ki, hp, hki, _, hview⟩
  exact ⟨pi, hp, by simp [Store.view, hki, hview]⟩

/-- the variant has the type of its prototype -/
theorem c17_variant_has_prototype_type (c₀ c : Config V Ov) (hi : Initial c₀) (hro : ReadOnly c₀)
    (h : Reach D c₀ c) (k p : Nat) (ov : Ov) (hk : c.store.origin[k]? = some (some (p, ov))) :
    ∃ pi ki : Inst, c.store.insts[p]? = some pi ∧ c.store.insts[k]? = some ki ∧ ki.typ = pi.typ := by
  rcases (reach_inv h hro (initial_inv D c₀ hi)).orig k p ov hk with ⟨pi, ki, hp, hki, ht, _⟩
  exact ⟨pi, ki, hp, hki, ht⟩

/-- **… regardless of which other rules exist or were loaded before.**  Two variants of one catalogue entry with
the same override look alike in any two runs that start from the same catalogue — whatever else the runs did,
in whatever order (different threads, different other variants, different schedules). -/
theorem c17_variant_independent_of_history (c₀ c₀' c c' : Config V Ov) (hs : c₀'.store = c₀.store)
    (hi : Initial c₀) (hi' : Initial c₀') (hro : ReadOnly c₀) (hro' : ReadOnly c₀')
    (h : Reach D c₀ c) (h' : Reach D c₀' c') (k k' p : Nat) (ov : Ov) (hp : (c₀.store.view p).isSome = true)
    (hk : c.store.origin[k]? = some (some (p, ov))) (hk' : c'.store.origin[k']? = some (some (p, ov))) :
    c.store.view k = c'.store.view k' := by
  rcases c17_variant_is_prototype_overlaid D c₀ c hi hro h k p ov hk with ⟨pi, hpi, hv⟩
  rcases c17_variant_is_prototype_overlaid D c₀' c' hi' hro' h' k' p ov hk' with ⟨pi', hpi', hv'⟩
  have e1 := c17_loaded_mechanisms_never_change D c₀ c₀ hi hro Reach.refl c h p hp
  have e2 := c17_loaded_mechanisms_never_change D c₀' c₀' hi' hro' Reach.refl c' h' p (by rw [hs]; exact hp)
  rw [hs] at e2
  have e3 : c.store.view p = c'.store.view p := by rw [e1, e2]
  simp only [Store.view, hpi, hpi', Option.map_some, Option.some.injEq] at e3
  -- same catalogue entry: same type, same view
  have hty : pi.typ = pi'.typ := by
    have g1 := (reach_grows h hro (initial_inv D c₀ hi)).2.1
    have g2 := (reach_grows h' hro' (initial_inv D c₀' hi')).2.1
    rcases g1 with ⟨u, hu⟩
    rcases g2 with ⟨u', hu'⟩
    cases hp0 : c₀.store.insts[p]? with
    | none => simp [Store.view, hp0] at hp
    | some i0 =>
      have a1 : c.store.insts[p]? = some i0 := by rw [hu]; exact insts_ext hp0
      have a2 : c'.store.insts[p]? = some i0 := by rw [hu', hs]; exact insts_ext hp0
      rw [a1] at hpi; rw [a2] at hpi'
      cases hpi; cases hpi'; rfl
  rw [hv, hv', hty, e3]

/-- **An execution observes exactly its own object's configuration, however it is interleaved with others.**
When a method has run to its end, what it has read is what its program reads when run alone — on the store as it
is now, or as it is at any later point of the run. -/
theorem c17_concurrent_execution_equals_solo (c₀ c c' : Config V Ov) (hi : Initial c₀) (hro : ReadOnly c₀)
    (h : Reach D c₀ c) (h' : Reach D c c') (i : Nat) (inst : Inst)
    (hdone : (c.threads i).ops = []) (hr : c.store.insts[(c.threads i).recv]? = some inst) :
    (c.threads i).seen = readAll c.store.cells inst (c.threads i).prog ∧
    (c.threads i).seen = readAll c'.store.cells inst (c.threads i).prog := by
  have hinv := reach_inv h hro (initial_inv D c₀ hi)
  rcases hinv.seen i with ⟨done, hprog, hsome, _⟩
  have hd : (c.threads i).prog = done := by rw [hprog, hdone]; simp
  have e1 : (c.threads i).seen = readAll c.store.cells inst (c.threads i).prog := by rw [hd]; exact hsome inst hr
  refine ⟨e1, ?_⟩
  rcases reach_grows h' (reach_readOnly h hro) hinv with ⟨⟨t, ht⟩, _, _⟩
  rw [ht, readAll_ext _ _ _ _ (closed_slot hinv.closed hr)]; exact e1

/-- **No data race in the model sense**: at no point of any run are two threads about to access the same cell with
one of them writing it. -/
theorem c17_no_conflicting_access (c₀ c : Config V Ov) (hro : ReadOnly c₀) (h : Reach D c₀ c) : RaceFree c := by
  intro i j hc
  rcases hc with ⟨_, s, rest, _, _, hops, _⟩
  exact reach_readOnly h hro i s (by rw [hops]; exact List.mem_cons_self)

/-- the memory `WithConfig` writes is its own until it returns: every address any published object or any copy in
progress refers to exists already, so the cell allocated next is referenced by nobody -/
theorem c17_new_cells_are_private (c₀ c : Config V Ov) (hi : Initial c₀) (hro : ReadOnly c₀) (h : Reach D c₀ c) :
    (∀ inst ∈ c.store.insts, ∀ sa ∈ inst.slots, sa.2 ≠ c.store.cells.length) ∧
    (∀ i ov typ todo acc, (c.threads i).phase = .build ov typ todo acc → ∀ sa ∈ acc, sa.2 ≠ c.store.cells.length) := by
  have hinv := reach_inv h hro (initial_inv D c₀ hi)
  refine ⟨fun inst hm sa hsa => Nat.ne_of_lt (hinv.closed.1 inst hm sa hsa), ?_⟩
  intro i ov typ todo acc hp sa hsa
  rcases hinv.build i ov typ todo acc hp with ⟨_, _, _, _, _, hacc, _⟩
  exact Nat.ne_of_lt (hacc sa hsa)

/-- a copied slot shares the prototype's cell only if it is an inherited reference; a replaced slot and a by-value
slot get a cell nobody else knows -/
theorem c17_shallow_copy_shares_only_inherited_references (typ : String) (ov : Ov) (cells : List V)
    (sa : String × Addr) (h : sa.2 < cells.length) :
    ((buildSlot D typ ov cells sa).2.2 = sa.2 ∧ D.replace typ sa.1 cells[sa.2] ov = none ∧ D.byValue typ sa.1 = false) ∨
    (buildSlot D typ ov cells sa).2.2 = cells.length := by
  rcases buildSlot_addr D typ ov cells sa h with ⟨h1, _, h3, h4⟩ | ⟨h1, _⟩
  · exact Or.inl ⟨h1, h3, h4⟩
  · exact Or.inr h1

/-- the model the correspondence check executes is the machine: an uninterrupted `WithConfig` … -/
theorem c17_uninterrupted_withConfig_is_a_run (c : Config V Ov) (i : Nat) (ov : Ov) (σ' : Store V Ov) (k : Nat)
    (hops : (c.threads i).ops = []) (hp : (c.threads i).phase = .create ov)
    (h : withConfig D c.store (c.threads i).recv ov = some (σ', k)) :
    Reach D c { store := σ', threads := upd c.threads i ((c.threads i).setPhase (.done k)) } :=
  withConfig_reach D c i ov σ' k hops hp h

/-- … and every schedule the driver runs -/
theorem c17_scheduler_runs_the_machine (c : Config V Ov) (sched : List Nat) : Reach D c (runSched D c sched) :=
  runSched_reach D sched c

end machine

/-! ## The hypothesis cannot be dropped: one lazily initialised field is enough

The shape of `MetadataEndpoint.init()` as it was before `fixes/C17-1.patch`: `Execute` of the prototype writes a
slot the variant shares. -/

def lazyD : Desc Nat Unit := ⟨fun _ _ => false, fun _ _ _ _ => none⟩

def lazy₀ : Config Nat Unit :=
  ⟨⟨[0], [⟨"jwt", [("r", 0)]⟩, ⟨"jwt", [("r", 0)]⟩], [none, none]⟩,
   fun i => if i = 0 then ⟨0, [.wr "r"], [.wr "r"], [], .run⟩ else ⟨1, [.rd "r"], [.rd "r"], [], .run⟩⟩

/-- with an in-place write: executing object 0 changes object 1, and the two executions race -/
theorem c17_in_place_write_breaks_it :
    Initial lazy₀ ∧ Conflict lazy₀ 0 1 ∧
    ∃ c, Reach lazyD lazy₀ c ∧ c.store.view 1 ≠ lazy₀.store.view 1 := by
  refine ⟨⟨⟨by decide, rfl⟩, by decide, ?_⟩, ?_, ?_⟩
  · intro i
    by_cases h : i = 0
    · simp [lazy₀, h]
    · simp [lazy₀, h]
  · exact ⟨by decide, "r", [], ⟨"jwt", [("r", 0)]⟩, 0, rfl, rfl, rfl, rfl⟩
  · refine ⟨_, Reach.single (Step.wr lazy₀ 0 "r" [] ⟨"jwt", [("r", 0)]⟩ 0 1 rfl rfl rfl), ?_⟩
    decide

/-! ## The heimdall instance: what a rule-level `config` does, field by field

The specification (`Spec/Overlay.lean: observed`, `MechTypes.lean: specRule`): the rule's own setting **always**
wins.  The code tells "set" from "not set" by a nil pointer for some fields and by the zero value for the others;
for the latter a rule cannot set the zero value (known finding `C17-zero-override`): the theorems below are
stated where the setting is `Expressible`, the witness shows the failure outside. -/

/-- a field that can be overridden shows the rule's own setting if the rule has one, the catalogue's otherwise —
provided the code can tell the setting from "not set" -/
theorem c17_overridable_field_shows_own_setting_partial (key : Key) (zeroOk : Bool) (cat : Entries)
    (ov : Override) (hx : sets ov key → Expressible ov key zeroOk) :
    (applyRule (.over key zeroOk) cat ov).getD cat = observed key cat ov := by
  have hany : ((entriesOf ov.entries [key]).any (fun e => !isZero e.2) = true) ↔
      ∃ e ∈ entriesOf ov.entries [key], isZero e.2 = false := by
    rw [List.any_eq_true]
    constructor
    · rintro ⟨x, hx, hx'⟩; exact ⟨x, hx, by simpa using hx'⟩
    · rintro ⟨x, hx, hx'⟩; exact ⟨x, hx, by simp [hx']⟩
  by_cases hs : sets ov key
  · have he : (entriesOf ov.entries [key]).isEmpty = false := by
      cases h : entriesOf ov.entries [key] with
      | nil => exact absurd h hs
      | cons _ _ => rfl
    have hz : (zeroOk || (entriesOf ov.entries [key]).any fun e => !isZero e.2) = true := by
      rcases hx hs with h1 | h1
      · simp [h1]
      · simp [hany.mpr h1]
    simp [applyRule, observed, hs, he, hz]
  · have he : (entriesOf ov.entries [key]).isEmpty = true := by
      unfold sets at hs
      simpa using hs
    simp [applyRule, observed, hs, he]

example : sets ⟨["forward_headers"], [(("forward_headers", ""), "[\"X-User\"]")], true⟩ ("forward_headers", "") ∧
    Expressible ⟨["forward_headers"], [(("forward_headers", ""), "[\"X-User\"]")], true⟩ ("forward_headers", "") false :=
  ⟨by decide +kernel, Or.inr ⟨(("forward_headers", ""), "[\"X-User\"]"), by decide +kernel, by decide +kernel⟩⟩

/-- **known finding `C17-zero-override`** — outside that hypothesis the property fails: a rule that sets
`forward_headers: []` for a contextualizer whose catalogue entry forwards `X-A` still forwards `X-A`
(`forward_headers`, `forward_cookies`, `payload`, `claims`, `user_id`, `password`, `assertions.issuers | audience |
allowed_algorithms | validity_leeway`, `expressions` and `forward_response_headers_to_upstream` of the remote
authorizer, `header.scheme` of the client credentials finalizer behave alike) -/
theorem c17_zero_override_is_not_observed :
    (heimdall.replace "genericContextualizer" "fwdHeaders" [(("forward_headers", ""), "[\"X-A\"]")]
      ⟨["forward_headers"], [(("forward_headers", ""), "[]")], true⟩).getD [(("forward_headers", ""), "[\"X-A\"]")] ≠
    observed ("forward_headers", "") [(("forward_headers", ""), "[\"X-A\"]")]
      ⟨["forward_headers"], [(("forward_headers", ""), "[]")], true⟩ := by decide +kernel

/-- where the code can tell the rule's setting from "not set", the model's rule is the specification's rule: the
bug-compatible table and the "own setting always wins" table agree on the field -/
theorem c17_rule_is_spec_where_expressible (rule : Rule) (old : Entries) (ov : Override)
    (h : ∀ key, rule = .over key false →
      (entriesOf ov.entries [key]).isEmpty = true ∨ (entriesOf ov.entries [key]).any (fun e => !isZero e.2) = true) :
    applyRule rule old ov = applyRule (specRule rule) old ov :=
  applyRule_spec rule old ov h

/-- a field that is never overridden shows the catalogue's value -/
theorem c17_fixed_field_shows_catalogue (cat : Entries) (ov : Override) : (applyRule .keep cat ov).getD cat = cat := rfl

/-- `values`: entry by entry the rule's own entry if there is one, the catalogue's otherwise -/
theorem c17_merged_field_is_entrywise_overlay (key : Key) (cat : Entries) (ov : Override) (k : Key) :
    lookupFirst ((applyRule (.merge key) cat ov).getD cat) k =
      (lookupLast (entriesOf ov.entries [key]) k).orElse fun _ => lookupFirst cat k := by
  simp only [applyRule]
  generalize entriesOf ov.entries [key] = x
  cases x with
  | nil => simp [lookupLast]
  | cons e es => simpa using lookupFirst_mergeEntries cat (e :: es) k

/-- any catalogue, loaded by `load` (what the driver does), is the start of a run: closed, all prototypes -/
theorem c17_loaded_catalogue_is_initial (cat : List (TypeD × String × Entries))
    (threads : Nat → Thread Entries Override)
    (hf : ∀ i, (threads i).seen = [] ∧ (threads i).ops = (threads i).prog ∧
      ((threads i).phase = .run ∨ ∃ ov, (threads i).phase = .create ov)) :
    Initial ⟨cat.foldl (fun σ c => load σ c.1 c.2.1 c.2.2) emptyStore, threads⟩ :=
  ⟨(loadAll_closed cat emptyStore emptyStore_closed.1 emptyStore_closed.2).1,
   (loadAll_closed cat emptyStore emptyStore_closed.1 emptyStore_closed.2).2, hf⟩

/-- what the factory hands out for a catalogue entry is the prototype itself … -/
theorem c17_factory_prototype_is_the_catalogue_entry (σ : Store Entries Override) (p h : Nat) (ov : Option Override)
    (hc : create σ (some p) ov = .proto h) : h = p := by
  unfold create at hc
  cases hd : decision σ (some p) ov with
  | notFound => rw [hd] at hc; cases hc
  | configError => rw [hd] at hc; cases hc
  | build p' o => rw [hd] at hc; simp only at hc; split at hc <;> cases hc
  | proto h' =>
    rw [hd] at hc
    cases hc
    unfold decision at hd
    cases ov with
    | none => cases hd; rfl
    | some o =>
      simp only at hd
      split at hd
      · cases hd
      · split at hd
        · cases hd; rfl
        · split at hd
          · cases hd; rfl
          · cases hd
        · split at hd
          · cases hd; rfl
          · split at hd <;> cases hd
        · split at hd <;> cases hd

/-- … or the result of `withConfig` on the heimdall table (a run of the machine by
`c17_uninterrupted_withConfig_is_a_run`), for an accepted, non-empty `config` -/
theorem c17_factory_variant_is_withConfig (σ σ' : Store Entries Override) (p h : Nat) (ov : Option Override)
    (hc : create σ (some p) ov = .variant σ' h) :
    ∃ p' o, decision σ (some p) ov = .build p' o ∧ withConfig heimdall σ p' o = some (σ', h) := by
  unfold create at hc
  cases hd : decision σ (some p) ov with
  | notFound => rw [hd] at hc; cases hc
  | configError => rw [hd] at hc; cases hc
  | proto h' => rw [hd] at hc; cases hc
  | build p' o =>
    rw [hd] at hc
    simp only at hc
    refine ⟨p', o, rfl, ?_⟩
    split at hc
    · rename_i hw; cases hc; exact hw
    · cases hc

/-- a `config` whose values the decoder or validator rejects never creates anything -/
theorem c17_rejected_values_create_nothing (σ : Store Entries Override) (p : Option Nat) (ov : Override)
    (hv : ov.valuesOk = false) : ∀ σ' h, create σ p (some ov) ≠ .variant σ' h := by
  intro σ' h hc
  unfold create at hc
  cases hd : decision σ p (some ov) with
  | notFound => rw [hd] at hc; cases hc
  | configError => rw [hd] at hc; cases hc
  | proto h' => rw [hd] at hc; cases hc
  | build p' o =>
    unfold decision at hd
    cases p with
    | none => cases hd
    | some p =>
      simp only at hd
      split at hd
      · cases hd
      · split at hd
        · cases hd
        · split at hd <;> cases hd
        · split at hd
          · cases hd
          · split at hd
            · cases hd
            · rename_i hval
              simp [Override.valid, hv] at hval
        · split at hd
          · cases hd
          · rename_i hval
            simp [Override.valid, hv] at hval

/-- **creation end to end** (what the driver's `create` computes and sends to the implementation side as the
effective configuration): on a closed store the new object stands for the prototype's view overlaid with the
rule's `config` by the heimdall table, and every object that existed before stands for what it stood for -/
theorem c17_create_end_to_end (σ σ' : Store Entries Override) (p h : Nat) (ov : Option Override) (hcl : Closed σ)
    (hc : create σ (some p) ov = .variant σ' h) :
    ∃ p' o inst, decision σ (some p) ov = .build p' o ∧ σ.insts[p']? = some inst ∧
      effective σ' h = effOfView (overlayView heimdall inst.typ o (viewOf σ.cells inst.slots)) ∧
      (∀ k i, σ.insts[k]? = some i → effective σ' k = effective σ k) ∧ Closed σ' := by
  rcases c17_factory_variant_is_withConfig σ σ' p h ov hc with ⟨p', o, hd, hw⟩
  rcases withConfig_view heimdall σ σ' p' h o hcl hw with ⟨inst, hi, _, hv, hold, hcl'⟩
  refine ⟨p', o, inst, hd, hi, by simp [effective, hv], ?_, hcl'⟩
  intro k i hk
  simp [effective, hold k i hk]

/-- witnesses of the two ways the code tells "set" from "not set": `cache_ttl: 0s` on the rule level is observed
(the fields are decoded into pointers), an empty `payload` template is not (nil check) -/
theorem c17_zero_values_on_the_rule_level :
    heimdall.replace "remoteAuthorizer" "ttl" [(("cache_ttl", ""), "\"5s\"")]
      ⟨["cache_ttl"], [(("cache_ttl", ""), "\"0s\"")], true⟩ = some [(("cache_ttl", ""), "\"0s\"")] ∧
    heimdall.replace "genericContextualizer" "ttl" [(("cache_ttl", ""), "\"5s\"")]
      ⟨["cache_ttl"], [(("cache_ttl", ""), "\"0s\"")], true⟩ = some [(("cache_ttl", ""), "\"0s\"")] ∧
    heimdall.replace "genericContextualizer" "payload" [(("payload", ""), "\"x\"")]
      ⟨["payload"], [(("payload", ""), "\"\"")], true⟩ = none ∧
    heimdallSpec.replace "genericContextualizer" "payload" [(("payload", ""), "\"x\"")]
      ⟨["payload"], [(("payload", ""), "\"\"")], true⟩ = some [(("payload", ""), "\"\"")] := by decide +kernel

/-! ## Histories of creations on one factory: every rule gets the catalogue entry overlaid with ITS OWN config

`mechanismsFactory.Create…` keeps nothing between two calls.  Rule-level configs are typed values in this model
(an entry is the canonical JSON text of the value): `"1"` and `1`, `"[a b]"` and `["a","b"]`, `{X-A: "1 X-B:2"}` and
`{X-A: "1", X-B: "2"}` are different overrides however alike they print. -/

/-- **Regardless of which rules were loaded before.**  In every history of `Create…` calls on one factory (any
requests before and after, for the same or other catalogue entries, accepted or refused), the answer to a request
for a catalogue entry — refused / the prototype / a variant — and the configuration the object handed out stands
for at the end of the history are those of the same request put to a factory that has seen nothing else: the
catalogue entry overlaid with the request's own `config` (`c17_create_end_to_end`). -/
theorem c17_history_of_creations_is_local (σ₀ : Store Entries Override) (hcl : Closed σ₀)
    (pre post : List CreateReq) (p : Option Nat) (ov : Option Override)
    (hp : ∀ q, p = some q → ∃ i : Inst, σ₀.insts[q]? = some i) :
    ((createSeq σ₀ (pre ++ (p, ov) :: post)).2[pre.length]?).map
        (Handed.observed (createSeq σ₀ (pre ++ (p, ov) :: post)).1) =
      some (createAlone σ₀ (p, ov)) :=
  createSeq_kth pre σ₀ σ₀ (Extends.refl hcl) hcl post p ov hp

/-- a catalogue with one anonymous authenticator (subject `anon`) and one header finalizer -/
def lookEntries : List (TypeD × String × Entries) :=
  match typeByName "authenticator" "anonymous", typeByName "finalizer" "header" with
  | some a, some h => [(a, "a", [(("subject", ""), "\"anon\"")]), (h, "h", [(("headers", ""), "{\"X-User\":\"u\"}")])]
  | _, _ => []

def lookCat : Store Entries Override := lookEntries.foldl (fun σ c => load σ c.1 c.2.1 c.2.2) emptyStore

/-- `subject: "1"`, `subject: 1` (refused by the decoder: not a string), one header `X-A: 1 X-B:2`, two headers -/
def ovStr : Override := ⟨["subject"], [(("subject", ""), "\"1\"")], true⟩
def ovNum : Override := ⟨["subject"], [(("subject", ""), "1")], false⟩
def ovOne : Override := ⟨["headers"], [(("headers", ""), "{\"X-A\":\"1 X-B:2\"}")], true⟩
def ovTwo : Override := ⟨["headers"], [(("headers", ""), "{\"X-A\":\"1\",\"X-B\":\"2\"}")], true⟩

/-- the history of the theorem's hypothesis, with look-alike overrides: every answer is the answer alone -/
example : Closed lookCat := (loadAll_closed lookEntries emptyStore emptyStore_closed.1 emptyStore_closed.2).1

example : lookCat.insts.length = 2 ∧
    (createSeq lookCat [(some 0, some ovStr), (some 0, some ovNum), (some 1, some ovOne), (some 1, some ovTwo)]).2 =
      [.variant 2, .configError, .variant 3, .variant 4] ∧
    createAlone lookCat (some 0, some ovNum) = .configError ∧
    createAlone lookCat (some 1, some ovTwo) = .shows false [(("headers", ""), "{\"X-A\":\"1\",\"X-B\":\"2\"}")] ∧
    createAlone lookCat (some 1, some ovOne) = .shows false [(("headers", ""), "{\"X-A\":\"1 X-B:2\"}")] := by
  decide +kernel

/-- what `%v` shows of a config: the texts without their quotes (a key that is not injective) -/
def printed (ov : Override) : List (Key × String) :=
  ov.entries.map fun e => (e.1, match e.2 with
    | "\"1\"" => "1"
    | "{\"X-A\":\"1 X-B:2\"}" => "map[X-A:1 X-B:2]"
    | "{\"X-A\":\"1\",\"X-B\":\"2\"}" => "map[X-A:1 X-B:2]"
    | s => s)

/-- **A memo keyed by the printed config breaks it** (the seeded defects): the rule with `subject: 1` is handed
the variant of the rule with `subject: "1"` instead of being refused, and the rule that sets two headers is handed
the finalizer of the rule that sets one — the answers are no longer those of the requests alone -/
example : printed ovStr = printed ovNum ∧ ovStr ≠ ovNum ∧ printed ovOne = printed ovTwo ∧ ovOne ≠ ovTwo ∧
    (memoSeq printed lookCat [] [(some 0, some ovStr), (some 0, some ovNum), (some 1, some ovOne), (some 1, some ovTwo)]).2 =
      [.variant 2, .variant 2, .variant 3, .variant 3] ∧
    ((memoSeq printed lookCat [] [(some 1, some ovOne), (some 1, some ovTwo)]).2[1]?).map
        (Handed.observed (memoSeq printed lookCat [] [(some 1, some ovOne), (some 1, some ovTwo)]).1) ≠
      some (createAlone lookCat (some 1, some ovTwo)) := by
  decide +kernel

/-! ## Templates are values: what an object renders depends on its own template text only

The template texts of a mechanism (payload, values, headers, cookies, claims, `to`, endpoint headers) are entries of
its configuration.  `runHist` interleaves `Create…` calls with executions of the objects handed out so far; what an
execution renders is `ρ (configuration the object stands for at that moment) inputs`, for ANY function `ρ` — there is
nothing else a rendering could depend on in the model: no table of named templates outside the template, no memo. -/

/-- **Each object renders exactly its own template text, whatever else was created before or after.**  In every
history of creations and executions on one factory (any requests, for this or other catalogue entries, accepted or
refused, executions of any objects in between), the record of an execution of the k-th object handed out is what the
k-th request renders when it is the only request the factory ever sees: `ρ` of the catalogue entry overlaid with the
request's own `config` (`createAlone`, `c17_create_end_to_end`) and of the inputs. -/
theorem c17_rendering_depends_on_own_template_only {Inp Out : Type} (ρ : Entries → Inp → Out)
    (σ₀ : Store Entries Override) (hcl : Closed σ₀) (pre post : List (HEv Inp)) (k : Nat) (inp : Inp)
    (hcat : ∀ r ∈ reqsOf pre, ∀ q, r.1 = some q → ∃ i : Inst, σ₀.insts[q]? = some i) :
    (runHist ρ σ₀ [] (pre ++ .exec k inp :: post))[(execsOf pre).length]? =
      some (k, inp, ((reqsOf pre)[k]?).bind fun r => aloneOut ρ σ₀ r inp) := by
  have h := runHist_kth ρ σ₀ hcl pre σ₀ [] [] (Extends.refl hcl) (Answers.nil σ₀ σ₀) hcat post k inp
  simpa using h

/-- the hypothesis at a history over `lookCat` (both header overrides, executions of every earlier object after each
creation, `ρ` = the configuration itself): every record is the object's own configuration -/
example : ((reqsOf (Inp := Nat) [.create (some 1, some ovOne), .exec 0 7, .create (some 1, some ovTwo), .exec 0 7]).all
      fun r => match r.1 with
        | some q => (lookCat.insts[q]?).isSome
        | none => true) = true ∧
    (runHist (fun eff (_ : Nat) => eff) lookCat []
      [.create (some 1, some ovOne), .exec 0 7, .create (some 1, some ovTwo), .exec 0 7, .exec 1 7, .exec 2 7]).map
        (fun x => (x.1, x.2.2)) =
      [(0, some [(("headers", ""), "{\"X-A\":\"1 X-B:2\"}")]), (0, some [(("headers", ""), "{\"X-A\":\"1 X-B:2\"}")]),
       (1, some [(("headers", ""), "{\"X-A\":\"1\",\"X-B\":\"2\"}")]), (2, none)] := by
  decide +kernel

/-- **The template package: every template has its own set of named templates.**  In every process that creates
templates (any texts, declaring any named templates under any names) and renders them in any order, the rendering
of the k-th template is `renderOwn` of its own source — the output of the process that creates this one template
and renders it. -/
theorem c17_template_renders_with_own_definitions (objs : List Tpl.Src) (pre post : List Tpl.TEv) (k : Nat)
    (inp : Tpl.Inputs) :
    (Tpl.runOwn objs (pre ++ .render k inp :: post))[(Tpl.rendersOf pre).length]? =
      some (((objs ++ Tpl.newsOf pre)[k]?).bind fun s => Tpl.renderOwn s inp) ∧
    ∀ src, Tpl.runOwn [] [.new src, .render 0 inp] = [Tpl.renderOwn src inp] :=
  ⟨Tpl.runOwn_kth pre objs post k inp, fun _ => rfl⟩

/-- `{{ define "scope" }}read{{ end }}{{ template "scope" . }}` and the same with `admin`: the catalogue prototype
and a rule-level override that name their template alike -/
def tplRead : Tpl.Src := [.define "scope" [.lit "read"], .atom (.use "scope")]
def tplAdmin : Tpl.Src := [.define "scope" [.lit "admin"], .atom (.use "scope")]
/-- a template that uses a name it does not define -/
def tplUse : Tpl.Src := [.atom (.lit "s="), .atom (.use "scope")]

/-- the sources are what `parse` reads off the texts -/
example : Tpl.parse "{{ define \"scope\" }}read{{ end }}{{ template \"scope\" . }}" = some tplRead ∧
    Tpl.parse "{{define \"scope\"}}admin{{end}}{{template \"scope\"}}" = some tplAdmin ∧
    Tpl.parse "s={{ template \"scope\" . }}" = some tplUse ∧
    Tpl.parse "{{ block \"b\" . }}x{{ .Subject.ID }}{{ end }}" = some [.block "b" [.lit "x", .field "Subject.ID"]] ∧
    Tpl.parse "{{ define \"a\" }}1{{ end }}{{ define \"a\" }}2{{ end }}" = none ∧
    Tpl.parse "{{ quote .Subject.ID }}" = none := by decide +kernel

/-- own tables: the prototype renders `read` before and after the override was created, the override `admin`, and
a template that only uses the name fails — whatever else the process has defined -/
example : Tpl.runOwn [] [.new tplRead, .render 0 (fun _ => ""), .new tplAdmin, .new tplUse, .render 0 (fun _ => ""),
      .render 1 (fun _ => ""), .render 2 (fun _ => "")] =
    [some ["read"], some ["read"], some ["admin"], none] := by decide +kernel

/-- **One table of named templates shared by all templates of the process breaks it** (the seeded defect: all
templates derived from one base template; the definition parsed last wins): after the override has been created the
prototype renders `admin`, in the other creation order the override renders `read`, and the template that only uses the
name renders whatever was defined last instead of failing — none of them is the rendering of the object alone -/
example :
    Tpl.runShared [] [] [.new tplRead, .render 0 (fun _ => ""), .new tplAdmin, .new tplUse, .render 0 (fun _ => ""),
      .render 1 (fun _ => ""), .render 2 (fun _ => "")] =
      [some ["read"], some ["admin"], some ["admin"], some ["s=", "admin"]] ∧
    (Tpl.runShared [] [] [.new tplAdmin, .new tplRead, .render 0 (fun _ => "")])[0]? ≠
      (Tpl.runOwn [] [.new tplAdmin, .render 0 (fun _ => "")])[0]? ∧
    (Tpl.runShared [] [] [.new tplRead, .new tplAdmin, .render 0 (fun _ => "")])[0]? ≠
      some (Tpl.renderOwn tplRead (fun _ => "")) := by decide +kernel

/-- … and it stays invisible as long as no template declares a named template (why the ordinary templates of the
stream, and the tests of the repository, cannot see such a change): then the shared table and own tables agree on every
history -/
theorem c17_shared_table_invisible_without_definitions (evs : List Tpl.TEv)
    (hn : ∀ s ∈ Tpl.newsOf evs, Tpl.defsOf s = []) : Tpl.runShared [] [] evs = Tpl.runOwn [] evs :=
  Tpl.runShared_eq_runOwn_of_no_defs evs [] (fun _ h => by cases h) hn

example : ∀ s ∈ Tpl.newsOf [.new [.atom (.lit "a"), .atom (.field "Subject.ID")], .render 0 (fun _ => "u")],
    Tpl.defsOf s = [] := by decide +kernel

/-! ## Executions leave something behind — in the object's own corner only

An execution may have an effect that later executions see: the result a mechanism keeps for `cache_ttl`, the response
its endpoint's HTTP cache layer keeps for `http_cache.default_ttl`.  `runHistSt` interleaves `Create…` calls with
executions of the objects handed out so far, every object with a state of its own; an execution is
`step (configuration the object stands for at that moment) inputs (the object's state)` for ANY function `step`.  In
the model there is no other state an execution could read or write: no table of HTTP clients per process, no memo. -/

/-- **What an execution does is decided by the object's own configuration and its own earlier executions, whatever
else was created or executed before.**  In every history of creations and executions on one factory (any requests,
for this or other catalogue entries, accepted or refused, executions of any objects in between), the record of an
execution of the k-th object handed out is: the object `x` the k-th call handed out (`objectOf`: the prototype may be
handed out under several numbers) and the outcome of `step` on the configuration the k-th request stands for when it is
the only request the factory ever sees (`aloneEff`: the catalogue entry overlaid with the request's own `config`), in
the state that the earlier executions OF THE SAME OBJECT — with their inputs, in their order — produce from the initial
state when nothing else happens in the process (`stateAlone`). -/
theorem c17_execution_depends_on_own_configuration_and_own_executions {Inp Out S : Type}
    (step : Entries → Inp → S → Out × S) (σ₀ : Store Entries Override) (hcl : Closed σ₀) (s₀ : S)
    (pre post : List (HEv Inp)) (k : Nat) (inp : Inp)
    (hcat : ∀ r ∈ reqsOf pre, ∀ q, r.1 = some q → ∃ i : Inst, σ₀.insts[q]? = some i) :
    (runHistSt step σ₀ [] (fun _ => s₀) (pre ++ .exec k inp :: post))[(execsOf pre).length]? =
      some (k, inp, (objectOf σ₀ (reqsOf pre) k).bind fun x => ((reqsOf pre)[k]?).bind fun r =>
        (aloneEff σ₀ r).map fun e =>
          (x, (step e inp (stateAlone step e s₀ (inputsOf x (runHistSt step σ₀ [] (fun _ => s₀) pre)))).1)) := by
  have h := runHistSt_kth step σ₀ hcl s₀ pre σ₀ [] [] (fun _ => s₀) (fun _ => []) (Extends.refl hcl)
    (Answers.nil σ₀ σ₀) ⟨fun _ => rfl, fun _ hx => absurd rfl hx⟩ hcat post k inp
  simpa [expected, objectOf] using h

/-- the hypothesis at a history over `lookCat`: the prototype of the header finalizer is handed out twice (numbers 0
and 2), a variant in between; `step` counts the executions of the object and shows its configuration.  The prototype
is executed under both numbers: one object, one count; the variant has its own -/
example : ((reqsOf (Inp := Unit) [.create (some 1, none), .create (some 1, some ovTwo), .create (some 1, none)]).all
      fun r => match r.1 with
        | some q => (lookCat.insts[q]?).isSome
        | none => true) = true ∧
    (runHistSt (fun eff (_ : Unit) (n : Nat) => ((eff.length, n), n + 1)) lookCat [] (fun _ => 0)
      [.create (some 1, none), .exec 0 (), .create (some 1, some ovTwo), .exec 1 (), .create (some 1, none), .exec 2 (),
       .exec 1 (), .exec 0 (), .exec 3 ()]).map (fun x => (x.1, x.2.2)) =
      [(0, some (1, 1, 0)), (1, some (2, 1, 0)), (2, some (1, 1, 1)), (1, some (2, 1, 1)), (0, some (1, 1, 2)), (3, none)] := by
  decide +kernel

/-- **The endpoint of a mechanism receives what the object's own settings mean.**  In every process that executes
mechanism objects in any order, each request through an HTTP client built from the settings of the object's own
endpoint (the code: `Endpoint.CreateClient` builds a client per request), the number of requests the upstream sees for
an execution of the k-th object is that of its own n-th execution in a process where nothing else is executed, `n` =
the number of its executions so far. -/
theorem c17_upstream_requests_are_those_of_the_object_alone (objs : List Client.Obj) (pre post : List Nat) (k : Nat) :
    (Client.runOwn objs (fun _ => {}) (pre ++ k :: post))[pre.length]? =
      some ((objs[k]?).map fun o => Client.callsAlone o (pre.filter (· = k)).length) := by
  have h := Client.runOwn_kth objs pre (fun _ => 0) (fun _ => {}) (fun _ _ _ => rfl) post k
  simpa using h

/-- what the own settings mean, closed form: on an upstream that answers, the first execution asks once, and the
second one is answered without asking iff the mechanism keeps its result (`cache_ttl`) or the HTTP cache layer of ITS
endpoint is enabled, the request is a GET without payload and ITS `default_ttl` says for how long to keep a response
without freshness information -/
theorem c17_second_execution_reuses_iff_own_settings (o : Client.Obj) (hb : o.busy = false) :
    Client.callsAlone o 0 = 1 ∧
    (Client.callsAlone o 1 = 0 ↔
      (o.mechTtl = true ∨
        (o.client.cache = true ∧ o.get = true ∧ o.body = false ∧ Client.positive o.client.ttl = true))) ∧
    (Client.callsAlone o 1 = 0 ∨ Client.callsAlone o 1 = 1) := by
  obtain ⟨⟨retry, cache, ttl⟩, peer, get, body, busy, mechTtl⟩ := o
  simp only at hb
  subst hb
  generalize hp : Client.positive ttl = pos
  cases cache <;> cases get <;> cases body <;> cases mechTtl <;> cases pos <;>
    simp [Client.callsAlone, Client.stAfter, Client.exec, Client.execWith, Client.roundTrip, Client.attempts,
      Client.Obj.cacheable, hp]

/-- … and on an upstream that answers 503 to everything every execution asks once, or six times iff ITS endpoint has
`retry` — nothing is kept -/
theorem c17_busy_upstream_sees_own_retry_setting (o : Client.Obj) (hb : o.busy = true) (n : Nat) :
    Client.callsAlone o n = if o.client.retry.isSome then 6 else 1 := by
  simp only [Client.callsAlone, Client.stAfter_busy o hb n, Client.exec, Client.execWith, Client.roundTrip,
    Client.attempts, hb]
  cases o.mechTtl <;> cases o.client.cache <;> cases o.client.retry <;> simp

/-- **A table of clients per process is invisible iff its key says everything a client is built from.**  A process
that files the client it builds under `key (settings, peer)` and uses the client filed first under a key for everybody
who comes later (NOT the code) yields, on every history, the upstream requests of the process with own clients — as
long as two settings filed under one key build clients that do the same. -/
theorem c17_client_memo_invisible_if_key_determines_client {K : Type} [DecidableEq K]
    (key : Client.Settings × String → K) (objs : List Client.Obj)
    (hk : ∀ a b p q, key (a, p) = key (b, q) → ∀ o st, Client.execWith a o st = Client.execWith b o st)
    (st : Nat → Client.St) (evs : List Nat) :
    Client.runMemo key objs [] st evs = Client.runOwn objs st evs :=
  Client.runMemo_eq_runOwn key objs hk evs [] st (fun _ he => by cases he)

/-- the hypothesis holds for the key that is the settings themselves -/
example : ∀ (a b : Client.Settings) (p q : String), (fun x : Client.Settings × String => x.1) (a, p) =
    (fun x : Client.Settings × String => x.1) (b, q) → ∀ o st, Client.execWith a o st = Client.execWith b o st := by
  intro a b p q h o st
  simp only at h
  rw [h]

/-- the demonstration of the seeded defect: two mechanisms on one host, `profile` keeps responses for an hour,
`status` enables the HTTP cache without a default ttl; `patient` retries, `hasty` does not, their upstream is busy -/
def cProfile : Client.Obj := ⟨⟨none, true, "\"1h\""⟩, "SERVER", true, false, false, false⟩
def cStatus : Client.Obj := ⟨⟨none, true, ""⟩, "SERVER", true, false, false, false⟩
def cPatient : Client.Obj := ⟨⟨some "{\"give_up_after\":\"5ms\",\"max_delay\":\"1ms\"}", false, ""⟩, "SERVER", true, false, true, false⟩
def cHasty : Client.Obj := ⟨⟨none, false, ""⟩, "SERVER", true, false, true, false⟩

/-- the hypotheses of the two closed forms at these objects -/
example : cProfile.busy = false ∧ cStatus.busy = false ∧ cPatient.busy = true ∧ cHasty.busy = true ∧
    Client.callsAlone cProfile 1 = 0 ∧ Client.callsAlone cStatus 1 = 1 ∧ Client.callsAlone cPatient 3 = 6 := by
  decide +kernel

/-- own clients: `status` asks every time, `profile` once, in both orders; `patient` six times, `hasty` once -/
example : Client.runOwn [cProfile, cStatus, cPatient, cHasty] (fun _ => {}) [0, 1, 1, 0, 2, 3, 3, 2] =
      [some 1, some 1, some 1, some 0, some 6, some 1, some 1, some 6] ∧
    Client.runOwn [cProfile, cStatus] (fun _ => {}) [1, 0, 0, 1] = [some 1, some 1, some 0, some 1] := by
  decide +kernel

/-- the key of the seeded defect: peer name, retry settings, whether the HTTP cache is enabled — not `default_ttl` -/
def seededKey (x : Client.Settings × String) : String × Option String × Bool := (x.2, x.1.retry, x.1.cache)

/-- **A table of clients keyed without `default_ttl` breaks it** (the seeded defect): after `profile` has been
executed `status` is answered from the cache for an hour, in the other order `profile` never reuses anything — neither
is what the object does alone; and a key that is the peer name only makes `hasty` as patient as `patient` -/
example : seededKey (cProfile.client, "SERVER") = seededKey (cStatus.client, "SERVER") ∧
    Client.runMemo seededKey [cProfile, cStatus] [] (fun _ => {}) [0, 1, 1, 0] = [some 1, some 1, some 0, some 0] ∧
    Client.runMemo seededKey [cProfile, cStatus] [] (fun _ => {}) [1, 0, 0, 1] = [some 1, some 1, some 1, some 1] ∧
    (Client.runMemo seededKey [cProfile, cStatus] [] (fun _ => {}) [0, 1, 1])[2]? ≠
      some (some (Client.callsAlone cStatus 1)) ∧
    Client.runMemo (fun x => x.2) [cPatient, cHasty] [] (fun _ => {}) [0, 1] = [some 6, some 6] := by
  decide +kernel

end Heimdall.Props.C17
