import HeimdallModel.Lemmas.Conc
import HeimdallModel.Lemmas.ConcLive
import HeimdallModel.Lemmas.ConcOwn
import HeimdallModel.Model.RepoProtocol
import HeimdallModel.Gen.RepoProtocol
import HeimdallModel.Model.Repo
/-!
# C07 — rule-set changes are atomic for concurrent requests and never lost

The statements quantify over every reachable configuration of the machine of `Model/Conc.lean`: any number of
concurrently running writers (`AddRuleSet` / `UpdateRuleSet` / `DeleteRuleSet`) and readers (`FindRule`), every
interleaving of their steps.  The machine runs the locking protocol that `/verif/extract/proto` reads off the
current `internal/rules/repository_impl.go` (`Gen/RepoProtocol.lean`, regenerated on every run): the first group
of theorems are the obligations tying the two together.
-/
namespace Heimdall.Props.C07
open Heimdall Heimdall.Conc

/-! ## The tie: the source runs the protocol the machine runs -/

theorem c07_protocol_add : canon (lookupMethod Gen.repoProtocol "AddRuleSet") = writerProtocol := by decide
theorem c07_protocol_update : canon (lookupMethod Gen.repoProtocol "UpdateRuleSet") = writerProtocol := by decide
theorem c07_protocol_delete : canon (lookupMethod Gen.repoProtocol "DeleteRuleSet") = writerProtocol := by decide
theorem c07_protocol_find : canonReader (lookupMethod Gen.repoProtocol "FindRule") = readerProtocol := by decide
theorem c07_protocol_mutexes : Gen.repoProtocolMutexes = ["$K", "$T"] := by decide
/-- no other exported method of the repository, no helper referenced from elsewhere and no function of the package
touches the shared state: the four methods above are the only way to it -/
theorem c07_protocol_no_foreign_access : Gen.repoProtocolForeign = [] := by decide

/-- the transitions of the machine, read as source-level events, are that protocol -/
theorem c07_edges_are_protocol : edgesAsProtocol = writerProtocol ∧ readerEdgesAsProtocol = readerProtocol := by
  decide

/-- every step moves the stepping writer along an edge of `writerEdges`, keeps its operation, and leaves every
other thread alone -/
theorem c07_step_follows_edges {K T Op Req Ans : Type} (s : Seq K T Op Req Ans) (c c' : Config K T Op Req Ans)
    (h : Step s c c') (i : Nat) (op : Op) (pc : WPc) (loc : K × T) (hi : c.threads i = .writer op pc loc) :
    ∃ pc' loc', c'.threads i = .writer op pc' loc' ∧ (pc' = pc ∨ ∃ ev, (pc, ev, pc') ∈ writerEdges) := by
  have key : ∀ (j : Nat) (t : Thread K T Op Req Ans), j ≠ i →
      ∃ pc' loc', upd c.threads j t i = .writer op pc' loc' ∧ (pc' = pc ∨ ∃ ev, (pc, ev, pc') ∈ writerEdges) := by
    intro j t hj
    exact ⟨pc, loc, by rw [upd_other _ _ _ _ (Ne.symm hj), hi], Or.inl rfl⟩
  cases h with
  | wLock j op' loc' h free =>
    by_cases e : j = i
    · subst e; rw [hi] at h; cases h
      exact ⟨_, _, upd_same _ _ _, Or.inr ⟨AEv.lockK, by decide⟩⟩
    · exact key j _ e
  | wReadKnown j op' loc' h hl =>
    by_cases e : j = i
    · subst e; rw [hi] at h; cases h
      exact ⟨_, _, upd_same _ _ _, Or.inr ⟨AEv.readKnown, by decide⟩⟩
    · exact key j _ e
  | wClone j op' loc' h hl =>
    by_cases e : j = i
    · subst e; rw [hi] at h; cases h
      exact ⟨_, _, upd_same _ _ _, Or.inr ⟨AEv.cloneIndex, by decide⟩⟩
    · exact key j _ e
  | wComputeOk j op' loc' st' h hl ha =>
    by_cases e : j = i
    · subst e; rw [hi] at h; cases h
      exact ⟨_, _, upd_same _ _ _, Or.inr ⟨AEv.compute, by decide⟩⟩
    · exact key j _ e
  | wComputeErr j op' loc' h hl ha =>
    by_cases e : j = i
    · subst e; rw [hi] at h; cases h
      exact ⟨_, _, upd_same _ _ _, Or.inr ⟨AEv.returnErr, by decide⟩⟩
    · exact key j _ e
  | wFail j op' loc' h hl =>
    by_cases e : j = i
    · subst e; rw [hi] at h; cases h
      exact ⟨_, _, upd_same _ _ _, Or.inr ⟨AEv.unlockK, by decide⟩⟩
    · exact key j _ e
  | wKnown j op' st' h hl =>
    by_cases e : j = i
    · subst e; rw [hi] at h; cases h
      exact ⟨_, _, upd_same _ _ _, Or.inr ⟨AEv.writeKnown, by decide⟩⟩
    · exact key j _ e
  | wRWLock j op' st' h free nor =>
    by_cases e : j = i
    · subst e; rw [hi] at h; cases h
      exact ⟨_, _, upd_same _ _ _, Or.inr ⟨AEv.lockT, by decide⟩⟩
    · exact key j _ e
  | wIndex j op' st' h hl =>
    by_cases e : j = i
    · subst e; rw [hi] at h; cases h
      exact ⟨_, _, upd_same _ _ _, Or.inr ⟨AEv.writeIndex, by decide⟩⟩
    · exact key j _ e
  | wRWUnlock j op' st' h hl =>
    by_cases e : j = i
    · subst e; rw [hi] at h; cases h
      exact ⟨_, _, upd_same _ _ _, Or.inr ⟨AEv.unlockT, by decide⟩⟩
    · exact key j _ e
  | wUnlock j op' st' h hl =>
    by_cases e : j = i
    · subst e; rw [hi] at h; cases h
      exact ⟨_, _, upd_same _ _ _, Or.inr ⟨AEv.unlockK, by decide⟩⟩
    · exact key j _ e
  | rLock j rq h free =>
    by_cases e : j = i
    · subst e; rw [hi] at h; cases h
    · exact key j _ e
  | rSearch j rq st h =>
    by_cases e : j = i
    · subst e; rw [hi] at h; cases h
    · exact key j _ e
  | rUnlock j rq a st n h =>
    by_cases e : j = i
    · subst e; rw [hi] at h; cases h
    · exact key j _ e

/-! ## Atomic snapshots and no lost updates, for every interleaving -/

variable {K T Op Req Ans : Type} (s : Seq K T Op Req Ans)

/-- **Atomic snapshot.** Whatever a concurrent lookup answers is the answer of the sequential lookup in the index
reached by a *prefix of the commit order*: complete changes only, never a partially applied one; and that prefix
contains every change that was committed before the lookup took the read lock. -/
theorem c07_snapshot (c : Config K T Op Req Ans) (hr : Reachable s c) (j : Nat) (rq : Req) (pc : RPc) (a : Ans)
    (start n : Nat) (h : c.threads j = .reader rq pc (some a) start n) :
    start ≤ n ∧ n ≤ c.log.length ∧ a = s.look (run s (c.log.take n)).2 rq :=
  (inv_reachable s c hr).answers j rq pc a start n h

/-- **The published index is the sequential result of the committed changes**, in commit order: no change is lost
or half overwritten, whatever the interleaving of writers from different providers. -/
theorem c07_index_sequential (c : Config K T Op Req Ans) (hr : Reachable s c) :
    c.index = (run s c.log).2 ∧ (c.wlock = none → (c.known, c.index) = run s c.log) :=
  ⟨(inv_reachable s c hr).index, (inv_reachable s c hr).free⟩

/-- **Writers exclude each other** for the whole read-compute-publish section: a writer that is between taking and
releasing `knownRulesMutex` is the holder of that mutex. -/
theorem c07_writers_exclusive (c : Config K T Op Req Ans) (hr : Reachable s c) (i j : Nat)
    (hi : inCS (c.threads i)) (hj : inCS (c.threads j)) : i = j := by
  have h1 := holder_of_inCS s c (inv_reachable s c hr) i hi
  have h2 := holder_of_inCS s c (inv_reachable s c hr) j hj
  rw [h1] at h2; exact Option.some.inj h2

/-- **The holder computes on the current state**: the change a writer is about to publish is the sequential
application of its operation to the state after all changes committed so far (no lost update). -/
theorem c07_no_lost_update (c : Config K T Op Req Ans) (hr : Reachable s c) (i : Nat) (op : Op) (st' : K × T)
    (h : c.threads i = .writer op .rwHeld st') : s.apply (run s c.log) op = some st' := by
  have hinv := inv_reachable s c hr
  have hl := holder_of_inCS s c hinv i (by rw [h]; simp [inCS])
  have := hinv.held i hl
  rw [h] at this
  exact this.2.2

/-- **A rejection is justified by the sequential semantics**: a writer that is about to report failure computed on
the state after all changes committed so far, and the sequential repository rejects its operation in that state —
no change is refused because of a stale or half-updated view. -/
theorem c07_rejection_justified (c : Config K T Op Req Ans) (hr : Reachable s c) (i : Nat) (op : Op) (loc : K × T)
    (h : c.threads i = .writer op .failed loc) :
    s.apply (run s c.log) op = none ∧ (c.known, c.index) = run s c.log := by
  have hinv := inv_reachable s c hr
  have hl := holder_of_inCS s c hinv i (by rw [h]; simp [inCS])
  have := hinv.held i hl
  rw [h] at this
  exact ⟨this.2, this.1⟩

/-- **No conflicting access to the shared state** (the model-level content of "no data race"): a writer inside the
section in which the known rules and the pointer to the index are read and written is the only such writer, and the
pointer is swapped only while no lookup is inside its read section. -/
theorem c07_no_conflicting_access (c : Config K T Op Req Ans) (hr : Reachable s c) (i j : Nat) :
    (inCS (c.threads i) → inCS (c.threads j) → i = j) ∧
      (rwHolder (c.threads i) → ¬ activeReader (c.threads j)) := by
  refine ⟨fun hi hj => ?_, fun hi hj => ?_⟩
  · have h1 := holder_of_inCS s c (inv_reachable s c hr) i hi
    have h2 := holder_of_inCS s c (inv_reachable s c hr) j hj
    rw [h1] at h2; exact Option.some.inj h2
  · have hl := linv_reachable s c hr
    have h1 := (hl.rww_iff i).mpr hi
    have h2 := hl.rw_excl (by rw [h1]; simp)
    have h3 := (hl.rd_mem j).mpr hj
    rw [h2] at h3; cases h3

/-- **No change is lost, none is applied twice.** The commit log consists of exactly the operations of the writers
that have published their change, each once, in commit order (`owners` lists the committing threads without
repetition; a thread is listed iff it got as far as publishing; the k-th log entry is the operation of the k-th
owner) — together with `c07_index_sequential`: the published index is the sequential result of all of them. -/
theorem c07_every_change_exactly_once (c : Config K T Op Req Ans) (hr : Reachable s c) :
    c.owners.Nodup ∧ (∀ j, j ∈ c.owners ↔ committed (c.threads j)) ∧
      c.owners.map (fun j => opOf (c.threads j)) = c.log.map some :=
  ⟨(oinv_reachable s c hr).nodup, (oinv_reachable s c hr).mem, (oinv_reachable s c hr).ops⟩

/-- **Deadlock freedom.** In every reachable configuration in which some thread (writer or reader) has not finished,
some thread can take a step: no interleaving of requests and changes gets stuck. -/
theorem c07_deadlock_free (c : Config K T Op Req Ans) (hr : Reachable s c) (i : Nat)
    (hnf : ¬ finished (c.threads i)) : ∃ c', Step s c c' :=
  progress s c (inv_reachable s c hr) (linv_reachable s c hr) i hnf

/-- **Readers and the publishing writer exclude each other**: while a writer holds `rulesTreeMutex` no lookup is
inside its read section, so a lookup never observes the pointer swap half-way. -/
theorem c07_swap_excludes_readers (c : Config K T Op Req Ans) (hr : Reachable s c) (i j : Nat)
    (hi : rwHolder (c.threads i)) (hj : activeReader (c.threads j)) : False := by
  have hl := linv_reachable s c hr
  have h1 := (hl.rww_iff i).mpr hi
  have h2 := hl.rw_excl (by rw [h1]; simp)
  have h3 := (hl.rd_mem j).mpr hj
  rw [h2] at h3; cases h3

/-! ## Instantiation with the repository model of C06 -/

/-- the sequential semantics the machine is instantiated with: `Repo.apply` and `Repo.serve` -/
def repoSeq : Seq (List Rule) (Table RVal) RepoOp (Bool × ReqView) Served where
  apply st op := ((⟨st.1, st.2⟩ : Repo).apply op).map (fun r => (r.known, r.index))
  look t rq := (⟨[], t⟩ : Repo).serve rq.1 rq.2
  init := ([], [])

theorem run_repoSeq (ops : List RepoOp) : run repoSeq ops = ((Repo.run ops).known, (Repo.run ops).index) := by
  unfold run Repo.run
  suffices ∀ (r : Repo), List.foldl (fun st o => (repoSeq.apply st o).getD st) (r.known, r.index) ops =
      ((ops.foldl Repo.step r).known, (ops.foldl Repo.step r).index) from this Repo.empty
  induction ops with
  | nil => intro r; rfl
  | cons op rest ih =>
    intro r
    simp only [List.foldl_cons]
    have : (repoSeq.apply (r.known, r.index) op).getD (r.known, r.index) =
        ((r.step op).known, (r.step op).index) := by
      unfold Repo.step repoSeq
      simp only
      cases r.apply op <;> rfl
    rw [this]
    exact ih (r.step op)

/-- **C07 for the repository**: every answer given to a concurrent request is what the *sequential* repository
(the model of C06) answers after some prefix of the committed rule-set changes -/
theorem c07_repository_snapshot (c : Config (List Rule) (Table RVal) RepoOp (Bool × ReqView) Served)
    (hr : Reachable repoSeq c) (j : Nat) (d : Bool) (q : ReqView) (pc : RPc) (a : Served) (start n : Nat)
    (h : c.threads j = .reader (d, q) pc (some a) start n) :
    start ≤ n ∧ n ≤ c.log.length ∧ a = (Repo.run (c.log.take n)).serve d q := by
  obtain ⟨h1, h2, h3⟩ := c07_snapshot repoSeq c hr j (d, q) pc a start n h
  refine ⟨h1, h2, ?_⟩
  rw [h3, run_repoSeq]
  rfl

end Heimdall.Props.C07
