import HeimdallModel.Lemmas.Conc
import HeimdallModel.Lemmas.ConcLive
import HeimdallModel.Lemmas.ConcOwn
import HeimdallModel.Lemmas.ConcLeak
import HeimdallModel.Model.RepoProtocol
import HeimdallModel.Gen.RepoProtocol
import HeimdallModel.Model.Repo
/-!
# C07 — rule-set changes are atomic for concurrent requests and never lost

The statements quantify over every reachable configuration of the machine of `Model/Conc.lean`: any number of
concurrently running writers (`AddRuleSet` / `UpdateRuleSet` / `DeleteRuleSet`) and readers (`FindRule`), every
interleaving of their steps — including executions in which any number of lookups panic during the search (a route
matcher) and any number of changes panic while cloning or computing on the private clone; the panicking goroutine
ends (it is recovered far above the repository), the process goes on.  The machine runs the locking protocol that `/verif/extract/proto` reads off the
current `internal/rules/repository_impl.go` (`Gen/RepoProtocol.lean`, regenerated on every run): the first group
of theorems are the obligations tying the two together.
-/
namespace Heimdall.Props.C07
open Heimdall Heimdall.Conc

/-! ## The tie: the source runs the protocol the machine runs -/

theorem c07_protocol_add : canon (lookupMethod Gen.repoProtocol "AddRuleSet") = writerProtocol := by decide
theorem c07_protocol_update : canon (lookupMethod Gen.repoProtocol "UpdateRuleSet") = writerProtocol := by decide
theorem c07_protocol_delete : canon (lookupMethod Gen.repoProtocol "DeleteRuleSet") = writerProtocol := by decide
theorem c07_protocol_find : canonReader (lookupMethod Gen.repoProtocol "FindRule") = readerProtocol := by decide
theorem c07_protocol_mutexes : Gen.repoProtocolMutexes = ["$K", "$T"] := by decide
/-- no other exported method of the repository, no helper referenced from elsewhere and no function of the package
touches the shared state: the four methods above are the only way to it -/
theorem c07_protocol_no_foreign_access : Gen.repoProtocolForeign = [] := by decide

/-- **The release discipline of the source is the deferred one**: the read lock of `FindRule` and `knownRulesMutex`
of every writer method are released by a `defer` registered directly after the lock was taken, there is no explicit
unlock of either.  Why this is demanded: `c07_explicit_runlock_deadlocks`, `c07_explicit_unlock_ends_all_changes`. -/
theorem c07_discipline : disciplineOf Gen.repoProtocol = Discipline.deferred := by decide

/-- the transitions of the machine, read as source-level events, are that protocol -/
theorem c07_edges_are_protocol : edgesAsProtocol = writerProtocol ∧ readerEdgesAsProtocol = readerProtocol := by
  decide

/-- every step moves the stepping writer along an edge of `writerEdges`, keeps its operation, and leaves every
other thread alone -/
theorem c07_step_follows_edges {K T Op Req Ans : Type} (d : Discipline) (s : Seq K T Op Req Ans)
    (c c' : Config K T Op Req Ans) (h : Step d s c c') (i : Nat) (op : Op) (pc : WPc) (loc : K × T) (hi : c.threads i = .writer op pc loc) :
    ∃ pc' loc', c'.threads i = .writer op pc' loc' ∧ (pc' = pc ∨ ∃ ev, (pc, ev, pc') ∈ writerEdges) := by
  have key : ∀ (j : Nat) (t : Thread K T Op Req Ans), j ≠ i →
      ∃ pc' loc', upd c.threads j t i = .writer op pc' loc' ∧ (pc' = pc ∨ ∃ ev, (pc, ev, pc') ∈ writerEdges) := by
    intro j t hj
    exact ⟨pc, loc, by rw [upd_other _ _ _ _ (Ne.symm hj), hi], Or.inl rfl⟩
  cases h with
  | wLock _ j op' loc' h free =>
    by_cases e : j = i
    · subst e; rw [hi] at h; cases h
      exact ⟨_, _, upd_same _ _ _, Or.inr ⟨AEv.lockK, by decide⟩⟩
    · exact key j _ e
  | wReadKnown _ j op' loc' h hl =>
    by_cases e : j = i
    · subst e; rw [hi] at h; cases h
      exact ⟨_, _, upd_same _ _ _, Or.inr ⟨AEv.readKnown, by decide⟩⟩
    · exact key j _ e
  | wClone _ j op' loc' h hl =>
    by_cases e : j = i
    · subst e; rw [hi] at h; cases h
      exact ⟨_, _, upd_same _ _ _, Or.inr ⟨AEv.cloneIndex, by decide⟩⟩
    · exact key j _ e
  | wComputeOk _ j op' loc' st' h hl ha =>
    by_cases e : j = i
    · subst e; rw [hi] at h; cases h
      exact ⟨_, _, upd_same _ _ _, Or.inr ⟨AEv.compute, by decide⟩⟩
    · exact key j _ e
  | wComputeErr _ j op' loc' h hl ha =>
    by_cases e : j = i
    · subst e; rw [hi] at h; cases h
      exact ⟨_, _, upd_same _ _ _, Or.inr ⟨AEv.returnErr, by decide⟩⟩
    · exact key j _ e
  | wFail _ j op' loc' h hl =>
    by_cases e : j = i
    · subst e; rw [hi] at h; cases h
      exact ⟨_, _, upd_same _ _ _, Or.inr ⟨AEv.unlockK, by decide⟩⟩
    · exact key j _ e
  | wKnown _ j op' st' h hl =>
    by_cases e : j = i
    · subst e; rw [hi] at h; cases h
      exact ⟨_, _, upd_same _ _ _, Or.inr ⟨AEv.writeKnown, by decide⟩⟩
    · exact key j _ e
  | wRWRequest _ j op' st' h free =>
    by_cases e : j = i
    · subst e; rw [hi] at h; cases h
      exact ⟨_, _, upd_same _ _ _, Or.inr ⟨AEv.lockT, by decide⟩⟩
    · exact key j _ e
  | wRWAcquire _ j op' st' h hl nor =>
    by_cases e : j = i
    · subst e; rw [hi] at h; cases h
      exact ⟨_, _, upd_same _ _ _, Or.inr ⟨AEv.acquireT, by decide⟩⟩
    · exact key j _ e
  | wPanicReleased hd _ j op' pc' loc' h hpc hl =>
    by_cases e : j = i
    · subst e; rw [hi] at h; cases h
      refine ⟨_, _, upd_same _ _ _, Or.inr ⟨AEv.panic, ?_⟩⟩
      rcases hpc with rfl | rfl <;> decide
    · exact key j _ e
  | wPanicLeaked hd _ j op' pc' loc' h hpc hl =>
    by_cases e : j = i
    · subst e; rw [hi] at h; cases h
      refine ⟨_, _, upd_same _ _ _, Or.inr ⟨AEv.panic, ?_⟩⟩
      rcases hpc with rfl | rfl <;> decide
    · exact key j _ e
  | rPanicReleased hd _ j rq st h =>
    by_cases e : j = i
    · subst e; rw [hi] at h; cases h
    · exact key j _ e
  | rPanicLeaked hd _ j rq st h =>
    by_cases e : j = i
    · subst e; rw [hi] at h; cases h
    · exact key j _ e
  | wIndex _ j op' st' h hl =>
    by_cases e : j = i
    · subst e; rw [hi] at h; cases h
      exact ⟨_, _, upd_same _ _ _, Or.inr ⟨AEv.writeIndex, by decide⟩⟩
    · exact key j _ e
  | wRWUnlock _ j op' st' h hl =>
    by_cases e : j = i
    · subst e; rw [hi] at h; cases h
      exact ⟨_, _, upd_same _ _ _, Or.inr ⟨AEv.unlockT, by decide⟩⟩
    · exact key j _ e
  | wUnlock _ j op' st' h hl =>
    by_cases e : j = i
    · subst e; rw [hi] at h; cases h
      exact ⟨_, _, upd_same _ _ _, Or.inr ⟨AEv.unlockK, by decide⟩⟩
    · exact key j _ e
  | rLock _ j rq h free =>
    by_cases e : j = i
    · subst e; rw [hi] at h; cases h
    · exact key j _ e
  | rSearch _ j rq st h =>
    by_cases e : j = i
    · subst e; rw [hi] at h; cases h
    · exact key j _ e
  | rUnlock _ j rq a st n h =>
    by_cases e : j = i
    · subst e; rw [hi] at h; cases h
    · exact key j _ e

/-! ## Atomic snapshots and no lost updates, for every interleaving -/

variable {K T Op Req Ans : Type} (s : Seq K T Op Req Ans)

/-- **Atomic snapshot.** Whatever a concurrent lookup answers is the answer of the sequential lookup in the index
reached by a *prefix of the commit order*: complete changes only, never a partially applied one; and that prefix
contains every change that was committed before the lookup took the read lock. -/
theorem c07_snapshot (c : Config K T Op Req Ans) (hr : Reachable .deferred s c) (j : Nat) (rq : Req) (pc : RPc) (a : Ans)
    (start n : Nat) (h : c.threads j = .reader rq pc (some a) start n) :
    start ≤ n ∧ n ≤ c.log.length ∧ a = s.look (run s (c.log.take n)).2 rq :=
  (inv_reachable s c hr).answers j rq pc a start n h

/-- **The published index is the sequential result of the committed changes**, in commit order: no change is lost
or half overwritten, whatever the interleaving of writers from different providers. -/
theorem c07_index_sequential (c : Config K T Op Req Ans) (hr : Reachable .deferred s c) :
    c.index = (run s c.log).2 ∧ (c.wlock = none → (c.known, c.index) = run s c.log) :=
  ⟨(inv_reachable s c hr).index, (inv_reachable s c hr).free⟩

/-- **Writers exclude each other** for the whole read-compute-publish section: a writer that is between taking and
releasing `knownRulesMutex` is the holder of that mutex. -/
theorem c07_writers_exclusive (c : Config K T Op Req Ans) (hr : Reachable .deferred s c) (i j : Nat)
    (hi : inCS (c.threads i)) (hj : inCS (c.threads j)) : i = j := by
  have h1 := holder_of_inCS s c (inv_reachable s c hr) i hi
  have h2 := holder_of_inCS s c (inv_reachable s c hr) j hj
  rw [h1] at h2; exact Option.some.inj h2

/-- **The holder computes on the current state**: the change a writer is about to publish is the sequential
application of its operation to the state after all changes committed so far (no lost update). -/
theorem c07_no_lost_update (c : Config K T Op Req Ans) (hr : Reachable .deferred s c) (i : Nat) (op : Op) (st' : K × T)
    (h : c.threads i = .writer op .rwHeld st') : s.apply (run s c.log) op = some st' := by
  have hinv := inv_reachable s c hr
  have hl := holder_of_inCS s c hinv i (by rw [h]; simp [inCS])
  have := hinv.held i hl
  rw [h] at this
  exact this.2.2

/-- **A rejection is justified by the sequential semantics**: a writer that is about to report failure computed on
the state after all changes committed so far, and the sequential repository rejects its operation in that state —
no change is refused because of a stale or half-updated view. -/
theorem c07_rejection_justified (c : Config K T Op Req Ans) (hr : Reachable .deferred s c) (i : Nat) (op : Op) (loc : K × T)
    (h : c.threads i = .writer op .failed loc) :
    s.apply (run s c.log) op = none ∧ (c.known, c.index) = run s c.log := by
  have hinv := inv_reachable s c hr
  have hl := holder_of_inCS s c hinv i (by rw [h]; simp [inCS])
  have := hinv.held i hl
  rw [h] at this
  exact ⟨this.2, this.1⟩

/-- **No conflicting access to the shared state** (the model-level content of "no data race"): a writer inside the
section in which the known rules and the pointer to the index are read and written is the only such writer, and the
pointer is swapped only while no lookup is inside its read section. -/
theorem c07_no_conflicting_access (c : Config K T Op Req Ans) (hr : Reachable .deferred s c) (i j : Nat) :
    (inCS (c.threads i) → inCS (c.threads j) → i = j) ∧
      (rwHolder (c.threads i) → ¬ activeReader (c.threads j)) := by
  refine ⟨fun hi hj => ?_, fun hi hj => ?_⟩
  · have h1 := holder_of_inCS s c (inv_reachable s c hr) i hi
    have h2 := holder_of_inCS s c (inv_reachable s c hr) j hj
    rw [h1] at h2; exact Option.some.inj h2
  · have hl := linv_reachable s c hr
    have h2 := hl.rw_excl i hi
    have h3 := (hl.rd_mem j).mpr hj
    rw [h2] at h3; cases h3

/-- **No change is lost, none is applied twice.** The commit log consists of exactly the operations of the writers
that have published their change, each once, in commit order (`owners` lists the committing threads without
repetition; a thread is listed iff it got as far as publishing; the k-th log entry is the operation of the k-th
owner) — together with `c07_index_sequential`: the published index is the sequential result of all of them. -/
theorem c07_every_change_exactly_once (d : Discipline) (c : Config K T Op Req Ans) (hr : Reachable d s c) :
    c.owners.Nodup ∧ (∀ j, j ∈ c.owners ↔ committed (c.threads j)) ∧
      c.owners.map (fun j => opOf (c.threads j)) = c.log.map some :=
  ⟨(oinv_reachable d s c hr).nodup, (oinv_reachable d s c hr).mem, (oinv_reachable d s c hr).ops⟩

/-- **Deadlock freedom, panics included.** In every reachable configuration in which some thread (writer or reader)
has not finished, some thread can take a step: no interleaving of requests and changes gets stuck — whatever number of
lookups have panicked during their search and whatever number of changes have panicked on their private clone before
(`Step` contains these transitions for any reader and any writer at any time; under the deferred discipline the
unwinding panic releases what the goroutine holds).  A writer waiting in `rulesTreeMutex.Lock()` blocks new readers
(Go's writer preference, `wRWRequest`); the readers it waits for can always move on. -/
theorem c07_deadlock_free (c : Config K T Op Req Ans) (hr : Reachable .deferred s c) (i : Nat)
    (hnf : ¬ finished (c.threads i)) : ∃ c', Step .deferred s c c' :=
  progress s c (inv_reachable s c hr) (linv_reachable s c hr) i hnf

/-- the same for the machine run with the discipline read off the current source -/
theorem c07_deadlock_free_source (c : Config K T Op Req Ans) (hr : Reachable (disciplineOf Gen.repoProtocol) s c)
    (i : Nat) (hnf : ¬ finished (c.threads i)) : ∃ c', Step (disciplineOf Gen.repoProtocol) s c c' := by
  rw [c07_discipline] at hr ⊢
  exact c07_deadlock_free s c hr i hnf

/-- **A goroutine that has returned or panicked holds nothing**: neither `knownRulesMutex`, nor `rulesTreeMutex` as
a (pending) writer, nor a read lock — and every read lock that is counted belongs to a lookup that is still running. -/
theorem c07_finished_holds_nothing (c : Config K T Op Req Ans) (hr : Reachable .deferred s c) (i : Nat)
    (hf : finished (c.threads i)) :
    c.wlock ≠ some i ∧ c.rww ≠ some i ∧ i ∉ c.rset ∧ c.readers = c.rset.length := by
  have hi := inv_reachable s c hr
  have hl := linv_reachable s c hr
  refine ⟨fun h => ?_, fun h => ?_, fun h => ?_, hl.rd_len⟩
  · have hh := hi.held i h
    cases ht : c.threads i with
    | reader rq pc a st n => rw [ht] at hh; simp [holderOk] at hh
    | writer op pc loc =>
      rw [ht] at hh hf
      simp only [finished] at hf
      rcases hf with rfl | rfl | rfl <;> simp [holderOk] at hh
  · have hh := (hl.rww_iff i).mp h
    cases ht : c.threads i with
    | reader rq pc a st n => rw [ht] at hh; simp [rwOwner] at hh
    | writer op pc loc =>
      rw [ht] at hh hf
      simp only [finished] at hf
      rcases hf with rfl | rfl | rfl <;> simp [rwOwner] at hh
  · have hh := (hl.rd_mem i).mp h
    cases ht : c.threads i with
    | writer op pc loc => rw [ht] at hh; simp [activeReader] at hh
    | reader rq pc a st n =>
      rw [ht] at hh hf
      simp only [finished] at hf
      rcases hf with rfl | rfl <;> simp [activeReader] at hh

/-! ### Why the unlocks have to be deferred -/

/-- **With an explicit `RUnlock()` after the search, one panicking lookup followed by one change is a complete
deadlock.**  For every discipline with `readerDeferred = false` and every initial configuration — any number of other
threads — with a reader `r` and a writer `w` whose change the sequential repository accepts, a configuration is
reachable (`r`: read-lock, search panics; `w`: up to `rulesTreeMutex.Lock()`) in which
* no thread can take a step, now or ever (`Steps … c c' → c' = c`): `w` waits for a read lock nobody will release
  while holding `knownRulesMutex`, so no writer ever completes; a writer is pending, so no reader that has not yet
  started ever completes;
* the writer `w` has not finished, every thread other than `r` and `w` still stands at its start, nothing was committed. -/
theorem c07_explicit_runlock_deadlocks (d : Discipline) (hd : d.readerDeferred = false)
    (c0 : Config K T Op Req Ans) (h0 : Initial s c0) (r w : Nat) (rq : Req) (op : Op) (loc st' : K × T)
    (hr : c0.threads r = .reader rq .idle none 0 0) (hw : c0.threads w = .writer op .idle loc)
    (happ : s.apply s.init op = some st') :
    ∃ c, Reachable d s c ∧ (∀ c', ¬ Step d s c c') ∧ (∀ c', Steps d s c c' → c' = c) ∧
      ¬ finished (c.threads w) ∧ c.log = [] ∧
      (∀ j, j ≠ w → j ≠ r → ¬ finished (c.threads j)) := by
  obtain ⟨c, hreach, hwedged, hcr, hlog, hsame⟩ := reader_leak_wedges d hd s c0 h0 r w rq op loc st' hr hw happ
  refine ⟨c, hreach, fun c' => wedged_stuck d s c c' w hwedged, fun c' => wedged_steps d s c c' w hwedged, ?_, hlog, ?_⟩
  · obtain ⟨o, st, e⟩ := hwedged.tw
    rw [e]; simp [finished]
  · intro j hjw hjr hf
    -- threads other than r and w have not moved: they are at their start
    rw [hsame j hjw hjr] at hf
    rcases h0.2.2.2.2.2.2.2 j with ⟨o, l, e⟩ | ⟨q, e⟩ <;> (rw [e] at hf; simp [finished] at hf)

/-- **With an explicit `Unlock()` of `knownRulesMutex`, one panicking change ends all changes.**  For every discipline
with `writerDeferred = false` and every initial configuration with a writer `w`, a configuration is reachable (`w`:
lock, read the known rules, `Clone()` panics) from which, along every continuation, no writer thread ever takes a step
again — in particular every other change waits for ever — and nothing is ever committed. -/
theorem c07_explicit_unlock_ends_all_changes (d : Discipline) (hd : d.writerDeferred = false)
    (c0 : Config K T Op Req Ans) (h0 : Initial s c0) (w : Nat) (op : Op) (loc : K × T)
    (hw : c0.threads w = .writer op .idle loc) :
    ∃ c, Reachable d s c ∧ ∀ c', Steps d s c c' → c'.log = [] ∧
      ∀ j op' loc', j ≠ w → c0.threads j = .writer op' .idle loc' → c'.threads j = .writer op' .idle loc' := by
  obtain ⟨c, hreach, hk, hlog, hsame⟩ := writer_leak_blocks d hd s c0 h0 w op loc hw
  refine ⟨c, hreach, fun c' hs => ?_⟩
  obtain ⟨_, hl, hthr⟩ := kleaked_steps d s c c' w hk hs
  refine ⟨by rw [hl, hlog], fun j op' loc' hj h0j => ?_⟩
  have hcj : c.threads j = .writer op' .idle loc' := by rw [hsame j hj]; exact h0j
  rw [hthr j op' .idle loc' hcj, hcj]

/-! ### Non-vacuity: a concrete machine with one lookup (thread 0) and changes (every other thread) -/

/-- a tiny sequential semantics: known rules and index count what the accepted changes added -/
def tinySeq : Seq Nat Nat Nat Unit Nat where
  apply st op := some (st.1 + op, st.2 + op)
  look t _ := t
  init := (0, 0)

def tinyInit : Config Nat Nat Nat Unit Nat :=
  { known := 0, index := 0, wlock := none, rww := none, readers := 0, log := [], owners := [], rset := [],
    threads := fun i => if i = 0 then .reader () .idle none 0 0 else .writer 1 .idle (0, 0) }

theorem c07_tiny_initial : Initial tinySeq tinyInit := by
  refine ⟨rfl, rfl, rfl, rfl, rfl, rfl, rfl, fun i => ?_⟩
  by_cases e : i = 0
  · exact Or.inr ⟨(), by simp [tinyInit, e]⟩
  · exact Or.inl ⟨1, (0, 0), by simp [tinyInit, e]⟩

/-- the hypotheses of `c07_explicit_runlock_deadlocks` are satisfiable: explicit `RUnlock()`, lookup 0 panics,
change 1 follows — nothing moves any more although change 1 (and every other change) has not finished -/
example : ∃ c, Reachable ⟨false, true⟩ tinySeq c ∧ (∀ c', ¬ Step ⟨false, true⟩ tinySeq c c') ∧
    ¬ finished (c.threads 1) ∧ ¬ finished (c.threads 2) := by
  obtain ⟨c, h1, h2, _, h4, _, h6⟩ := c07_explicit_runlock_deadlocks tinySeq ⟨false, true⟩ rfl tinyInit c07_tiny_initial
    0 1 () 1 (0, 0) (1, 1) rfl rfl rfl
  exact ⟨c, h1, h2, h4, h6 2 (by decide) (by decide)⟩

/-- the hypotheses of `c07_explicit_unlock_ends_all_changes` are satisfiable: explicit `Unlock()`, change 1 panics —
change 2 stands at its start for ever -/
example : ∃ c, Reachable ⟨true, false⟩ tinySeq c ∧
    ∀ c', Steps ⟨true, false⟩ tinySeq c c' → c'.log = [] ∧ c'.threads 2 = .writer 1 .idle (0, 0) := by
  obtain ⟨c, h1, h2⟩ := c07_explicit_unlock_ends_all_changes tinySeq ⟨true, false⟩ rfl tinyInit c07_tiny_initial
    1 1 (0, 0) rfl
  exact ⟨c, h1, fun c' hs => ⟨(h2 c' hs).1, (h2 c' hs).2 2 1 (0, 0) (by decide) rfl⟩⟩

/-- the deferred discipline on the same machine: lookup 0 panics during its search (the executions the theorems above
quantify over do contain panicking lookups), the read lock is released, and change 1 runs to completion and is
committed -/
example : ∃ c, Reachable .deferred tinySeq c ∧ c.threads 0 = .reader () .crashed none 0 0 ∧
    c.threads 1 = .writer 1 .doneOk (1, 1) ∧ c.log = [1] ∧ c.index = 1 ∧ c.readers = 0 ∧ c.wlock = none := by
  have R0 := Reachable.init (d := .deferred) tinyInit c07_tiny_initial
  have R1 := Reachable.step _ _ R0 (Step.rLock _ 0 () (by simp [tinyInit]) rfl)
  have R2 := Reachable.step _ _ R1 (Step.rPanicReleased rfl _ 0 () 0 (by simp [tinyInit]))
  have R3 := Reachable.step _ _ R2 (Step.wLock _ 1 1 (0, 0) (by simp [tinyInit, upd]) rfl)
  have R4 := Reachable.step _ _ R3 (Step.wReadKnown _ 1 1 (0, 0) (by simp) rfl)
  have R5 := Reachable.step _ _ R4 (Step.wClone _ 1 1 (0, 0) (by simp [tinyInit]) rfl)
  have R6 := Reachable.step _ _ R5 (Step.wComputeOk _ 1 1 (0, 0) (1, 1) (by simp [tinyInit]) rfl rfl)
  have R7 := Reachable.step _ _ R6 (Step.wKnown _ 1 1 (1, 1) (by simp) rfl)
  have R8 := Reachable.step _ _ R7 (Step.wRWRequest _ 1 1 (1, 1) (by simp) rfl)
  have R9 := Reachable.step _ _ R8 (Step.wRWAcquire _ 1 1 (1, 1) (by simp) rfl (by simp [tinyInit]))
  have R10 := Reachable.step _ _ R9 (Step.wIndex _ 1 1 (1, 1) (by simp) rfl)
  have R11 := Reachable.step _ _ R10 (Step.wRWUnlock _ 1 1 (1, 1) (by simp) rfl)
  have R12 := Reachable.step _ _ R11 (Step.wUnlock _ 1 1 (1, 1) (by simp) rfl)
  exact ⟨_, R12, by simp [upd], by simp, by simp [tinyInit], rfl, by simp [tinyInit], rfl⟩

/-- `c07_deadlock_free` at a configuration with a crashed lookup: after the panic of lookup 0 the next change can start -/
example : ∃ c, Reachable .deferred tinySeq c ∧ c.threads 0 = .reader () .crashed none 0 0 ∧
    ∃ c', Step .deferred tinySeq c c' := by
  have R0 := Reachable.init (d := .deferred) tinyInit c07_tiny_initial
  have R1 := Reachable.step _ _ R0 (Step.rLock _ 0 () (by simp [tinyInit]) rfl)
  have R2 := Reachable.step _ _ R1 (Step.rPanicReleased rfl _ 0 () 0 (by simp [tinyInit]))
  exact ⟨_, R2, by simp [tinyInit], c07_deadlock_free tinySeq _ R2 1 (by simp [tinyInit, upd, finished])⟩

/-- **Readers and the publishing writer exclude each other**: while a writer holds `rulesTreeMutex` no lookup is
inside its read section, so a lookup never observes the pointer swap half-way. -/
theorem c07_swap_excludes_readers (c : Config K T Op Req Ans) (hr : Reachable .deferred s c) (i j : Nat)
    (hi : rwHolder (c.threads i)) (hj : activeReader (c.threads j)) : False := by
  have hl := linv_reachable s c hr
  have h2 := hl.rw_excl i hi
  have h3 := (hl.rd_mem j).mpr hj
  rw [h2] at h3; cases h3

/-! ## Instantiation with the repository model of C06 -/

/-- the sequential semantics the machine is instantiated with: `Repo.apply` and `Repo.serve` -/
def repoSeq : Seq (List Rule) (Table RVal) RepoOp (Bool × ReqView) Served where
  apply st op := ((⟨st.1, st.2⟩ : Repo).apply op).map (fun r => (r.known, r.index))
  look t rq := (⟨[], t⟩ : Repo).serve rq.1 rq.2
  init := ([], [])

theorem run_repoSeq (ops : List RepoOp) : run repoSeq ops = ((Repo.run ops).known, (Repo.run ops).index) := by
  unfold run Repo.run
  suffices ∀ (r : Repo), List.foldl (fun st o => (repoSeq.apply st o).getD st) (r.known, r.index) ops =
      ((ops.foldl Repo.step r).known, (ops.foldl Repo.step r).index) from this Repo.empty
  induction ops with
  | nil => intro r; rfl
  | cons op rest ih =>
    intro r
    simp only [List.foldl_cons]
    have : (repoSeq.apply (r.known, r.index) op).getD (r.known, r.index) =
        ((r.step op).known, (r.step op).index) := by
      unfold Repo.step repoSeq
      simp only
      cases r.apply op <;> rfl
    rw [this]
    exact ih (r.step op)

/-- **C07 for the repository**: every answer given to a concurrent request is what the *sequential* repository
(the model of C06) answers after some prefix of the committed rule-set changes -/
theorem c07_repository_snapshot (c : Config (List Rule) (Table RVal) RepoOp (Bool × ReqView) Served)
    (hr : Reachable .deferred repoSeq c) (j : Nat) (d : Bool) (q : ReqView) (pc : RPc) (a : Served) (start n : Nat)
    (h : c.threads j = .reader (d, q) pc (some a) start n) :
    start ≤ n ∧ n ≤ c.log.length ∧ a = (Repo.run (c.log.take n)).serve d q := by
  obtain ⟨h1, h2, h3⟩ := c07_snapshot repoSeq c hr j (d, q) pc a start n h
  refine ⟨h1, h2, ?_⟩
  rw [h3, run_repoSeq]
  rfl

end Heimdall.Props.C07
