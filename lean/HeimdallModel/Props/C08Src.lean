import HeimdallModel.Gen.PathNormSrc
import HeimdallModel.Base.UrlEscape
/-!
# C08 — the byte-level helpers of the path normalisation *as they stand in the source*

`Gen/PathNormSrc.lean` (namespace `Heimdall.PathNorm.Src`) is regenerated on every run of the C08 check by the Go → Lean
translator `extract/go2lean` (`cmd/pathnorm`) from the whole bodies of `isUnreserved` and `unhex`
(`internal/rules/repository_impl.go`, found by name in any non-test file). A Go byte is an `Int` in 0 … 255, the
model (`Base/UrlEscape.lean`, over which `normalizeL` and the C08 theorems are stated) has one `Char` per byte:
byte `n` ↔ `Char.ofNat n`. The theorems are stated for **all 256 bytes** and proved by evaluation, so every
semantics-preserving rewrite of the two functions (a `switch` instead of the chain of `||`, reordered alternatives,
constants by number) keeps proving and every change of a value on some byte does not.
-/
set_option maxRecDepth 1000000

namespace Heimdall.Props.C08
open Heimdall

/-- **The tie holds for this run.** -/
theorem c08_src_translated : PathNorm.Src.translationOk = true := by decide

/-- **`isUnreserved` of the source is the model's predicate**, on every byte: exactly `A–Z a–z 0–9 - . _ ~`. -/
theorem c08_src_is_unreserved :
    ∀ n : Nat, n < 256 → PathNorm.Src.isUnreserved (n : Int) = Heimdall.isUnreserved (Char.ofNat n) := by decide

/-- Spelled out: the unreserved bytes are the 66 of RFC 3986, in particular `~` is one and `/`, `%` are not. -/
theorem c08_src_unreserved_set :
    ((List.range 256).filter fun (n : Nat) => PathNorm.Src.isUnreserved (n : Int)) =
      [45, 46] ++ (List.range 10).map (· + 48) ++ (List.range 26).map (· + 65) ++ [95] ++ (List.range 26).map (· + 97)
        ++ [126] := by decide

/-- **`unhex` of the source is the model's `unhex`** on every hex digit **of either case** and `-1` on every other
byte. -/
theorem c08_src_unhex :
    ∀ n : Nat, n < 256 → PathNorm.Src.unhex (n : Int) =
      if isHex (Char.ofNat n) then (Heimdall.unhex (Char.ofNat n) : Int) else -1 := by decide

/-- both hex cases decode to the same value, digits to themselves -/
theorem c08_src_unhex_cases :
    (∀ k : Nat, k < 10 → PathNorm.Src.unhex ((48 + k : Nat) : Int) = k) ∧
    (∀ k : Nat, k < 6 → PathNorm.Src.unhex ((65 + k : Nat) : Int) = 10 + k ∧
      PathNorm.Src.unhex ((97 + k : Nat) : Int) = 10 + k) := by decide

/-- An escape `%XY` of an unreserved octet, written in either hex case, denotes that octet: the value
`byte(hi<<4 | lo)` the source computes from the two digits is `16·hi + lo`, and the translated `isUnreserved` accepts
it exactly when the model does; `%2F` / `%2f` (47) and `%25` (37) are not accepted. -/
theorem c08_src_escape_value :
    (∀ a : Nat, a < 256 → 0 ≤ PathNorm.Src.unhex (a : Int) → ∀ b : Nat, b < 256 → 0 ≤ PathNorm.Src.unhex (b : Int) →
      PathNorm.Src.isUnreserved (PathNorm.Src.unhex (a : Int) * 16 + PathNorm.Src.unhex (b : Int))
        = Heimdall.isUnreserved (octet (Char.ofNat a) (Char.ofNat b))) ∧
    PathNorm.Src.isUnreserved (PathNorm.Src.unhex 50 * 16 + PathNorm.Src.unhex 70) = false ∧
    PathNorm.Src.isUnreserved (PathNorm.Src.unhex 50 * 16 + PathNorm.Src.unhex 102) = false ∧
    PathNorm.Src.isUnreserved (PathNorm.Src.unhex 50 * 16 + PathNorm.Src.unhex 53) = false := by decide

example : (0 : Int) ≤ PathNorm.Src.unhex 52 ∧ (0 : Int) ≤ PathNorm.Src.unhex 101 := by decide

end Heimdall.Props.C08
