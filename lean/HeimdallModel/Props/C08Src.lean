import HeimdallModel.Gen.PathNormSrc
import HeimdallModel.Lemmas.UrlEscape
/-!
# C08 — the byte-level helpers of the path normalisation *as they stand in the source*

`Gen/PathNormSrc.lean` (namespace `Heimdall.PathNorm.Src`) is regenerated on every run of the C08 check by the Go → Lean
translator `extract/go2lean` (`cmd/pathnorm`) from the whole bodies of `isUnreserved` and `unhex`
(`internal/rules/repository_impl.go`, found by name in any non-test file). A Go byte is an `Int` in 0 … 255, the
model (`Base/UrlEscape.lean`, over which `normalizeL` and the C08 theorems are stated) has one `Char` per byte:
byte `n` ↔ `Char.ofNat n`. The theorems are stated for **all 256 bytes** and proved by evaluation, so every
semantics-preserving rewrite of the two functions (a `switch` instead of the chain of `||`, reordered alternatives,
constants by number) keeps proving and every change of a value on some byte does not.
-/
set_option maxRecDepth 1000000
set_option linter.unusedSimpArgs false

namespace Heimdall.Props.C08
open Heimdall

/-- **The tie holds for this run.** -/
theorem c08_src_translated : PathNorm.Src.translationOk = true := by decide

/-- **`isUnreserved` of the source is the model's predicate**, on every byte: exactly `A–Z a–z 0–9 - . _ ~`. -/
theorem c08_src_is_unreserved :
    ∀ n : Nat, n < 256 → PathNorm.Src.isUnreserved (n : Int) = Heimdall.isUnreserved (Char.ofNat n) := by decide

/-- Spelled out: the unreserved bytes are the 66 of RFC 3986, in particular `~` is one and `/`, `%` are not. -/
theorem c08_src_unreserved_set :
    ((List.range 256).filter fun (n : Nat) => PathNorm.Src.isUnreserved (n : Int)) =
      [45, 46] ++ (List.range 10).map (· + 48) ++ (List.range 26).map (· + 65) ++ [95] ++ (List.range 26).map (· + 97)
        ++ [126] := by decide

/-- **`unhex` of the source is the model's `unhex`** on every hex digit **of either case** and `-1` on every other
byte. -/
theorem c08_src_unhex :
    ∀ n : Nat, n < 256 → PathNorm.Src.unhex (n : Int) =
      if isHex (Char.ofNat n) then (Heimdall.unhex (Char.ofNat n) : Int) else -1 := by decide

/-- both hex cases decode to the same value, digits to themselves -/
theorem c08_src_unhex_cases :
    (∀ k : Nat, k < 10 → PathNorm.Src.unhex ((48 + k : Nat) : Int) = k) ∧
    (∀ k : Nat, k < 6 → PathNorm.Src.unhex ((65 + k : Nat) : Int) = 10 + k ∧
      PathNorm.Src.unhex ((97 + k : Nat) : Int) = 10 + k) := by decide

/-- An escape `%XY` of an unreserved octet, written in either hex case, denotes that octet: the value
`byte(hi<<4 | lo)` the source computes from the two digits is `16·hi + lo`, and the translated `isUnreserved` accepts
it exactly when the model does; `%2F` / `%2f` (47) and `%25` (37) are not accepted. -/
theorem c08_src_escape_value :
    (∀ a : Nat, a < 256 → 0 ≤ PathNorm.Src.unhex (a : Int) → ∀ b : Nat, b < 256 → 0 ≤ PathNorm.Src.unhex (b : Int) →
      PathNorm.Src.isUnreserved (PathNorm.Src.unhex (a : Int) * 16 + PathNorm.Src.unhex (b : Int))
        = Heimdall.isUnreserved (octet (Char.ofNat a) (Char.ofNat b))) ∧
    PathNorm.Src.isUnreserved (PathNorm.Src.unhex 50 * 16 + PathNorm.Src.unhex 70) = false ∧
    PathNorm.Src.isUnreserved (PathNorm.Src.unhex 50 * 16 + PathNorm.Src.unhex 102) = false ∧
    PathNorm.Src.isUnreserved (PathNorm.Src.unhex 50 * 16 + PathNorm.Src.unhex 53) = false := by decide

example : (0 : Int) ≤ PathNorm.Src.unhex 52 ∧ (0 : Int) ≤ PathNorm.Src.unhex 101 := by decide

/-! ## `normalizeUnreserved`: the index loop over the string -/

/-- a byte string as the translated functions see it -/
def asInts (l : List Nat) : List Int := l.map Int.ofNat

/-- a byte string as the model sees it (one `Char` per byte) -/
def asChars (l : List Nat) : List Char := l.map Char.ofNat

/-- the model's result read back as bytes -/
def ofChars (l : List Char) : List Int := l.map fun c => (c.toNat : Int)

theorem byte_char_toNat : ∀ n : Nat, n < 256 → (Char.ofNat n).toNat = n := by decide

theorem byte_is_percent : ∀ n : Nat, n < 256 → (decide (Char.ofNat n = '%')) = decide ((n : Int) = 37) := by decide

theorem byte_unhex_nonneg : ∀ n : Nat, n < 256 → decide (PathNorm.Src.unhex (n : Int) ≥ 0) = isHex (Char.ofNat n) := by
  decide

/-- `byte(hi<<4 | lo)` of two hex digits is the octet the model computes -/
theorem byte_octet : ∀ m : Nat, m < 256 → isHex (Char.ofNat m) = true → ∀ n : Nat, n < 256 → isHex (Char.ofNat n) = true →
    ((((PathNorm.Src.unhex (m : Int) * 16).toNat ||| (PathNorm.Src.unhex (n : Int)).toNat : Nat) : Int) % 256
      = ((octet (Char.ofNat m) (Char.ofNat n)).toNat : Int)) ∧ (octet (Char.ofNat m) (Char.ofNat n)).toNat < 256 := by
  decide

/-- **The index loop at index `i` with the bytes `l` still to come writes what the model's `normalizeL` makes of
`l`**, for every byte string and every `i` (induction on the length of the remaining suffix). -/
theorem c08_src_normalize_loop : ∀ (k : Nat) (l : List Nat), l.length ≤ k → (∀ n ∈ l, n < 256) → ∀ i : Int,
    PathNorm.Src.normalizeUnreserved_loop i (asInts l) = ofChars (normalizeL (asChars l)) := by
  intro k
  induction k with
  | zero =>
    intro l hl _ i
    have : l = [] := List.length_eq_zero_iff.mp (by omega)
    subst this
    simp [PathNorm.Src.normalizeUnreserved_loop, asInts, asChars, ofChars, normalizeL]
  | succ k ih =>
    intro l hl hb i
    match l, hl, hb with
    | [], _, _ => simp [PathNorm.Src.normalizeUnreserved_loop, asInts, asChars, ofChars, normalizeL]
    | [c], _, hb =>
      have hc := byte_char_toNat c (hb c (by simp))
      simp [PathNorm.Src.normalizeUnreserved_loop, asInts, asChars, ofChars, normalizeL, hc]
    | [c, a], _, hb =>
      have hc := byte_char_toNat c (hb c (by simp))
      have ha := byte_char_toNat a (hb a (by simp))
      simp [PathNorm.Src.normalizeUnreserved_loop, asInts, asChars, ofChars, normalizeL, hc, ha]
    | c :: a :: b :: rest, hl, hb =>
      have hcb : c < 256 := hb c (by simp)
      have hab : a < 256 := hb a (by simp)
      have hbb : b < 256 := hb b (by simp)
      have hc := byte_char_toNat c hcb
      have hp := byte_is_percent c hcb
      have hha := byte_unhex_nonneg a hab
      have hhb := byte_unhex_nonneg b hbb
      have ih1 := ih (a :: b :: rest) (by simp at hl ⊢; omega) (fun n hn => hb n (List.mem_cons_of_mem _ hn)) (i + 1)
      have ih2 := ih rest (by simp at hl ⊢; omega) (fun n hn => hb n (List.mem_cons_of_mem _ (List.mem_cons_of_mem _ (List.mem_cons_of_mem _ hn)))) (i + 2 + 1)
      have hp' : (Char.ofNat c = '%') ↔ ((c : Int) = 37) := by simpa using hp
      have hha' : (PathNorm.Src.unhex (a : Int) ≥ 0) ↔ isHex (Char.ofNat a) = true := by rw [← hha, decide_eq_true_iff]
      have hhb' : (PathNorm.Src.unhex (b : Int) ≥ 0) ↔ isHex (Char.ofNat b) = true := by rw [← hhb, decide_eq_true_iff]
      have e1 : asInts (c :: a :: b :: rest) = (c : Int) :: (a : Int) :: (b : Int) :: asInts rest := rfl
      have e2 : asChars (c :: a :: b :: rest) = Char.ofNat c :: Char.ofNat a :: Char.ofNat b :: asChars rest := rfl
      have e3 : asInts (a :: b :: rest) = (a : Int) :: (b : Int) :: asInts rest := rfl
      have e4 : asChars (a :: b :: rest) = Char.ofNat a :: Char.ofNat b :: asChars rest := rfl
      rw [e3, e4] at ih1
      rw [e1, e2]
      unfold PathNorm.Src.normalizeUnreserved_loop
      have hlen : i + 2 < i + ((((a : Int) :: (b : Int) :: asInts rest).length : Int) + 1) := by
        simp only [List.length_cons]; omega
      by_cases hpc : (c : Int) = 37
      · have hcp : Char.ofNat c = '%' := hp'.mpr hpc
        cases hA : isHex (Char.ofNat a) <;> cases hB : isHex (Char.ofNat b)
        all_goals simp only [hA, hB] at hha' hhb'
        all_goals have h2 : (2 : Int) < ↑(asInts rest).length + 1 + 1 + 1 := by omega
        · simp [normalizeL, hcp, hpc, hA, hB, hha', hhb', ih1, ofChars, h2]
        · simp [normalizeL, hcp, hpc, hA, hB, hha', hhb', ih1, ofChars, h2]
        · simp [normalizeL, hcp, hpc, hA, hB, hha', hhb', ih1, ofChars, h2]
        · obtain ⟨ho, holt⟩ := byte_octet a hab hA b hbb hB
          have hu := c08_src_is_unreserved _ holt
          have hback : Char.ofNat (octet (Char.ofNat a) (Char.ofNat b)).toNat = octet (Char.ofNat a) (Char.ofNat b) :=
            Char.ofNat_toNat _
          rw [hback] at hu
          simp only [normalizeL, hcp, hpc, hA, hB, hha', hhb', ih1, ih2, ofChars, h2, ho, hu, hlen, List.getD_cons_zero,
            List.getD_cons_succ, List.drop_succ_cons, List.drop_zero, ge_iff_le, and_self, if_true, true_and, Bool.and_true,
            Bool.true_and, decide_true]
          split <;> simp
      · have hcp : ¬ Char.ofNat c = '%' := fun h => hpc (hp'.mp h)
        simp [normalizeL, hcp, hpc, ih1, ofChars, hc]

theorem ofChars_asChars (l : List Nat) (hb : ∀ n ∈ l, n < 256) : ofChars (asChars l) = asInts l := by
  induction l with
  | nil => rfl
  | cons c t ih =>
    have hc := byte_char_toNat c (hb c (by simp))
    have := ih (fun n hn => hb n (List.mem_cons_of_mem _ hn))
    simp [ofChars, asChars, asInts, hc] at this ⊢
    exact this

theorem normalizeL_no_percent : ∀ l : List Char, (∀ c ∈ l, c ≠ '%') → normalizeL l = l
  | [], _ => by simp [normalizeL]
  | c :: t, h => by
    rw [normalizeL_cons_ne (h c (by simp)), normalizeL_no_percent t (fun x hx => h x (List.mem_cons_of_mem _ hx))]

/-- **`normalizeUnreserved` of the source is the model's normalisation**, for ALL byte strings: the translated
function on the bytes `l` returns the bytes of `normalizeL` on the same string (`Base/UrlEscape.lean`; the C08 theorems
of `Props/C08.lean` are stated over it). Byte `n` ↔ `Char.ofNat n`. -/
theorem c08_src_normalize (l : List Nat) (hb : ∀ n ∈ l, n < 256) :
    PathNorm.Src.normalizeUnreserved (asInts l) = ofChars (normalizeL (asChars l)) := by
  unfold PathNorm.Src.normalizeUnreserved
  split
  · rename_i hno
    have hall : ∀ c ∈ asChars l, c ≠ '%' := by
      intro c hc
      simp only [asChars, List.mem_map] at hc
      obtain ⟨n, hn, rfl⟩ := hc
      intro heq
      have h37 : (n : Int) = 37 := by
        have := byte_is_percent n (hb n hn)
        simpa [heq] using this
      apply hno
      simp only [List.contains_iff_mem, asInts, List.mem_map]
      exact ⟨n, hn, h37⟩
    rw [normalizeL_no_percent _ hall, ofChars_asChars l hb]
  · exact c08_src_normalize_loop l.length l (Nat.le_refl _) hb 0

example : ∀ n ∈ [47, 37, 55, 101], n < 256 := by decide

/-- A string without `%` is returned as it is (directly on the translated function, any list). -/
theorem c08_src_normalize_no_percent (s : List Int) (h : s.contains 37 = false) :
    PathNorm.Src.normalizeUnreserved s = s := by
  unfold PathNorm.Src.normalizeUnreserved
  have hm : 37 ∉ s := by
    intro hm
    have : s.contains 37 = true := List.contains_iff_mem.mpr hm
    rw [h] at this
    cases this
  simp [hm]

example : ([47, 97] : List Int).contains 37 = false := by decide

/-- **An escape of an unreserved octet is decoded in either hex case also when it is the last three bytes of the
string** (the loop at any index `i` with exactly `%XY` left), and an escape of a reserved octet — `%2F`, `%2f`, `%25`,
… — is written back byte for byte, wherever it stands. -/
theorem c08_src_escape_at_end_and_reserved (i : Int) (a b : Nat) (ha : a < 256) (hb : b < 256)
    (hA : isHex (Char.ofNat a) = true) (hB : isHex (Char.ofNat b) = true) (rest : List Nat) (hr : ∀ n ∈ rest, n < 256) :
    (isUnreserved (octet (Char.ofNat a) (Char.ofNat b)) = true →
      PathNorm.Src.normalizeUnreserved_loop i [37, (a : Int), (b : Int)]
        = [((octet (Char.ofNat a) (Char.ofNat b)).toNat : Int)]) ∧
    (isUnreserved (octet (Char.ofNat a) (Char.ofNat b)) = false →
      PathNorm.Src.normalizeUnreserved_loop i (asInts (37 :: a :: b :: rest))
        = 37 :: (a : Int) :: (b : Int) :: ofChars (normalizeL (asChars rest))) := by
  have hall : ∀ n ∈ 37 :: a :: b :: rest, n < 256 := by
    intro n hn
    simp only [List.mem_cons] at hn
    rcases hn with h | h | h | h
    · omega
    · omega
    · omega
    · exact hr n h
  have h1 := c08_src_normalize_loop _ (37 :: a :: b :: rest) (Nat.le_refl _) hall i
  have h0 := c08_src_normalize_loop _ [37, a, b] (Nat.le_refl _)
    (fun n hn => by
      simp only [List.mem_cons, List.mem_nil_iff, or_false] at hn
      rcases hn with h | h | h <;> omega) i
  have e : asChars (37 :: a :: b :: rest) = '%' :: Char.ofNat a :: Char.ofNat b :: asChars rest := rfl
  have e0 : asChars [37, a, b] = '%' :: Char.ofNat a :: Char.ofNat b :: [] := rfl
  have ca := byte_char_toNat a ha
  have cb := byte_char_toNat b hb
  constructor
  · intro hu
    have : asInts [37, a, b] = [37, (a : Int), (b : Int)] := rfl
    rw [this, e0, normalizeL_esc _ _ hA hB] at h0
    simpa [hu, ofChars, normalizeL] using h0
  · intro hu
    rw [e, normalizeL_esc _ _ hA hB] at h1
    simpa [hu, ofChars, ca, cb] using h1

example : isHex (Char.ofNat 55) = true ∧ isHex (Char.ofNat 101) = true ∧
    isUnreserved (octet (Char.ofNat 55) (Char.ofNat 101)) = true ∧
    isUnreserved (octet (Char.ofNat 50) (Char.ofNat 102)) = false := by decide

end Heimdall.Props.C08
