import HeimdallModel.Lemmas.Config
import HeimdallModel.Lemmas.ConfigLeaf
import HeimdallModel.Lemmas.ConfigYaml
import HeimdallModel.Spec.ConfigSchema
/-!
# C20 — configuration file and environment variables are equivalent; the environment wins per leaf

Model: `Model/Config.lean` (`load defaults file env`, `merge`, `parseName`, `envTree`), reference notions:
`Spec/Config.lean` (`envName`, `≈`, `leaves`, `fromLeaves`, `envOf`, `Loadable`, `Expressible`).
All statements are for every configuration tree (any depth, any list length), every environment (any number of
variables) and every path.
-/
namespace Heimdall.Props.C20
open Heimdall.Config
set_option maxRecDepth 8000

/-- The loader reads a variable name back to the path the documented naming rule was applied to
    (prefix removed; `_` separates, `__` is a literal underscore, numbers are list indices, case is irrelevant). -/
theorem c20_key_roundtrip (p : Path) (h : pathOk p = true) : parseName (envName p) = p :=
  parseName_envName p h

/-- hypothesis of `c20_key_roundtrip` is satisfiable: a path through a list into a structure, names with `_` -/
example : pathOk [.key c!"mechanisms", .key c!"error_handlers", .idx 10, .key c!"config", .key c!"x_"] = true := by
  decide
/-- the documented example: `serve.trusted_proxies[0]` -/
example : envName [.key c!"serve", .key c!"trusted_proxies", .idx 0] = c!"SERVE_TRUSTED__PROXIES_0" := by
  simp [envName, segName, escapeKey, natDigits, digitChar]

/-- Every place of the loaded configuration is decided by what defaults, file and environment hold at that very
    place: `result[p] = (defaults[p] ⊕ file[p]) ⊕ env[p]`, where `⊕` lets the right side win for scalars, keeps the
    left side where the right one has nothing, and merges maps key by key and lists index by index. -/
theorem c20_leafwise (d f : Val) (env : Env) (h : Loadable d f env = true) (p : Path) :
    (load d f env).get p = merge (merge (d.get p) (f.get p)) ((envTree env.entries).get p) := by
  simp only [Loadable, Bool.and_eq_true] at h
  obtain ⟨⟨⟨⟨_, hf⟩, he⟩, hdf⟩, hc⟩ := h
  have hE := (obs_entTree env.entries (entriesOk_env env he)).1
  unfold load
  rw [get_merge hE (pcompat_of_compatB hc), get_merge (pnodup_of_nodup hf) (pcompat_of_compatB hdf)]

/-- What a variable does to the place its name addresses, for every variable of every environment: the result there
    is what defaults and file hold, overridden by the variable's contribution `envVal` – its value, unless the value is
    nil and the place is a list position (then it contributes nothing, see `c20_env_nil_element_ignored`). -/
theorem c20_env_at_its_leaf (d f : Val) (env : Env) (h : Loadable d f env = true)
    (name : List Char) (a : String) (hm : (name, a) ∈ env) :
    (load d f env).get (parseName name)
      = merge (merge (d.get (parseName name)) (f.get (parseName name))) (envVal (parseName name) a) := by
  rw [c20_leafwise d f env h]
  simp only [Loadable, Bool.and_eq_true] at h
  have he := h.1.1.2
  have : (envTree env.entries).get (parseName name) = envVal (parseName name) a :=
    entTree_get_entry env.entries (entriesOk_env env he)
      (List.mem_map_of_mem (f := fun e => (parseName e.1, envVal (parseName e.1) e.2)) hm)
  rw [this]

/-- The environment wins for exactly its leaf: the value of every variable is found at the path its name addresses,
    whatever file and defaults say there. The value may be any scalar, the one that is defined to be nil included
    (an empty variable, `null`, `~`: `a = nullText`, see `c20_env_nil_wins`).
    Not covered – because false on the code as it is, known finding C20-nil-list-element – is the single combination
    `holeVar`: a nil value addressed to a list position (`c20_env_wins_fails_nil_element`). -/
theorem c20_env_wins (d f : Val) (env : Env) (h : Loadable d f env = true)
    (name : List Char) (a : String) (hm : (name, a) ∈ env) (hv : holeVar (parseName name) a = false) :
    (load d f env).get (parseName name) = .atom a := by
  rw [c20_env_at_its_leaf d f env h name a hm]
  simp [envVal, hv, merge]

/-- `c20_env_wins` is not vacuous for nil values: an empty `SERVE_PROXY_HOST` over a file that sets the host -/
example :
    let env : Env := [(c!"SERVE_PROXY_HOST", nullText), (c!"SERVE_PROXY_PORT", "9000")]
    Loadable (.map (.cons c!"serve" (.map (.cons c!"proxy" (.map (.cons c!"port" (.atom "4455") .nil)) .nil)) .nil))
      (.map (.cons c!"serve" (.map (.cons c!"proxy" (.map (.cons c!"host" (.atom "\"127.0.0.1\"") .nil)) .nil)) .nil)) env = true
    ∧ (c!"SERVE_PROXY_HOST", nullText) ∈ env ∧ holeVar (parseName c!"SERVE_PROXY_HOST") nullText = false := by
  decide

/-- A variable that defines a property to be nil (empty value, `null`, `~`) wins like any other: whatever scalar the
    file or the defaults hold at that property, the loaded configuration holds the nil value there and none of theirs
    (the typed decoding then leaves the target's default, `c20_nil_keeps_default`). Holds below list entries too
    (`mechanisms.authorizers[1].config.expressions[0].message`); the place itself must not be a list position. -/
theorem c20_env_nil_wins (d f : Val) (env : Env) (h : Loadable d f env = true)
    (name : List Char) (hm : (name, nullText) ∈ env) (hp : endsInIdx (parseName name) = false) :
    (load d f env).get (parseName name) = Val.nil
    ∧ ∀ a, a ≠ nullText → (load d f env).get (parseName name) ≠ .atom a := by
  have key := c20_env_wins d f env h name nullText hm (by simp [holeVar, hp])
  refine ⟨key, fun a ha hc => ?_⟩
  rw [key] at hc
  exact ha (Val.atom.inj hc).symm

/-- the hypotheses are satisfiable by the case of the demonstration: the message of an expression inside the second
    authorizer is reset, the file defines it -/
example :
    let env : Env := [(c!"MECHANISMS_AUTHORIZERS_1_CONFIG_EXPRESSIONS_0_MESSAGE", nullText)]
    let f : Val := .map (.cons c!"mechanisms" (.map (.cons c!"authorizers" (.seq
      (.cons (.map (.cons c!"id" (.atom "\"first\"") .nil))
      (.cons (.map (.cons c!"id" (.atom "\"second\"") (.cons c!"config" (.map (.cons c!"expressions" (.seq
        (.cons (.map (.cons c!"expression" (.atom "\"true\"") (.cons c!"message" (.atom "\"from file\"") .nil))) .nil))
        .nil)) .nil))) .nil))) .nil)) .nil)
    Loadable (.map .nil) f env = true
    ∧ endsInIdx (parseName c!"MECHANISMS_AUTHORIZERS_1_CONFIG_EXPRESSIONS_0_MESSAGE") = false
    ∧ (load (.map .nil) f env).get (parseName c!"MECHANISMS_AUTHORIZERS_1_CONFIG_EXPRESSIONS_0_MESSAGE") = Val.nil := by
  decide

/-- What the code does instead for a nil value addressed to a list position (known finding C20-nil-list-element), for
    every load: the variable changes nothing at that place – the file's (or default's) element survives. -/
theorem c20_env_nil_element_ignored (d f : Val) (env : Env) (h : Loadable d f env = true)
    (name : List Char) (a : String) (hm : (name, a) ∈ env) (hv : holeVar (parseName name) a = true) :
    (load d f env).get (parseName name) = merge (d.get (parseName name)) (f.get (parseName name)) := by
  rw [c20_env_at_its_leaf d f env h name a hm]
  simp [envVal, hv]

/-- ... hence `c20_env_wins` without its last hypothesis is false: `SERVE_TRUSTED__PROXIES_1=` over a file with two
    proxies leaves the second proxy of the file in place -/
theorem c20_env_wins_fails_nil_element :
    ¬ ∀ (d f : Val) (env : Env), Loadable d f env = true → ∀ name a, (name, a) ∈ env →
        (load d f env).get (parseName name) = .atom a := by
  intro hall
  have := hall (.map .nil)
    (.map (.cons c!"serve" (.map (.cons c!"trusted_proxies"
      (.seq (.cons (.atom "\"10.0.0.1\"") (.cons (.atom "\"10.0.0.2\"") .nil))) .nil)) .nil))
    [(c!"SERVE_TRUSTED__PROXIES_1", nullText)] (by decide) c!"SERVE_TRUSTED__PROXIES_1" nullText (by simp)
  revert this
  decide

/-- ... and nothing else changes: at a place no variable addresses (nor anything above or below it) the result is
    what file and defaults give; there the file wins over the defaults leaf by leaf and the defaults fill what the
    file does not define. -/
theorem c20_untouched (d f : Val) (env : Env) (h : Loadable d f env = true) (p : Path)
    (ht : env.touches p = false) :
    (load d f env).get p = merge (d.get p) (f.get p)
    ∧ (f.get p = .null → (load d f env).get p = d.get p)
    ∧ (∀ a, f.get p = .atom a → (load d f env).get p = .atom a) := by
  have key : (load d f env).get p = merge (d.get p) (f.get p) := by
    rw [c20_leafwise d f env h]
    simp only [Loadable, Bool.and_eq_true] at h
    have he := h.1.1.2
    have : (envTree env.entries).get p = .null := by
      apply entTree_get_off env.entries (entriesOk_env env he)
      simp only [Env.touches, List.any_eq_false] at ht
      simp only [Env.entries, List.all_map, List.all_eq_true]
      intro e hem
      simpa using ht e hem
    rw [this]; simp
  refine ⟨key, fun h0 => by rw [key, h0]; simp, fun a ha => by rw [key, ha]; simp [merge]⟩

/-- `Loadable` is satisfiable by a non-trivial load: a default, a file with a list, one variable that extends the list
    of the file and one that overrides a default (used by `c20_leafwise`, `c20_env_wins`, `c20_untouched`, `c20_perm`,
    `c20_env_as_file`) -/
example : Loadable
    (.map (.cons c!"serve" (.map (.cons c!"port" (.atom "4456") .nil)) .nil))
    (.map (.cons c!"serve" (.map (.cons c!"trusted_proxies" (.seq (.cons (.atom "\"10.0.0.1\"") .nil)) .nil)) .nil))
    [(c!"SERVE_TRUSTED__PROXIES_1", "\"10.0.0.2\""), (c!"SERVE_PORT", "9000")] = true := by decide
/-- ... and there `serve.host` is a place the environment does not touch -/
example : Env.touches [(c!"SERVE_TRUSTED__PROXIES_1", "\"10.0.0.2\""), (c!"SERVE_PORT", "9000")]
    [.key c!"serve", .key c!"host"] = false := by decide

/-- The result does not depend on the order in which the environment variables are enumerated. -/
theorem c20_perm (d f : Val) (env₁ env₂ : Env) (hp : env₁.Perm env₂) (h : Loadable d f env₁ = true) :
    load d f env₁ ≈ load d f env₂ := by
  simp only [Loadable, Bool.and_eq_true] at h
  obtain ⟨⟨⟨_, he⟩, _⟩, hc⟩ := h
  have hp' : env₁.entries.Perm env₂.entries := hp.map _
  have hok := entriesOk_env env₁ he
  have hok₂ := entriesOk_perm hp' hok
  unfold load
  exact merge_congr_right (obs_entTree _ hok).1 (obs_entTree _ hok₂).1 (pcompat_of_compatB hc)
    (entTree_perm hp' hok)

/-- a non-trivial permutation of a consistent environment: two elements of one nested list and a scalar -/
example : List.Perm
    [(c!"M_AUTHENTICATORS_0_ID", "\"a\""), (c!"M_AUTHENTICATORS_1_ID", "\"b\""), (c!"LOG_LEVEL", "\"info\"")]
    [(c!"LOG_LEVEL", "\"info\""), (c!"M_AUTHENTICATORS_1_ID", "\"b\""), (c!"M_AUTHENTICATORS_0_ID", "\"a\"")]
    ∧ Loadable (.map .nil) .null
      [(c!"M_AUTHENTICATORS_0_ID", "\"a\""), (c!"M_AUTHENTICATORS_1_ID", "\"b\""), (c!"LOG_LEVEL", "\"info\"")] = true := by
  decide

/-- Giving the variables' leaves in the file instead (merged over what the file already says) has the identical
    effect: file-then-environment is one merge, `(d ⊕ f) ⊕ e ≈ d ⊕ (f ⊕ e)`. -/
theorem c20_env_as_file (d f : Val) (env : Env) (h : Loadable d f env = true) :
    load d f env ≈ load d (merge f (envTree env.entries)) [] := by
  simp only [Loadable, Bool.and_eq_true] at h
  obtain ⟨⟨⟨⟨_, hf⟩, he⟩, hdf⟩, hc⟩ := h
  have hE := (obs_entTree env.entries (entriesOk_env env he)).1
  have hdf' := pcompat_of_compatB hdf
  have hc' := pcompat_of_compatB hc
  have hsplit : pcompat d (envTree env.entries) ∧ pcompat f (envTree env.entries) := by
    constructor <;> intro p
    · exact (kcompat_of_kmerge_left (hdf' p) (by rw [← obs_merge (pnodup_of_nodup hf) hdf']; exact hc' p)).1
    · exact (kcompat_of_kmerge_left (hdf' p) (by rw [← obs_merge (pnodup_of_nodup hf) hdf']; exact hc' p)).2
  have : load d (merge f (envTree env.entries)) [] = merge d (merge f (envTree env.entries)) := by
    simp [load, Env.entries, envTree]
  rw [this]
  exact merge_assoc (pnodup_of_nodup hf) hE hdf' hsplit.1 hsplit.2

/-- File and environment are equivalent sources: take any complete configuration `t` the naming rule can express and
    split its leaves in any way (list elements and structures inside lists included) into a part written to the file
    and a part given as environment variables named by the documented rule; loading the two parts gives the same
    configuration as loading `t` from the file alone. -/
theorem c20_split (d t : Val) (Lf Le : List (Path × String))
    (ht : Expressible t = true) (hc : d.compatB t = true)
    (hs : t.leaves.Perm (Lf ++ Le)) :
    load d (fromLeaves Lf) (envOf Le) ≈ load d t [] := by
  simp only [Expressible, Bool.and_eq_true] at ht
  obtain ⟨⟨hn, hl⟩, hok⟩ := ht
  have hL := consistent_leaves t hn
  have hLs := consistent_perm hs hL
  obtain ⟨hcf, hce, _⟩ := consistent_append hLs
  have hTf := (obs_leafTree Lf hcf).1
  have hTe := (obs_leafTree Le hce).1
  have hfe := pdisj_pcompat (pdisj_leafTrees hLs)
  -- the variables named by the rule are read back as the leaves they stand for
  have hent : (envOf Le).entries = atoms Le := by
    simp only [Env.entries, envOf, atoms, List.map_map]
    apply List.map_congr_left
    intro l hl'
    have := List.all_eq_true.mp hok l (hs.mem_iff.mpr (List.mem_append_right _ hl'))
    simp only [Bool.and_eq_true, Bool.not_eq_true'] at this
    simp [parseName_envName l.1 this.1, envVal, this.2]
  -- the two parts together are `t`
  have hsum : merge (envTree (atoms Lf)) (envTree (atoms Le)) ≈ t :=
    equiv_trans (equiv_symm (leafTree_append hLs))
      (equiv_trans (equiv_symm (leafTree_perm hs hL)) (leafTree_leaves t hn hl))
  have hdt := pcompat_of_compatB hc
  have hdsum : pcompat d (merge (envTree (atoms Lf)) (envTree (atoms Le))) :=
    pcompat_congr_right (equiv_symm hsum) hdt
  have hsplit : pcompat d (envTree (atoms Lf)) ∧ pcompat d (envTree (atoms Le)) := by
    constructor <;> intro p
    · exact (kcompat_of_kmerge_right (hfe p) (by rw [← obs_merge hTe hfe]; exact hdsum p)).1
    · exact (kcompat_of_kmerge_right (hfe p) (by rw [← obs_merge hTe hfe]; exact hdsum p)).2
  have hrhs : load d t [] = merge d t := by simp [load, Env.entries, envTree]
  rw [hrhs]
  unfold load
  rw [hent, fromLeaves_eq]
  exact equiv_trans (merge_assoc hTf hTe hsplit.1 hsplit.2 hfe)
    (merge_congr_right (pnodup_merge hTf hTe hfe) (pnodup_of_nodup hn) hdsum hsum)

/-- the hypotheses of `c20_split` are satisfiable: the documented mechanism list, its four leaves split so that both
    list elements are shared between file and environment, over defaults that define something else -/
example :
    let t : Val := .map (.cons c!"mechanisms" (.map (.cons c!"authenticators" (.seq
      (.cons (.map (.cons c!"id" (.atom "\"a\"") (.cons c!"type" (.atom "\"anonymous\"") .nil)))
      (.cons (.map (.cons c!"id" (.atom "\"b\"") (.cons c!"type" (.atom "\"basic_auth\"") .nil))) .nil))) .nil)) .nil)
    let d : Val := .map (.cons c!"log" (.map (.cons c!"level" (.atom "\"error\"") .nil)) .nil)
    Expressible t = true ∧ d.compatB t = true ∧ t.leaves.Perm (
      [([.key c!"mechanisms", .key c!"authenticators", .idx 1, .key c!"id"], "\"b\""),
       ([.key c!"mechanisms", .key c!"authenticators", .idx 0, .key c!"type"], "\"anonymous\"")] ++
      [([.key c!"mechanisms", .key c!"authenticators", .idx 0, .key c!"id"], "\"a\""),
       ([.key c!"mechanisms", .key c!"authenticators", .idx 1, .key c!"type"], "\"basic_auth\"")]) := by
  decide

/-! ## the prefix of the variable names (`--env-config-prefix`)

The theorems above speak about variable names with the prefix removed. The prefix is whatever the operator configured –
upper, lower or mixed case, with or without a trailing `_`, padded with blanks on the command line – and the loader has
to use it as written: the variables of the process that start with it (character by character) are the configuration,
all others are none of its business. -/

/-- The documented name of a property under ANY configured prefix is read back to the property: the loader removes the
    (trimmed) prefix as written and reads the rest by the naming rule. -/
theorem c20_prefix_name_roundtrip (configured : List Char) (p : Path) (h : pathOk p = true) :
    (stripPrefix? (trimSpace configured) (trimSpace configured ++ envName p)).map parseName = some p := by
  rw [stripPrefix?_append]
  simp [parseName_envName p h]

/-- the hypothesis is satisfiable, and the prefix may be in lower or mixed case and padded: `DemoCfg_LOG__LEVEL` -/
example : pathOk [.key c!"log_level"] = true ∧ trimSpace c!" DemoCfg_ " = c!"DemoCfg_"
    ∧ trimSpace c!" DemoCfg_ " ++ envName [.key c!"log_level"] = c!"DemoCfg_LOG__LEVEL" := by decide

/-- Loading with a configured prefix from a process environment in which the variables carry that prefix is loading
    the variables themselves: every statement above about `load` (leaf-wise result, the environment wins, untouched
    places, permutations, file ≡ environment, every split) holds for every prefix. -/
theorem c20_prefix_env_equiv (d f : Val) (configured : List Char) (env : Env) :
    loadP d f configured (withPrefix (trimSpace configured) env) = load d f env := by
  simp [loadP, selectEnv_withPrefix]

/-- Variables of the process whose name does not start with the configured prefix – among them those that differ from
    it in the case of a letter only – have no effect on the loaded configuration. -/
theorem c20_prefix_foreign_ignored (d f : Val) (configured : List Char) (penv : ProcEnv) :
    loadP d f configured penv = loadP d f configured (penv.filter fun e => !foreignTo configured e) := by
  unfold loadP
  rw [selectEnv_filter]

/-- ... in particular removing or adding any number of foreign variables anywhere changes nothing -/
theorem c20_prefix_foreign_irrelevant (d f : Val) (configured : List Char) (penv₁ penv₂ : ProcEnv)
    (h : (penv₁.filter fun e => !foreignTo configured e) = (penv₂.filter fun e => !foreignTo configured e)) :
    loadP d f configured penv₁ = loadP d f configured penv₂ := by
  rw [c20_prefix_foreign_ignored d f configured penv₁, c20_prefix_foreign_ignored d f configured penv₂, h]

/-- The prefix is compared as written: under the prefix `DemoCfg_` the variable `DemoCfg_PORT` is the property `port`,
    `DEMOCFG_PORT` and `democfg_PORT` are foreign; under `democfg_` it is the other way round. (A loader that folds
    the case of the configured prefix reads the wrong set of variables.) -/
theorem c20_prefix_compared_as_written :
    selectEnv c!"DemoCfg_" [(c!"DemoCfg_PORT", "8080"), (c!"DEMOCFG_PORT", "1"), (c!"democfg_PORT", "2")]
      = [(c!"PORT", "8080")]
    ∧ selectEnv c!"democfg_" [(c!"DemoCfg_PORT", "8080"), (c!"DEMOCFG_PORT", "1"), (c!"democfg_PORT", "2")]
      = [(c!"PORT", "2")]
    ∧ foreignTo c!"DemoCfg_" (c!"DEMOCFG_PORT", "1") = true := by decide

/-- The result does not depend on the order in which the process enumerates its variables, whatever the prefix and
    whatever else the environment holds. -/
theorem c20_prefix_perm (d f : Val) (configured : List Char) (penv₁ penv₂ : ProcEnv) (hp : penv₁.Perm penv₂)
    (h : Loadable d f (selectEnv configured penv₁) = true) :
    loadP d f configured penv₁ ≈ loadP d f configured penv₂ :=
  c20_perm d f _ _ (selectEnv_perm configured hp) h

/-- File and environment are equivalent sources under every prefix: take any complete configuration `t` the naming rule
    can express, split its leaves in any way between the file and variables named `<prefix><documented name>`, and let
    the process environment hold any other variables in between (`hsel`: those that carry the prefix are exactly the
    ones named for `Le`); the load gives the configuration the complete file gives. -/
theorem c20_prefix_split (d t : Val) (Lf Le : List (Path × String)) (configured : List Char) (penv : ProcEnv)
    (ht : Expressible t = true) (hc : d.compatB t = true) (hs : t.leaves.Perm (Lf ++ Le))
    (hsel : (penv.filter fun e => !foreignTo configured e) = withPrefix (trimSpace configured) (envOf Le)) :
    loadP d (fromLeaves Lf) configured penv ≈ load d t [] := by
  rw [c20_prefix_foreign_ignored, hsel, c20_prefix_env_equiv]
  exact c20_split d t Lf Le ht hc hs

/-- the hypotheses are satisfiable: the demonstration's configuration, `port` and the second entry from variables
    under a mixed-case prefix, a same-named upper-case variable and `PATH` in between -/
example :
    let t : Val := .map (.cons c!"log_level" (.atom "\"debug\"") (.cons c!"port" (.atom "8080")
      (.cons c!"entries" (.seq (.cons (.map (.cons c!"name" (.atom "\"first\"") .nil))
        (.cons (.map (.cons c!"name" (.atom "\"second\"") .nil)) .nil))) .nil)))
    let Lf : List (Path × String) := [([.key c!"log_level"], "\"debug\""), ([.key c!"entries", .idx 0, .key c!"name"], "\"first\"")]
    let Le : List (Path × String) := [([.key c!"port"], "8080"), ([.key c!"entries", .idx 1, .key c!"name"], "\"second\"")]
    let penv : ProcEnv := [(c!"DEMOCFG_PORT", "1"), (c!"DemoCfg_PORT", "8080"), (c!"PATH", "\"/bin\""),
      (c!"DemoCfg_ENTRIES_1_NAME", "\"second\"")]
    Expressible t = true ∧ t.leaves.Perm (Lf ++ Le)
    ∧ (penv.filter fun e => !foreignTo c!"DemoCfg_" e) = withPrefix (trimSpace c!"DemoCfg_") (envOf Le) := by
  intro t Lf Le penv
  have h1 : natDigits 1 = c!"1" := by rw [natDigits]; simp [digitChar]
  have ht : trimSpace c!"DemoCfg_" = c!"DemoCfg_" := by decide
  refine ⟨by decide, by decide, ?_⟩
  have hn : envOf Le = [(c!"PORT", "8080"), (c!"ENTRIES_1_NAME", "\"second\"")] := by
    simp [Le, envOf, envName, segName, escapeKey, h1]
  rw [hn, ht]
  decide

/-! ## values: the environment spelling of a value the file can carry -/

/-- The plain spelling of a value in an environment variable yields the same leaf as the file carrying the value,
    for every typed value and every YAML reading `y` of the spelling that is faithful (the text itself; the integer
    whose canonical numeral is the text; for a boolean property the boolean the text names).
    Partial: the full statement `∀ v y, SpellingEquivalent v y` is false on the code as it is, see the two witnesses
    below (known finding C20-env-value-retyped): what is missing are the readings that print differently from what was
    written, for string properties. -/
theorem c20_env_spelling_partial (v : Value) (y : Scalar) (h : faithful v y = true) : SpellingEquivalent v y := by
  unfold SpellingEquivalent
  cases y with
  | null => simp [faithful] at h
  | coll => simp [faithful] at h
  | time => simp [faithful] at h
  | float r => simp [faithful] at h
  | str x =>
    simp only [faithful, beq_iff_eq] at h
    subst h
    cases v with
    | str s => rfl
    | text s => rfl
    | int n => simp [Value.type, Value.fileScalar, Value.spelling, decode, parseCanon_showInt]
    | bool b => cases b <;> decide
  | int n =>
    simp only [faithful, Bool.and_eq_true, beq_iff_eq, bne_iff_ne] at h
    cases v with
    | str s => simp [Value.type, Value.fileScalar, Value.spelling, decode] at h ⊢; exact h
    | int m =>
      have : n = m := showInt_inj (by simpa [Value.spelling] using h.1.1)
      subst this; rfl
    | bool b => simp [Value.type] at h
    | text s => simp [Value.type] at h
  | bool b =>
    simp only [faithful, Bool.and_eq_true, beq_iff_eq, bne_iff_ne] at h
    cases v with
    | str s => simp [Value.type] at h
    | int m => simp [Value.type] at h
    | text s => simp [Value.type] at h
    | bool b' =>
      have : b = b' := by
        cases b <;> cases b' <;> simp [Value.spelling] at h ⊢
      subst this; rfl

/-- the hypothesis is satisfiable by the interesting cases: a numeric password read as an integer, a negative number
    given as text, a boolean, a duration -/
example : faithful (.str c!"42") (.int 42) = true ∧ faithful (.int (-3)) (.str c!"-3") = true
    ∧ faithful (.bool true) (.bool true) = true ∧ faithful (.text c!"5s") (.str c!"5s") = true := by
  have h42 : natDigits 42 = c!"42" := by rw [natDigits]; simp; rw [natDigits]; simp [digitChar]
  have h3 : showInt (-3) = c!"-3" := by
    show showInt (Int.negSucc 2) = _
    simp [showInt]; rw [natDigits]; simp [digitChar]
  refine ⟨?_, ?_, ?_, ?_⟩
  · simp [faithful, Value.spelling, Value.type, showInt, h42]
  · simp [faithful, Value.spelling, h3]
  · simp [faithful, Value.spelling, Value.type]
  · simp [faithful, Value.spelling]

/-- the full statement fails: `ID=true` for a string property arrives as `"1"`, ... -/
theorem c20_env_spelling_fails_bool : ¬ SpellingEquivalent (.str c!"true") (.bool true) := by
  simp [SpellingEquivalent, Value.type, Value.fileScalar, decode]

/-- ... and `PASSWORD=007` (YAML reads the integer 7) arrives as `"7"` -/
theorem c20_env_spelling_fails_numeral : ¬ SpellingEquivalent (.str c!"007") (.int 7) := by
  have h7 : natDigits 7 = c!"7" := by rw [natDigits]; simp [digitChar]
  simp [SpellingEquivalent, Value.type, Value.fileScalar, decode, showInt, h7]

/-- ... and `NAME=~` (as `null`, `Null`, blanks, and for a non-empty default the empty text): YAML reads nil, the
    string property keeps its default instead of the text (same known finding) -/
theorem c20_env_spelling_fails_nil : ¬ SpellingEquivalent (.str c!"~") .null := by
  simp [SpellingEquivalent, Value.type, Value.fileScalar, decode]

/-- A nil value (the empty variable, `null`, `~`) arriving at a typed leaf – string, number, boolean, hook-parsed –
    leaves what the decoding target held before: the default of the property.
    Together with `c20_env_nil_wins`: a variable that defines a property to be nil resets it to its default, whatever the
    file says, which is what the file saying `null` at that property gives (`c20_env_as_file`). -/
theorem c20_nil_keeps_default (t : LeafType) (ht : t ≠ .any) (dflt : Leaf) : decodeOver t dflt .null = dflt := by
  cases t <;> first | rfl | exact absurd rfl ht

/-- ... and a member of a free-form map (the `config` of a mechanism) becomes nil itself, default or not -/
theorem c20_nil_member_is_nil (dflt : Leaf) : decodeOver .any dflt .null = .raw .null := rfl

/-- ... and every other reading replaces the default (the decoder writes the target): the default plays no role -/
theorem c20_value_replaces_default (t : LeafType) (dflt : Leaf) (y : Scalar) (h : decode t y ≠ .zero) :
    decodeOver t dflt y = decode t y := by
  unfold decodeOver
  split
  · next h0 => exact absurd h0 h
  · rfl

/-- not vacuous: a port from the environment over the default port -/
example : decode .int (.int 9000) ≠ .zero ∧ decodeOver .int (.int 4455) (.int 9000) = .int 9000 := by decide

/-! ## dialect: the validation of the file, the loader and the typing of variables read a text alike -/

/-- The scalar the schema validation judges is the scalar the loader merges, and the scalar a variable with the same
    text delivers, for every text. In the model the three decoders are one function (on the unchanged tree all three are
    gopkg.in/yaml.v3); that the REAL `ValidateConfig`, the real `koanfFromYaml` and the real `toRealType` agree with
    `readText` – and with each other – on the whole pool of dialect-sensitive texts is the obligation the
    correspondence check discharges on every run (harness op `readings`, values stream `dialect`). -/
theorem c20_validator_reads_like_loader (t : List Char) :
    validatorReads t = loaderReads t ∧ loaderReads t = envReads t := ⟨rfl, rfl⟩

/-- The loader's dialect (YAML 1.2 core schema): among ALL plain texts exactly `true True TRUE` / `false False FALSE`
    are booleans. In particular no spelling of `yes no on off y n` is. -/
theorem c20_only_six_booleans (s : List Char) (b : Bool) (h : readPlain s = .bool b) :
    (b = true ∧ s ∈ trueWords) ∨ (b = false ∧ s ∈ falseWords) := by
  unfold readPlain at h
  split at h
  · next y hy => subst h; exact wordReading_bool hy
  · split at h
    · simp at h
    · split at h
      · exact absurd h (numericReading_ne_bool _ _)
      · split at h
        · split at h <;> simp at h
        · simp at h

/-- ... and exactly `~ null Null NULL` and the empty text are nil -/
theorem c20_only_five_nils (s : List Char) (h : readPlain s = .null) : s ∈ nullWords := by
  unfold readPlain at h
  split at h
  · next y hy => subst h; exact wordReading_null hy
  · split at h
    · simp [nullWords]
    · split at h
      · exact absurd h (numericReading_ne_null _)
      · split at h
        · split at h <;> simp at h
        · simp at h

/-- The texts decoders of other dialects read differently (YAML 1.1 booleans in every case, the merge key, the value
    key, sexagesimal numbers, near-octals) are, for validator, loader and environment typing alike, the string written. -/
theorem c20_dialect_words_are_strings :
    ∀ w ∈ dialectStrings, validatorReads w = some (.str w) ∧ loaderReads w = some (.str w) ∧ envReads w = some (.str w) := by
  decide

set_option exponentiation.threshold 2048 in
/-- ... and these are not (nil words, octal / hexadecimal / underscore / exponent numerals, `.inf`, `.NaN`, a date, a
    boolean): the file has to quote them for a string property, as the schema demands -/
theorem c20_dialect_retyped_readings : ∀ p ∈ dialectRetyped, readText p.1 = some p.2 := by
  decide

/-- File ≡ environment for one text: whenever the file that says `t` at a leaf passes the validation, a variable carrying
    `t` for that leaf yields the very same leaf (any leaf type, any JSON type the schema asks for, any text). -/
theorem c20_file_accepted_same_as_env (lt : LeafType) (want : JsonType) (t : List Char) (l : Leaf)
    (h : fileOutcomeOf lt want t = some (.leaf l)) : envOutcomeOf lt t = some (.leaf l) := by
  unfold fileOutcomeOf validatorReads loaderReads at h
  unfold envOutcomeOf envReads
  cases hr : readText t with
  | none => simp [hr] at h
  | some y =>
    simp only [hr, Option.bind_some, Option.map_some, fileOutcome, Option.some.injEq] at h
    split at h
    · simpa [envOutcome] using h
    · simp at h

/-- the hypothesis is satisfiable: `x-authenticated: yes` of a header finalizer (a member of a free-form map, the
    schema wants a string) and `host: on` (a string field) -/
example : fileOutcomeOf .any .string c!"yes" = some (.leaf (.raw (.str c!"yes")))
    ∧ fileOutcomeOf .string .string c!"on" = some (.leaf (.str c!"on")) := by decide

/-- A text all three decoders read as a string `s` (plain like `yes`, `1:30`, `<<`, or quoted like `"017"`) is usable
    from the file and from the environment and arrives as `s` from both, at a string field of the configuration and at
    a member of a free-form map (header template, `subject`, `auth_class`, `realm`, key store `password`). -/
theorem c20_string_text_usable_from_both (t s : List Char) (h : readText t = some (.str s)) :
    fileOutcomeOf .string .string t = some (.leaf (.str s)) ∧ envOutcomeOf .string t = some (.leaf (.str s))
    ∧ fileOutcomeOf .any .string t = some (.leaf (.raw (.str s))) ∧ envOutcomeOf .any t = some (.leaf (.raw (.str s))) := by
  simp [fileOutcomeOf, envOutcomeOf, validatorReads, loaderReads, envReads, h, fileOutcome, envOutcome, schemaAccepts,
    decode]

/-- not vacuous: plain, single and double quoted -/
example : readText c!"off" = some (.str c!"off") ∧ readText c!"'017'" = some (.str c!"017")
    ∧ readText c!"\"~\"" = some (.str c!"~") := by decide

/-- "Usable from a file iff usable from the environment" for a string property, text by text. Partial: it holds for
    every text read as a string, as a timestamp or as a collection (usable from both, resp. from neither); it is false
    on the code as it is for the texts read as nil, integer, float or boolean – the schema rejects the unquoted text in
    the file while the variable is retyped and loads (`c20_string_place_file_iff_env_fails_numeral`, known finding
    C20-env-value-retyped). -/
theorem c20_string_place_file_iff_env_partial (t : List Char) (y : Scalar) (h : readText t = some y)
    (hy : (∃ s, y = .str s) ∨ y = .time ∨ y = .coll) :
    ∃ f e, fileOutcomeOf .string .string t = some f ∧ envOutcomeOf .string t = some e ∧ f.usable = e.usable := by
  refine ⟨fileOutcome .string .string y y, envOutcome .string y, ?_, ?_, ?_⟩
  · simp [fileOutcomeOf, validatorReads, loaderReads, h]
  · simp [envOutcomeOf, envReads, h]
  · rcases hy with ⟨s, rfl⟩ | rfl | rfl <;> simp [fileOutcome, envOutcome, schemaAccepts, decode, Outcome.usable]

/-- the hypotheses are satisfiable by each kind: a YAML 1.1 boolean word, and a date -/
example : readText c!"no" = some (.str c!"no") ∧ readText c!"2001-12-14" = some .time := by decide

/-- the unrestricted statement fails: `host: 017` is rejected by the schema ("got number, want string"), `HOST=017`
    loads (as `"15"`) -/
theorem c20_string_place_file_iff_env_fails_numeral :
    fileOutcomeOf .string .string c!"017" = some .rejected
    ∧ (∃ e, envOutcomeOf .string c!"017" = some e ∧ e.usable = true) := by
  have hr : readText c!"017" = some (.int 15) := by decide
  refine ⟨?_, .leaf (decode .string (.int 15)), ?_, ?_⟩
  · simp [fileOutcomeOf, validatorReads, loaderReads, hr, fileOutcome, schemaAccepts]
  · simp [envOutcomeOf, envReads, hr, envOutcome]
  · simp [decode, Outcome.usable]

/-- Why a validator with another dialect breaks the property (the seeded defect, stated for any validator reading): if
    the validator reads a boolean where the loader reads the string, the file is rejected although the variable loads. -/
theorem c20_other_dialect_rejects (s : List Char) (b : Bool) :
    fileOutcome .string .string (.bool b) (.str s) = .rejected
    ∧ (envOutcome .string (.str s)).usable = true ∧ (fileOutcome .string .string (.str s) (.str s)).usable = true := by
  simp [fileOutcome, envOutcome, schemaAccepts, decode, Outcome.usable]


/-! ## histories: a load is a function of its own file and environment -/

/-- Whatever was loaded before and whatever is loaded afterwards in the same process, the result of a load is
    `load` of its own defaults, file and environment. -/
theorem c20_history_independent (pre post : List (Val × Val × Env)) (d f : Val) (env : Env) :
    (runHistory (pre ++ (d, f, env) :: post))[pre.length]? = some (load d f env) := by
  simp [runHistory]

/-! ## schema of the file = what the loader supports (over the tables regenerated from the source on every run) -/

open Heimdall.Config.Schema in
/-- obligation over the generated tables, re-checked against the current source on every run -/
theorem c20_tables_agree : tablesAgree = true := by decide

open Heimdall.Config.Schema in
/-- The schema validation applied to the file accepts exactly the mechanism (and cache) types for which the loader has
    a factory; every option of the static configuration the schema names is read by the loader (nothing is accepted
    and then ignored), and every option the loader reads passes the schema. Hence a configuration is usable from a
    file if and only if it is usable from the environment, as far as types and option names go. -/
theorem c20_schema_eq_loader :
    (∀ cat typ, schemaAcceptsType cat typ = loaderSupportsType cat typ)
    ∧ (∀ path key, schemaNamesOption path key = true → loaderReadsOption path key = true)
    ∧ (∀ path key, loaderReadsOption path key = true → schemaAcceptsOption path key = true) := by
  have h := c20_tables_agree
  simp only [tablesAgree, Bool.and_eq_true, List.all_eq_true] at h
  obtain ⟨⟨h1, h2⟩, h3⟩ := h
  refine ⟨fun cat typ => ?_, fun path key hk => ?_, fun path key hk => ?_⟩
  · simp only [schemaAcceptsType, loaderSupportsType]
    cases hs : Heimdall.Gen.ConfigSchema.schemaMechTypes.contains (cat, typ) with
    | true => exact (h1 (cat, typ) (List.contains_iff_mem.mp hs)).symm
    | false =>
      cases hl : Heimdall.Gen.ConfigSchema.loaderMechTypes.contains (cat, typ) with
      | false => rfl
      | true =>
        have := h2 (cat, typ) (List.contains_iff_mem.mp hl)
        rw [hs] at this
        exact this
  · simp only [schemaNamesOption, loaderReadsOption] at hk ⊢
    cases hr : row? path with
    | none => simp [hr] at hk
    | some r =>
      simp only [hr] at hk ⊢
      have hm : r ∈ Heimdall.Gen.ConfigSchema.optionTable := List.mem_of_find?_eq_some hr
      exact (h3 r hm).1 key (List.contains_iff_mem.mp hk)
  · simp only [schemaAcceptsOption, loaderReadsOption] at hk ⊢
    cases hr : row? path with
    | none => simp [hr] at hk
    | some r =>
      simp only [hr] at hk ⊢
      have hm : r ∈ Heimdall.Gen.ConfigSchema.optionTable := List.mem_of_find?_eq_some hr
      exact (h3 r hm).2 key (List.contains_iff_mem.mp hk)

open Heimdall.Config.Schema in
/-- the statement is not vacuous: a type and an option that both sides know, and one that neither knows -/
example : schemaAcceptsType "authenticators" "jwt" = true ∧ loaderSupportsType "finalizers" "nope" = false
    ∧ loaderReadsOption "serve.proxy.respond.with" "precondition_error" = true
    ∧ schemaAcceptsOption "serve.proxy.respond.with" "argument_error" = false := by decide

/-! ## options inside a mechanism's `config`: the file validation and the type factories know the same names

Over the table measured on the running code in every run (`Gen/ConfigSchema.lean`, `mechOptionTable`): the real
`ValidateConfig` and the real type factories were asked about every candidate name at every place below `config`. -/

open Heimdall.Config.Schema in
/-- obligation over the measured table, re-measured on the current code on every run -/
theorem c20_mech_tables_agree : mechTablesAgree = true := by decide

open Heimdall.Config.Schema in
/-- For every mechanism type, every place below its `config` and EVERY option name: what the type factory reads passes
    the validation of the file (so what is usable from variables is usable from a file); where both sides check names
    they accept exactly the same names; and where a factory takes no notice of its config the file validation accepts
    no option (nothing is accepted and then ignored). -/
theorem c20_mech_options_schema_eq_loader (r : MechRow) (hr : r ∈ Heimdall.Gen.ConfigSchema.mechOptionTable)
    (key : String) :
    (r.loaderReads key = true → r.schemaAccepts key = true)
    ∧ (r.schemaClosed = true → r.loaderClosed = true → r.schemaAccepts key = r.loaderReads key)
    ∧ (r.loaderClosed = false → r.schemaAccepts key = false) := by
  have h := c20_mech_tables_agree
  simp only [mechTablesAgree, Bool.and_eq_true, List.all_eq_true] at h
  have hok := h.1.2 r hr
  unfold mechRowOk at hok
  cases hl : r.loaderClosed with
  | false =>
    simp only [hl, Bool.false_eq_true, if_false, Bool.and_eq_true, List.isEmpty_iff] at hok
    obtain ⟨⟨hsc, hsn⟩, _⟩ := hok
    refine ⟨by simp [MechRow.loaderReads, hl], by simp, fun _ => ?_⟩
    simp [MechRow.schemaAccepts, hsc, hsn]
  | true =>
    simp only [hl, if_true, Bool.or_eq_true, Bool.not_eq_true', Bool.and_eq_true, List.all_eq_true] at hok
    refine ⟨fun hrd => ?_, fun hsc _ => ?_, by simp⟩
    · simp only [MechRow.loaderReads, hl, Bool.true_and] at hrd
      rcases hok with hopen | ⟨hsub, _⟩
      · simp [MechRow.schemaAccepts, hopen]
      · simp only [MechRow.schemaAccepts, Bool.or_eq_true]
        exact Or.inr (hsub key (List.contains_iff_mem.mp hrd))
    · rcases hok with hopen | ⟨hsub, hsup⟩
      · rw [hsc] at hopen; exact absurd hopen (by simp)
      · simp only [MechRow.schemaAccepts, MechRow.loaderReads, hsc, hl, Bool.not_true, Bool.false_or, Bool.true_and]
        cases hs : r.schemaNames.contains key with
        | true => exact (hsup key (List.contains_iff_mem.mp hs)).symm
        | false =>
          cases hk : r.loaderNames.contains key with
          | false => rfl
          | true =>
            have := hsub key (List.contains_iff_mem.mp hk)
            rw [hs] at this
            exact this

open Heimdall.Config.Schema in
/-- not vacuous: measured rows of the table – a type that reads options (also below `config.endpoint`), and one whose
    factory ignores the config -/
example : (mechRow? "error_handlers" "www_authenticate" "").isSome = true
    ∧ (mechRow? "authorizers" "remote" "endpoint").isSome = true
    ∧ (mechRow? "finalizers" "noop" "").map (·.loaderClosed) = some false := by decide

open Heimdall.Config.Schema in
/-- Hence, as far as types and option names go: a mechanism declaration all of whose options stand where the factory
    checks names is usable from a file if and only if it is usable from environment variables – for every category,
    type and list of options. -/
theorem c20_mech_usable_file_iff_env (d : MechDecl) (he : d.effective = true) :
    d.usableFromFile = d.usableFromEnv := by
  unfold MechDecl.usableFromFile MechDecl.usableFromEnv
  cases hf : d.factoryAccepts with
  | false => simp
  | true =>
    simp only [Bool.and_true]
    simp only [MechDecl.factoryAccepts, Bool.and_eq_true, List.all_eq_true] at hf
    simp only [MechDecl.effective, List.all_eq_true] at he
    simp only [MechDecl.validationAccepts, Bool.and_eq_true, List.all_eq_true]
    refine ⟨by rw [c20_schema_eq_loader.1]; exact hf.1, fun o ho => ?_⟩
    have h1 := hf.2 o ho
    have h2 := he o ho
    cases hrow : mechRow? d.cat d.typ o.1 with
    | none => simp [hrow] at h1
    | some r =>
      simp only [hrow] at h1 h2 ⊢
      have hm : r ∈ Heimdall.Gen.ConfigSchema.mechOptionTable := List.mem_of_find?_eq_some hrow
      apply (c20_mech_options_schema_eq_loader r hm o.2).1
      simp only [MechRow.loaderRefuses, h2, Bool.true_and, Bool.not_eq_true', Bool.not_eq_false'] at h1
      simp only [MechRow.loaderReads, h2, Bool.true_and]
      exact h1

open Heimdall.Config.Schema in
/-- the hypothesis is satisfiable and both outcomes occur: the realm of a `www_authenticate` error handler is usable from
    both sources, an option no factory reads from neither -/
example :
    let good : MechDecl := ⟨"error_handlers", "www_authenticate", [("", "realm")]⟩
    let bad : MechDecl := ⟨"error_handlers", "www_authenticate", [("", "realm"), ("", "zz_unknown")]⟩
    good.effective = true ∧ good.usableFromFile = true ∧ good.usableFromEnv = true
    ∧ bad.effective = true ∧ bad.usableFromFile = false ∧ bad.usableFromEnv = false := by decide

open Heimdall.Config.Schema in
/-- What the hypothesis `effective` excludes, for every declaration: an option handed to a mechanism whose factory takes
    no notice of its config (`noop`, `allow`, `deny`, `default`, `unauthorized`) is rejected in a file, while the same
    variable changes nothing – it is no option of the mechanism. -/
theorem c20_mech_ignored_config_refused_by_file (d : MechDecl) (o : String × String) (ho : o ∈ d.options)
    (r : MechRow) (hrow : mechRow? d.cat d.typ o.1 = some r) (hl : r.loaderClosed = false) :
    d.usableFromFile = false := by
  have hm : r ∈ Heimdall.Gen.ConfigSchema.mechOptionTable := List.mem_of_find?_eq_some hrow
  have hs := (c20_mech_options_schema_eq_loader r hm o.2).2.2 hl
  have : d.validationAccepts = false := by
    simp only [MechDecl.validationAccepts, Bool.and_eq_false_iff, List.all_eq_false]
    exact Or.inr ⟨o, ho, by simp [hrow, hs]⟩
  simp [MechDecl.usableFromFile, this]

/-! ## References to environment variables in the file (`${NAME}`; sixth round)

The file may take the value of a property from a variable of any name. The reference is resolved in the TEXT of the
file before YAML reads it, so the file with the reference is the file that says the contents literally at that place –
quotes around the reference included. -/

/-- Resolving references is textual: a reference `${NAME}` – wherever it stands, between quotes, inside a longer text –
    is replaced by the contents of the variable, what stands before it (no `$`) is copied, the rest is resolved on. -/
theorem c20_reference_is_textual (vs : Vars) (pre n post : List Char) (hp : noDollar pre = true)
    (hn : nameOk n = true) :
    substitute vs (pre ++ (plainRef n ++ post))
      = (substitute vs post).map (fun s => pre ++ (vs.contents n ++ s)) :=
  substitute_reference vs pre n post hp hn

/-- hypotheses satisfiable, non-trivially: `p: "${PW}" # x` with `PW=0815` is `p: "0815" # x` -/
example : substitute [(c!"PW", c!"0815")] (c!"p: \"" ++ (plainRef c!"PW" ++ c!"\" # x")) = some c!"p: \"0815\" # x" := by
  decide

/-- A file without references is read as it is. -/
theorem c20_no_reference_unchanged (vs : Vars) (t : List Char) (h : noDollar t = true) :
    loaderReadsRef vs t = loaderReads t ∧ validatorReadsRef vs t = validatorReads t := by
  simp [loaderReadsRef, validatorReadsRef, readRefText, substitute_noDollar vs t h, loaderReads, validatorReads]

/-- **A quoted reference is the string of the contents.** For every variable name and ALL contents that may stand
    between double quotes (no `"`, no `\`, one line) – `0815`, `007`, `1e3`, `0x1f`, `true`, `null`, `~`, a date, the empty
    text –: the file saying `"${NAME}"` is read, by the loader and by the validation, as the string of the contents;
    exactly as the file that says `"contents"` literally and as the property's own variable carrying `"contents"`. -/
theorem c20_quoted_reference_is_string (vs : Vars) (n : List Char) (hn : nameOk n = true)
    (hv : dquoteSafe (vs.contents n) = true) :
    loaderReadsRef vs (dquoted (plainRef n)) = some (.str (vs.contents n))
    ∧ validatorReadsRef vs (dquoted (plainRef n)) = some (.str (vs.contents n))
    ∧ loaderReads (dquoted (vs.contents n)) = some (.str (vs.contents n))
    ∧ envReads (dquoted (vs.contents n)) = some (.str (vs.contents n)) := by
  have hs : substitute vs (dquoted (plainRef n)) = some (dquoted (vs.contents n)) := by
    have := substitute_reference vs ['"'] n ['"'] (by decide) hn
    have h2 : substitute vs ['"'] = some ['"'] := substitute_noDollar vs _ (by decide)
    simpa [dquoted, h2] using this
  have hr := readText_dquoted _ hv
  simp [loaderReadsRef, validatorReadsRef, readRefText, hs, hr, loaderReads, envReads]

/-- the same between single quotes -/
theorem c20_single_quoted_reference_is_string (vs : Vars) (n : List Char) (hn : nameOk n = true)
    (hv : squoteSafe (vs.contents n) = true) :
    loaderReadsRef vs (squoted (plainRef n)) = some (.str (vs.contents n))
    ∧ validatorReadsRef vs (squoted (plainRef n)) = some (.str (vs.contents n))
    ∧ envReads (squoted (vs.contents n)) = some (.str (vs.contents n)) := by
  have hs : substitute vs (squoted (plainRef n)) = some (squoted (vs.contents n)) := by
    have := substitute_reference vs ['\''] n ['\''] (by decide) hn
    have h2 : substitute vs ['\''] = some ['\''] := substitute_noDollar vs _ (by decide)
    simpa [squoted, h2] using this
  have hr := readText_squoted _ hv
  simp [loaderReadsRef, validatorReadsRef, readRefText, hs, hr, envReads]

set_option exponentiation.threshold 2048 in
/-- the hypotheses are satisfiable, and the quotes matter: with `PW=0815` the quoted reference is the string `0815`
    (the seed's demonstration: a key store password), the plain reference is a number; with `PW=null` the quoted one is
    the string `null`, the plain one nil -/
example :
    let vs : Vars := [(c!"PW", c!"0815"), (c!"N", c!"null")]
    nameOk c!"PW" = true ∧ dquoteSafe (vs.contents c!"PW") = true
    ∧ loaderReadsRef vs c!"\"${PW}\"" = some (.str c!"0815")
    ∧ loaderReadsRef vs c!"${PW}" = some (.float c!"815")
    ∧ loaderReadsRef vs c!"'${N}'" = some (.str c!"null")
    ∧ loaderReadsRef vs c!"${N}" = some .null
    ∧ loaderReadsRef vs c!"${UNSET:=4460}" = some (.int 4460) := by decide

/-- Hence for every leaf type: a string property given as `"${NAME}"` in the file passes the validation and yields the
    same leaf as the literal `"contents"` in the file and as the property's own variable carrying `"contents"` – usable
    from the file iff usable from the environment, with identical effect. -/
theorem c20_quoted_reference_same_as_literal_and_env (lt : LeafType) (vs : Vars) (n : List Char)
    (hn : nameOk n = true) (hv : dquoteSafe (vs.contents n) = true) :
    fileOutcomeRef lt .string vs (dquoted (plainRef n)) = some (.leaf (decode lt (.str (vs.contents n))))
    ∧ fileOutcomeOf lt .string (dquoted (vs.contents n)) = some (.leaf (decode lt (.str (vs.contents n))))
    ∧ envOutcomeOf lt (dquoted (vs.contents n)) = some (.leaf (decode lt (.str (vs.contents n)))) := by
  obtain ⟨h1, h2, h3, h4⟩ := c20_quoted_reference_is_string vs n hn hv
  have h5 : validatorReads (dquoted (vs.contents n)) = some (.str (vs.contents n)) := h3
  simp [fileOutcomeRef, fileOutcomeOf, envOutcomeOf, h1, h2, h3, h4, h5, fileOutcome, envOutcome, schemaAccepts]

/-- A plain reference (`port: ${PORT}`) is read exactly as the property's own variable carrying the contents is read:
    YAML decides what the contents are (a number, a boolean, nil, a string). -/
theorem c20_plain_reference_reads_as_variable (vs : Vars) (n : List Char) (hn : nameOk n = true) :
    loaderReadsRef vs (plainRef n) = envReads (vs.contents n)
    ∧ validatorReadsRef vs (plainRef n) = envReads (vs.contents n) := by
  have := substitute_reference vs [] n [] (by decide) hn
  have hs : substitute vs (plainRef n) = some (vs.contents n) := by
    simpa [substitute, substGo] using this
  simp [loaderReadsRef, validatorReadsRef, readRefText, hs, envReads]

end Heimdall.Props.C20
