import HeimdallModel.Lemmas.SignerClaims
import HeimdallModel.Lemmas.SignerStore
import HeimdallModel.Lemmas.SignerShared
import HeimdallModel.Lemmas.SignerConc
import HeimdallModel.Lemmas.SignerEdges
import HeimdallModel.Lemmas.SignerCache
import HeimdallModel.Lemmas.SignerTime
import HeimdallModel.Model.SignerProtocol
import HeimdallModel.Gen.Signer
/-!
# C16 — issued JWTs verify against the published key set and carry the system claims

Model: `Model/Signer.lean` (key store, `load`, `Sign`, publication; cryptography and X.509 opaque),
`Model/SignerConc.lean` (token creation, key-set reads and reloads as a small-step machine, any number of threads),
`Model/SignerCache.lean` (the token cache of `Execute`, shared by the catalogue finalizer, its rule-level variants and
every other jwt finalizer), `Model/SignerTime.lean` (the clock: certificates are judged at the instant of a load,
`Keys()` does not read it).  Specification: `Spec/Signer.lean`, `Spec/SignerCache.lean`, `Spec/SignerTime.lean`.  The
first group of theorems ties the machine to the current source: they are stated about `Gen/Signer.lean`, which
`/verif/extract/signer` regenerates from `jwt_signer.go` on every run.
-/
namespace Heimdall.Props.C16
open Heimdall Heimdall.Signer Heimdall.SignerConc Heimdall.SignerProtocol

/-! ## The tie: the source runs the locking protocol the machine runs

Only the synchronisation protocol is read from the source (`Gen/Signer.lean`, regenerated on every run; calls of other
methods of the signer inlined).  It is compared as a list of critical sections — which guarded fields are accessed
inside which read- or write-lock section — so that behaviour-preserving rewrites (helpers, constants, explicit versus
deferred unlock, order inside a section) leave the obligations alone.  Claim set, headers, key selection, algorithm
tables and the public JWKs are observed from the running code by the correspondence check. -/

/-- `jwtSigner` has one mutex, no function outside its methods assigns a field, and every method — entry point or
helper — is well-formed: no guarded field is touched outside a critical section, no write in a read section, lock and
unlock pair up, no configuration field is written, and a section that writes replaces all three guarded fields -/
theorem c16_src_methods :
    Gen.Signer.mutexes = ["mut"] ∧ Gen.Signer.outsideWrites = [] ∧ allMethodsSafe Gen.Signer.protocol = true := by
  decide

/-- `Sign` copies JWK and key inside one read-lock section and touches no guarded field outside it -/
theorem c16_src_sign_protocol : methodSections Gen.Signer.protocol "Sign" = some signSections := by decide

theorem c16_src_keys_protocol : methodSections Gen.Signer.protocol "Keys" = some keysSections := by decide

theorem c16_src_hash_protocol : methodSections Gen.Signer.protocol "Hash" = some jwkSections := by decide

theorem c16_src_cert_protocol :
    methodSections Gen.Signer.protocol "activeCertificateChain" = some jwkSections := by decide

/-- `load` does everything that can fail outside the lock and replaces JWK, key and published list inside one
write-lock section; `OnChanged` does nothing else with the guarded fields -/
theorem c16_src_load_protocol :
    methodSections Gen.Signer.protocol "load" = some loadSections ∧
    methodSections Gen.Signer.protocol "OnChanged" = some loadSections := by decide

/-- the transitions of the machine, read as source-level events, are these critical sections -/
theorem c16_src_edges_are_protocol :
    sections (signerEdges.map (·.2.1)) = some signSections ∧ sections (readerEdges.map (·.2.1)) = some keysSections ∧
    sections (loaderEdges.map (·.2.1)) = some loadSections := by decide

/-- every step of the machine moves the stepping thread along one of these edges (performing the event the edge is
labelled with) and leaves every other thread where it is -/
theorem c16_src_step_follows_edges {S : Type} (c c' : Config S) (h : Step c c') (i : Nat) :
    (c'.threads i).where_ = (c.threads i).where_ ∨ edge (c.threads i).where_ (c'.threads i).where_ :=
  step_follows_edges c c' h i

/-- what the section reading rejects: the two ways of tearing the pair that were tried as mutations — `Sign` reading
JWK and key under two read locks, `load` publishing the key list and the signing key under two write locks — and an
access outside any section -/
theorem c16_src_torn_protocols_rejected :
    sections [.rlock, .readJwk, .runlock, .rlock, .readKey, .runlock, .ret] ≠ some signSections ∧
    allMethodsSafe [("load", ["lock mut", "write pubKeys", "unlock mut", "lock mut", "write jwk", "write key",
      "unlock mut", "return nil"])] = false ∧
    sections [.readJwk, .rlock, .readKey, .runlock] = none := by decide

/-! ## System claims -/

variable {α : Type}

/-- In *any* claim program, a claim written after the last merge of the custom claims (and not written again) has
the written value, whatever the custom claims contain. -/
theorem c16_claim_written_after_merge_wins (pre post : List ClaimOp) (k : String) (s : SysSrc)
    (custom : Claims α) (i : SignIn) (h : untouched k post = true) :
    lookup k (runProgram (pre ++ .set k s :: post) custom i) = some (sysVal i s) := by
  unfold runProgram
  rw [List.foldl_append, List.foldl_cons, lookup_fold_untouched k post custom i _ h]
  simp [runOp, lookup_put]

example : untouched "iat" [ClaimOp.set "iss" .iss, .set "nbf" .nbf, .set "sub" .sub] = true := by decide

/-- The claims of every token are the specified ones: `sub`, `iss`, `iat`, `nbf`, `exp`, `jti` have the values `Sign`
computes from the subject id, the signer name, the clock and the TTL — for all custom claims, including ones naming
them — and every other name has the value the custom claims gave it. -/
theorem c16_claims_spec (st : State) (i : SignIn) (custom : Claims α) (k : String) :
    lookup k (sign st i custom).claims = specClaim custom i k := by
  show lookup k (runProgram signProgram custom i) = specClaim custom i k
  simp only [runProgram, signProgram, List.foldl_cons, List.foldl_nil, runOp, lookup_put, lookup_mergeInto, lookup_nil,
    specClaim, reservedSrc]
  by_cases h1 : k = "sub"
  · simp [h1]
  by_cases h2 : k = "nbf"
  · simp [h2, sysVal]
  by_cases h3 : k = "iss"
  · simp [h3]
  by_cases h4 : k = "iat"
  · simp [h4]
  by_cases h5 : k = "jti"
  · simp [h5]
  by_cases h6 : k = "exp"
  · simp [h6]
  simp [h1, h2, h3, h4, h5, h6]

/-- the same, claim by claim -/
theorem c16_system_claims (st : State) (i : SignIn) (custom : Claims α) :
    let c := (sign st i custom).claims
    lookup "sub" c = some (.str i.sub) ∧ lookup "iss" c = some (.str i.iss) ∧
    lookup "iat" c = some (.num (unixSec i.nowNs)) ∧ lookup "nbf" c = some (.num (unixSec i.nowNs)) ∧
    lookup "exp" c = some (.num (unixSec (i.nowNs + i.ttlNs))) ∧ lookup "jti" c = some .fresh := by
  simp [c16_claims_spec, specClaim, reservedSrc, sysVal]

/-- a claim name occurs once in the serialised claim set, for any program and any custom claims -/
theorem c16_claim_names_unique (p : List ClaimOp) (custom : Claims α) (i : SignIn) :
    ((runProgram p custom i).map (·.1)).Nodup :=
  names_nodup_fold p custom i [] (by simp)

/-- the order matters: were the custom claims merged after the system claims, a template could set `sub` -/
theorem c16_merge_last_would_lose (i : SignIn) :
    lookup "sub" (runProgram [.set "sub" .sub, .merge] [("sub", (.other 7 : CVal Nat))] i) = some (.other 7) := by
  simp [runProgram, runOp, lookup_mergeInto, lookup_put, lookup]

/-- `exp` is exactly the TTL after `iat` for every TTL of whole seconds, at every instant -/
theorem c16_exp_exact (nowNs ttlSec : Int) :
    unixSec (nowNs + ttlSec * 1000000000) = unixSec nowNs + ttlSec := by
  unfold unixSec; omega

/-- for a TTL with a sub-second part the integer `exp` is the TTL's whole seconds after `iat`, or one more -/
theorem c16_exp_bounds (nowNs ttlNs : Int) :
    unixSec nowNs + unixSec ttlNs ≤ unixSec (nowNs + ttlNs) ∧
    unixSec (nowNs + ttlNs) ≤ unixSec nowNs + unixSec ttlNs + 1 := by
  unfold unixSec; omega

/-! ## Header, active key, verification against the published list -/

/-- the token names id and algorithm of the active key and is signed with it -/
theorem c16_header_names_active_key (st : State) (i : SignIn) (custom : Claims α) :
    let t := sign st i custom
    t.typ = "JWT" ∧ t.kid = st.jwk.kid ∧ t.alg = st.jwk.alg ∧ t.signedBy = st.key := ⟨rfl, rfl, rfl, rfl⟩

/-- every generation `load` installs — any store, any configured key id — publishes the active key's own
description under a key id no other published key has, with the algorithm of the key's size -/
theorem c16_load_consistent (keyID : String) (raw : List RawEntry) (st : State) (h : load keyID raw = some st) :
    Consistent st := load_consistent keyID raw st h

def k1 : PrivKey := ⟨⟨.rsa, 3072, 1⟩, 11⟩
def k2 : PrivKey := ⟨⟨.ecdsa, 521, 2⟩, 22⟩
def store1 : List RawEntry := [⟨"", k1, [⟨5, "ab01"⟩], true, true⟩, ⟨"second", k2, [], true, true⟩]

example : (load "second" store1).map (fun st => (st.jwk.kid, st.jwk.alg, st.pubKeys.map (·.kid))) =
    some ("second", "ES512", ["ab01", "second"]) := by decide

/-- a token of a consistent generation verifies against that generation's published list the way go-jose verifies
against a JWK set (first key with the token's key id) -/
theorem c16_token_verifies (st : State) (h : Consistent st) (i : SignIn) (custom : Claims α) :
    verifiesFirst st.pubKeys (sign st i custom) = true := verifiesFirst_of_consistent st h i custom

/-- a reload that fails (unreadable file, invalid chain, duplicate or unknown key id, certificate not usable for
signing, unsupported key size, store without entries) leaves the active generation untouched -/
theorem c16_failed_reload_keeps_generation (keyID : String) (st : State) (f : File) (h : loadFile keyID f = none) :
    reload keyID st f = st := by simp [reload, h]

example : loadFile "nobody" (some store1) = none ∧ loadFile "" (some []) = none ∧ loadFile "" none = none := by decide

/-- what `load` rejects explicitly since it no longer panics: a store without entries, and any store holding a key of
unsupported size, whichever key is configured; by the previous theorem such a reload changes nothing -/
theorem c16_load_rejects_unusable_stores (keyID : String) :
    load keyID [] = none ∧
    ∀ (raw : List RawEntry) (e : RawEntry), e ∈ raw → joseAlg e.key.pub = none → load keyID raw = none := by
  refine ⟨?_, fun raw e he hu => load_unsupported keyID raw e he hu⟩
  unfold load selectEntry
  by_cases h : keyID = "" <;> simp [buildStore, h]

example : joseAlg (⟨.rsa, 1024, 9⟩ : PubKey) = none ∧ joseAlg (⟨.ecdsa, 224, 9⟩ : PubKey) = none := by decide

/-- after any history of key-store reloads, successful or not, every token created verifies against the key set
published at that moment -/
theorem c16_verifies_after_any_history (keyID : String) (raw0 : List RawEntry) (st0 : State)
    (h0 : load keyID raw0 = some st0) (hist : List File) (i : SignIn) (custom : Claims α) :
    let st := hist.foldl (reload keyID) st0
    verifiesFirst st.pubKeys (sign st i custom) = true :=
  verifiesFirst_of_consistent _ (history_consistent keyID st0 hist (load_consistent keyID raw0 st0 h0)) i custom

/-- with several key holders the endpoint publishes the concatenation of their lists; a token of any of them is
verified by some published key with its id and algorithm -/
theorem c16_registry_verifies_any (holders : List State) (st : State) (hm : st ∈ holders) (h : Consistent st)
    (i : SignIn) (custom : Claims α) : verifiesAny (published holders) (sign st i custom) = true := by
  apply verifiesAny_of_mem _ st.jwk
  · exact List.mem_flatMap.mpr ⟨st, hm, h.active_published⟩
  · exact verifiesWith_own _ _ _ _ h.pair

/-- first-match verification succeeds as well unless an earlier key holder publishes different key material under
the same key id -/
theorem c16_registry_verifies_first (before after : List State) (st : State) (h : Consistent st) (i : SignIn)
    (custom : Claims α) (hc : NoClash before (sign st i custom)) :
    verifiesFirst (published (before ++ st :: after)) (sign st i custom) = true :=
  verifiesFirst_registry before after st h i custom hc

def st1 : State := ⟨⟨"a", "PS384", "sig", k1.pub, []⟩, k1, [⟨"a", "PS384", "sig", k1.pub, []⟩]⟩
def st2 : State := ⟨⟨"b", "ES512", "sig", k2.pub, []⟩, k2, [⟨"b", "ES512", "sig", k2.pub, []⟩]⟩

example : NoClash [st1] (sign st2 ⟨"u", "iss", 0, 0⟩ ([] : Claims Nat)) := by
  intro j hj hk
  simp [published, st1] at hj
  subst hj
  simp [sign, signWith, st2] at hk

/-- the hypothesis is needed: two holders publishing different keys under one id defeat first-match verification of
the second holder's tokens (not of the first's) -/
theorem c16_registry_first_match_needs_distinct_ids :
    let clash : State := ⟨⟨"a", "ES512", "sig", k2.pub, []⟩, k2, [⟨"a", "ES512", "sig", k2.pub, []⟩]⟩
    let t := sign clash ⟨"u", "iss", 0, 0⟩ ([] : Claims Nat)
    verifiesFirst (published [st1, clash]) t = false ∧ verifiesAny (published [st1, clash]) t = true := by
  decide

/-! ## One key under several ids

A key store file may list the very same private key in several blocks under different `X-Key-ID`s (the name a key had
before a renaming next to the new one; bundles concatenated from several sources; other keys in between).  The
property quantifies over all key stores "with/without key ids, several entries": whichever of the ids of such a key
the finalizer is configured with, the token names that id and has to be resolvable in the published key set. -/

/-- every key block of the file is published — one JWK per block, in file order, under the block's id (`X-Key-ID`,
subject key identifier or the computed one), with the block's public key and certificate chain —, whichever key is
configured and whether or not several blocks hold the same key material: nothing is merged, nothing left out -/
theorem c16_every_listing_is_published (keyID : String) (raw : List RawEntry) (st : State)
    (h : load keyID raw = some st) : EveryListingPublished raw st ∧ st.pubKeys.length = raw.length := by
  obtain ⟨es, kse, hb, _, _, _, ha, _, _⟩ := load_parts keyID raw st h
  have hf := allJwks_faces es st.pubKeys ha
  have he := buildStore_eq_map raw [] es hb
  have hface : EveryListingPublished raw st := by
    unfold EveryListingPublished
    rw [hf, he]
    simp [entryOf]
  refine ⟨hface, ?_⟩
  have := congrArg List.length hface
  simpa using this

/-- a store that loads at all (under any configured id `k0`) can be used through the id of **every** block `e` whose
certificate, if it has one, may sign — in particular through each of the ids of a key listed several times, the first
one or a later one: the store loads, the active key is that block's key, the token names exactly that id, is signed
with the key, the published list is the same whichever id is configured, and the token verifies against it the way
go-jose resolves a key id in a JWK set -/
theorem c16_any_id_of_a_key_selects_and_verifies (k0 : String) (raw : List RawEntry) (st0 : State)
    (h0 : load k0 raw = some st0) (e : RawEntry) (he : e ∈ raw) (hu : e.chain = [] ∨ e.signUsable = true)
    (i : SignIn) (custom : Claims α) :
    ∃ st, load (kidOf e) raw = some st ∧ st.key = e.key ∧ st.pubKeys = st0.pubKeys ∧
      (sign st i custom).kid = kidOf e ∧ (sign st i custom).signedBy = e.key ∧
      (∃ j ∈ st0.pubKeys, j.kid = kidOf e ∧ j.pub = e.key.pub) ∧
      verifiesFirst st0.pubKeys (sign st i custom) = true := by
  obtain ⟨es, _, hb, _, hsup, _, ha, _, _⟩ := load_parts k0 raw st0 h0
  have hes := buildStore_eq_map raw [] es hb
  have hmem : entryOf e ∈ es := by rw [hes]; exact List.mem_map_of_mem he
  have hnd := (buildStore_kids raw [] es hb).1
  have hsel : selectEntry (kidOf e) es = some (entryOf e) := by
    unfold selectEntry
    rw [if_neg (kidOf_ne_empty e)]
    exact find_of_nodup (·.kid) es (entryOf e) hnd hmem
  have hs1 : (entryOf e).supported = true := List.all_eq_true.mp hsup _ hmem
  cases hj : (entryOf e).jwk with
  | none => simp [Entry.supported, Entry.jwk] at hs1 hj; simp [hj] at hs1
  | some jwk =>
    have hl := load_of_parts (kidOf e) raw es (entryOf e) st0.pubKeys jwk hb hsel hsup hu ha hj
    have hf := jwk_fields _ _ hj
    have hc := load_consistent _ _ _ hl
    refine ⟨_, hl, rfl, rfl, hf.1, rfl, ⟨jwk, hc.active_published, hf.1, hf.2.1⟩, ?_⟩
    exact verifiesFirst_of_consistent _ hc i custom

def kShared : PrivKey := ⟨⟨.ecdsa, 256, 7⟩, 77⟩
/-- the key store of corpus 18: the same P-256 key as `signer-2023` and as `signer-2024`, a P-521 key in between -/
def storeShared : List RawEntry :=
  [⟨"signer-2023", kShared, [], true, true⟩, ⟨"other", k2, [], true, true⟩, ⟨"signer-2024", kShared, [], true, true⟩]

example : SharedKey storeShared ⟨"signer-2024", kShared, [], true, true⟩ ∧ (load "" storeShared).isSome = true ∧
    (⟨"signer-2024", kShared, [], true, true⟩ : RawEntry) ∈ storeShared := by
  refine ⟨⟨⟨"signer-2023", kShared, [], true, true⟩, by decide, rfl, by decide⟩, by decide, by decide⟩

example : (load "signer-2024" storeShared).map (fun st => (st.jwk.kid, st.jwk.alg, st.key)) =
      some ("signer-2024", "ES256", kShared) ∧
    (load "signer-2024" storeShared).map (fun st => st.pubKeys.map Jwk.face) =
      some [("signer-2023", kShared.pub, []), ("other", k2.pub, []), ("signer-2024", kShared.pub, [])] := by decide

/-- for **every** generation with unique published ids: if the active JWK stands in the published list behind a JWK
with the same public key (the finalizer is configured with a later id of a key listed several times), then a list that
names each key material once holds no key with the token's id — the token cannot be resolved, let alone verified -/
theorem c16_listing_each_key_once_unpublishes_later_ids (st : State) (hc : Consistent st) (pre post : List Jwk)
    (hsplit : st.pubKeys = pre ++ st.jwk :: post) (j0 : Jwk) (h0 : j0 ∈ pre) (hp : j0.pub = st.jwk.pub)
    (i : SignIn) (custom : Claims α) :
    verifiesAny (distinctKeys st.pubKeys) (sign st i custom) = false ∧
    verifiesFirst (distinctKeys st.pubKeys) (sign st i custom) = false ∧
    verifiesFirst st.pubKeys (sign st i custom) = true := by
  have hn := hc.kids_unique
  rw [hsplit] at hn
  have hdrop := distinctKeys_drops_later pre post st.jwk j0 hn h0 hp
  rw [← hsplit] at hdrop
  have hkid : (sign st i custom).kid = st.jwk.kid := rfl
  refine ⟨?_, ?_, verifiesFirst_of_consistent st hc i custom⟩
  · apply Bool.eq_false_iff.mpr
    intro hv
    obtain ⟨x, hx, hw⟩ := List.any_eq_true.mp hv
    simp only [verifiesWith, Bool.and_eq_true, decide_eq_true_eq] at hw
    exact hdrop x hx (hw.1.1.trans hkid)
  · unfold verifiesFirst
    cases hf : (distinctKeys st.pubKeys).find? (fun j => j.kid = (sign st i custom).kid) with
    | none => rfl
    | some x =>
      have hx := List.mem_of_find?_eq_some hf
      have hk := List.find?_some hf
      exact absurd ((by simpa using hk : x.kid = (sign st i custom).kid).trans hkid) (hdrop x hx)

def stShared : State :=
  ⟨⟨"signer-2024", "ES256", "sig", kShared.pub, []⟩, kShared,
   [⟨"signer-2023", "ES256", "sig", kShared.pub, []⟩, ⟨"other", "ES512", "sig", k2.pub, []⟩,
    ⟨"signer-2024", "ES256", "sig", kShared.pub, []⟩]⟩

example : load "signer-2024" storeShared = some stShared ∧ Consistent stShared ∧
    stShared.pubKeys = [⟨"signer-2023", "ES256", "sig", kShared.pub, []⟩, ⟨"other", "ES512", "sig", k2.pub, []⟩] ++
      stShared.jwk :: [] ∧ (⟨"signer-2023", "ES256", "sig", kShared.pub, []⟩ : Jwk).pub = stShared.jwk.pub :=
  ⟨by decide, load_consistent "signer-2024" storeShared _ (by decide), by decide, by decide⟩

/-- the token of the witnesses below: subject `subject-1`, signer name `demo`, TTL 10 minutes, no custom claims -/
def tokShared (st : State) : Token Nat := sign st ⟨"subject-1", "demo", 0, 600000000000⟩ []

/-- negative, evaluated: the key store of corpus 18 behind a key store that lists each key material once while it finds
an entry under each id (`loadDistinct`, seed s5/C16-a).  Configured with `signer-2024` the token names `signer-2024`
and is signed with the shared key, the published ids are `signer-2023, other`: no published key has the token's id.
With `load` — the code — all three ids are published and the token verifies.  Configured with the first id, or with
none, the variants hand out tokens that verify alike. -/
theorem c16_listing_each_key_once_violates :
    (loadDistinct "signer-2024" storeShared).map
        (fun st => ((tokShared st).kid, (tokShared st).signedBy, st.pubKeys.map (·.kid),
          verifiesAny st.pubKeys (tokShared st), verifiesFirst st.pubKeys (tokShared st))) =
      some ("signer-2024", kShared, ["signer-2023", "other"], false, false) ∧
    (load "signer-2024" storeShared).map
        (fun st => ((tokShared st).kid, (tokShared st).signedBy, st.pubKeys.map (·.kid),
          verifiesAny st.pubKeys (tokShared st), verifiesFirst st.pubKeys (tokShared st))) =
      some ("signer-2024", kShared, ["signer-2023", "other", "signer-2024"], true, true) ∧
    (loadDistinct "signer-2023" storeShared).map (fun st => verifiesFirst st.pubKeys (tokShared st)) = some true ∧
    (loadDistinct "" storeShared).map (fun st => ((tokShared st).kid, verifiesFirst st.pubKeys (tokShared st))) =
      some ("signer-2023", true) := ⟨by decide, by decide, by decide, by decide⟩

/-! ## Public parts only -/

/-- what `load` publishes (and the JWK it signs headers from) is a function of the public halves: two key stores that
differ only in private key material publish the same -/
theorem c16_published_ignores_secrets (keyID : String) (raw : List RawEntry) :
    (load keyID (raw.map RawEntry.eraseSecret)).map (fun st => (st.jwk, st.pubKeys)) =
    (load keyID raw).map (fun st => (st.jwk, st.pubKeys)) := load_erase keyID raw

/-- the JSON object of a published key has no member that carries private key material -/
theorem c16_jwk_members_public (j : Jwk) (m : String) (hm : m ∈ jwkMembers j) : m ∉ privateMembers :=
  jwkMembers_public j m hm

example : jwkMembers ⟨"a", "PS384", "sig", k1.pub, [⟨5, ""⟩]⟩ = ["kty", "n", "e", "kid", "alg", "use", "x5c"] := by
  decide

/-! ## All interleavings of token creation, key-set reads and reloads -/

variable {S : Type}

/-- In every reachable configuration — any number of concurrent `Sign` calls, `Keys` calls and reloads, every
interleaving — a finished `Sign` has copied JWK and key of one and the same generation, and that generation was the
active one (the last committed) when it was copied. -/
theorem c16_conc_consistent_pair (s0 : S) (c0 c : Config S) (h0 : Initial s0 c0) (hr : Reachable c0 c) (i : Nat)
    (a b : Option S) (n : Nat) (hi : c.threads i = .signer .done a b n) :
    ∃ s, a = some s ∧ b = some s ∧ (c.log.take n).getLast? = some s ∧ n ≤ c.log.length := by
  have hinv := inv_reachable (fun _ => True) s0 c0 c trivial h0 (fun _ _ _ _ => trivial) hr
  have := hinv.2 i
  rw [hi] at this
  exact this.2

/-- a finished `Keys` call returned the published list of one generation, the active one when it was read -/
theorem c16_conc_keys_one_generation (s0 : S) (c0 c : Config S) (h0 : Initial s0 c0) (hr : Reachable c0 c) (i : Nat)
    (p : Option S) (n : Nat) (hi : c.threads i = .reader .done p n) :
    ∃ s, p = some s ∧ (c.log.take n).getLast? = some s ∧ n ≤ c.log.length := by
  have hinv := inv_reachable (fun _ => True) s0 c0 c trivial h0 (fun _ _ _ _ => trivial) hr
  have := hinv.2 i
  rw [hi] at this
  exact this.2

/-- whenever no reload holds the lock the three guarded fields belong to one generation, the last committed one;
readers and the writer exclude each other -/
theorem c16_conc_fields_agree (s0 : S) (c0 c : Config S) (h0 : Initial s0 c0) (hr : Reachable c0 c) :
    (c.writer = none → c.jwk = c.pub ∧ c.key = c.pub ∧ c.log.getLast? = some c.pub) ∧
    (∀ i, c.writer = some i → c.rset = []) := by
  have hinv := inv_reachable (fun _ => True) s0 c0 c trivial h0 (fun _ _ _ _ => trivial) hr
  exact ⟨hinv.1.quiet, hinv.1.excl⟩

/-- Generations instantiated with signer states: if the constructor's generation and every reload's parse result
come out of `load`, then in every reachable configuration the token a finished `Sign` builds from its two copies
verifies against the key set that was published when it took them. -/
theorem c16_conc_token_verifies (keyID : String) (s0 : State) (c0 c : Config State) (hinit : Initial s0 c0)
    (hr : Reachable c0 c) (h0 : ∃ raw, load keyID raw = some s0)
    (hl : ∀ i new pc, c0.threads i = .loader new pc → ∃ raw, load keyID raw = some new)
    (i : Nat) (a b : State) (n : Nat) (hi : c.threads i = .signer .done (some a) (some b) n)
    (inp : SignIn) (custom : Claims α) :
    (c.log.take n).getLast? = some a ∧ verifiesFirst a.pubKeys (signWith a.jwk b.key inp custom) = true := by
  have hinv := inv_reachable Consistent s0 c0 c
    (by obtain ⟨raw, h⟩ := h0; exact load_consistent keyID raw s0 h) hinit
    (fun j new pc hj => by obtain ⟨raw, h⟩ := hl j new pc hj; exact load_consistent keyID raw new h) hr
  have ht := hinv.2 i
  rw [hi] at ht
  obtain ⟨_, s, ha, hb, hlast, hn⟩ := ht
  cases ha; cases hb
  refine ⟨hlast, ?_⟩
  have hmem : a ∈ c.log := List.mem_of_mem_take (List.mem_of_getLast? hlast)
  exact verifiesFirst_of_consistent a (hinv.1.goodLog a hmem) inp custom

/-- the hypotheses are met by a system whose constructor loaded one store and whose reloads parse another -/
example : ∃ c0 : Config State, Initial st1 c0 ∧ (∃ raw, load "" raw = some st1) ∧
    (∀ i new pc, c0.threads i = .loader new pc → ∃ raw, load "" raw = some new) ∧
    (∃ new pc, c0.threads 1 = .loader new pc) := by
  let thr : Nat → Thread State := fun j => if j = 0 then .signer .idle none none 0 else .loader st2 .idle
  refine ⟨⟨st1, st1, st1, none, [], [st1], thr⟩, ⟨rfl, rfl, rfl, rfl, rfl, rfl, fun i => ?_⟩,
    ⟨[⟨"a", k1, [], true, true⟩], by decide⟩, ?_, ⟨st2, .idle, by simp [thr]⟩⟩
  · by_cases h : i = 0
    · left; simp [thr, h]
    · right; right; exact ⟨st2, by simp [thr, h]⟩
  · intro i new pc h
    by_cases hi : i = 0
    · simp [thr, hi] at h
    · simp [thr, hi] at h
      obtain ⟨rfl, _⟩ := h
      exact ⟨[⟨"b", k2, [], true, true⟩], by decide⟩

/-- an initial configuration and a run of it in which a `Sign` finishes while a reload is in flight -/
example : ∃ c0 c : Config Nat, Initial 0 c0 ∧ Reachable c0 c ∧
    c.threads 0 = .signer .done (some 0) (some 0) 1 ∧ c.threads 1 = .loader 1 .parsed := by
  let thr : Nat → Thread Nat := fun j => if j = 0 then .signer .idle none none 0 else .loader j .idle
  let c0 : Config Nat := ⟨0, 0, 0, none, [], [0], thr⟩
  have hi : Initial 0 c0 := ⟨rfl, rfl, rfl, rfl, rfl, rfl, fun i => by
    by_cases h : i = 0
    · left; simp [c0, thr, h]
    · right; right; exact ⟨i, by simp [c0, thr, h]⟩⟩
  have r1 := Reachable.step _ _ (Reachable.init (c0 := c0)) (Step.lParse c0 1 1 (by simp [c0, thr]))
  have r2 := Reachable.step _ _ r1 (Step.sLock _ 0 (by simp [c0, thr, upd]) rfl)
  have r3 := Reachable.step _ _ r2 (Step.sReadJwk _ 0 (by simp [upd]))
  have r4 := Reachable.step _ _ r3 (Step.sReadKey _ 0 (some 0) 1 (by simp [upd, c0]))
  have r5 := Reachable.step _ _ r4 (Step.sUnlock _ 0 (some 0) (some 0) 1 (by simp [upd, c0]))
  exact ⟨c0, _, hi, r5, by simp [upd], by simp [upd]⟩

/-! ## The token cache of `Execute`: whatever is handed out, freshly signed or cached, is a token for this execution

`World` = the signers of the process and the one cache all jwt finalizer instances share; `Exec` = one call of
`Execute` by any finalizer instance (any TTL, claims template, header; prototype or `WithConfig` variant), through any
signer, for any subject and outputs, at any clock readings; `Event` = an execution, a key store reload, or an execution
during which the key store of its signer is reloaded (between `Hash` and `Sign`).  Histories are arbitrary lists of
events.  `d` bounds the time that passes between `time.Now()` in `Sign` and the cache's clock
reading in `Set` (`DelayBound`); nothing else is assumed about the clock. -/

/-- **Every token handed out is a token for the execution that hands it out.**  After any history (started with an
empty cache and signers loaded from key stores), whatever `Execute` hands out — fresh or from the cache — equals what
a consistent generation `st` of the key store signs for *this* subject, *this* signer's issuer name, the TTL of the
finalizer instance *that executes* and the claims *its* template renders for this subject and outputs, at some issue
time; `st`'s active key has id, algorithm and public key of the generation active now; a fresh token is issued now by
the active generation; a cached one was issued at most `ttl − leeway + d` before the lookup. -/
theorem c16_cache_handout (render : Render α) (d : Int) (w0 : World α) (h0 : Started w0) (hist : List Event)
    (hd : DelayBound d hist) (x : Exec) (hx : x.setNs ≤ x.signNs + d) (t : Token α) (src : Source) (w' : World α)
    (h : execute render (run render w0 hist) x = some (t, src, w')) :
    Handout render d (run render w0 hist) x t src := by
  have hinv0 : CacheInv render d w0 := ⟨h0.signers, by rw [h0.empty]; intro e he; cases he⟩
  exact (execute_spec render d _ (run_inv render d w0 hinv0 hist hd) x hx t src w' h).1

/-- the claims of a handed-out token: `sub` is the id of the subject of this execution, `iss` the name of its signer,
`nbf = iat`, `exp` is the TTL of the executing instance after `iat` (exactly for whole seconds, else within a second),
`jti` a fresh identifier, and every other name has the value the executing instance's template renders — reserved names
in the template change nothing -/
theorem c16_cache_claims (render : Render α) (d : Int) (w : World α) (x : Exec) (t : Token α) (src : Source)
    (h : Handout render d w x t src) :
    ∃ (s : SignerRec) (custom : Claims α) (iat exp : Int),
      w.signers[x.signer]? = some s ∧ customOf render x = some custom ∧
      lookup "sub" t.claims = some (.str x.sub.id) ∧ lookup "iss" t.claims = some (.str s.iss) ∧
      lookup "iat" t.claims = some (.num iat) ∧ lookup "nbf" t.claims = some (.num iat) ∧
      lookup "exp" t.claims = some (.num exp) ∧ lookup "jti" t.claims = some .fresh ∧
      iat + unixSec x.fin.ttlNs ≤ exp ∧ exp ≤ iat + unixSec x.fin.ttlNs + 1 ∧
      (∀ ttlSec : Int, x.fin.ttlNs = ttlSec * 1000000000 → exp = iat + ttlSec) ∧
      (∀ k, k ∉ reserved → lookup k t.claims = lookup k custom) := by
  obtain ⟨s, st, issuedNs, custom, hs, _, _, hcu, ht, _⟩ := h
  subst ht
  have hsys := c16_system_claims st ⟨x.sub.id, s.iss, issuedNs, x.fin.ttlNs⟩ custom
  refine ⟨s, custom, unixSec issuedNs, unixSec (issuedNs + x.fin.ttlNs), hs, hcu, hsys.1, hsys.2.1, hsys.2.2.1,
    hsys.2.2.2.1, hsys.2.2.2.2.1, hsys.2.2.2.2.2, (c16_exp_bounds issuedNs x.fin.ttlNs).1,
    (c16_exp_bounds issuedNs x.fin.ttlNs).2, ?_, ?_⟩
  · intro ttlSec he
    show unixSec (issuedNs + x.fin.ttlNs) = unixSec issuedNs + ttlSec
    rw [he]
    exact c16_exp_exact issuedNs ttlSec
  · intro k hk
    rw [c16_claims_spec]
    have : reservedSrc k = none := by
      simp only [reserved, List.mem_cons, List.not_mem_nil, or_false, not_or] at hk
      simp [reservedSrc, hk]
    simp [specClaim, this]

/-- a handed-out token is not expired: if storing follows signing within the leeway minus one second (`d ≤ 4 s`),
the lookup does not go back in time before the signing of the same call, and the TTL is at least a second (the
configuration demands more), then at the moment of the lookup the token's `exp` lies in the future — for fresh and
for cached tokens alike.  A cached token was issued at most `ttl − leeway + d` ago. -/
theorem c16_cache_not_expired (render : Render α) (d : Int) (w : World α) (x : Exec) (t : Token α) (src : Source)
    (h : Handout render d w x t src) (hd : d + 1000000000 ≤ leewayNs) (hmono : x.getNs ≤ x.signNs)
    (httl : 1000000000 ≤ x.fin.ttlNs) :
    ∃ issuedNs : Int, lookup "iat" t.claims = some (.num (unixSec issuedNs)) ∧
      lookup "exp" t.claims = some (.num (unixSec (issuedNs + x.fin.ttlNs))) ∧
      unixSec x.getNs < unixSec (issuedNs + x.fin.ttlNs) ∧
      (src = .cached → x.getNs - issuedNs ≤ x.fin.ttlNs - leewayNs + d) := by
  obtain ⟨s, st, issuedNs, custom, _, _, _, _, ht, _, _, _, hf, hc⟩ := h
  subst ht
  have hsys := c16_system_claims st ⟨x.sub.id, s.iss, issuedNs, x.fin.ttlNs⟩ custom
  refine ⟨issuedNs, hsys.2.2.1, hsys.2.2.2.2.1, ?_, ?_⟩
  · cases src with
    | fresh =>
      obtain ⟨_, hi⟩ := hf rfl
      subst hi
      unfold unixSec; omega
    | cached =>
      obtain ⟨hb, _⟩ := hc rfl
      unfold unixSec; unfold leewayNs at hd hb; omega
  · intro hs
    obtain ⟨hb, _⟩ := hc hs
    omega

/-- a handed-out token names id and algorithm of the key that is active **now** and is signed by a key with that
key's public half — although a cached token was signed by the generation active when it was issued.  (The signer hash
— key id, algorithm, issuer, thumbprint — is part of the cache key.) -/
theorem c16_cache_token_names_current_key (render : Render α) (d : Int) (w : World α) (x : Exec) (t : Token α)
    (src : Source) (h : Handout render d w x t src) :
    ∃ s, w.signers[x.signer]? = some s ∧ t.typ = "JWT" ∧ t.kid = s.st.jwk.kid ∧ t.alg = s.st.jwk.alg ∧
      t.signedBy.pub = s.st.key.pub := by
  obtain ⟨s, st, issuedNs, custom, hs, hcs, hc, _, ht, h1, h2, h3, _, _⟩ := h
  subst ht
  refine ⟨s, hs, rfl, h1, h2, ?_⟩
  show st.key.pub = s.st.key.pub
  rw [← hc.pair, h3, hcs.pair]

/-- a handed-out token verifies against the key list its signer publishes now (first key with the token's id, as
go-jose verifies against a JWK set) and is verified by some key of the set the endpoint publishes for all signers -/
theorem c16_cache_token_verifies_now (render : Render α) (d : Int) (w : World α) (x : Exec) (t : Token α)
    (src : Source) (h : Handout render d w x t src) :
    ∃ s, w.signers[x.signer]? = some s ∧ verifiesFirst s.st.pubKeys t = true ∧
      verifiesAny (published (w.signers.map (·.st))) t = true := by
  obtain ⟨s, hs, _, hk, ha, hp⟩ := c16_cache_token_names_current_key render d w x t src h
  obtain ⟨s', _, _, _, hs', hcs, _⟩ := h
  rw [hs] at hs'
  cases hs'
  have hown : verifiesWith s.st.jwk t = true := by
    simp [verifiesWith, hk, ha, hp, hcs.pair]
  refine ⟨s, hs, ?_, ?_⟩
  · unfold verifiesFirst
    rw [hk, find_of_nodup (·.kid) s.st.pubKeys s.st.jwk hcs.kids_unique hcs.active_published]
    exact hown
  · apply verifiesAny_of_mem _ s.st.jwk _ _ hown
    exact List.mem_flatMap.mpr ⟨s.st, List.mem_map.mpr ⟨s, List.mem_of_getElem? hs, rfl⟩, hcs.active_published⟩

/-- **Across a key reload.**  Whatever the history contains — reloads to other keys, to the same key, failed reloads,
reloads back to an earlier store —, a token that names another key id or algorithm than the key active now, or that
was signed by a key with another public half, is not handed out: tokens issued under a replaced key leave circulation
with the reload (they stay in the cache unreachable until they expire; if a later reload makes their key active again
they are served again, and rightly so by this very theorem). -/
theorem c16_cache_reload_retires_tokens (render : Render α) (d : Int) (w0 : World α) (h0 : Started w0)
    (hist : List Event) (hd : DelayBound d hist) (x : Exec) (hx : x.setNs ≤ x.signNs + d) (t : Token α) (src : Source)
    (w' : World α) (h : execute render (run render w0 hist) x = some (t, src, w')) (s : SignerRec)
    (hs : (run render w0 hist).signers[x.signer]? = some s) (old : Token α)
    (hold : old.kid ≠ s.st.jwk.kid ∨ old.alg ≠ s.st.jwk.alg ∨ old.signedBy.pub ≠ s.st.key.pub) : t ≠ old := by
  obtain ⟨s', hs', _, hk, ha, hp⟩ := c16_cache_token_names_current_key render d _ x t src
    (c16_cache_handout render d w0 h0 hist hd x hx t src w' h)
  rw [hs] at hs'
  cases hs'
  intro e
  subst e
  rcases hold with h1 | h1 | h1
  · exact h1 hk
  · exact h1 ha
  · exact h1 hp

/-- the cache is used: an execution that stored its token (TTL above the leeway) is answered from the cache with that
very token when it is repeated — same instance configuration, signer, subject, outputs — no later than `ttl − leeway`
after the entry was stored -/
theorem c16_cache_repeat_is_served (render : Render α) (w : World α) (x y : Exec) (t : Token α) (w' : World α)
    (h : execute render w x = some (t, .fresh, w')) (hl : leewayNs < x.fin.ttlNs)
    (hy : y.signer = x.signer ∧ y.fin = x.fin ∧ y.sub = x.sub ∧ y.outputs = x.outputs)
    (hat : y.getNs ≤ x.setNs + (x.fin.ttlNs - leewayNs)) :
    execute render w' y = some (t, .cached, w') := by
  unfold execute executeK at h ⊢
  cases hs : w.signers[x.signer]? with
  | none => simp [hs] at h
  | some s =>
    simp only [hs, id] at h
    cases hg : w.cache.get (keyOf s x) x.getNs with
    | some t0 => simp [hg] at h
    | none =>
      simp only [hg] at h
      cases hcu : customOf render x with
      | none => simp [hcu] at h
      | some custom =>
        simp only [hcu, Option.some.injEq, Prod.mk.injEq, true_and, if_pos hl] at h
        obtain ⟨ht, hw⟩ := h
        subst hw
        have hk : keyOf s y = keyOf s x := by
          simp [keyOf, hy.2.1, hy.2.2.1, hy.2.2.2]
        have hpos : 0 < x.fin.ttlNs - leewayNs := by omega
        simp only [hy.1, hs, id, hk, Cache.get_set _ _ _ _ _ _ _ hpos, if_true, if_pos hat, ht]

/-! ### witnesses: a prototype and its rule-level variant, two subjects, reloads -/

def noRender : Render Nat := fun _ _ _ => none
def proto : Finalizer := ⟨600000000000, none, "Authorization", "Bearer"⟩          -- `ttl: 10m`
def variant : Finalizer := ⟨30000000000, none, "Authorization", "Bearer"⟩          -- `WithConfig(ttl: 30s)`
def alice : Subject := ⟨"alice", "{\"role\":\"user\"}"⟩
def bob : Subject := ⟨"bob", "{}"⟩
def world0 : World Nat := ⟨[⟨"", "heimdall", st1⟩], []⟩
/-- `Execute` at second `sec` (all three clock readings) -/
def at_ (sec : Int) (f : Finalizer) (sub : Subject) : Exec :=
  ⟨0, f, sub, "{}", sec * 1000000000, sec * 1000000000, sec * 1000000000⟩
/-- a key store file that makes `k2` under id `b` the active key, and one that restores `st1` -/
def fileB : File := some [⟨"b", k2, [], true, true⟩]
def fileA : File := some [⟨"a", k1, [], true, true⟩]

/-- the prototype serves alice at second 0; then the variant serves her at second 1 -/
def h1 : List Event := [.exec (at_ 0 proto alice)]
def h2 : List Event := h1 ++ [.exec (at_ 1 variant alice)]

/-- source, key id, `iat`, `exp` of what an execution hands out -/
structure Seen where
  src : Source
  kid : String
  iat : Option (CVal Nat)
  exp : Option (CVal Nat)
deriving DecidableEq, Repr

def seen (r : Option (Token Nat × Source × World Nat)) : Option Seen :=
  r.map (fun r => ⟨r.2.1, r.1.kid, lookup "iat" r.1.claims, lookup "exp" r.1.claims⟩)

theorem c16_cache_witness_started : Started world0 := ⟨rfl, by
  intro s hs
  simp only [world0, List.mem_singleton] at hs
  subst hs
  exact c16_load_consistent "" [⟨"a", k1, [], true, true⟩] st1 (by decide)⟩

theorem c16_cache_witness_delay : DelayBound 0 h2 ∧
    DelayBound 0 [.exec (at_ 0 proto alice), .reload 0 fileB, .execDuring (at_ 7 variant alice) fileA] := by
  refine ⟨?_, ?_⟩ <;> intro ev hev x hx <;>
    simp only [h2, h1, List.cons_append, List.nil_append, List.mem_cons, List.not_mem_nil, or_false] at hev
  · rcases hev with rfl | rfl <;> cases hx <;> decide
  · rcases hev with rfl | rfl | rfl <;> cases hx <;> decide

/-- the hypotheses of the theorems above are met by a non-trivial run: after prototype and variant have served alice,
the prototype's execution at second 20 is answered from the cache, and what it hands out satisfies `Handout` -/
example : ∃ t w', execute noRender (run noRender world0 h2) (at_ 20 proto alice) = some (t, .cached, w') ∧
    Handout noRender 0 (run noRender world0 h2) (at_ 20 proto alice) t .cached := by
  have hs : (execute noRender (run noRender world0 h2) (at_ 20 proto alice)).map (·.2.1) = some .cached := by decide
  cases hx : execute noRender (run noRender world0 h2) (at_ 20 proto alice) with
  | none => rw [hx] at hs; cases hs
  | some r =>
    obtain ⟨t, src, w'⟩ := r
    rw [hx] at hs
    simp only [Option.map_some, Option.some.injEq] at hs
    subst hs
    exact ⟨t, w', rfl, c16_cache_handout noRender 0 world0 c16_cache_witness_started h2 c16_cache_witness_delay.1 _
      (by decide) t .cached w' hx⟩

/-- prototype (10 m) and variant (30 s) serve the same subject one after the other: the variant does **not** hand
out the prototype's token (its own: `exp − iat` = 30); repeated within `ttl − leeway` both are served from the cache,
each its own token; the variant again after 26 s (lifetime 25 s): a fresh token; another subject: a fresh token -/
example :
    seen (execute noRender (run noRender world0 h1) (at_ 1 variant alice)) = some ⟨.fresh, "a", some (.num 1), some (.num 31)⟩ ∧
    seen (execute noRender (run noRender world0 h2) (at_ 20 proto alice)) = some ⟨.cached, "a", some (.num 0), some (.num 600)⟩ ∧
    seen (execute noRender (run noRender world0 h2) (at_ 26 variant alice)) = some ⟨.cached, "a", some (.num 1), some (.num 31)⟩ ∧
    seen (execute noRender (run noRender world0 h2) (at_ 27 variant alice)) = some ⟨.fresh, "a", some (.num 27), some (.num 57)⟩ ∧
    seen (execute noRender (run noRender world0 h2) (at_ 2 proto bob)) = some ⟨.fresh, "a", some (.num 2), some (.num 602)⟩ := by
  decide

/-- across reloads: after a reload to another key the cached token is not served (fresh token under the new key);
a failed reload changes nothing (still cached); after a reload that restores the first key the first token is served
again — it names the key that is active again — as long as it is in the cache -/
example :
    seen (execute noRender (run noRender world0 (h1 ++ [.reload 0 fileB])) (at_ 5 proto alice)) = some ⟨.fresh, "b", some (.num 5), some (.num 605)⟩ ∧
    seen (execute noRender (run noRender world0 (h1 ++ [.reload 0 none])) (at_ 5 proto alice)) = some ⟨.cached, "a", some (.num 0), some (.num 600)⟩ ∧
    seen (execute noRender (run noRender world0 (h1 ++ [.reload 0 fileB, .exec (at_ 5 proto alice), .reload 0 fileA])) (at_ 9 proto alice))
      = some ⟨.cached, "a", some (.num 0), some (.num 600)⟩ := by
  decide

/-- **The negative: the TTL must be part of the key.**  With a key function that does not cover the TTL (`dropTtl`,
the seeded defect: prototype and variant share entries) the two-step history "prototype `ttl: 10m` serves alice, then
the variant `ttl: 30s` serves alice" hands out, by the variant, the prototype's token: `exp − iat` is 600 s where the
variant's TTL is 30 s.  So `c16_cache_claims` fails for that key function; with the real key (`execute`) the same
history yields `exp − iat` = 30 s. -/
theorem c16_cache_key_without_ttl_violates :
    (at_ 1 variant alice).fin.ttlNs = 30 * 1000000000 ∧
    seen (executeK dropTtl noRender (runK dropTtl noRender world0 h1) (at_ 1 variant alice))
      = some ⟨.cached, "a", some (.num 0), some (.num 600)⟩ ∧
    seen (execute noRender (run noRender world0 h1) (at_ 1 variant alice))
      = some ⟨.fresh, "a", some (.num 1), some (.num 31)⟩ := by
  decide

/-! ### an execution overlapping a reload of its signer's key store

`Execute` reads the signer twice: `Hash` for the cache key, then `Sign`.  A reload may commit in between
(`Event.execDuring`).  The theorems above hold for histories containing such executions because the token is stored
under the key of the signer state that signed it (`signAndHash`; fixes/C16-1.patch — see `design/C16.md`). -/

/-- what an execution overlapping a reload hands out: a cached token is a token for this execution in the world before
the reload (it names the key that was active when the request looked it up), a fresh one in the world after it (signed
by the new generation); after any history, including earlier overlapping executions -/
theorem c16_cache_handout_during_reload (render : Render α) (d : Int) (w0 : World α) (h0 : Started w0)
    (hist : List Event) (hd : DelayBound d hist) (x : Exec) (f : File) (hx : x.setNs ≤ x.signNs + d) (t : Token α)
    (src : Source) (w' : World α) (h : executeDuring render (run render w0 hist) x f = some (t, src, w')) :
    (src = .cached → Handout render d (run render w0 hist) x t src) ∧
    (src = .fresh → Handout render d (reloadAt (run render w0 hist) x.signer f) x t src) := by
  have hinv0 : CacheInv render d w0 := ⟨h0.signers, by rw [h0.empty]; intro e he; cases he⟩
  have := executeDuring_spec render d _ (run_inv render d w0 hinv0 hist hd) x f hx t src w' h
  exact ⟨this.1, this.2.1⟩

/-- **Why the token has to be stored under the key of the state that signed it.**  With the key calculated for the
lookup (`lookupKey`, the code before fixes/C16-1): alice is served while the key store is rotated from key `a` to key
`b` (the token is signed by `b`, stored under the hash of `a`); the rotation is rolled back; alice's next request is
answered from the cache with a token naming `b` while `a` is active and `b` is not published any more — contradicting
`c16_cache_token_names_current_key` and `c16_cache_token_verifies_now`.  With the fixed policy the same history
yields a fresh token naming `a`. -/
theorem c16_cache_lookup_key_violates_across_reload :
    let hist := [Event.execDuring (at_ 0 proto alice) fileB, .reload 0 fileA]
    seen (executeK lookupKey noRender (runK lookupKey noRender world0 hist) (at_ 1 proto alice))
      = some ⟨.cached, "b", some (.num 0), some (.num 600)⟩ ∧
    ((runK lookupKey noRender world0 hist).signers.map (fun s => (s.st.jwk.kid, s.st.pubKeys.map (·.kid)))) = [("a", ["a"])] ∧
    seen (execute noRender (run noRender world0 hist) (at_ 1 proto alice))
      = some ⟨.fresh, "a", some (.num 1), some (.num 601)⟩ := by
  decide

/-- witnesses: an overlapping execution that signs (fresh, under the new key `b`) and one that is answered from the
cache (the prototype's token of second 0, naming `a`, while the store moves on to `b`) -/
example :
    seen (executeDuring noRender (run noRender world0 h1) (at_ 3 variant alice) fileB)
      = some ⟨.fresh, "b", some (.num 3), some (.num 33)⟩ ∧
    seen (executeDuring noRender (run noRender world0 h1) (at_ 3 proto alice) fileB)
      = some ⟨.cached, "a", some (.num 0), some (.num 600)⟩ := by
  decide

/-! ## Time: certificates run out, the published key does not

`load` judges the certificates of a key store at the instant of the load (`loadAt`: construction and every
`OnChanged`); `Keys()` does not read the clock (`keysAt`).  When the certificate of the signing key — or the one of
its issuing CA — runs out while the process is up, the signer keeps signing with the key **and keeps publishing it**
until a reload succeeds; a reload of a file with a certificate outside its period is refused and changes nothing.
What the property demands (`Spec/SignerTime.lean`): a token verifies against the set published at any instant at or
after its issue while the signer still works with the key.  Refusing to sign with an expired certificate would be
another behaviour consistent with that (`c16_refusing_to_sign_when_expired_is_consistent`); signing with a key that
is no longer listed is the violation (`c16_dropping_expired_keys_violates`). -/

/-- **The published list is a function of the load generation only**: whenever `Keys()` is called it answers with
the list the last successful load installed -/
theorem c16_keys_independent_of_time (ci : CertInfo) (st : State) (now now' : Int) :
    keysAt ci st now = st.pubKeys ∧ keysAt ci st now = keysAt ci st now' := by
  simp [keysAt_eq]

/-- the same for the endpoint: the concatenation of the key holders' lists as loaded, at every instant -/
theorem c16_published_independent_of_time (ci : CertInfo) (holders : List State) (now now' : Int) :
    publishedAt ci holders now = published holders ∧ publishedAt ci holders now = publishedAt ci holders now' := by
  simp [publishedAt_eq]

/-- **A published key does not expire.**  The signer is constructed from any key store file at any instant; any
history of reload attempts follows, each at its own instant (successful, refused — also because a certificate has run
out by then —, of any file); a token is handed out at some point of the history (`pre`: what happened before), the
history goes on (`post`).  If the generation the signer works with afterwards still lists the key of the token under
its id (`KeyKept`: no reload replaced the key — in particular if there was no reload, or none succeeded), the token
verifies against the list published at **every** instant: no bound on the time that passes, and whatever the validity
periods of the certificates in the store say (`ci` is arbitrary).  In particular from its issue on (`VerifiesFrom`). -/
theorem c16_published_key_does_not_expire (ci : CertInfo) (keyID : String) (f0 : TimedFile) (t0 : Int) (st0 : State)
    (h0 : loadAt ci keyID f0 t0 = some st0) (pre post : List (Int × TimedFile)) (i : SignIn) (custom : Claims α)
    (hk : KeyKept (runClock ci keyID st0 pre) (runClock ci keyID st0 (pre ++ post))) :
    (∀ instant : Int, verifiesFirst (keysAt ci (runClock ci keyID st0 (pre ++ post)) instant)
      (sign (runClock ci keyID st0 pre) i custom) = true) ∧
    VerifiesFrom (keysAt ci (runClock ci keyID st0 (pre ++ post))) (sign (runClock ci keyID st0 pre) i custom)
      i.nowNs := by
  have hc0 := loadAt_consistent ci keyID f0 t0 st0 h0
  have hall : ∀ instant : Int, verifiesFirst (keysAt ci (runClock ci keyID st0 (pre ++ post)) instant)
      (sign (runClock ci keyID st0 pre) i custom) = true := by
    intro instant
    rw [keysAt_eq]
    exact verifiesFirst_of_kept _ _ (runClock_consistent ci keyID st0 pre hc0)
      (runClock_consistent ci keyID st0 (pre ++ post) hc0) hk i custom
  exact ⟨hall, fun later _ => hall later⟩

/-- at the endpoint, next to any other key holders: some key published at every instant, under the token's id and
algorithm, verifies it -/
theorem c16_registry_published_key_does_not_expire (ci : CertInfo) (holders : List State) (issuing current : State)
    (hm : current ∈ holders) (hi : Consistent issuing) (hc : Consistent current) (hk : KeyKept issuing current)
    (i : SignIn) (custom : Claims α) (instant : Int) :
    verifiesAny (publishedAt ci holders instant) (sign issuing i custom) = true := by
  rw [publishedAt_eq]
  obtain ⟨j, hj, hkid, hpub⟩ := hk
  apply verifiesAny_of_mem _ j
  · exact List.mem_flatMap.mpr ⟨current, hm, hj⟩
  · have halg : j.alg = issuing.jwk.alg := by
      have h1 := (hc.all_sig j hj).2
      rw [hpub, hi.alg_of_key] at h1
      exact (Option.some.inj h1).symm
    show verifiesWith j (signWith issuing.jwk issuing.key i custom) = true
    simp [verifiesWith, signWith, hkid, halg, hpub]

/-- a reload is refused, and changes nothing, when any certificate of the file — the leaf of the signing key, the CA
that issued it, a certificate of another key block — is outside its validity period at the instant of the reload -/
theorem c16_reload_with_expired_certificate_changes_nothing (ci : CertInfo) (keyID : String) (st : State)
    (raw : List TimedEntry) (now : Int) (e : TimedEntry) (he : e ∈ raw) (c : Cert) (hc : c ∈ e.chain)
    (hv : c.validAt ci now = false) :
    loadAt ci keyID (some raw) now = none ∧ reloadOn ci keyID st (now, some raw) = st := by
  have h := loadAt_none_of_invalid_cert ci keyID raw now e he c hc hv
  refine ⟨h, ?_⟩
  unfold loadAt at h
  simp [reloadOn, reload, h]

/-- so: while every reload attempt is refused — the file did not change and its certificate has run out, the file is
broken, ... — tokens issued before and after keep verifying against what is published, at every instant -/
theorem c16_token_verifies_while_reloads_are_refused (ci : CertInfo) (keyID : String) (f0 : TimedFile) (t0 : Int)
    (st0 : State) (h0 : loadAt ci keyID f0 t0 = some st0) (pre post : List (Int × TimedFile))
    (hr : ∀ ev ∈ post, loadAt ci keyID ev.2 ev.1 = none) (i : SignIn) (custom : Claims α) (instant : Int) :
    runClock ci keyID st0 (pre ++ post) = runClock ci keyID st0 pre ∧
    verifiesFirst (keysAt ci (runClock ci keyID st0 (pre ++ post)) instant)
      (sign (runClock ci keyID st0 pre) i custom) = true := by
  have hsame : runClock ci keyID st0 (pre ++ post) = runClock ci keyID st0 pre := by
    rw [runClock_append, runClock_refused ci keyID _ post hr]
  refine ⟨hsame, ?_⟩
  have hc := runClock_consistent ci keyID st0 pre (loadAt_consistent ci keyID f0 t0 st0 h0)
  exact (c16_published_key_does_not_expire ci keyID f0 t0 st0 h0 pre post i custom
    (by rw [hsame]; exact keyKept_refl _ hc)).1 instant

/-! ### witnesses: a key store whose leaf certificate runs out 3 s after the start, one whose CA does -/

/-- certificate 7: valid for the first three seconds; certificate 8 (a renewal) and all others: for long -/
def ciW : CertInfo := fun cid => if cid = 7 then ⟨0, 3000000000⟩ else ⟨0, 1000000000000000000⟩
def sec (n : Int) : Int := n * 1000000000
/-- key `k2` under the id `sig`, certified by the short-lived certificate 7 -/
def fileLeaf : TimedFile := some [⟨"sig", k2, [⟨7, ""⟩], true, true⟩]
/-- the same key and id with the renewed certificate 8 -/
def fileRenewed : TimedFile := some [⟨"sig", k2, [⟨8, ""⟩], true, true⟩]
/-- key `k2` with a long-lived leaf (9) issued by the short-lived CA certificate 7 -/
def fileCA : TimedFile := some [⟨"sig", k2, [⟨9, ""⟩, ⟨7, ""⟩], true, true⟩]
/-- another key under another id -/
def fileOther : TimedFile := some [⟨"next", k1, [], true, true⟩]

/-- the stores load while the certificates are valid and are refused afterwards — leaf and CA alike -/
example : (loadAt ciW "" fileLeaf (sec 0)).isSome = true ∧ loadAt ciW "" fileLeaf (sec 4) = none ∧
    (loadAt ciW "" fileCA (sec 2)).isSome = true ∧ loadAt ciW "" fileCA (sec 4) = none ∧
    (loadAt ciW "" fileRenewed (sec 4)).isSome = true := by decide

/-- hypotheses of `c16_reload_with_expired_certificate_changes_nothing`: the CA certificate of `fileCA` at second 4 -/
example : (⟨7, ""⟩ : Cert) ∈ [(⟨9, ""⟩ : Cert), ⟨7, ""⟩] ∧ Cert.validAt ciW (sec 4) ⟨7, ""⟩ = false := by decide

/-- `KeyKept` across a refused reload of the expired file and across a reload to the renewed certificate (another
published JWK: other `x5c`, same key and id); not across a reload to another key -/
example : ∃ st0, loadAt ciW "" fileLeaf (sec 0) = some st0 ∧
    KeyKept st0 (runClock ciW "" st0 [(sec 4, fileLeaf)]) ∧
    KeyKept st0 (runClock ciW "" st0 [(sec 4, fileLeaf), (sec 5, fileRenewed)]) ∧
    (runClock ciW "" st0 [(sec 5, fileRenewed)]).pubKeys ≠ st0.pubKeys ∧
    ¬ KeyKept st0 (runClock ciW "" st0 [(sec 5, fileOther)]) := by
  refine ⟨⟨⟨"sig", "ES512", "sig", k2.pub, [⟨7, ""⟩]⟩, k2, [⟨"sig", "ES512", "sig", k2.pub, [⟨7, ""⟩]⟩]⟩, by decide,
    ⟨⟨"sig", "ES512", "sig", k2.pub, [⟨7, ""⟩]⟩, by decide, rfl, rfl⟩,
    ⟨⟨"sig", "ES512", "sig", k2.pub, [⟨8, ""⟩]⟩, by decide, rfl, rfl⟩, by decide, ?_⟩
  rintro ⟨j, hj, hkid, _⟩
  have : (runClock ciW "" ⟨⟨"sig", "ES512", "sig", k2.pub, [⟨7, ""⟩]⟩, k2, [⟨"sig", "ES512", "sig", k2.pub, [⟨7, ""⟩]⟩]⟩
      [(sec 5, fileOther)]).pubKeys = [⟨"next", "PS384", "sig", k1.pub, []⟩] := by decide
  rw [this] at hj
  simp only [List.mem_singleton] at hj
  subst hj
  simp at hkid

/-- what is observed over time on the witness store (signed and asked at the same instant): before the expiry, after
it, after a refused reload of the same file, after the renewal — published ids and the verdict for a fresh token -/
example :
    (loadAt ciW "" fileLeaf (sec 0)).map (fun st0 =>
      [sec 1, sec 4, sec 1000000].map (fun now =>
        ((keysAt ciW st0 now).map (·.kid), verifiesFirst (keysAt ciW st0 now) (sign st0 ⟨"alice", "heimdall", now, sec 60⟩ ([] : Claims Nat)))))
      = some [(["sig"], true), (["sig"], true), (["sig"], true)] ∧
    (loadAt ciW "" fileLeaf (sec 0)).map (fun st0 =>
      let st := runClock ciW "" st0 [(sec 4, fileLeaf), (sec 5, fileRenewed)]
      (st.pubKeys.map (·.certs), verifiesFirst (keysAt ciW st (sec 6)) (sign st0 ⟨"alice", "heimdall", sec 1, sec 60⟩ ([] : Claims Nat))))
      = some ([[⟨8, ""⟩]], true) := by decide

/-- alice's token, valid for a minute, signed by the generation `st` at second `n` -/
def tokenAt (st : State) (n : Int) : Token Nat := sign st ⟨"alice", "heimdall", sec n, sec 60⟩ []

/-- **The negative: a published key must not be dropped when its certificate runs out.**  With `Keys()` leaving out
keys whose leaf certificate is past `NotAfter` at the call (`dropExpired`, the seeded change) while `load` judges the
certificate at load time only: the signer is constructed at second 0 from a store whose certificate is valid until
second 3; at second 4 it still signs with the key and names its id, but the published list is empty — the token does
not verify (nor does the one issued at second 1, still valid for a minute).  With the code's `Keys()` both verify;
while the certificate is valid the two variants agree. -/
theorem c16_dropping_expired_keys_violates :
    (loadAt ciW "" fileLeaf (sec 0)).map (fun st =>
      ((tokenAt st 4).kid, (tokenAt st 4).signedBy, (keysAtK dropExpired ciW st (sec 4)).map (·.kid),
       [tokenAt st 4, tokenAt st 1].map (verifiesFirst (keysAtK dropExpired ciW st (sec 4))),
       [tokenAt st 4, tokenAt st 1].map (verifiesFirst (keysAt ciW st (sec 4)))))
    = some ("sig", k2, [], [false, false], [true, true]) ∧
    (loadAt ciW "" fileLeaf (sec 0)).map (fun st =>
      ((keysAtK dropExpired ciW st (sec 2)).map (·.kid), verifiesFirst (keysAtK dropExpired ciW st (sec 2)) (tokenAt st 1)))
    = some (["sig"], true) := by
  decide

/-- **The other consistent behaviour**: a signer that refuses to sign while a certificate of its active key is
outside its period hands out fewer tokens, and every token it does hand out is the one `Sign` makes — so it verifies
against the published list at every instant like any other.  (Not what the code does: it keeps signing.) -/
theorem c16_refusing_to_sign_when_expired_is_consistent (ci : CertInfo) (st : State) (hc : Consistent st)
    (i : SignIn) (custom : Claims α) (t : Token α) (h : signIfValid ci st i custom = some t) (instant : Int) :
    t = sign st i custom ∧ verifiesFirst (keysAt ci st instant) t = true := by
  unfold signIfValid at h
  split at h
  · cases h
    exact ⟨rfl, by rw [keysAt_eq]; exact verifiesFirst_of_consistent st hc i custom⟩
  · cases h

/-- it signs before the expiry and refuses after it -/
example : (loadAt ciW "" fileLeaf (sec 0)).map (fun st =>
    ((signIfValid ciW st ⟨"alice", "heimdall", sec 1, sec 60⟩ ([] : Claims Nat)).isSome,
     (signIfValid ciW st ⟨"alice", "heimdall", sec 4, sec 60⟩ ([] : Claims Nat)).isSome)) = some (true, false) := by decide

end Heimdall.Props.C16
