import HeimdallModel.Lemmas.SignerClaims
import HeimdallModel.Lemmas.SignerStore
import HeimdallModel.Lemmas.SignerConc
import HeimdallModel.Lemmas.SignerEdges
import HeimdallModel.Model.SignerProtocol
import HeimdallModel.Gen.Signer
/-!
# C16 — issued JWTs verify against the published key set and carry the system claims

Model: `Model/Signer.lean` (key store, `load`, `Sign`, publication; cryptography and X.509 opaque),
`Model/SignerConc.lean` (token creation, key-set reads and reloads as a small-step machine, any number of threads).
Specification: `Spec/Signer.lean`.  The first group of theorems ties the machine to the current source: they are stated about
`Gen/Signer.lean`, which `/verif/extract/signer` regenerates from `jwt_signer.go` on every run.
-/
namespace Heimdall.Props.C16
open Heimdall Heimdall.Signer Heimdall.SignerConc Heimdall.SignerProtocol

/-! ## The tie: the source runs the locking protocol the machine runs

Only the synchronisation protocol is read from the source (`Gen/Signer.lean`, regenerated on every run; calls of other
methods of the signer inlined).  It is compared as a list of critical sections — which guarded fields are accessed
inside which read- or write-lock section — so that behaviour-preserving rewrites (helpers, constants, explicit versus
deferred unlock, order inside a section) leave the obligations alone.  Claim set, headers, key selection, algorithm
tables and the public JWKs are observed from the running code by the correspondence check. -/

/-- `jwtSigner` has one mutex, no function outside its methods assigns a field, and every method — entry point or
helper — is well-formed: no guarded field is touched outside a critical section, no write in a read section, lock and
unlock pair up, no configuration field is written, and a section that writes replaces all three guarded fields -/
theorem c16_src_methods :
    Gen.Signer.mutexes = ["mut"] ∧ Gen.Signer.outsideWrites = [] ∧ allMethodsSafe Gen.Signer.protocol = true := by
  decide

/-- `Sign` copies JWK and key inside one read-lock section and touches no guarded field outside it -/
theorem c16_src_sign_protocol : methodSections Gen.Signer.protocol "Sign" = some signSections := by decide

theorem c16_src_keys_protocol : methodSections Gen.Signer.protocol "Keys" = some keysSections := by decide

theorem c16_src_hash_protocol : methodSections Gen.Signer.protocol "Hash" = some jwkSections := by decide

theorem c16_src_cert_protocol :
    methodSections Gen.Signer.protocol "activeCertificateChain" = some jwkSections := by decide

/-- `load` does everything that can fail outside the lock and replaces JWK, key and published list inside one
write-lock section; `OnChanged` does nothing else with the guarded fields -/
theorem c16_src_load_protocol :
    methodSections Gen.Signer.protocol "load" = some loadSections ∧
    methodSections Gen.Signer.protocol "OnChanged" = some loadSections := by decide

/-- the transitions of the machine, read as source-level events, are these critical sections -/
theorem c16_src_edges_are_protocol :
    sections (signerEdges.map (·.2.1)) = some signSections ∧ sections (readerEdges.map (·.2.1)) = some keysSections ∧
    sections (loaderEdges.map (·.2.1)) = some loadSections := by decide

/-- every step of the machine moves the stepping thread along one of these edges (performing the event the edge is
labelled with) and leaves every other thread where it is -/
theorem c16_src_step_follows_edges {S : Type} (c c' : Config S) (h : Step c c') (i : Nat) :
    (c'.threads i).where_ = (c.threads i).where_ ∨ edge (c.threads i).where_ (c'.threads i).where_ :=
  step_follows_edges c c' h i

/-- what the section reading rejects: the two ways of tearing the pair that were tried as mutations — `Sign` reading
JWK and key under two read locks, `load` publishing the key list and the signing key under two write locks — and an
access outside any section -/
theorem c16_src_torn_protocols_rejected :
    sections [.rlock, .readJwk, .runlock, .rlock, .readKey, .runlock, .ret] ≠ some signSections ∧
    allMethodsSafe [("load", ["lock mut", "write pubKeys", "unlock mut", "lock mut", "write jwk", "write key",
      "unlock mut", "return nil"])] = false ∧
    sections [.readJwk, .rlock, .readKey, .runlock] = none := by decide

/-! ## System claims -/

variable {α : Type}

/-- In *any* claim program, a claim written after the last merge of the custom claims (and not written again) has
the written value, whatever the custom claims contain. -/
theorem c16_claim_written_after_merge_wins (pre post : List ClaimOp) (k : String) (s : SysSrc)
    (custom : Claims α) (i : SignIn) (h : untouched k post = true) :
    lookup k (runProgram (pre ++ .set k s :: post) custom i) = some (sysVal i s) := by
  unfold runProgram
  rw [List.foldl_append, List.foldl_cons, lookup_fold_untouched k post custom i _ h]
  simp [runOp, lookup_put]

example : untouched "iat" [ClaimOp.set "iss" .iss, .set "nbf" .nbf, .set "sub" .sub] = true := by decide

/-- The claims of every token are the specified ones: `sub`, `iss`, `iat`, `nbf`, `exp`, `jti` have the values `Sign`
computes from the subject id, the signer name, the clock and the TTL — for all custom claims, including ones naming
them — and every other name has the value the custom claims gave it. -/
theorem c16_claims_spec (st : State) (i : SignIn) (custom : Claims α) (k : String) :
    lookup k (sign st i custom).claims = specClaim custom i k := by
  show lookup k (runProgram signProgram custom i) = specClaim custom i k
  simp only [runProgram, signProgram, List.foldl_cons, List.foldl_nil, runOp, lookup_put, lookup_mergeInto, lookup_nil,
    specClaim, reservedSrc]
  by_cases h1 : k = "sub"
  · simp [h1]
  by_cases h2 : k = "nbf"
  · simp [h2, sysVal]
  by_cases h3 : k = "iss"
  · simp [h3]
  by_cases h4 : k = "iat"
  · simp [h4]
  by_cases h5 : k = "jti"
  · simp [h5]
  by_cases h6 : k = "exp"
  · simp [h6]
  simp [h1, h2, h3, h4, h5, h6]

/-- the same, claim by claim -/
theorem c16_system_claims (st : State) (i : SignIn) (custom : Claims α) :
    let c := (sign st i custom).claims
    lookup "sub" c = some (.str i.sub) ∧ lookup "iss" c = some (.str i.iss) ∧
    lookup "iat" c = some (.num (unixSec i.nowNs)) ∧ lookup "nbf" c = some (.num (unixSec i.nowNs)) ∧
    lookup "exp" c = some (.num (unixSec (i.nowNs + i.ttlNs))) ∧ lookup "jti" c = some .fresh := by
  simp [c16_claims_spec, specClaim, reservedSrc, sysVal]

/-- a claim name occurs once in the serialised claim set, for any program and any custom claims -/
theorem c16_claim_names_unique (p : List ClaimOp) (custom : Claims α) (i : SignIn) :
    ((runProgram p custom i).map (·.1)).Nodup :=
  names_nodup_fold p custom i [] (by simp)

/-- the order matters: were the custom claims merged after the system claims, a template could set `sub` -/
theorem c16_merge_last_would_lose (i : SignIn) :
    lookup "sub" (runProgram [.set "sub" .sub, .merge] [("sub", (.other 7 : CVal Nat))] i) = some (.other 7) := by
  simp [runProgram, runOp, lookup_mergeInto, lookup_put, lookup]

/-- `exp` is exactly the TTL after `iat` for every TTL of whole seconds, at every instant -/
theorem c16_exp_exact (nowNs ttlSec : Int) :
    unixSec (nowNs + ttlSec * 1000000000) = unixSec nowNs + ttlSec := by
  unfold unixSec; omega

/-- for a TTL with a sub-second part the integer `exp` is the TTL's whole seconds after `iat`, or one more -/
theorem c16_exp_bounds (nowNs ttlNs : Int) :
    unixSec nowNs + unixSec ttlNs ≤ unixSec (nowNs + ttlNs) ∧
    unixSec (nowNs + ttlNs) ≤ unixSec nowNs + unixSec ttlNs + 1 := by
  unfold unixSec; omega

/-! ## Header, active key, verification against the published list -/

/-- the token names id and algorithm of the active key and is signed with it -/
theorem c16_header_names_active_key (st : State) (i : SignIn) (custom : Claims α) :
    let t := sign st i custom
    t.typ = "JWT" ∧ t.kid = st.jwk.kid ∧ t.alg = st.jwk.alg ∧ t.signedBy = st.key := ⟨rfl, rfl, rfl, rfl⟩

/-- every generation `load` installs — any store, any configured key id — publishes the active key's own
description under a key id no other published key has, with the algorithm of the key's size -/
theorem c16_load_consistent (keyID : String) (raw : List RawEntry) (st : State) (h : load keyID raw = some st) :
    Consistent st := load_consistent keyID raw st h

def k1 : PrivKey := ⟨⟨.rsa, 3072, 1⟩, 11⟩
def k2 : PrivKey := ⟨⟨.ecdsa, 521, 2⟩, 22⟩
def store1 : List RawEntry := [⟨"", k1, [⟨5, "ab01"⟩], true, true⟩, ⟨"second", k2, [], true, true⟩]

example : (load "second" store1).map (fun st => (st.jwk.kid, st.jwk.alg, st.pubKeys.map (·.kid))) =
    some ("second", "ES512", ["ab01", "second"]) := by decide

/-- a token of a consistent generation verifies against that generation's published list the way go-jose verifies
against a JWK set (first key with the token's key id) -/
theorem c16_token_verifies (st : State) (h : Consistent st) (i : SignIn) (custom : Claims α) :
    verifiesFirst st.pubKeys (sign st i custom) = true := verifiesFirst_of_consistent st h i custom

/-- a reload that fails (unreadable file, invalid chain, duplicate or unknown key id, certificate not usable for
signing, unsupported key size, store without entries) leaves the active generation untouched -/
theorem c16_failed_reload_keeps_generation (keyID : String) (st : State) (f : File) (h : loadFile keyID f = none) :
    reload keyID st f = st := by simp [reload, h]

example : loadFile "nobody" (some store1) = none ∧ loadFile "" (some []) = none ∧ loadFile "" none = none := by decide

/-- what `load` rejects explicitly since it no longer panics: a store without entries, and any store holding a key of
unsupported size, whichever key is configured; by the previous theorem such a reload changes nothing -/
theorem c16_load_rejects_unusable_stores (keyID : String) :
    load keyID [] = none ∧
    ∀ (raw : List RawEntry) (e : RawEntry), e ∈ raw → joseAlg e.key.pub = none → load keyID raw = none := by
  refine ⟨?_, fun raw e he hu => load_unsupported keyID raw e he hu⟩
  unfold load selectEntry
  by_cases h : keyID = "" <;> simp [buildStore, h]

example : joseAlg (⟨.rsa, 1024, 9⟩ : PubKey) = none ∧ joseAlg (⟨.ecdsa, 224, 9⟩ : PubKey) = none := by decide

/-- after any history of key-store reloads, successful or not, every token created verifies against the key set
published at that moment -/
theorem c16_verifies_after_any_history (keyID : String) (raw0 : List RawEntry) (st0 : State)
    (h0 : load keyID raw0 = some st0) (hist : List File) (i : SignIn) (custom : Claims α) :
    let st := hist.foldl (reload keyID) st0
    verifiesFirst st.pubKeys (sign st i custom) = true :=
  verifiesFirst_of_consistent _ (history_consistent keyID st0 hist (load_consistent keyID raw0 st0 h0)) i custom

/-- with several key holders the endpoint publishes the concatenation of their lists; a token of any of them is
verified by some published key with its id and algorithm -/
theorem c16_registry_verifies_any (holders : List State) (st : State) (hm : st ∈ holders) (h : Consistent st)
    (i : SignIn) (custom : Claims α) : verifiesAny (published holders) (sign st i custom) = true := by
  apply verifiesAny_of_mem _ st.jwk
  · exact List.mem_flatMap.mpr ⟨st, hm, h.active_published⟩
  · exact verifiesWith_own _ _ _ _ h.pair

/-- first-match verification succeeds as well unless an earlier key holder publishes different key material under
the same key id -/
theorem c16_registry_verifies_first (before after : List State) (st : State) (h : Consistent st) (i : SignIn)
    (custom : Claims α) (hc : NoClash before (sign st i custom)) :
    verifiesFirst (published (before ++ st :: after)) (sign st i custom) = true :=
  verifiesFirst_registry before after st h i custom hc

def st1 : State := ⟨⟨"a", "PS384", "sig", k1.pub, []⟩, k1, [⟨"a", "PS384", "sig", k1.pub, []⟩]⟩
def st2 : State := ⟨⟨"b", "ES512", "sig", k2.pub, []⟩, k2, [⟨"b", "ES512", "sig", k2.pub, []⟩]⟩

example : NoClash [st1] (sign st2 ⟨"u", "iss", 0, 0⟩ ([] : Claims Nat)) := by
  intro j hj hk
  simp [published, st1] at hj
  subst hj
  simp [sign, signWith, st2] at hk

/-- the hypothesis is needed: two holders publishing different keys under one id defeat first-match verification of
the second holder's tokens (not of the first's) -/
theorem c16_registry_first_match_needs_distinct_ids :
    let clash : State := ⟨⟨"a", "ES512", "sig", k2.pub, []⟩, k2, [⟨"a", "ES512", "sig", k2.pub, []⟩]⟩
    let t := sign clash ⟨"u", "iss", 0, 0⟩ ([] : Claims Nat)
    verifiesFirst (published [st1, clash]) t = false ∧ verifiesAny (published [st1, clash]) t = true := by
  decide

/-! ## Public parts only -/

/-- what `load` publishes (and the JWK it signs headers from) is a function of the public halves: two key stores that
differ only in private key material publish the same -/
theorem c16_published_ignores_secrets (keyID : String) (raw : List RawEntry) :
    (load keyID (raw.map RawEntry.eraseSecret)).map (fun st => (st.jwk, st.pubKeys)) =
    (load keyID raw).map (fun st => (st.jwk, st.pubKeys)) := load_erase keyID raw

/-- the JSON object of a published key has no member that carries private key material -/
theorem c16_jwk_members_public (j : Jwk) (m : String) (hm : m ∈ jwkMembers j) : m ∉ privateMembers :=
  jwkMembers_public j m hm

example : jwkMembers ⟨"a", "PS384", "sig", k1.pub, [⟨5, ""⟩]⟩ = ["kty", "n", "e", "kid", "alg", "use", "x5c"] := by
  decide

/-! ## All interleavings of token creation, key-set reads and reloads -/

variable {S : Type}

/-- In every reachable configuration — any number of concurrent `Sign` calls, `Keys` calls and reloads, every
interleaving — a finished `Sign` has copied JWK and key of one and the same generation, and that generation was the
active one (the last committed) when it was copied. -/
theorem c16_conc_consistent_pair (s0 : S) (c0 c : Config S) (h0 : Initial s0 c0) (hr : Reachable c0 c) (i : Nat)
    (a b : Option S) (n : Nat) (hi : c.threads i = .signer .done a b n) :
    ∃ s, a = some s ∧ b = some s ∧ (c.log.take n).getLast? = some s ∧ n ≤ c.log.length := by
  have hinv := inv_reachable (fun _ => True) s0 c0 c trivial h0 (fun _ _ _ _ => trivial) hr
  have := hinv.2 i
  rw [hi] at this
  exact this.2

/-- a finished `Keys` call returned the published list of one generation, the active one when it was read -/
theorem c16_conc_keys_one_generation (s0 : S) (c0 c : Config S) (h0 : Initial s0 c0) (hr : Reachable c0 c) (i : Nat)
    (p : Option S) (n : Nat) (hi : c.threads i = .reader .done p n) :
    ∃ s, p = some s ∧ (c.log.take n).getLast? = some s ∧ n ≤ c.log.length := by
  have hinv := inv_reachable (fun _ => True) s0 c0 c trivial h0 (fun _ _ _ _ => trivial) hr
  have := hinv.2 i
  rw [hi] at this
  exact this.2

/-- whenever no reload holds the lock the three guarded fields belong to one generation, the last committed one;
readers and the writer exclude each other -/
theorem c16_conc_fields_agree (s0 : S) (c0 c : Config S) (h0 : Initial s0 c0) (hr : Reachable c0 c) :
    (c.writer = none → c.jwk = c.pub ∧ c.key = c.pub ∧ c.log.getLast? = some c.pub) ∧
    (∀ i, c.writer = some i → c.rset = []) := by
  have hinv := inv_reachable (fun _ => True) s0 c0 c trivial h0 (fun _ _ _ _ => trivial) hr
  exact ⟨hinv.1.quiet, hinv.1.excl⟩

/-- Generations instantiated with signer states: if the constructor's generation and every reload's parse result
come out of `load`, then in every reachable configuration the token a finished `Sign` builds from its two copies
verifies against the key set that was published when it took them. -/
theorem c16_conc_token_verifies (keyID : String) (s0 : State) (c0 c : Config State) (hinit : Initial s0 c0)
    (hr : Reachable c0 c) (h0 : ∃ raw, load keyID raw = some s0)
    (hl : ∀ i new pc, c0.threads i = .loader new pc → ∃ raw, load keyID raw = some new)
    (i : Nat) (a b : State) (n : Nat) (hi : c.threads i = .signer .done (some a) (some b) n)
    (inp : SignIn) (custom : Claims α) :
    (c.log.take n).getLast? = some a ∧ verifiesFirst a.pubKeys (signWith a.jwk b.key inp custom) = true := by
  have hinv := inv_reachable Consistent s0 c0 c
    (by obtain ⟨raw, h⟩ := h0; exact load_consistent keyID raw s0 h) hinit
    (fun j new pc hj => by obtain ⟨raw, h⟩ := hl j new pc hj; exact load_consistent keyID raw new h) hr
  have ht := hinv.2 i
  rw [hi] at ht
  obtain ⟨_, s, ha, hb, hlast, hn⟩ := ht
  cases ha; cases hb
  refine ⟨hlast, ?_⟩
  have hmem : a ∈ c.log := List.mem_of_mem_take (List.mem_of_getLast? hlast)
  exact verifiesFirst_of_consistent a (hinv.1.goodLog a hmem) inp custom

/-- the hypotheses are met by a system whose constructor loaded one store and whose reloads parse another -/
example : ∃ c0 : Config State, Initial st1 c0 ∧ (∃ raw, load "" raw = some st1) ∧
    (∀ i new pc, c0.threads i = .loader new pc → ∃ raw, load "" raw = some new) ∧
    (∃ new pc, c0.threads 1 = .loader new pc) := by
  let thr : Nat → Thread State := fun j => if j = 0 then .signer .idle none none 0 else .loader st2 .idle
  refine ⟨⟨st1, st1, st1, none, [], [st1], thr⟩, ⟨rfl, rfl, rfl, rfl, rfl, rfl, fun i => ?_⟩,
    ⟨[⟨"a", k1, [], true, true⟩], by decide⟩, ?_, ⟨st2, .idle, by simp [thr]⟩⟩
  · by_cases h : i = 0
    · left; simp [thr, h]
    · right; right; exact ⟨st2, by simp [thr, h]⟩
  · intro i new pc h
    by_cases hi : i = 0
    · simp [thr, hi] at h
    · simp [thr, hi] at h
      obtain ⟨rfl, _⟩ := h
      exact ⟨[⟨"b", k2, [], true, true⟩], by decide⟩

/-- an initial configuration and a run of it in which a `Sign` finishes while a reload is in flight -/
example : ∃ c0 c : Config Nat, Initial 0 c0 ∧ Reachable c0 c ∧
    c.threads 0 = .signer .done (some 0) (some 0) 1 ∧ c.threads 1 = .loader 1 .parsed := by
  let thr : Nat → Thread Nat := fun j => if j = 0 then .signer .idle none none 0 else .loader j .idle
  let c0 : Config Nat := ⟨0, 0, 0, none, [], [0], thr⟩
  have hi : Initial 0 c0 := ⟨rfl, rfl, rfl, rfl, rfl, rfl, fun i => by
    by_cases h : i = 0
    · left; simp [c0, thr, h]
    · right; right; exact ⟨i, by simp [c0, thr, h]⟩⟩
  have r1 := Reachable.step _ _ (Reachable.init (c0 := c0)) (Step.lParse c0 1 1 (by simp [c0, thr]))
  have r2 := Reachable.step _ _ r1 (Step.sLock _ 0 (by simp [c0, thr, upd]) rfl)
  have r3 := Reachable.step _ _ r2 (Step.sReadJwk _ 0 (by simp [upd]))
  have r4 := Reachable.step _ _ r3 (Step.sReadKey _ 0 (some 0) 1 (by simp [upd, c0]))
  have r5 := Reachable.step _ _ r4 (Step.sUnlock _ 0 (some 0) (some 0) 1 (by simp [upd, c0]))
  exact ⟨c0, _, hi, r5, by simp [upd], by simp [upd]⟩

end Heimdall.Props.C16
