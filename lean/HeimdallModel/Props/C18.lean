import HeimdallModel.Lemmas.ProvidersHist
/-!
# C18 — rule providers converge to the latest valid content of their sources

Statements about the provider models of `Model/Providers.lean` (tied to `internal/rules/provider/*` by the
correspondence check of `tools/props/c18.py`, which drives the real providers) and the specification of
`Spec/Providers.lean`.  Histories are arbitrary finite lists of notifications / poll results, each with an arbitrary
set of sources whose processor calls are refused in that step.

The three providers that remember content digests (file_system, http_endpoint, cloud_blob) are instances of
`Provider`; `Provider.Correct` is the per-step contract, proved for each of them for **every** state reachable and every
admissible input, and everything the property demands follows from the contract for histories of any length.  The
kubernetes provider keeps no digests; its repository follows the informer's cache (`c18_k8s_follows_cache`).
-/
namespace Heimdall.Props.C18
open Heimdall.Prov

variable {σ : Type} [DecidableEq σ]

/-- file_system keeps the contract (`ruleSetsChanged`, `ruleSetCreatedOrUpdated`, `ruleSetDeleted`) -/
theorem c18_file_system_correct : (fileSystem : Provider σ (FsEvent σ)).Correct := by
  refine ⟨fun p hp => by simp [St.init] at hp, ?_⟩
  intro st e hi hz hadm
  obtain ⟨h1, h2⟩ := fsStep_eq st e hz
  obtain ⟨a, b, c, d⟩ := single_source e.rej st e.name e.raw (fsStep st e) h1 h2 hi
  refine ⟨a, ?_, b, c, d⟩
  show NoZero (fsStep st e).st.book
  rw [h1]
  apply syncOne_noZero _ _ _ _ hz
  intro h hc hzero
  subst hzero
  apply hadm
  unfold FsEvent.raw at hc
  split at hc
  · cases hf : e.file with
    | valid x => rw [hf] at hc; simp only [FileState.obs, Obs.content.injEq] at hc; rw [hc]
    | _ => rw [hf] at hc; simp [FileState.obs] at hc
  · split at hc <;> simp at hc

/-- http_endpoint keeps the contract (`watchChanges`, `ruleSetsUpdated`) -/
theorem c18_http_endpoint_correct : (httpEndpoint : Provider σ (HttpEvent σ)).Correct := by
  refine ⟨trivial, ?_⟩
  intro st e hi _ _
  obtain ⟨h1, h2⟩ := httpStep_eq st e
  obtain ⟨a, b, c, d⟩ := single_source e.rej st e.id e.outcome.obs (httpStep st e) h1 h2 hi
  exact ⟨a, trivial, b, c, d⟩

/-- cloud_blob keeps the contract (`watchChanges`, `ruleSetsUpdated`, `FetchRuleSets`), for any number of configured
buckets polled in any order (`BlobEvent.bucket`: a poll concerns the sources of its own bucket only): in particular a
blob that cannot be used neither loses its rule set nor keeps the other blobs of the bucket from being applied, and a
poll of one bucket neither removes nor replaces what was loaded from another one -/
theorem c18_cloud_blob_correct : (cloudBlob : Provider σ (BlobEvent σ)).Correct := by
  refine ⟨trivial, ?_⟩
  intro st e hi _ hd
  have ok := blobStep_ok st e hi hd.1 hd.2
  refine ⟨ok.inv, trivial, ?_, ok.calls, ok.flags⟩
  intro s
  show (blobStep st e).st.book.get s = _
  rw [ok.book s]
  simp only [Provider.obs, cloudBlob, BlobEvent.obs, List.contains_eq_mem, decide_eq_true_eq]
  by_cases hr : s ∈ e.rej <;> simp [hr]

/-! ## what the contract gives for every history -/

section
variable {ε : Type} (P : Provider σ ε) (hP : P.Correct)
include hP

/-- **The repository holds exactly what the provider remembers**, after every history: one rule set per remembered
source, loaded from the content whose digest is remembered, and nothing else. -/
theorem c18_repository_is_book (es : List ε) (hes : ∀ e ∈ es, P.admissible e) :
    (P.after es).active = (P.after es).book ∧ (P.after es).book.keys.Nodup :=
  let ⟨hi, _, _⟩ := history P hP es hes; ⟨hi.sync, hi.nodup⟩

/-- **C18, main statement.**  After any history the rule set active for a source is the latest valid content the
history shows for it, and none if the source was last seen gone (removed, emptied, not found) — "latest" counting
only the steps that were not refused by the processor, which are retried with the next notification. -/
theorem c18_converges (es : List ε) (hes : ∀ e ∈ es, P.admissible e) (s : σ) :
    loaded (P.after es).active s = (desired (es.map (P.obs · s))).toList := by
  obtain ⟨hi, _, hb⟩ := history P hP es hes
  rw [loaded_of_inv _ hi, hb s]

/-- **The active rule sets are the union, over all sources of the provider, of their latest valid content**: a rule
set of content `h` is active for source `s` iff `h` is the latest valid content the history shows for `s` — for any
number of sources (files of a directory, endpoints, blobs of any number of buckets) whose notifications and polls are
interleaved in any order. -/
theorem c18_active_is_union (es : List ε) (hes : ∀ e ∈ es, P.admissible e) (s : σ) (h : Hash) :
    (s, h) ∈ (P.after es).active ↔ desired (es.map (P.obs · s)) = some h := by
  obtain ⟨hi, _, hb⟩ := history P hP es hes
  rw [hi.sync, ← hb s]
  exact mem_iff_get _ hi.nodup s h

/-- **Every change is applied exactly once, and nothing else is.**  After any history, the processor calls the next
input causes for a source are exactly the transition from the content loaded for it to what the input shows: one
`OnCreated` / `OnUpdated` / `OnDeleted` if that differs, no call if it is the same; each call is accepted unless the
processor refuses that source. -/
theorem c18_calls_exact (es : List ε) (hes : ∀ e ∈ es, P.admissible e) (e : ε) (he : P.admissible e) (s : σ) :
    (callsFor (P.step (P.after es) e).calls s).map (·.1) =
      transition s (desired (es.map (P.obs · s))) ((P.shows e s).next (desired (es.map (P.obs · s)))) ∧
    ∀ c ∈ (P.step (P.after es) e).calls, c.2 = decide (c.1.src ∉ P.rej e) := by
  obtain ⟨hi, hg, hb⟩ := history P hP es hes
  obtain ⟨_, _, _, hc, hf⟩ := hP.step _ e hi hg he
  exact ⟨by rw [hc s, hb s], hf⟩

/-- **Unchanged content triggers no reload**: if the input shows for a source the content that is loaded, no call is
made for it and the content stays loaded. -/
theorem c18_unchanged_no_reload (es : List ε) (hes : ∀ e ∈ es, P.admissible e) (e : ε) (he : P.admissible e) (s : σ)
    (h : Hash) (hshow : P.shows e s = .content h) (hcur : desired (es.map (P.obs · s)) = some h) :
    callsFor (P.step (P.after es) e).calls s = [] ∧ loaded (P.after (es ++ [e])).active s = [h] := by
  constructor
  · have := (c18_calls_exact P hP es hes e he s).1
    rw [hshow, hcur] at this
    simpa [Obs.next, transition] using this
  · have hes' : ∀ x ∈ es ++ [e], P.admissible x := by
      intro x hx; rcases List.mem_append.mp hx with hx | hx
      · exact hes x hx
      · simp only [List.mem_singleton] at hx; exact hx ▸ he
    rw [c18_converges P hP _ hes' s, List.map_append, desired, List.foldl_append]
    show (Obs.next (desired (es.map (P.obs · s))) (P.obs e s)).toList = [h]
    rw [hcur]; unfold Provider.obs; split <;> simp [hshow, Obs.next]

/-- **An unusable new version leaves the previous one active**: if the input says nothing usable about a source
(content that cannot be parsed or is invalid, notification for another source, aborted poll) no call is made for it
and what is loaded for it stays loaded. -/
theorem c18_invalid_keeps_previous (es : List ε) (hes : ∀ e ∈ es, P.admissible e) (e : ε) (he : P.admissible e)
    (s : σ) (hshow : P.shows e s = .noinfo) :
    callsFor (P.step (P.after es) e).calls s = [] ∧
    loaded (P.after (es ++ [e])).active s = loaded (P.after es).active s := by
  constructor
  · have := (c18_calls_exact P hP es hes e he s).1
    rw [hshow] at this
    simpa [Obs.next, transition_self] using this
  · have hes' : ∀ x ∈ es ++ [e], P.admissible x := by
      intro x hx; rcases List.mem_append.mp hx with hx | hx
      · exact hes x hx
      · simp only [List.mem_singleton] at hx; exact hx ▸ he
    rw [c18_converges P hP _ hes' s, c18_converges P hP _ hes s, List.map_append, desired, List.foldl_append]
    show (Obs.next (desired (es.map (P.obs · s))) (P.obs e s)).toList = _
    unfold Provider.obs; split <;> simp [hshow, Obs.next]

/-- ... and the digest remembered for the source stays what it was (so the next usable version is compared with the
version that is still loaded, not with the one that could not be used). -/
theorem c18_invalid_keeps_digest (es : List ε) (hes : ∀ e ∈ es, P.admissible e) (e : ε) (he : P.admissible e)
    (s : σ) (hshow : P.shows e s = .noinfo) :
    (P.after (es ++ [e])).book.get s = (P.after es).book.get s := by
  have hes' : ∀ x ∈ es ++ [e], P.admissible x := by
    intro x hx; rcases List.mem_append.mp hx with hx | hx
    · exact hes x hx
    · simp only [List.mem_singleton] at hx; exact hx ▸ he
  rw [(history P hP _ hes').2.2 s, (history P hP es hes).2.2 s, List.map_append, desired, List.foldl_append]
  show Obs.next (desired (es.map (P.obs · s))) (P.obs e s) = _
  unfold Provider.obs; split <;> simp [hshow, Obs.next, desired]

/-- **Removed or emptied sources are unloaded**: if the input shows a source gone and the processor does not refuse,
exactly one `OnDeleted` is made if something was loaded (none otherwise) and nothing is loaded for it afterwards. -/
theorem c18_removed_unloaded (es : List ε) (hes : ∀ e ∈ es, P.admissible e) (e : ε) (he : P.admissible e) (s : σ)
    (hshow : P.shows e s = .gone) (hacc : s ∉ P.rej e) :
    (callsFor (P.step (P.after es) e).calls s).map (·.1) =
      (if (loaded (P.after es).active s).isEmpty then [] else [Call.deleted s]) ∧
    loaded (P.after (es ++ [e])).active s = [] := by
  constructor
  · have := (c18_calls_exact P hP es hes e he s).1
    rw [hshow] at this
    rw [this, c18_converges P hP es hes s]
    cases desired (es.map (P.obs · s)) <;> simp [Obs.next, transition]
  · have hes' : ∀ x ∈ es ++ [e], P.admissible x := by
      intro x hx; rcases List.mem_append.mp hx with hx | hx
      · exact hes x hx
      · simp only [List.mem_singleton] at hx; exact hx ▸ he
    rw [c18_converges P hP _ hes' s, List.map_append, desired, List.foldl_append]
    show (Obs.next (desired (es.map (P.obs · s))) (P.obs e s)).toList = []
    unfold Provider.obs; simp [hacc, hshow, Obs.next]

/-- **Repeated notifications are harmless**: an input that was accepted causes no further call for the source when
it is delivered again (any number of times, see `c18_calls_exact` for histories in between). -/
theorem c18_repeated_no_call (es : List ε) (hes : ∀ e ∈ es, P.admissible e) (e : ε) (he : P.admissible e) (s : σ)
    (hacc : s ∉ P.rej e) :
    callsFor (P.step (P.after (es ++ [e])) e).calls s = [] := by
  have hes' : ∀ x ∈ es ++ [e], P.admissible x := by
    intro x hx; rcases List.mem_append.mp hx with hx | hx
    · exact hes x hx
    · simp only [List.mem_singleton] at hx; exact hx ▸ he
  have := (c18_calls_exact P hP _ hes' e he s).1
  rw [List.map_append, desired, List.foldl_append] at this
  have hobs : P.obs e s = P.shows e s := by unfold Provider.obs; simp [hacc]
  simp only [List.map_cons, List.map_nil, List.foldl_cons, List.foldl_nil, hobs] at this
  have hidem : ∀ d, transition s ((P.shows e s).next d) ((P.shows e s).next ((P.shows e s).next d)) = [] := by
    intro d; cases P.shows e s <;> simp [Obs.next, transition_self]
  rw [hidem] at this
  simpa using this

end

/-! ## a new version that is received incompletely

The fetch outcome "status 200, then the body ends before its announced end" (connection lost while the rule set is
transferred, `Content-Length` larger than what arrives, chunked transfer broken off inside a chunk or before the
terminating chunk; for cloud_blob: the GET of an object that is listed and whose attributes were read breaks off) is an
instance of "invalid new version", not of "communication error": something arrived, and it is not a usable rule set.
The latitude the property leaves for communication errors (keep or unload) does not apply; the clause
`c18_invalid_keeps_previous` does, and is stated here explicitly for this outcome. -/

/-- **http_endpoint: a partially received version leaves everything as it was.**  After every history of polls of any
number of endpoints (any outcomes, any refusal pattern), a poll whose fetch outcome is a proper prefix of a valid
document (`HttpOutcome.incomplete`) makes no processor call at all, leaves the rule sets active in the repository and
the digests remembered — of the polled endpoint and of every other one — exactly as they were, and what is loaded for
every source is still the latest valid content the history before shows for it. -/
theorem c18_partial_response_keeps_previous (es : List (HttpEvent σ)) (e : HttpEvent σ)
    (hpart : e.outcome.incomplete = true) :
    (httpStep ((httpEndpoint : Provider σ _).after es) e).calls = [] ∧
    ((httpEndpoint : Provider σ _).after (es ++ [e])).active = ((httpEndpoint : Provider σ _).after es).active ∧
    ((httpEndpoint : Provider σ _).after (es ++ [e])).book = ((httpEndpoint : Provider σ _).after es).book ∧
    ∀ s, loaded ((httpEndpoint : Provider σ _).after (es ++ [e])).active s =
      (desired (es.map ((httpEndpoint : Provider σ _).obs · s))).toList := by
  have hstep : ∀ st : St σ, httpStep st e = Out.failed st := by
    intro st
    unfold httpStep
    cases ho : e.outcome <;> simp_all [HttpOutcome.incomplete]
  have hrun : (httpEndpoint : Provider σ _).after (es ++ [e]) = (httpEndpoint : Provider σ _).after es := by
    show run httpStep St.init (es ++ [e]) = run httpStep St.init es
    rw [run_append, run_cons, run_nil, hstep]; rfl
  refine ⟨by rw [hstep]; rfl, by rw [hrun], by rw [hrun], ?_⟩
  intro s
  rw [hrun]
  exact c18_converges httpEndpoint c18_http_endpoint_correct es (fun _ _ => trivial) s

/-- the same as an instance of the clause of the property: such a poll shows nothing usable about any source -/
theorem c18_partial_response_is_invalid (e : HttpEvent σ) (hpart : e.outcome.incomplete = true) (s : σ) :
    (httpEndpoint : Provider σ _).shows e s = .noinfo := by
  show (if e.id = s then e.outcome.obs else Obs.noinfo) = Obs.noinfo
  cases ho : e.outcome <;> simp_all [HttpOutcome.incomplete, HttpOutcome.obs]

/-- a poll that finds blob `s` but cannot read its body to the end shows nothing usable about `s` -/
theorem c18_partial_blob_is_invalid (e : BlobEvent σ) (he : (cloudBlob : Provider σ _).admissible e) (s : σ)
    (hpart : e.incompleteFor s) : (cloudBlob : Provider σ _).shows e s = .noinfo := by
  obtain ⟨hb, hf⟩ := hpart
  show BlobEvent.raw e s = .noinfo
  unfold BlobEvent.raw
  simp only [hb, Bool.not_true, Bool.false_eq_true, if_false]
  cases hfetch : e.fetch with
  | cancelled => rw [hfetch] at hf; exact hf.elim
  | comm => rw [hfetch] at hf; exact hf.elim
  | internal => rw [hfetch] at hf; exact hf.elim
  | single id b =>
    rw [hfetch] at hf
    cases b with
    | none => exact hf.elim
    | some b =>
      cases b <;> simp_all [BlobState.incomplete, blobRuleSets]
  | listing items =>
    rw [hfetch] at hf
    obtain ⟨b, hmem, hinc⟩ := hf
    have hd : (items.map (·.1)).Nodup := by
      have := he.1; rw [hfetch] at this; exact this
    obtain ⟨h, rfl⟩ : ∃ h, b = .truncated h := by
      cases b <;> simp_all [BlobState.incomplete]
    -- the one entry of the listing for `s` is the incomplete one
    have key : ∀ (l : List (σ × BlobState)), (l.map (·.1)).Nodup → (s, BlobState.truncated h) ∈ l →
        ∀ rss, blobRuleSets (.listing l) = some rss → rss.find? (fun p => p.1 = s) = some (s, none) := by
      intro l
      induction l with
      | nil => intro _ hm; simp at hm
      | cons a l ih =>
        intro hn hm rss hr
        obtain ⟨a1, a2⟩ := a
        simp only [blobRuleSets, Option.some.injEq] at hr
        subst hr
        simp only [List.map_cons, List.nodup_cons] at hn
        rcases List.mem_cons.mp hm with heq | hm'
        · simp only [Prod.mk.injEq] at heq
          obtain ⟨rfl, rfl⟩ := heq
          simp
        · have hne : a1 ≠ s := by
            intro e1; subst e1
            exact hn.1 (List.mem_map_of_mem (f := (·.1)) hm')
          have ih' := ih hn.2 hm' _ rfl
          cases a2 <;> simp only [List.filterMap_cons, List.find?, hne, decide_false] <;> exact ih'
    cases hrs : blobRuleSets (.listing items) with
    | none => simp [blobRuleSets] at hrs
    | some rss => simp only []; rw [key items hd hmem rss hrs]

/-- **cloud_blob: a blob whose GET breaks off mid-body keeps its rule set.**  After every history of polls of any
number of buckets, a poll that finds blob `s` (listed, attributes read) but receives its body incompletely makes no
processor call for `s`, leaves what is loaded for `s` and the digest remembered for `s` as they were — while the other
blobs of the bucket are applied as usual (`c18_calls_exact`, `c18_converges` hold for them). -/
theorem c18_partial_blob_keeps_previous (es : List (BlobEvent σ))
    (hes : ∀ e ∈ es, (cloudBlob : Provider σ _).admissible e) (e : BlobEvent σ)
    (he : (cloudBlob : Provider σ _).admissible e) (s : σ) (hpart : e.incompleteFor s) :
    callsFor (blobStep ((cloudBlob : Provider σ _).after es) e).calls s = [] ∧
    loaded ((cloudBlob : Provider σ _).after (es ++ [e])).active s = loaded ((cloudBlob : Provider σ _).after es).active s ∧
    ((cloudBlob : Provider σ _).after (es ++ [e])).book.get s = ((cloudBlob : Provider σ _).after es).book.get s := by
  have hshow := c18_partial_blob_is_invalid e he s hpart
  obtain ⟨h1, h2⟩ := c18_invalid_keeps_previous cloudBlob c18_cloud_blob_correct es hes e he s hshow
  exact ⟨h1, h2, c18_invalid_keeps_digest cloudBlob c18_cloud_blob_correct es hes e he s hshow⟩

/-! ## file_system: the rule files present at start -/

/-- **`Start` is a history.**  If `Start` succeeds the provider is in the state it reaches by one create notification
for every entry of the configured directory that is not a sub directory (`fsSources`) — regular files and symbolic
links alike, a link having the state of its target — so every statement above holds for what is there at start too. -/
theorem c18_fs_start_is_history (rej : List σ) (entries : List (σ × EntryKind × FileState))
    (h : (fsStart rej entries).err = false) :
    (fsStart rej entries).st =
      (fileSystem : Provider σ _).after ((fsSources entries).map fun p => ⟨[.create], p.1, p.2, rej⟩) :=
  fsInit_run rej (fsSources entries) St.init h

/-- **Every rule file that exists at start is loaded, symbolic links to files included.**  If `Start` succeeds, an
entry `n` which is not a sub directory, shows the valid content `h` (for a link: its target does) and is not refused by
the processor has exactly the rule set `h` loaded afterwards — provided no other entry of that name says otherwise
(names in a directory are unique). -/
theorem c18_fs_start_loads_every_source (rej : List σ) (entries : List (σ × EntryKind × FileState))
    (hstart : (fsStart rej entries).err = false) (n : σ) (k : EntryKind) (h : Hash)
    (hmem : (n, k, .valid h) ∈ entries) (hk : k ≠ .directory) (hne : h ≠ 0) (hacc : n ∉ rej)
    (hz : ∀ e ∈ entries, e.2.2 ≠ .valid 0) (huniq : ∀ e ∈ entries, e.1 = n → e.2.2 = .valid h) :
    loaded (fsStart rej entries).st.active n = [h] := by
  rw [c18_fs_start_is_history rej entries hstart]
  have hsrc : ∀ p ∈ fsSources entries, ∃ e ∈ entries, e.1 = p.1 ∧ e.2.2 = p.2 := by
    intro p hp
    simp only [fsSources, List.mem_filterMap] at hp
    obtain ⟨e, he, hpe⟩ := hp
    obtain ⟨a, b, c⟩ := e
    by_cases hb : b = .directory
    · simp [hb] at hpe
    · simp only [hb, if_false, Option.some.injEq] at hpe
      exact ⟨(a, b, c), he, by rw [← hpe], by rw [← hpe]⟩
  have hadm : ∀ e ∈ (fsSources entries).map (fun p => (⟨[.create], p.1, p.2, rej⟩ : FsEvent σ)),
      (fileSystem : Provider σ _).admissible e := by
    intro e he
    obtain ⟨p, hp, rfl⟩ := List.mem_map.mp he
    obtain ⟨x, hx, _, hx2⟩ := hsrc p hp
    show p.2 ≠ .valid 0
    rw [← hx2]; exact hz x hx
  rw [c18_converges fileSystem c18_file_system_correct _ hadm n, List.map_map]
  have : desired (List.map ((fun x => (fileSystem : Provider σ _).obs x n) ∘ fun p => (⟨[.create], p.1, p.2, rej⟩ : FsEvent σ))
      (fsSources entries)) = some h := by
    apply desired_of_shown _ h (fsSources entries) none
    · intro p hp
      obtain ⟨x, hx, hx1, hx2⟩ := hsrc p hp
      simp only [Function.comp, Provider.obs, fileSystem, hacc, if_false]
      by_cases e : p.1 = n
      · right
        have := huniq x hx (hx1.trans e)
        simp [e, FsEvent.raw, ← hx2, this, FileState.obs]
      · left; simp [e]
    · right
      refine ⟨(n, .valid h), ?_, ?_⟩
      · simp only [fsSources, List.mem_filterMap]
        exact ⟨(n, k, .valid h), hmem, by simp [hk]⟩
      · simp [Function.comp, Provider.obs, fileSystem, hacc, FsEvent.raw, FileState.obs]
  rw [this]; rfl

/-! ### rule files replaced while `Start` is loading them -/

/-- **No second version next to the first one.**  Rule files may be replaced while `Start` is inside a processor call
of its initial load (`fsStartDuring`: any directory, any call `held`, any changes `chg`, any refusal pattern).  If
`Start` succeeds, it has done what the create notifications for the files *as the load read them* (`fsReadDuring`) do —
one sequential history, no handler running next to the initial load — so after it and after any notifications `es` the
watcher delivers later on, the repository holds exactly what the provider remembers, every source has at most ONE rule
set loaded (never an old and a new version side by side), and that one is the latest valid content the load and the
notifications have shown for it. -/
theorem c18_fs_start_under_changes_no_duplicate (rej : List σ) (entries : List (σ × EntryKind × FileState))
    (held : Nat) (chg : List (σ × FileState)) (es : List (FsEvent σ))
    (hstart : (fsStartDuring rej entries held chg).err = false)
    (hz : ∀ p ∈ fsReadDuring (fsSources entries) held chg, p.2 ≠ .valid 0)
    (hes : ∀ e ∈ es, (fileSystem : Provider σ _).admissible e) :
    (run fsStep (fsStartDuring rej entries held chg).st es).active =
      (run fsStep (fsStartDuring rej entries held chg).st es).book ∧
    (run fsStep (fsStartDuring rej entries held chg).st es).book.keys.Nodup ∧
    ∀ s, loaded (run fsStep (fsStartDuring rej entries held chg).st es).active s =
        (desired ((((fsReadDuring (fsSources entries) held chg).map
          fun p => (⟨[.create], p.1, p.2, rej⟩ : FsEvent σ)) ++ es).map
            ((fileSystem : Provider σ _).obs · s))).toList ∧
      (loaded (run fsStep (fsStartDuring rej entries held chg).st es).active s).length ≤ 1 := by
  have hrun : run fsStep (fsStartDuring rej entries held chg).st es =
      (fileSystem : Provider σ _).after (((fsReadDuring (fsSources entries) held chg).map
        fun p => (⟨[.create], p.1, p.2, rej⟩ : FsEvent σ)) ++ es) := by
    show _ = run fsStep St.init _
    rw [run_append]
    unfold fsStartDuring at hstart ⊢
    rw [fsInit_run rej _ St.init hstart]
  have hadm : ∀ e ∈ ((fsReadDuring (fsSources entries) held chg).map
      fun p => (⟨[.create], p.1, p.2, rej⟩ : FsEvent σ)) ++ es, (fileSystem : Provider σ _).admissible e := by
    intro e he
    rcases List.mem_append.mp he with he | he
    · obtain ⟨p, hp, rfl⟩ := List.mem_map.mp he
      exact hz p hp
    · exact hes e he
  rw [hrun]
  obtain ⟨h1, h2⟩ := c18_repository_is_book fileSystem c18_file_system_correct _ hadm
  refine ⟨h1, h2, fun s => ?_⟩
  have hc := c18_converges fileSystem c18_file_system_correct _ hadm s
  refine ⟨hc, ?_⟩
  rw [hc]
  cases desired _ <;> simp

/-- **... and the next notification brings a file that was replaced after the load had read it to its latest
content.**  Whatever happened during `Start` and since: a notification that shows content `h` for file `n` and is not
refused leaves exactly `[h]` loaded for `n` — the version read at start is replaced, not kept next to it. -/
theorem c18_fs_changed_during_start_converges (rej : List σ) (entries : List (σ × EntryKind × FileState))
    (held : Nat) (chg : List (σ × FileState)) (es : List (FsEvent σ))
    (hstart : (fsStartDuring rej entries held chg).err = false)
    (hz : ∀ p ∈ fsReadDuring (fsSources entries) held chg, p.2 ≠ .valid 0)
    (hes : ∀ e ∈ es, (fileSystem : Provider σ _).admissible e)
    (e : FsEvent σ) (he : (fileSystem : Provider σ _).admissible e) (n : σ) (h : Hash)
    (hshow : (fileSystem : Provider σ _).shows e n = .content h) (hacc : n ∉ e.rej) :
    loaded (run fsStep (fsStartDuring rej entries held chg).st (es ++ [e])).active n = [h] := by
  have hes' : ∀ x ∈ es ++ [e], (fileSystem : Provider σ _).admissible x := by
    intro x hx; rcases List.mem_append.mp hx with hx | hx
    · exact hes x hx
    · simp only [List.mem_singleton] at hx; exact hx ▸ he
  rw [((c18_fs_start_under_changes_no_duplicate rej entries held chg (es ++ [e]) hstart hz hes').2.2 n).1,
    ← List.append_assoc, List.map_append, desired, List.foldl_append]
  have hobs : (fileSystem : Provider σ _).obs e n = .content h := by
    unfold Provider.obs
    have : n ∉ (fileSystem : Provider σ _).rej e := hacc
    simp [this, hshow]
  simp [hobs, Obs.next]

/-! ## kubernetes -/

variable {κ : Type} [DecidableEq κ]

/-- **The repository follows the informer's cache.**  After every history of watch notifications and re-lists (a
broken watch, missed deletions, resources deleted and created anew under the same name included) that the API server
can produce (`kWf`: rules change only together with the generation; a deletion shows the object as last seen) and in
which the processor refuses nothing, the rule sets loaded for source (key, uid) are the rules of the cached resource
with that key and uid if it is of this instance's authentication class, and none otherwise. -/
theorem c18_k8s_follows_cache (es : List (List κ × KEvent κ)) (hw : kWf ⟨[], []⟩ es = true) (s : κ × Nat) :
    loaded (kRun ⟨[], []⟩ es).active s = kWant (kRun ⟨[], []⟩ es).store s :=
  kRun_inv ⟨[], []⟩ es (fun _ => rfl) hw s

/-! ## the hypotheses are satisfiable, the statements are not vacuous -/

/-- a file system history: created, unchanged, changed, broken (kept), refused update (retried), renamed away -/
def fsHistory : List (FsEvent String) :=
  [⟨[.create], "a", .valid 1, []⟩, ⟨[.write], "a", .valid 1, []⟩, ⟨[.write], "a", .valid 2, []⟩,
   ⟨[.write], "a", .invalid, []⟩, ⟨[.write], "a", .valid 3, ["a"]⟩, ⟨[.chmod], "a", .valid 3, []⟩,
   ⟨[.create], "b", .valid 7, []⟩, ⟨[.rename], "a", .missing, []⟩]

example : ∀ e ∈ fsHistory, (fileSystem : Provider String _).admissible e := by
  simp only [fileSystem]; decide
example : (fileSystem.after fsHistory).active = [("b", 7)] := by decide
example : desired (fsHistory.map ((fileSystem : Provider String _).obs · "a")) = none ∧
    desired ((fsHistory.take 7).map ((fileSystem : Provider String _).obs · "a")) = some 3 := by decide
/-- the hypothesis of `c18_file_system_correct` is needed: an empty digest would be taken for "not loaded" -/
example : (fsStep ⟨[("a", 0)], [("a", 0)]⟩ ⟨[.write], "a", .valid 5, []⟩).st.active = [("a", 0), ("a", 5)] := by decide

/-- a directory at start: a symbolic link to a rule file, a regular rule file, a dangling link, a sub directory -/
def dirAtStart : List (String × EntryKind × FileState) :=
  [("current.yaml", .symlink, .valid 4), ("plain.yaml", .regular, .valid 5), ("gone.yaml", .symlink, .missing),
   ("sub", .directory, .invalid)]

example : (fsStart [] dirAtStart).err = false ∧
    (fsStart [] dirAtStart).st.active = [("current.yaml", 4), ("plain.yaml", 5)] := by decide
/-- a link to a directory is read like a file and makes `Start` fail, a sub directory is skipped -/
example : (fsStart [] [("d", .symlink, .invalid), ("x.yaml", .regular, .valid 1)]).err = true := by decide

/-- a rule file is replaced while `Start` is inside the processor call for it (`held = 0`), a second one before it is
opened, a third one appears: the first keeps the version that was read, the second is loaded in its new version, the
third is not looked at — and the chmod notification afterwards updates the first -/
def dirChanged : List (String × FileState) := [("a.yaml", .valid 2), ("b.yaml", .valid 6), ("new.yaml", .valid 9)]

example : fsFirstCall (fsSources dirAtStart) 0 = some 0 := by decide
example : (fsStartDuring [] [("a.yaml", .regular, .valid 1), ("b.yaml", .regular, .valid 5)] 0 dirChanged).err = false ∧
    (fsStartDuring [] [("a.yaml", .regular, .valid 1), ("b.yaml", .regular, .valid 5)] 0 dirChanged).calls =
      [(.created "a.yaml" 1, true), (.created "b.yaml" 6, true)] := by decide
example : (run fsStep (fsStartDuring [] [("a.yaml", .regular, .valid 1), ("b.yaml", .regular, .valid 5)] 0 dirChanged).st
    [⟨[.chmod], "a.yaml", .valid 2, []⟩]).active = [("b.yaml", 6), ("a.yaml", 2)] := by decide
/-- what the statement excludes: a second handler (a watcher started before the initial load) that finds no digest for
the file either reports `OnCreated` too, and the repository keeps both versions -/
example : loaded (((St.init : St String).active.apply (.created "a.yaml" 1)).apply (.created "a.yaml" 2)) "a.yaml" = [1, 2] := by
  decide

/-- a bucket: one blob breaks while another changes and a third disappears; then the bucket cannot be reached -/
def blobHistory : List (BlobEvent String) :=
  [⟨fun _ => true, .listing [("x", .valid 1), ("y", .valid 2), ("z", .valid 3)], []⟩,
   ⟨fun _ => true, .listing [("x", .invalid), ("y", .valid 4)], []⟩,
   ⟨fun _ => true, .comm, []⟩]

example : ∀ e ∈ blobHistory, (cloudBlob : Provider String _).admissible e := by
  simp only [cloudBlob]; decide
example : (cloudBlob.after (blobHistory.take 2)).active = [("x", 1), ("y", 4)] := by decide
example : (cloudBlob.after blobHistory).active = [] := by decide

/-- two buckets holding a blob of the same key (sources are (bucket, key)), polled in turn: neither poll touches what
the other bucket loaded; bucket 1 becomes unreachable, bucket 0 stays -/
def twoBuckets : List (BlobEvent (Nat × String)) :=
  [⟨(·.1 == 0), .listing [((0, "k"), .valid 1), ((0, "a"), .valid 2)], []⟩,
   ⟨(·.1 == 1), .listing [((1, "k"), .valid 3)], []⟩,
   ⟨(·.1 == 0), .listing [((0, "k"), .valid 1), ((0, "a"), .valid 2)], []⟩,
   ⟨(·.1 == 1), .listing [((1, "k"), .valid 4)], []⟩,
   ⟨(·.1 == 1), .comm, []⟩]

example : ∀ e ∈ twoBuckets, (cloudBlob : Provider (Nat × String) _).admissible e := by
  simp only [cloudBlob]; decide
example : (cloudBlob.after (twoBuckets.take 4)).active = [((0, "k"), 1), ((0, "a"), 2), ((1, "k"), 4)] := by decide
example : (cloudBlob.after twoBuckets).active = [((0, "k"), 1), ((0, "a"), 2)] := by decide

/-- an endpoint: loaded, unparsable answer (kept), 404 (unloaded), loaded again -/
def httpHistory : List (HttpEvent String) :=
  [⟨"u", .valid 1, []⟩, ⟨"u", .invalid, []⟩, ⟨"u", .status 404, []⟩, ⟨"u", .valid 1, []⟩]

example : (httpEndpoint.after (httpHistory.take 2)).active = [("u", 1)] ∧
    (httpEndpoint.after (httpHistory.take 3)).active = [] ∧ (httpEndpoint.after httpHistory).active = [("u", 1)] := by
  decide

/-- two endpoints loaded; then version 2 of `u` is on its way and the body breaks off: the hypothesis of
`c18_partial_response_keeps_previous` holds, nothing is called, version 1 stays active and remembered -/
def httpLoaded : List (HttpEvent String) := [⟨"u", .valid 1, []⟩, ⟨"w", .valid 7, []⟩]
def httpCutOff : HttpEvent String := ⟨"u", .truncated 2, []⟩

example : httpCutOff.outcome.incomplete = true := rfl
example : (httpStep (httpEndpoint.after httpLoaded) httpCutOff).calls = [] ∧
    (httpEndpoint.after (httpLoaded ++ [httpCutOff])).active = [("u", 1), ("w", 7)] ∧
    (httpEndpoint.after (httpLoaded ++ [httpCutOff])).book = [("u", 1), ("w", 7)] := by decide
/-- the complete version 2 afterwards is an update of version 1 (the digest remembered is still the one of version 1) -/
example : (httpStep (httpEndpoint.after (httpLoaded ++ [httpCutOff])) ⟨"u", .valid 2, []⟩).calls =
    [(.updated "u" 2, true)] := by decide
/-- in contrast, no answer at all (the latitude of the property: the code takes it for "source gone") -/
example : (httpEndpoint.after (httpLoaded ++ [⟨"u", .network, []⟩])).active = [("w", 7)] := by decide
/-- what the statement excludes: had the incomplete answer been taken for a communication error, `u` would be unloaded -/
example : (httpUpdated [] (httpEndpoint.after httpLoaded) "u" none).calls = [(.deleted "u", true)] := by decide

/-- a bucket: the GET of `x` breaks off mid-body while `y` changes and `z` is removed -/
def blobCutOff : BlobEvent String := ⟨fun _ => true, .listing [("x", .truncated 9), ("y", .valid 4)], []⟩

example : (cloudBlob : Provider String _).admissible blobCutOff := by simp only [cloudBlob]; decide
example : blobCutOff.incompleteFor "x" := ⟨rfl, .truncated 9, by simp, rfl⟩
example : (cloudBlob.after (blobHistory.take 1 ++ [blobCutOff])).active = [("x", 1), ("y", 4)] ∧
    (blobStep (cloudBlob.after (blobHistory.take 1)) blobCutOff).calls =
      [(.deleted "z", true), (.updated "y" 4, true)] := by decide
/-- a single-blob url whose blob cannot be read to the end: the poll is abandoned, the rule set stays -/
example : (⟨fun _ => true, .single "x" (some (.truncated 9)), []⟩ : BlobEvent String).incompleteFor "x" := ⟨rfl, rfl, rfl⟩
example : (cloudBlob.after [⟨fun _ => true, .single "x" (some (.valid 1)), []⟩,
    ⟨fun _ => true, .single "x" (some (.truncated 9)), []⟩]).active = [("x", 1)] := by decide

/-- kubernetes: while the watch is down `a` is deleted and created anew (new uid), `b` is deleted, `c` appears -/
def k8sHistory : List (List String × KEvent String) :=
  [([], .added ⟨"a", 1, 1, true, 10⟩), ([], .added ⟨"b", 1, 1, true, 20⟩), ([], .modified ⟨"a", 1, 2, true, 11⟩),
   ([], .modified ⟨"a", 1, 2, true, 11⟩),
   ([], .relist [⟨"a", 2, 1, true, 12⟩, ⟨"c", 1, 1, true, 30⟩])]

example : kWf ⟨[], []⟩ k8sHistory = true := by decide
example : (kRun ⟨[], []⟩ k8sHistory).active = [(("a", 2), 12), (("c", 1), 30)] := by decide

end Heimdall.Props.C18
