import HeimdallModel.Lemmas.Pipeline
import HeimdallModel.Lemmas.HttpChain
/-!
# C01 — a request is allowed only after its whole effective pipeline succeeded

Theorems about the model of rule execution (`Model/Pipeline.lean`) and of the three entry points
(`Model/EntryPoints.lean`), tied to `/repo` by the correspondence check of family `pipeline` (real rule factory,
CEL conditions, error handlers, repository, executor, decision / proxy / Envoy services; only the mechanisms replay
scripted outcomes).

Every statement quantifies over all rules (any number and mix of authenticators, authorizers, contextualizers,
finalizers, any conditions and flags), all outcome vectors (subjects, error values, panics), all error pipelines,
all status overrides, all three entry points.  `found` is the result of the rule lookup: the matching rule, the
default rule, or nothing.  `Completed r` (`Spec/Pipeline.lean`) is the condition of the property.

Side conditions are explicit Booleans: `cfg.errorCodesNonSuccess` (the operator did not override an error class
with a 2xx status; the schema allows any integer) and `redirectsNonSuccess found` (no redirect error handler with a
2xx code; the schema allows 301/302 only).  They are only needed where an HTTP *status* is judged; nothing is ever
forwarded and no OK check response is ever sent for a failed pipeline, whatever the configuration.
-/
namespace Heimdall.Props.C01
open Heimdall.Pipeline
open Heimdall.Pipeline.Witness (failing completing cfg cfgAuthzOk redirect200 panicking dfltDoc inheritingDoc)

/-- **Nothing reaches the upstream unless the pipeline completed** (no side condition): a request is forwarded
only by the proxy, only if a rule or the default rule applied, its whole effective pipeline completed, and that
rule names an upstream. -/
theorem c01_forwarded_only_if_completed (ep : EntryPoint) (cfg : Cfg) (view : ReqView) (up : Nat) (found : Option Rule)
    (h : (answer ep cfg view up found).forwarded = true) :
    ep = .proxy ∧ ∃ r, found = some r ∧ Completed r ∧ r.hasBackend = true := by
  cases found with
  | none => rw [answer_none, errorAnswer_not_forwarded] at h; cases h
  | some r =>
    cases hc : completedB r with
    | false =>
      rcases answer_failed ep cfg view up r hc with ⟨e, _, he⟩ | ⟨_, he⟩
      · rw [he, errorAnswer_not_forwarded] at h; cases h
      · rw [he] at h; cases h
    | true =>
      rw [answer_completed ep cfg view up r hc] at h
      cases ep with
      | decision => cases h
      | envoy => cases h
      | proxy =>
        cases hb : r.hasBackend with
        | false => simp only [hb, Bool.false_eq_true, if_false, errorAnswer_not_forwarded] at h
        | true => exact ⟨rfl, r, rfl, (completedB_iff r).mp hc, hb⟩

/-- the hypothesis is satisfiable: the proxy forwards the request of a completed pipeline (upstream says 204) -/
example : (answer .proxy cfg {} 204 (some completing)).forwarded = true := by decide

/-- **Envoy gets an OK check response only for a completed pipeline** (no side condition: the gRPC translator
cannot produce `OK`, whatever status overrides are configured, and a panic fails the RPC). -/
theorem c01_envoy_ok_only_if_completed (cfg : Cfg) (view : ReqView) (up : Nat) (found : Option Rule)
    (h : (answer .envoy cfg view up found).success = true) : ∃ r, found = some r ∧ Completed r := by
  cases found with
  | none =>
    rw [answer_none] at h
    have := deny_not_success cfg (.ofKind .noRule)
    simp only [errorAnswer] at h
    rw [this] at h; cases h
  | some r =>
    cases hc : completedB r with
    | true => exact ⟨r, rfl, (completedB_iff r).mp hc⟩
    | false =>
      rcases answer_failed .envoy cfg view up r hc with ⟨e, _, he⟩ | ⟨_, he⟩
      · rw [he] at h
        have := deny_not_success cfg e
        simp only [errorAnswer] at h
        rw [this] at h; cases h
      · rw [he] at h; cases h

example : (answer .envoy cfgAuthzOk {} 200 (some completing)).success = true := by decide
/-- even with `authorization_error.code: 200` Envoy is told to deny -/
example : answer .envoy cfgAuthzOk {} 200 (some failing) = .checkDenied 9 303 := by decide

/-- **Soundness, all entry points.** A positive answer — a 2xx status of the decision or proxy service, an OK
check response, forwarding to the upstream — is given only if a rule or the default rule applied and its whole
effective pipeline completed. -/
theorem c01_sound (ep : EntryPoint) (cfg : Cfg) (view : ReqView) (up : Nat) (found : Option Rule)
    (hcfg : cfg.errorCodesNonSuccess = true) (hred : redirectsNonSuccess found = true)
    (h : (answer ep cfg view up found).positive = true) : ∃ r, found = some r ∧ Completed r := by
  cases found with
  | none =>
    rw [answer_none] at h
    simp only [Response.positive, errorAnswer_not_forwarded, Bool.or_false] at h
    rw [errorAnswer_not_success ep cfg hcfg _ (fun _ hc => by cases hc)] at h
    cases h
  | some r =>
    cases hc : completedB r with
    | true => exact ⟨r, rfl, (completedB_iff r).mp hc⟩
    | false =>
      rcases answer_failed ep cfg view up r hc with ⟨e, hrec, he⟩ | ⟨_, he⟩
      · rw [he] at h
        simp only [Response.positive, errorAnswer_not_forwarded, Bool.or_false] at h
        rw [errorAnswer_not_success ep cfg hcfg e (recordable_redirect r hred e hrec)] at h
        cases h
      · rw [he] at h; cases h

/-- the side conditions hold for a non-trivial configuration and rule, with a positive answer … -/
example : cfg.errorCodesNonSuccess = true ∧ redirectsNonSuccess (some completing) = true ∧
    (answer .decision cfg {} 200 (some completing)).positive = true := by decide
/-- … and they cannot be dropped: with `authorization_error.code: 200`, or with a redirect handler configured
with code 200, the decision service answers 200 for a pipeline that did not complete -/
example : cfgAuthzOk.errorCodesNonSuccess = false ∧ ¬ Completed { failing with errorHandlers := [] } ∧
    answer .decision cfgAuthzOk {} 200 (some { failing with errorHandlers := [] }) = .http 200 false :=
  ⟨by decide, fun h => absurd ((completedB_iff _).mpr h) (by decide), by decide⟩
example : redirectsNonSuccess (some redirect200) = false ∧ ¬ Completed redirect200 ∧
    answer .decision {} {} 200 (some redirect200) = .http 200 false :=
  ⟨by decide, fun h => absurd ((completedB_iff _).mpr h) (by decide), by decide⟩

/-- **In every other case the caller is refused**: no applicable rule, or a pipeline that did not complete
(mechanism error, condition that cannot be evaluated, failing or non-applicable error handler, panic) — the
response is not a success response and nothing reaches the upstream. -/
theorem c01_failure_refused (ep : EntryPoint) (cfg : Cfg) (view : ReqView) (up : Nat) (found : Option Rule)
    (hcfg : cfg.errorCodesNonSuccess = true) (hred : redirectsNonSuccess found = true)
    (hfail : ∀ r, found = some r → ¬ Completed r) :
    (answer ep cfg view up found).success = false ∧ (answer ep cfg view up found).forwarded = false := by
  have hp : (answer ep cfg view up found).positive = false := by
    cases hpos : (answer ep cfg view up found).positive with
    | false => rfl
    | true =>
      obtain ⟨r, hr, hc⟩ := c01_sound ep cfg view up found hcfg hred hpos
      exact absurd hc (hfail r hr)
  simp only [Response.positive, Bool.or_eq_false_iff] at hp
  exact hp

/-- the hypotheses are satisfiable: no rule at all, a failing authorizer, a panic in a continue-on-error step -/
example : (∀ r, (none : Option Rule) = some r → ¬ Completed r) := fun _ h => nomatch h
example : ¬ Completed failing ∧ ¬ Completed panicking :=
  ⟨fun h => absurd ((completedB_iff _).mpr h) (by decide), fun h => absurd ((completedB_iff _).mpr h) (by decide)⟩
example : answer .proxy cfg {} 200 (some failing) = .http 303 false ∧
    answer .decision cfg {} 200 (some panicking) = .http 503 false ∧
    answer .envoy cfg {} 200 (some panicking) = .rpcError 13 ∧
    answer .decision cfg {} 200 none = .http 404 false := by decide

/-- **Every error handler records a pipeline error before reporting success**: if the error pipeline returns
`nil`, the request context carries a pipeline error — for every list of handlers, conditions, handler kinds and
causes. -/
theorem c01_error_pipeline_records (ehs : List ErrorHandler) (cause : Err) (c c' : Ctx)
    (h : runErrorHandlers ehs cause c = (none, c')) : c'.pipelineErr ≠ none := by
  obtain ⟨pe, hpe⟩ := runErrorHandlers_none ehs cause c c' h
  rw [hpe]; simp

/-- the hypothesis is satisfiable: the first handler is not applicable, the second one handles the error -/
example : runErrorHandlers failing.errorHandlers (.ofKind .authorization) {} =
    (none, { pipelineErr := some ⟨[], some 303⟩ }) := by decide

/-- **Whatever an error handler renders, it records a pipeline error or fails.**  The `to` template of a redirect
handler may depend on what the client sent (a header, a query parameter, the URL) and so render to a URL, to the empty
string, to blanks, to several lines, or not at all.  For every handler kind, rendering outcome, cause and context: the
handler reports success *and* has recorded a pipeline error, or it is a redirect handler whose template failed — then it
returns an internal error and leaves the context alone.  There is no third case ("nothing to redirect to, so
nothing to do"). -/
theorem c01_handler_records_or_fails (k : EHKind) (cause : Err) (c : Ctx) :
    (∃ pe, k.run cause c = (none, c.setPipelineError pe)) ∨
    ((∃ code, k = .redirect .fails code) ∧ k.run cause c = (some (.ofKind .internal), c)) := by
  cases k with
  | default => exact Or.inl ⟨cause, rfl⟩
  | wwwAuthenticate => exact Or.inl ⟨.ofKind .authentication, rfl⟩
  | redirect to code =>
    cases to with
    | value s => exact Or.inl ⟨⟨[], some (redirectCode code)⟩, rfl⟩
    | fails => exact Or.inr ⟨⟨code, rfl⟩, rfl⟩

/-- the rendered value is not looked at: an empty, a blank, a multi-line `to` all record the redirect … -/
example : ∀ s ∈ ["", "  ", "\n  \n", "https://a.test/x\nX-Injected: 1", ":%zz"],
    (EHKind.redirect (.value s) 0).run (.ofKind .authentication) {} = (none, { pipelineErr := some ⟨[], some 302⟩ }) := by
  decide
/-- … and the caller of a failed pipeline is redirected (to nowhere) or, when the template fails, gets an internal
error: never the accepted status, never an OK check response, nothing forwarded -/
example : answer .decision cfg {} 200 (some { failing with errorHandlers := [⟨.always, .redirect (.value "") 0⟩] }) =
      .http 302 false ∧
    answer .envoy cfg {} 200 (some { failing with errorHandlers := [⟨.always, .redirect (.value "  ") 0⟩] }) =
      .checkDenied 9 302 ∧
    answer .proxy cfg {} 200 (some { failing with errorHandlers := [⟨.always, .redirect (.value "\n") 307⟩] }) =
      .http 307 false ∧
    answer .decision cfg {} 200 (some { failing with errorHandlers := [⟨.always, .redirect .fails 0⟩] }) =
      .http 503 false ∧
    answer .envoy cfg {} 200 (some { failing with errorHandlers := [⟨.always, .redirect .fails 0⟩] }) =
      .checkDenied 13 503 := by decide

/-- **The answer does not depend on what a redirect handler rendered**, only on whether rendering succeeded: replace
the value rendered by any redirect handler of the rule's error pipeline by any other string (present ↔ empty ↔ blank ↔
multi-line) — reply and executed mechanisms are the same at every entry point, for every rule and outcome vector. -/
theorem c01_answer_independent_of_rendered_value (ep : EntryPoint) (cfg : Cfg) (view : ReqView) (up : Nat) (r : Rule)
    (pre post : List ErrorHandler) (cond : Cond) (code : Nat) (s s' : String) :
    serve ep cfg view up (some { r with errorHandlers := pre ++ ⟨cond, .redirect (.value s) code⟩ :: post }) =
    serve ep cfg view up (some { r with errorHandlers := pre ++ ⟨cond, .redirect (.value s') code⟩ :: post }) := by
  have h := execute_congr_errorHandlers r _ _ (runErrorHandlers_rendered pre post cond code s s')
  cases ep <;> simp only [serve, serveHTTP, serveEnvoy, execute, h]

/-- **Finalisation is vetoed by a recorded pipeline error**, in all three request contexts: whatever backend the
rule returned, the answer is the translation of the recorded error, nothing is forwarded, no OK response. -/
theorem c01_finalize_vetoed (cfg : Cfg) (view : ReqView) (up : Nat) (backend : Bool) (c : Ctx) (e : Err)
    (h : c.pipelineErr = some e) :
    (finalizeHTTP false cfg view up backend c).resp = errorAnswer .decision cfg e ∧
    (finalizeHTTP true cfg view up backend c).resp = errorAnswer .proxy cfg e ∧
    (finalizeEnvoy cfg c).resp = errorAnswer .envoy cfg e := by
  simp only [finalizeHTTP, finalizeEnvoy, h, errorAnswer, Cfg.writeError, Cfg.denyReply, and_self]

example : ({ pipelineErr := some (.ofKind .authorization) } : Ctx).pipelineErr = some (.ofKind .authorization) := rfl

/-- **No error handler can turn a failed pipeline into a positive answer**: replace the error pipeline of a rule
whose pipeline did not complete by *any* list of error handlers — the answer stays negative at every entry point. -/
theorem c01_handler_cannot_rescue (ep : EntryPoint) (cfg : Cfg) (view : ReqView) (up : Nat) (r : Rule)
    (ehs : List ErrorHandler) (hcfg : cfg.errorCodesNonSuccess = true)
    (hred : ehs.all (·.redirectNonSuccess) = true) (hfail : ¬ Completed r) :
    (answer ep cfg view up (some { r with errorHandlers := ehs })).positive = false := by
  cases hpos : (answer ep cfg view up (some { r with errorHandlers := ehs })).positive with
  | false => rfl
  | true =>
    obtain ⟨r', hr', hc⟩ := c01_sound ep cfg view up (some { r with errorHandlers := ehs }) hcfg hred hpos
    cases hr'
    exact absurd hc hfail

example : cfg.errorCodesNonSuccess = true ∧
    ([⟨.always, .default⟩, ⟨.lit true, .redirect (.value "") 0⟩] : List ErrorHandler).all (·.redirectNonSuccess) = true ∧
    ¬ Completed failing :=
  ⟨by decide, by decide, fun h => absurd ((completedB_iff _).mpr h) (by decide)⟩

/-- **Completeness** (the model does not refuse everything): a completed pipeline gets exactly the positive
answer of its entry point — the accepted status, the OK check response, the upstream's answer. -/
theorem c01_complete (ep : EntryPoint) (cfg : Cfg) (view : ReqView) (up : Nat) (r : Rule) (h : Completed r) :
    answer ep cfg view up (some r) =
      match ep with
      | .decision => .http cfg.acceptedCode false
      | .proxy => if r.hasBackend then .http up true else .http (override cfg.internal 500) false
      | .envoy => .checkOk := by
  rw [answer_completed ep cfg view up r ((completedB_iff r).mpr h)]
  cases ep <;> rfl

example : Completed completing := (completedB_iff _).mp (by decide)

/-- **Characterisation.** With a 2xx accepted status: the answer is positive *iff* a rule or the default rule
applied, its pipeline completed and (proxy) it names an upstream. -/
theorem c01_positive_iff (ep : EntryPoint) (cfg : Cfg) (view : ReqView) (up : Nat) (found : Option Rule)
    (hcfg : cfg.errorCodesNonSuccess = true) (hred : redirectsNonSuccess found = true)
    (hacc : isSuccessStatus cfg.acceptedCode = true) :
    (answer ep cfg view up found).positive = true ↔
      ∃ r, found = some r ∧ Completed r ∧ (ep = .proxy → r.hasBackend = true) := by
  constructor
  · intro h
    obtain ⟨r, hr, hc⟩ := c01_sound ep cfg view up found hcfg hred h
    refine ⟨r, hr, hc, ?_⟩
    rintro rfl
    cases hb : r.hasBackend with
    | true => rfl
    | false =>
      subst hr
      rw [c01_complete .proxy cfg view up r hc] at h
      simp only [hb, Bool.false_eq_true, if_false, Response.positive, Response.forwarded, Bool.or_false] at h
      have := httpStatus_nonSuccess cfg hcfg (.ofKind .configuration) (fun _ hx => by cases hx)
      have hcl : cfg.httpStatus (classify (.ofKind .configuration)) = override cfg.internal 500 := rfl
      rw [hcl] at this
      simp only [Response.success] at h
      rw [this] at h; cases h
  · rintro ⟨r, rfl, hc, hb⟩
    rw [c01_complete ep cfg view up r hc]
    cases ep with
    | decision => simp only [Response.positive, Response.success, hacc, Bool.true_or]
    | envoy => rfl
    | proxy => simp only [hb rfl, if_true, Response.positive, Response.forwarded, Bool.or_true]

example : cfg.errorCodesNonSuccess = true ∧ redirectsNonSuccess (some failing) = true ∧
    isSuccessStatus cfg.acceptedCode = true := by decide

/-- **Verbosity and content negotiation never change the verdict.** `respond.verbose` and the client's `Accept`
header (acceptable, unacceptable or malformed) influence only whether an error body is sent: status, forwarding,
check response — hence success and the positive/negative verdict — are the same for every value of both, at every
entry point, for every rule and outcome vector. -/
theorem c01_verdict_independent_of_verbosity (ep : EntryPoint) (cfg : Cfg) (verbose : Bool)
    (view view' : ReqView) (up : Nat) (found : Option Rule) :
    answer ep { cfg with verbose := verbose } view' up found = answer ep cfg view up found ∧
    (answer ep { cfg with verbose := verbose } view' up found).positive = (answer ep cfg view up found).positive ∧
    (answer ep { cfg with verbose := verbose } view' up found).forwarded = (answer ep cfg view up found).forwarded := by
  rw [answer_verbose ep cfg verbose view view' up found]
  exact ⟨rfl, rfl, rfl⟩

/-- the statement is not empty: verbosity and negotiation do change the reply (the body), only not the answer -/
example : errorBody .decision { cfg with verbose := true } { negotiable := true } 200 (some panicking) = true ∧
    errorBody .decision { cfg with verbose := true } { negotiable := false } 200 (some panicking) = false ∧
    errorBody .decision cfg { negotiable := true } 200 (some panicking) = false ∧
    answer .decision { cfg with verbose := true } { negotiable := false } 200 (some panicking) = .http 503 false := by
  decide

/-- **The log level never changes anything the caller sees.** The request-scoped logger (level `log.level`, put into
the request context by the logger middleware / interceptor) is consulted by the pipeline code — at trace level
`conditionalSubjectHandler.Execute` dumps the subject around the evaluation of the `if` condition — but only to write
log lines: answer, error body and the mechanisms executed are the same at every level, for every entry point, rule and
outcome vector; in particular a condition that cannot be evaluated fails the step at trace level as at any other. -/
theorem c01_verdict_independent_of_log_level (ep : EntryPoint) (cfg : Cfg) (level : LogLevel) (view : ReqView)
    (up : Nat) (found : Option Rule) :
    serve ep { cfg with logLevel := level } view up found = serve ep cfg view up found ∧
    answer ep { cfg with logLevel := level } view up found = answer ep cfg view up found ∧
    (answer ep { cfg with logLevel := level } view up found).positive = (answer ep cfg view up found).positive := by
  have h := serve_logLevel ep cfg level view up found
  simp only [answer, h, and_self]

/-- a witness the tie replays at every level: a non-evaluable condition on a step that is not continue-on-error -/
example : answer .decision { cfg with logLevel := .trace } {} 200
    (some { completing with finalizers := [⟨"hdr", .broken, .ok, false⟩] }) = .http 503 false := by decide

/-! ## The response writer: headers set in front of the handler, the implicit `200 OK`, the CORS middleware

`serve` above is the service handler.  In the proxy service the CORS middleware (`serve.proxy.cors`) runs in front of
it — and in front of nothing else that matters here: it sits *behind* the recovery middleware — and puts `Vary: Origin`
(and `Access-Control-*` for an allowed origin) into the response before the rule is looked up.  `Model/HttpChain.lean`
threads the `http.ResponseWriter` through that chain; a chain that returns without `WriteHeader` is answered by
net/http with `200 OK`.  `serveChain` is what the correspondence check compares with the real services. -/

/-- **Every error is written, whatever is already in the header map.**  On a response writer on which nothing has been
sent yet (no status line, no body, nothing relayed) — with *any* headers already set by whoever ran before — the error
translator (`HandleError`, called by the service handler and by the recovery middleware) writes the status of the
error's class: the reply is exactly `writeError`'s.  There is no state of the header map in which it "leaves the
response alone" and net/http's implicit `200` goes out. -/
theorem c01_error_written_whatever_headers_set (cfg : Cfg) (view : ReqView) (e : Err) (rw : RW)
    (h : rw.fresh = true) :
    (cfg.handleError view e rw).status = some (cfg.httpStatus (classify e)) ∧
    (cfg.handleError view e rw).reply = cfg.writeError view e :=
  ⟨handleError_status cfg view e rw h, handleError_reply cfg view e rw h⟩

/-- the hypothesis is satisfiable by a writer whose header map is not empty (what the CORS middleware leaves behind);
the error is written on it … -/
example : (({} : RW).set ["Vary", "Access-Control-Allow-Origin"]).fresh = true ∧
    ((cfg.handleError {} (.ofKind .authentication) (({} : RW).set ["Vary", "Access-Control-Allow-Origin"])).reply).resp =
      .http 418 false := by decide
/-- … and the statement is not empty: had the translator returned without writing, the caller would have got a
positive answer -/
example : ((({} : RW).set ["Vary"]).reply).resp = .http 200 false ∧ ((({} : RW).set ["Vary"]).reply).resp.positive = true := by
  decide

/-- **The reply of the handler does not depend on the headers set in front of it.**  Run the service handler (inside the
recovery middleware) on two response writers on which nothing has been sent and whose header maps are arbitrary: same
reply, same executed mechanisms, same recorded pipeline error — namely those of `serve` — for every rule, outcome
vector (incl. panics), error pipeline, configuration, for the decision and the proxy service. -/
theorem c01_reply_independent_of_headers_already_set (proxy : Bool) (cfg : Cfg) (view : ReqView) (up : Nat)
    (found : Option Rule) (rw rw' : RW) (h : rw.fresh = true) (h' : rw'.fresh = true) :
    (handlerRW proxy cfg view up found rw).1.reply = (handlerRW proxy cfg view up found rw').1.reply ∧
    (handlerRW proxy cfg view up found rw).2 = (handlerRW proxy cfg view up found rw').2 ∧
    (handlerRW proxy cfg view up found rw).1.reply = (serveHTTP proxy cfg view up found).1 := by
  have h1 := handlerRW_reply proxy cfg view up found rw h
  have h2 := handlerRW_reply proxy cfg view up found rw' h'
  have e1 := congrArg Prod.fst h1
  have e2 := congrArg Prod.fst h2
  have f1 := congrArg Prod.snd h1
  have f2 := congrArg Prod.snd h2
  simp only at e1 e2 f1 f2
  exact ⟨e1.trans e2.symm, f1.trans f2.symm, e1⟩

example : (({} : RW).fresh = true) ∧ ((({} : RW).set ["Vary"]).fresh = true) := by decide

/-- **The whole chain is the service handler, except for preflight requests.**  Unless the request is a CORS preflight
request at a proxy with `serve.proxy.cors` configured, the caller observes exactly `serve` — so every theorem above
speaks about what the caller of the real chain gets, with or without CORS, for every `Origin` header. -/
theorem c01_chain_is_handler (ep : EntryPoint) (cfg : Cfg) (view : ReqView) (up : Nat) (found : Option Rule)
    (h : ep ≠ .proxy ∨ cfg.cors = none ∨ view.preflight = false) :
    serveChain ep cfg view up found = serve ep cfg view up found :=
  serveChain_eq_serve ep cfg view up found ((preflightAnswered_false_iff ep cfg view).mpr h)

/-- a failed pipeline behind a CORS middleware that has granted the origin: refused like without CORS -/
example : chainAnswer .proxy { cfg with cors := some { origins := ["https://app.c01.test"] } }
      { origin := some "https://app.c01.test" } 200 (some failing) = .http 303 false ∧
    chainAnswer .proxy { cfg with cors := some {} } {} 200 none = .http 404 false ∧
    chainAnswer .proxy { cfg with cors := some {} } {} 200 (some panicking) = .http 503 false ∧
    (chainRW true { cfg with cors := some { origins := ["https://app.c01.test"] } }
      { origin := some "https://app.c01.test" } 200 (some failing)).1.headers =
      ["Vary", "Access-Control-Allow-Origin", "Location"] := by decide

/-- **Soundness of the whole chain.**  A positive answer at any entry point, with or without CORS, for any `Origin`
header and method, is given only if a rule or the default rule applied and its whole effective pipeline completed — or
the request is a preflight request answered by the CORS middleware of the proxy (the operator configured
`serve.proxy.cors`): then the answer is the bare `204` of the middleware, nothing is forwarded, no rule was looked up, no
mechanism ran. -/
theorem c01_chain_sound (ep : EntryPoint) (cfg : Cfg) (view : ReqView) (up : Nat) (found : Option Rule)
    (hcfg : cfg.errorCodesNonSuccess = true) (hred : redirectsNonSuccess found = true)
    (h : (chainAnswer ep cfg view up found).positive = true) :
    (∃ r, found = some r ∧ Completed r) ∨
    (ep = .proxy ∧ cfg.cors ≠ none ∧ view.preflight = true ∧
      serveChain ep cfg view up found = ({ resp := .http 204 false }, {})) := by
  cases hp : preflightAnswered ep cfg view with
  | false =>
    left
    unfold chainAnswer at h
    rw [serveChain_eq_serve ep cfg view up found hp] at h
    exact c01_sound ep cfg view up found hcfg hred h
  | true =>
    right
    refine ⟨?_, ?_, ?_, serveChain_preflight ep cfg view up found hp⟩
    · cases ep <;> simp_all [preflightAnswered]
    · cases hc : cfg.cors <;> simp_all [preflightAnswered]
    · cases hv : view.preflight <;> simp_all [preflightAnswered]

/-- both disjuncts occur: a completed pipeline behind CORS; a preflight request for a path no rule matches -/
example : (chainAnswer .proxy { cfg with cors := some {} } { origin := some "https://app.c01.test" } 204
      (some completing)).positive = true ∧
    chainAnswer .proxy { cfg with cors := some {} } { origin := some "https://app.c01.test", preflight := true } 200 none =
      .http 204 false ∧
    -- without CORS the same OPTIONS request goes through the rule lookup like any other
    chainAnswer .proxy cfg { origin := some "https://app.c01.test", preflight := true } 200 none = .http 404 false ∧
    -- and the decision service ignores `serve.decision.cors`
    chainAnswer .decision { cfg with cors := some {} } { preflight := true } 200 none = .http 404 false := by decide

/-- **Nothing reaches the upstream unless the pipeline completed — for the whole chain, no side condition, preflight
requests included.** -/
theorem c01_chain_forwarded_only_if_completed (ep : EntryPoint) (cfg : Cfg) (view : ReqView) (up : Nat)
    (found : Option Rule) (h : (chainAnswer ep cfg view up found).forwarded = true) :
    ep = .proxy ∧ ∃ r, found = some r ∧ Completed r ∧ r.hasBackend = true := by
  cases hp : preflightAnswered ep cfg view with
  | false =>
    unfold chainAnswer at h
    rw [serveChain_eq_serve ep cfg view up found hp] at h
    exact c01_forwarded_only_if_completed ep cfg view up found h
  | true =>
    unfold chainAnswer at h
    rw [serveChain_preflight ep cfg view up found hp] at h
    cases h

example : (chainAnswer .proxy { cfg with cors := some { origins := ["*"], allowCredentials := true } }
    { origin := some "https://evil.c01.test" } 204 (some completing)).forwarded = true := by decide

/-- **A failed pipeline is refused by the whole chain**: no rule, or a pipeline that did not complete, and the request
is not a preflight request answered by the proxy's CORS middleware ⇒ no success response, nothing forwarded — whatever
CORS configuration and `Origin` header. -/
theorem c01_chain_failure_refused (ep : EntryPoint) (cfg : Cfg) (view : ReqView) (up : Nat) (found : Option Rule)
    (hcfg : cfg.errorCodesNonSuccess = true) (hred : redirectsNonSuccess found = true)
    (hfail : ∀ r, found = some r → ¬ Completed r)
    (hreq : ep ≠ .proxy ∨ cfg.cors = none ∨ view.preflight = false) :
    (chainAnswer ep cfg view up found).success = false ∧ (chainAnswer ep cfg view up found).forwarded = false := by
  unfold chainAnswer
  rw [c01_chain_is_handler ep cfg view up found hreq]
  exact c01_failure_refused ep cfg view up found hcfg hred hfail

example : ({ cfg with cors := some {} } : Cfg).errorCodesNonSuccess = true ∧ redirectsNonSuccess (some failing) = true ∧
    ¬ Completed failing ∧ ((EntryPoint.proxy ≠ .proxy) ∨ ({ cfg with cors := some {} } : Cfg).cors = none ∨
      ({ origin := some "https://app.c01.test" } : ReqView).preflight = false) :=
  ⟨by decide, by decide, fun h => absurd ((completedB_iff _).mpr h) (by decide), Or.inr (Or.inr rfl)⟩

/-- **CORS configuration and `Origin` header never change what the caller of a non-preflight request gets**: replace
`serve.<service>.cors` by any other configuration (or none) and the `Origin` header by any other value (or none) —
reply and executed mechanisms of the whole chain are the same, at every entry point, for every rule and outcome
vector.  (The headers of the response do change — `example` below — only not the status, the forwarding, the body.) -/
theorem c01_verdict_independent_of_cors (ep : EntryPoint) (cfg : Cfg) (view : ReqView) (up : Nat) (found : Option Rule)
    (cors : Option Cors) (origin : Option String) (hp : view.preflight = false) :
    serveChain ep { cfg with cors := cors } { view with origin := origin } up found =
      serveChain ep cfg view up found := by
  rw [c01_chain_is_handler ep cfg view up found (Or.inr (Or.inr hp)),
    c01_chain_is_handler ep { cfg with cors := cors } { view with origin := origin } up found (Or.inr (Or.inr hp))]
  have := serve_cors ep cfg cors view origin view.preflight up found
  simpa using this

example : frontHeaders .proxy { cfg with cors := some { origins := ["https://app.c01.test"] } }
      { origin := some "https://app.c01.test" } = ["Vary", "Access-Control-Allow-Origin"] ∧
    frontHeaders .proxy { cfg with cors := some { origins := ["https://app.c01.test"] } }
      { origin := some "https://evil.c01.test" } = ["Vary"] ∧
    frontHeaders .proxy cfg { origin := some "https://app.c01.test" } = [] ∧
    frontHeaders .decision { cfg with cors := some {} } { origin := some "https://app.c01.test" } = [] := by decide

/-- **From the configuration to the answer**: whatever rule set and default rule were loaded (rejected ones never
reach a request), a positive answer means that the matching rule or the default rule applied and its effective
pipeline — own stages, or the default rule's where a stage is left empty — completed. -/
theorem c01_sound_loaded (ep : EntryPoint) (cfg : Cfg) (view : ReqView) (up : Nat) (dflt rule : Option RuleDoc) (repo : Repo)
    (routeMatches : Bool) (_hload : load ep.mode dflt rule = some repo)
    (hcfg : cfg.errorCodesNonSuccess = true) (hred : redirectsNonSuccess (repo.find routeMatches) = true)
    (h : (answer ep cfg view up (repo.find routeMatches)).positive = true) :
    ∃ r, (repo.rule = some r ∧ routeMatches = true ∨ repo.dflt = some r) ∧ Completed r := by
  obtain ⟨r, hr, hc⟩ := c01_sound ep cfg view up _ hcfg hred h
  refine ⟨r, ?_, hc⟩
  unfold Repo.find at hr
  cases routeMatches with
  | false => exact Or.inr hr
  | true =>
    simp only [if_true] at hr
    cases hrule : repo.rule with
    | none => rw [hrule] at hr; exact Or.inr hr
    | some r' => rw [hrule] at hr; cases hr; exact Or.inl ⟨rfl, rfl⟩

/-- the hypotheses are satisfiable: a rule naming only a finalizer inherits authenticator, authorizer and error
handler of the default rule; the proxy refuses to load a rule without upstream -/
example : ∃ repo, load .decision (some dfltDoc) (some inheritingDoc) = some repo ∧
    (repo.find true).map (·.authenticators.map (·.id)) = some ["d-anon"] ∧
    answer .decision cfg {} 200 (repo.find true) = .http 403 false := ⟨_, rfl, by decide, by decide⟩
example : load .proxy (some dfltDoc) (some { inheritingDoc with hasBackend := false }) = none := by decide
example : load .decision (some { dfltDoc with auth := [] }) none = none := by decide

end Heimdall.Props.C01
