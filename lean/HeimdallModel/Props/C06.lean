import HeimdallModel.Lemmas.RepoInv
import HeimdallModel.Lemmas.RepoLive
import HeimdallModel.Props.C02
/-!
# C06 — after any rule-set history, matching equals a fresh load of the current rule sets

Statements about the repository model (`Model/Repo.lean`, tied to `internal/rules/repository_impl.go` and the
routing tree by the correspondence check on rule-set histories).  Histories are arbitrary lists of
add / update / delete operations over arbitrary sources and rule sets; a rejected operation leaves the state
unchanged (`Repo.step`).
-/
namespace Heimdall.Props.C06
open Heimdall

/-- **Invariant of every history**: the index holds exactly the routes of the rules known after the history
(node by node: same values in rule-set order, same wildcard names, backtracking flag of the last rule), no two nodes
share an expression, and routes sharing an expression agree on wildcard names and rule set. -/
theorem c06_inv_run (ops : List RepoOp) : RepoInv (Repo.run ops) := inv_run ops

/-- **C06, main statement.** After any sequence of rule-set creations, updates and deletions, loading the rules
known at that point into an empty repository succeeds, and every request is served exactly alike by the repository
with that history and by the freshly loaded one (same rule, same captured values, same precondition outcome) -/
theorem c06_history_eq_fresh (ops : List RepoOp) :
    ∃ t, addRules [] (Repo.run ops).known = some t ∧
      ∀ (hasDefault : Bool) (q : ReqView),
        (⟨(Repo.run ops).known, t⟩ : Repo).serve hasDefault q = (Repo.run ops).serve hasDefault q := by
  obtain ⟨t, ht, hn⟩ := fresh_of_inv _ (c06_inv_run ops)
  refine ⟨t, ht, ?_⟩
  intro d q
  unfold Repo.serve Repo.findRule lookup
  simp only
  rw [find_congr (repoMatcher q) t (Repo.run ops).index hn]

/-- **Rejected changes are atomic.** -/
theorem c06_atomic_reject (s : Repo) (op : RepoOp) (h : s.apply op = none) : s.step op = s := by
  simp [Repo.step, h]

/-- what the repository knows after an applied update: the rules of the new version in their order, and the
rules of all other rule sets untouched -/
theorem c06_known_after_update (s s' : Repo) (src : String) (rules : List RuleCfg)
    (h : s.apply (.upd src rules) = some s') :
    s'.known.filter (·.src == src) = rules.map (Rule.mk src) ∧
    s'.known.filter (·.src != src) = s.known.filter (·.src != src) := by
  simp only [Repo.apply, Repo.updateRuleSet] at h
  cases hrem : removeRules s.index [] (s.known.filter (·.src == src)) with
  | none => simp [hrem] at h
  | some t1 =>
    simp only [hrem] at h
    cases hadd : addRules t1 (rules.map (Rule.mk src)) with
    | none => simp [hadd] at h
    | some t2 =>
      simp only [hadd, Option.some.injEq] at h
      subst h
      simp only [List.filter_append, List.filter_filter]
      constructor
      · have h1 : (s.known.filter (fun a => (a.src == src) && (a.src != src))) = [] := by
          rw [List.filter_eq_nil_iff]; intro a _; cases h : (a.src == src) <;> simp [bne, h]
        have h2 : (rules.map (Rule.mk src)).filter (fun a => a.src == src) = rules.map (Rule.mk src) := by
          rw [List.filter_eq_self]; intro a ha; rw [List.mem_map] at ha; obtain ⟨r, _, rfl⟩ := ha; simp
        rw [h1, h2]; rfl
      · have h1 : (rules.map (Rule.mk src)).filter (fun a => a.src != src) = [] := by
          rw [List.filter_eq_nil_iff]; intro a ha; rw [List.mem_map] at ha; obtain ⟨r, _, rfl⟩ := ha; simp
        rw [h1, List.append_nil]
        apply List.filter_congr
        intro a _
        cases (a.src != src) <;> rfl

/-- **Deleted rule sets never match again.** After an applied `deleteRuleSet src` no request is served by a rule of
that rule set -/
theorem c06_deleted_never_match (s s' : Repo) (src : String) (hinv : RepoInv s)
    (h : s.apply (.del src) = some s') (hasDefault : Bool) (q : ReqView) (rid : String) :
    (s'.serve hasDefault q).rule ≠ some (src, rid) ∨ src = "config" := by
  simp only [Repo.apply, Repo.deleteRuleSet] at h
  cases hrem : removeRules s.index [] (s.known.filter (·.src == src)) with
  | none => simp [hrem] at h
  | some t1 =>
    simp only [hrem, Option.some.injEq] at h
    subst h
    obtain ⟨items, _, hh, hnd, _, hsrc⟩ := inv_remove src s hinv t1 hrem
    unfold Repo.serve Repo.findRule lookup
    simp only
    cases hf : (find (repoMatcher q) t1 (tokenize (lookupPath q)) []).1 with
    | none =>
      cases hasDefault
      · left; simp
      · by_cases hs : src = "config"
        · right; exact hs
        · left
          intro e
          simp only [if_true] at e
          exact hs (Prod.mk.inj (Option.some.inj e)).1.symm
    | some f =>
      left
      intro hsrc0
      have hsrc' : f.value.src = src := (Prod.mk.inj (Option.some.inj hsrc0)).1
      exfalso
      obtain ⟨n, hn, _, _, hv, _⟩ := Heimdall.Props.C02.c02_most_specific (repoMatcher q) t1 hnd _ f hf
      have hval : f.value ∈ n.values := List.mem_of_find?_eq_some hv
      have hg := getNode_of_mem hnd hn
      rw [hh n.pat, expected_eq] at hg
      cases hfl : items.filter (fun i => i.pat = n.pat) with
      | nil => simp [hfl] at hg
      | cons i rest =>
        simp only [hfl, Option.some.injEq] at hg
        have : n.values = (i :: rest).map (·.val) := by rw [← hg]
        rw [this, List.mem_map] at hval
        obtain ⟨j, hj, hje⟩ := hval
        have hjm : j ∈ items := by
          have : j ∈ items.filter (fun i => i.pat = n.pat) := by rw [hfl]; exact hj
          exact (List.mem_filter.mp this).1
        exact hsrc j hjm (by rw [hje]; exact hsrc')

/-- **Deleting a rule set always takes effect.** After any history, `deleteRuleSet` is applied (never rejected),
provided that two route expressions of one rule id that denote the same tree node are written identically — the only
way to violate this is the redundant backslash alias `/\\c` ≡ `/\c`. -/
theorem c06_delete_succeeds (ops : List RepoOp) (src : String)
    (hna : NoAlias (targets ((Repo.run ops).known.filter (·.src == src)))) :
    ∃ s', (Repo.run ops).apply (.del src) = some s' := by
  obtain ⟨t', ht'⟩ := removeRules_succeeds src _ (c06_inv_run ops) hna
  refine ⟨⟨(Repo.run ops).known.filter (·.src != src), t'⟩, ?_⟩
  simp only [Repo.apply, Repo.deleteRuleSet, ht']

/-- ... and after it no request is served by a rule of that rule set any more -/
theorem c06_delete_effective (ops : List RepoOp) (src : String) (hsrc : src ≠ "config")
    (hna : NoAlias (targets ((Repo.run ops).known.filter (·.src == src))))
    (hasDefault : Bool) (q : ReqView) (rid : String) :
    ((Repo.run (ops ++ [.del src])).serve hasDefault q).rule ≠ some (src, rid) := by
  obtain ⟨s', hs'⟩ := c06_delete_succeeds ops src hna
  have hrun : Repo.run (ops ++ [.del src]) = s' := by
    have : (Repo.run ops).step (.del src) = s' := by simp [Repo.step, hs']
    rw [← this]
    simp [Repo.run, List.foldl_append]
  rw [hrun]
  rcases c06_deleted_never_match _ s' src (c06_inv_run ops) hs' hasDefault q rid with h | h
  · exact h
  · exact absurd h hsrc

/-- an update is rejected only because of its *new* rules (conflicting or invalid expressions), never because the
old version could not be removed -/
theorem c06_update_removal_succeeds (ops : List RepoOp) (src : String)
    (hna : NoAlias (targets ((Repo.run ops).known.filter (·.src == src)))) :
    ∃ t', removeRules (Repo.run ops).index [] ((Repo.run ops).known.filter (·.src == src)) = some t' :=
  removeRules_succeeds src _ (c06_inv_run ops) hna

example : NoAlias [("r1", "/a/:x"), ("r1", "/a/:x"), ("r1", "/b"), ("r2", "/a/:x")] := by
  intro a ha b hb h1 h2
  simp only [List.mem_cons, List.mem_nil_iff, or_false] at ha hb
  rcases ha with rfl | rfl | rfl | rfl <;> rcases hb with rfl | rfl | rfl | rfl <;> first | rfl | (revert h2; decide) | (revert h1; decide)

/-- two load results agree: both fail, or both succeed with trees that hold the same nodes -/
def Rel (a b : Option (Table RVal)) : Prop :=
  match a, b with
  | some x, some y => ∀ p, getNode x p = getNode y p
  | none, none => True
  | _, _ => False

theorem addItem_congr (i : Item) (t₁ t₂ : Table RVal) (h : ∀ p, getNode t₁ p = getNode t₂ p) :
    Rel (addItem t₁ i) (addItem t₂ i) := by
  unfold addItem
  have iff1 := addPat_ok_iff sameSource t₁ i.pat i.keys i.val i.bt
  have iff2 := addPat_ok_iff sameSource t₂ i.pat i.keys i.val i.bt
  rw [h i.pat] at iff1
  cases h1 : addPat sameSource t₁ i.pat i.keys i.val i.bt with
  | error e =>
    cases h2 : addPat sameSource t₂ i.pat i.keys i.val i.bt with
    | error e2 => simp [Rel]
    | ok t2 =>
      exfalso
      have := iff1.mpr (iff2.mp ⟨t2, h2⟩)
      obtain ⟨t', ht'⟩ := this
      rw [h1] at ht'; cases ht'
  | ok t1 =>
    cases h2 : addPat sameSource t₂ i.pat i.keys i.val i.bt with
    | error e2 =>
      exfalso
      have := iff2.mpr (iff1.mp ⟨t1, h1⟩)
      obtain ⟨t', ht'⟩ := this
      rw [h2] at ht'; cases ht'
    | ok t2 =>
      simp only [Rel]
      intro p
      rw [addPat_getNode sameSource t₁ t1 _ _ _ _ h1 p, addPat_getNode sameSource t₂ t2 _ _ _ _ h2 p, h i.pat, h p]

theorem addItems_congr (ois : List (Option Item)) (t₁ t₂ : Table RVal) (h : ∀ p, getNode t₁ p = getNode t₂ p) :
    Rel (addItems t₁ ois) (addItems t₂ ois) := by
  induction ois generalizing t₁ t₂ with
  | nil => simpa [addItems, Rel] using h
  | cons x xs ih =>
    cases x with
    | none => simp [addItems, Rel]
    | some i =>
      simp only [addItems]
      have := addItem_congr i t₁ t₂ h
      cases h1 : addItem t₁ i with
      | none =>
        cases h2 : addItem t₂ i with
        | none => simp [Rel]
        | some b => rw [h1, h2] at this; simp [Rel] at this
      | some a =>
        cases h2 : addItem t₂ i with
        | none => rw [h1, h2] at this; simp [Rel] at this
        | some b =>
          rw [h1, h2] at this
          exact ih a b this

/-- adding rules to a state that satisfies the invariant succeeds iff the fresh load of its known rules followed by
the new ones succeeds -/
theorem add_accept_iff_fresh_of_inv (s : Repo) (hinv : RepoInv s) (src : String) (rules : List RuleCfg) :
    (addRules s.index (rules.map (Rule.mk src))).isSome =
      (addRules [] (s.known ++ rules.map (Rule.mk src))).isSome := by
  obtain ⟨t, ht, hn⟩ := fresh_of_inv s hinv
  have hsplit : addRules [] (s.known ++ rules.map (Rule.mk src)) =
      (addRules [] s.known).bind (fun t' => addRules t' (rules.map (Rule.mk src))) := by
    rw [addRules_eq, allItems_append, addItems_append, ← addRules_eq]
    cases addRules [] s.known with
    | none => rfl
    | some t' => simp [addRules_eq]
  rw [hsplit, ht]
  simp only [Option.bind_some]
  have := addItems_congr (allItems (rules.map (Rule.mk src))) _ _ (fun p => (hn p).symm)
  rw [← addRules_eq, ← addRules_eq] at this
  cases h1 : addRules s.index (rules.map (Rule.mk src)) with
  | none =>
    cases h2 : addRules t (rules.map (Rule.mk src)) with
    | none => rfl
    | some b => rw [h1, h2] at this; simp [Rel] at this
  | some a =>
    cases h2 : addRules t (rules.map (Rule.mk src)) with
    | none => rw [h1, h2] at this; simp [Rel] at this
    | some b => rfl

/-- **Acceptance does not depend on the history** (creation of a rule set): after any history the new rule set is
accepted iff loading the current rule sets followed by the new one into an empty instance succeeds — stale state of
earlier versions can neither block a valid rule set nor admit an invalid one. -/
theorem c06_add_accept_iff_fresh (ops : List RepoOp) (src : String) (rules : List RuleCfg) :
    ((Repo.run ops).apply (.add src rules)).isSome =
      (addRules [] ((Repo.run ops).known ++ rules.map (Rule.mk src))).isSome := by
  rw [← add_accept_iff_fresh_of_inv _ (c06_inv_run ops) src rules]
  simp only [Repo.apply, Repo.addRuleSet]
  cases addRules (Repo.run ops).index (rules.map (Rule.mk src)) <;> rfl

/-- **… and so does the acceptance of an update**: the new version is accepted iff the rule sets of the OTHER sources
followed by the new version load into an empty instance (the version being replaced plays no part; `NoAlias` as for
deletion). -/
theorem c06_update_accept_iff_fresh (ops : List RepoOp) (src : String) (rules : List RuleCfg)
    (hna : NoAlias (targets ((Repo.run ops).known.filter (·.src == src)))) :
    ((Repo.run ops).apply (.upd src rules)).isSome =
      (addRules [] ((Repo.run ops).known.filter (·.src != src) ++ rules.map (Rule.mk src))).isSome := by
  obtain ⟨t1, ht1⟩ := removeRules_succeeds src _ (c06_inv_run ops) hna
  obtain ⟨items, hk, hh, hnd, hc, _⟩ := inv_remove src _ (c06_inv_run ops) t1 ht1
  have hinv : RepoInv ⟨(Repo.run ops).known.filter (·.src != src), t1⟩ := ⟨items, hk, hh, hnd, hc⟩
  rw [← add_accept_iff_fresh_of_inv _ hinv src rules]
  simp only [Repo.apply, Repo.updateRuleSet, ht1]
  cases addRules t1 (rules.map (Rule.mk src)) <;> rfl

/-- what a source's rule set should be after a history, told from the operations alone: an accepted creation
appends, an accepted update replaces, an accepted deletion empties, a rejected change and changes of other sources
leave it as it is -/
def trackStep (src : String) (st : Repo × List RuleCfg) (op : RepoOp) : Repo × List RuleCfg :=
  let cur :=
    if (st.1.apply op).isSome then
      match op with
      | .add x rs => if x = src then st.2 ++ rs else st.2
      | .upd x rs => if x = src then rs else st.2
      | .del x => if x = src then [] else st.2
    else st.2
  (st.1.step op, cur)

def currentRules (src : String) (ops : List RepoOp) : List RuleCfg :=
  (ops.foldl (trackStep src) (Repo.empty, [])).2

theorem filter_mk_same (src : String) (rs : List RuleCfg) :
    (rs.map (Rule.mk src)).filter (·.src == src) = rs.map (Rule.mk src) := by
  induction rs with
  | nil => rfl
  | cons r rest ih => simp [ih]

theorem filter_mk_other (x src : String) (h : x ≠ src) (rs : List RuleCfg) :
    (rs.map (Rule.mk x)).filter (·.src == src) = [] := by
  induction rs with
  | nil => rfl
  | cons r rest ih => simp [ih, h]

theorem track_fst (src : String) (ops : List RepoOp) (st : Repo × List RuleCfg) :
    (ops.foldl (trackStep src) st).1 = ops.foldl Repo.step st.1 := by
  induction ops generalizing st with
  | nil => rfl
  | cons op rest ih => simp only [List.foldl_cons]; rw [ih]; rfl

theorem track_inv (src : String) (ops : List RepoOp) (st : Repo × List RuleCfg)
    (h : st.1.known.filter (·.src == src) = st.2.map (Rule.mk src)) :
    (ops.foldl (trackStep src) st).1.known.filter (·.src == src) =
      (ops.foldl (trackStep src) st).2.map (Rule.mk src) := by
  induction ops generalizing st with
  | nil => exact h
  | cons op rest ih =>
    simp only [List.foldl_cons]
    apply ih
    simp only [trackStep, Repo.step]
    cases ha : st.1.apply op with
    | none => simpa using h
    | some s' =>
      simp only [Option.isSome_some, if_true, Option.getD_some]
      cases op with
      | add x rs =>
        simp only [Repo.apply, Repo.addRuleSet] at ha
        cases h1 : addRules st.1.index (rs.map (Rule.mk x)) with
        | none => simp [h1] at ha
        | some t =>
          simp only [h1, Option.some.injEq] at ha
          subst ha
          simp only [List.filter_append, h]
          by_cases hx : x = src
          · subst hx; simp [filter_mk_same]
          · simp [hx, filter_mk_other x src hx]
      | upd x rs =>
        simp only [Repo.apply, Repo.updateRuleSet] at ha
        cases h0 : removeRules st.1.index [] (st.1.known.filter (·.src == x)) with
        | none => simp [h0] at ha
        | some t1 =>
          cases h1 : addRules t1 (rs.map (Rule.mk x)) with
          | none => simp [h0, h1] at ha
          | some t2 =>
            simp only [h0, h1, Option.some.injEq] at ha
            subst ha
            simp only [List.filter_append, List.filter_filter]
            by_cases hx : x = src
            · subst hx
              have : (st.1.known.filter fun a => (a.src == x && a.src != x)) = [] := by
                apply List.filter_eq_nil_iff.mpr; intro a _; simp
              simp [filter_mk_same, this]
            · have : (st.1.known.filter fun a => (a.src == src && a.src != x)) = st.1.known.filter (·.src == src) := by
                apply List.filter_congr; intro a _
                by_cases ha : a.src = src
                · simp [ha, Ne.symm hx]
                · simp [ha]
              simp [hx, filter_mk_other x src hx, this, h]
      | del x =>
        simp only [Repo.apply, Repo.deleteRuleSet] at ha
        cases h0 : removeRules st.1.index [] (st.1.known.filter (·.src == x)) with
        | none => simp [h0] at ha
        | some t1 =>
          simp only [h0, Option.some.injEq] at ha
          subst ha
          simp only [List.filter_filter]
          by_cases hx : x = src
          · subst hx
            have : (st.1.known.filter fun a => (a.src == x && a.src != x)) = [] := by
              apply List.filter_eq_nil_iff.mpr; intro a _; simp
            simp [this]
          · have : (st.1.known.filter fun a => (a.src == src && a.src != x)) = st.1.known.filter (·.src == src) := by
              apply List.filter_congr; intro a _
              by_cases ha : a.src = src
              · simp [ha, Ne.symm hx]
              · simp [ha]
            simp [hx, this, h]

/-- **The rule set in force is the one the history says**: after any history the rules of a source known to the
repository are, in order, the accepted creations appended to / replaced by the last accepted update / emptied by an
accepted deletion — the order of rules inside a rule set is the order of its current version. -/
theorem c06_known_is_current (ops : List RepoOp) (src : String) :
    (Repo.run ops).known.filter (·.src == src) = (currentRules src ops).map (Rule.mk src) := by
  have := track_inv src ops (Repo.empty, []) (by simp [Repo.empty])
  rw [track_fst] at this
  exact this


end Heimdall.Props.C06
