import HeimdallModel.Lemmas.RepoDel
import HeimdallModel.Props.C02
/-!
# C06 — after any rule-set history, matching equals a fresh load of the current rule sets

Statements about the repository model (`Model/Repo.lean`, tied to `internal/rules/repository_impl.go` and the
routing tree by the correspondence check on rule-set histories).  Histories are arbitrary lists of
add / update / delete operations over arbitrary sources and rule sets; a rejected operation leaves the state
unchanged (`Repo.step`).
-/
namespace Heimdall.Props.C06
open Heimdall

/-- the index holds exactly the routes of the known rules, consistently -/
def RepoInv (s : Repo) : Prop :=
  ∃ items : List Item, allItems s.known = items.map some ∧ Holds s.index items ∧ NodupPats s.index ∧
    Compatible items

theorem inv_empty : RepoInv Repo.empty :=
  ⟨[], rfl, holds_empty, List.Pairwise.nil, fun _ h => by cases h⟩

theorem map_some_inj {α} {a b : List α} (h : a.map some = b.map some) : a = b := by
  induction a generalizing b with
  | nil => cases b <;> simp_all
  | cons x xs ih =>
    cases b with
    | nil => simp at h
    | cons y ys =>
      simp only [List.map_cons, List.cons.injEq, Option.some.injEq] at h
      rw [h.1, ih h.2]

theorem allItems_append (a b : List Rule) : allItems (a ++ b) = allItems a ++ allItems b := by
  simp [allItems]

theorem inv_add (t : Table RVal) (known rs : List Rule) (items : List Item)
    (hk : allItems known = items.map some) (hh : Holds t items) (hnd : NodupPats t) (hc : Compatible items)
    (t' : Table RVal) (ha : addRules t rs = some t') : RepoInv ⟨known ++ rs, t'⟩ := by
  rw [addRules_eq] at ha
  obtain ⟨is, he, hh', hnd'⟩ := holds_addItems (allItems rs) hh hnd ha
  rw [he] at ha
  refine ⟨items ++ is, ?_, hh', hnd', compatible_of_addItems is hh hc ha⟩
  simp [allItems_append, hk, he]

theorem inv_remove (src : String) (s : Repo) (h : RepoInv s) (t' : Table RVal)
    (hr : removeRules s.index [] (s.known.filter (·.src == src)) = some t') :
    ∃ items, allItems (s.known.filter (·.src != src)) = items.map some ∧ Holds t' items ∧ NodupPats t' ∧
      Compatible items ∧ ∀ i ∈ items, i.val.src ≠ src := by
  obtain ⟨items, hk, hh, hnd, hc⟩ := h
  obtain ⟨hh', hnd'⟩ := holds_removeRules src s.index t' s.known items hk hh hnd hc hr
  refine ⟨items.filter (fun i => i.val.src != src), allItems_filter hk (fun x => x != src), hh', hnd',
    hc.sublist (fun x hx => (List.mem_filter.mp hx).1), ?_⟩
  intro i hi
  simpa using (List.mem_filter.mp hi).2

/-- every applied operation keeps the invariant -/
theorem inv_apply (s s' : Repo) (op : RepoOp) (h : RepoInv s) (ha : s.apply op = some s') : RepoInv s' := by
  cases op with
  | add src rules =>
    simp only [Repo.apply, Repo.addRuleSet] at ha
    cases hadd : addRules s.index (rules.map (Rule.mk src)) with
    | none => simp [hadd] at ha
    | some t =>
      simp only [hadd, Option.some.injEq] at ha
      subst ha
      obtain ⟨items, hk, hh, hnd, hc⟩ := h
      exact inv_add s.index s.known _ items hk hh hnd hc t hadd
  | upd src rules =>
    simp only [Repo.apply, Repo.updateRuleSet] at ha
    cases hrem : removeRules s.index [] (s.known.filter (·.src == src)) with
    | none => simp [hrem] at ha
    | some t1 =>
      simp only [hrem] at ha
      cases hadd : addRules t1 (rules.map (Rule.mk src)) with
      | none => simp [hadd] at ha
      | some t2 =>
        simp only [hadd, Option.some.injEq] at ha
        subst ha
        obtain ⟨items, hk, hh, hnd, hc, _⟩ := inv_remove src s h t1 hrem
        exact inv_add t1 _ _ items hk hh hnd hc t2 hadd
  | del src =>
    simp only [Repo.apply, Repo.deleteRuleSet] at ha
    cases hrem : removeRules s.index [] (s.known.filter (·.src == src)) with
    | none => simp [hrem] at ha
    | some t1 =>
      simp only [hrem, Option.some.injEq] at ha
      subst ha
      obtain ⟨items, hk, hh, hnd, hc, _⟩ := inv_remove src s h t1 hrem
      exact ⟨items, hk, hh, hnd, hc⟩

theorem inv_step (s : Repo) (op : RepoOp) (h : RepoInv s) : RepoInv (s.step op) := by
  unfold Repo.step
  cases ha : s.apply op with
  | none => simpa using h
  | some s' => simpa using inv_apply s s' op h ha

/-- **Invariant of every history.** -/
theorem c06_inv_run (ops : List RepoOp) : RepoInv (Repo.run ops) := by
  unfold Repo.run
  suffices ∀ s, RepoInv s → RepoInv (ops.foldl Repo.step s) from this _ inv_empty
  induction ops with
  | nil => intro s h; exact h
  | cons op rest ih => intro s h; exact ih _ (inv_step s op h)

/-- **A fresh load succeeds and yields the same nodes.** Loading the currently known rules into an empty
repository succeeds, and the resulting index has, expression by expression, the same node as the index reached
through the history (same values in the same order, same wildcard names, same backtracking flag). -/
theorem fresh_of_inv (s : Repo) (h : RepoInv s) :
    ∃ t, addRules [] s.known = some t ∧ ∀ p, getNode t p = getNode s.index p := by
  obtain ⟨items, hk, hh, _, hc⟩ := h
  rw [addRules_eq, hk]
  obtain ⟨t, ht⟩ := addItems_ok_of_compatible (t := []) (items := []) items holds_empty (by simpa using hc)
  obtain ⟨is, he, hh', _⟩ := holds_addItems (items.map some) holds_empty List.Pairwise.nil ht
  have : is = items := (map_some_inj he).symm
  subst this
  refine ⟨t, ht, ?_⟩
  intro p
  rw [hh p]
  simpa using hh' p

/-- **C06, main statement.** After any sequence of rule-set creations, updates and deletions, loading the rules
known at that point into an empty repository succeeds, and every request is served exactly alike by the repository
with that history and by the freshly loaded one (same rule, same captured values, same precondition outcome) -/
theorem c06_history_eq_fresh (ops : List RepoOp) :
    ∃ t, addRules [] (Repo.run ops).known = some t ∧
      ∀ (hasDefault : Bool) (q : ReqView),
        (⟨(Repo.run ops).known, t⟩ : Repo).serve hasDefault q = (Repo.run ops).serve hasDefault q := by
  obtain ⟨t, ht, hn⟩ := fresh_of_inv _ (c06_inv_run ops)
  refine ⟨t, ht, ?_⟩
  intro d q
  unfold Repo.serve Repo.findRule lookup
  simp only
  rw [find_congr (repoMatcher q) t (Repo.run ops).index hn]

/-- **Rejected changes are atomic.** -/
theorem c06_atomic_reject (s : Repo) (op : RepoOp) (h : s.apply op = none) : s.step op = s := by
  simp [Repo.step, h]

/-- what the repository knows after an applied update: the rules of the new version in their order, and the
rules of all other rule sets untouched -/
theorem c06_known_after_update (s s' : Repo) (src : String) (rules : List RuleCfg)
    (h : s.apply (.upd src rules) = some s') :
    s'.known.filter (·.src == src) = rules.map (Rule.mk src) ∧
    s'.known.filter (·.src != src) = s.known.filter (·.src != src) := by
  simp only [Repo.apply, Repo.updateRuleSet] at h
  cases hrem : removeRules s.index [] (s.known.filter (·.src == src)) with
  | none => simp [hrem] at h
  | some t1 =>
    simp only [hrem] at h
    cases hadd : addRules t1 (rules.map (Rule.mk src)) with
    | none => simp [hadd] at h
    | some t2 =>
      simp only [hadd, Option.some.injEq] at h
      subst h
      simp only [List.filter_append, List.filter_filter]
      constructor
      · have h1 : (s.known.filter (fun a => (a.src == src) && (a.src != src))) = [] := by
          rw [List.filter_eq_nil_iff]; intro a _; cases h : (a.src == src) <;> simp [bne, h]
        have h2 : (rules.map (Rule.mk src)).filter (fun a => a.src == src) = rules.map (Rule.mk src) := by
          rw [List.filter_eq_self]; intro a ha; rw [List.mem_map] at ha; obtain ⟨r, _, rfl⟩ := ha; simp
        rw [h1, h2]; rfl
      · have h1 : (rules.map (Rule.mk src)).filter (fun a => a.src != src) = [] := by
          rw [List.filter_eq_nil_iff]; intro a ha; rw [List.mem_map] at ha; obtain ⟨r, _, rfl⟩ := ha; simp
        rw [h1, List.append_nil]
        apply List.filter_congr
        intro a _
        cases (a.src != src) <;> rfl

/-- **Deleted rule sets never match again.** After an applied `deleteRuleSet src` no request is served by a rule of
that rule set -/
theorem c06_deleted_never_match (s s' : Repo) (src : String) (hinv : RepoInv s)
    (h : s.apply (.del src) = some s') (hasDefault : Bool) (q : ReqView) (rid : String) :
    (s'.serve hasDefault q).rule ≠ some (src, rid) ∨ src = "config" := by
  simp only [Repo.apply, Repo.deleteRuleSet] at h
  cases hrem : removeRules s.index [] (s.known.filter (·.src == src)) with
  | none => simp [hrem] at h
  | some t1 =>
    simp only [hrem, Option.some.injEq] at h
    subst h
    obtain ⟨items, _, hh, hnd, _, hsrc⟩ := inv_remove src s hinv t1 hrem
    unfold Repo.serve Repo.findRule lookup
    simp only
    cases hf : (find (repoMatcher q) t1 (tokenize (lookupPath q)) []).1 with
    | none =>
      cases hasDefault
      · left; simp
      · by_cases hs : src = "config"
        · right; exact hs
        · left
          intro e
          simp only [if_true] at e
          exact hs (Prod.mk.inj (Option.some.inj e)).1.symm
    | some f =>
      left
      intro hsrc0
      have hsrc' : f.value.src = src := (Prod.mk.inj (Option.some.inj hsrc0)).1
      exfalso
      obtain ⟨n, hn, _, _, hv, _⟩ := Heimdall.Props.C02.c02_most_specific (repoMatcher q) t1 hnd _ f hf
      have hval : f.value ∈ n.values := List.mem_of_find?_eq_some hv
      have hg := getNode_of_mem hnd hn
      rw [hh n.pat, expected_eq] at hg
      cases hfl : items.filter (fun i => i.pat = n.pat) with
      | nil => simp [hfl] at hg
      | cons i rest =>
        simp only [hfl, Option.some.injEq] at hg
        have : n.values = (i :: rest).map (·.val) := by rw [← hg]
        rw [this, List.mem_map] at hval
        obtain ⟨j, hj, hje⟩ := hval
        have hjm : j ∈ items := by
          have : j ∈ items.filter (fun i => i.pat = n.pat) := by rw [hfl]; exact hj
          exact (List.mem_filter.mp this).1
        exact hsrc j hjm (by rw [hje]; exact hsrc')

end Heimdall.Props.C06
