import HeimdallModel.Gen.CacheTTLSrc
import HeimdallModel.Spec.CacheTTLBound
/-!
# C10 — the TTL functions *as they stand in the source* are the model the C10 theorems speak about

`Gen/CacheTTLSrc.lean` (namespace `Heimdall.Validity.Src`) is regenerated on every run of the C10 check by the Go → Lean
translator `extract/go2lean`: the whole bodies of `getCacheTTL` / `isCacheEnabled` of the introspection, JWT and generic
authenticators and of the client-credentials strategy, statement by statement. The theorems below are proof
obligations about *that* code, for **all** inputs (`Int` is unbounded):

* `c10_src_*_ttl` / `c10_src_*_enabled`: the translated function **equals** the hand-written model
  `Heimdall.Validity.cacheTTL` / `lookupEnabled` (`Model/CacheTTL.lean`) of the mechanism. So everything `Props/C10.lean`
  proves about the model (`c10_ttl_le_remaining`, `c10_ttl_le_configured`, `c10_nonpositive_ttl_disables`,
  `c10_reuse_within_validity`, …) is a statement about the current source, not about a sampled correspondence only.
* `c10_src_*_defined`: on no input does the function dereference a nil `ttl`, index an empty certificate list or read an
  expiry it has not found to be present.
* `c10_src_*_within_spec`: stated on the translated function directly, with no model in between — the TTL is at most
  `max 0 (remaining − cache leeway)`, **strictly below** the remaining lifetime whenever positive (the condition under
  which counting in whole seconds is sound: `Unix()` truncates), at most the configured `cache_ttl`; a `cache_ttl ≤ 0`
  switches the lookup off and a switched-off cache gets TTL 0. These keep proving when the code drifts from the model
  in a way the property does not care about, and tell such a drift from a violation.

Correspondence of the parameters: configured `cache_ttl` = `cfg : Option Int` (whole seconds; `none` = not configured)
↔ the pointer field `a.ttl` / `c.TTL` (`nil` = `none`), for the generic authenticator the plain field `a.ttl` =
`cfg.getD 0`; remaining lifetime `rem : Option Int` of the model ↔ `exp.map (· - now)` where `exp : Option Int` is the
expiry found in the remote party's answer as Unix seconds (`none`: `introspectResp.Expiry == nil`,
`len(key.Certificates) == 0`, `resp.Expiry.IsZero()`; generic authenticator: no session lifespan object — `session =
false` — or its `exp` is the zero time) and `now = time.Now().Unix()`.

Every proof is the same script — case distinction on the optional parameters, unfolding, `split` on every remaining
`if`, linear arithmetic — so that a semantics-preserving edit of the Go code (inverted early return, nested `if` instead
of an `if` chain, an extra local variable, a constant hoisted to package level, a helper method extracted) keeps
proving, and an edit that changes a value on some input does not.
-/
set_option linter.unusedSimpArgs false

namespace Heimdall.Props.C10
open Heimdall.Validity

/-- closes what is left after unfolding: every remaining `if` is split, the rest is linear integer arithmetic -/
macro "src_arith" : tactic => `(tactic| (first | done | ((repeat' split) <;> omega) | grind))

/-- **The tie holds for this run:** `Gen/CacheTTLSrc.lean` is the result of translating the current source (when the
source leaves the translatable subset a stub without definitions is written and this module stops building). -/
theorem c10_src_translated : Src.translationOk = true := by decide

/-! ## OAuth2 introspection authenticator -/

/-- `(*oauth2IntrospectionAuthenticator).isCacheEnabled` is `lookupEnabled .introspection`. -/
theorem c10_src_introspection_enabled (cfg : Option Int) :
    Src.Introspection.isCacheEnabled cfg = lookupEnabled .introspection cfg := by
  cases cfg <;> simp [Src.Introspection.isCacheEnabled, lookupEnabled, ptrEnabled] <;> src_arith

/-- `(*oauth2IntrospectionAuthenticator).getCacheTTL` is `cacheTTL .introspection`, for every configured TTL, every
expiry (known or not) and every clock value. -/
theorem c10_src_introspection_ttl (cfg exp : Option Int) (now : Int) :
    Src.Introspection.getCacheTTL cfg exp now = cacheTTL .introspection cfg (exp.map (· - now)) := by
  cases cfg <;> cases exp <;>
    simp [Src.Introspection.getCacheTTL, Src.Introspection.isCacheEnabled, cacheTTL, ptrEnabled, derivedTTL,
      Mech.leeway, Mech.defaultTTL, Gen.introspectionLeeway] <;> src_arith

/-- On no input does `isCacheEnabled` / `getCacheTTL` of the introspection authenticator dereference a nil `a.ttl` or read
the expiry of a response that has none. -/
theorem c10_src_introspection_defined (cfg exp : Option Int) (now : Int) :
    Src.Introspection.isCacheEnabled_defined cfg = true ∧ Src.Introspection.getCacheTTL_defined cfg exp now = true := by
  cases cfg <;> cases exp <;>
    simp [Src.Introspection.getCacheTTL_defined, Src.Introspection.isCacheEnabled_defined,
      Src.Introspection.isCacheEnabled] <;> src_arith

/-- **The specification holds for the source itself** (introspection): the TTL is at most what is left of the token
minus the cache leeway, at least one second below what is left, at most the configured `cache_ttl`; `cache_ttl ≤ 0`
switches the lookup off, and with the lookup off nothing is stored. -/
theorem c10_src_introspection_within_spec (cfg exp : Option Int) (now : Int) :
    ttlWithinSpec Mech.introspection.leeway cfg (exp.map (· - now)) (Src.Introspection.getCacheTTL cfg exp now) = true ∧
    enabledWithinSpec cfg (Src.Introspection.isCacheEnabled cfg) = true ∧
    (Src.Introspection.isCacheEnabled cfg = false → Src.Introspection.getCacheTTL cfg exp now ≤ 0) := by
  cases cfg <;> cases exp <;>
    simp [ttlWithinSpec, enabledWithinSpec, Src.Introspection.getCacheTTL, Src.Introspection.isCacheEnabled,
      Mech.leeway, Gen.introspectionLeeway] <;> src_arith

/-! ## JWT authenticator (verification keys) -/

/-- `(*jwtAuthenticator).isCacheEnabled` is `lookupEnabled .jwtKey`. -/
theorem c10_src_jwtkey_enabled (cfg : Option Int) :
    Src.JwtKey.isCacheEnabled cfg = lookupEnabled .jwtKey cfg := by
  cases cfg <;> simp [Src.JwtKey.isCacheEnabled, lookupEnabled, ptrEnabled] <;> src_arith

/-- `(*jwtAuthenticator).getCacheTTL` is `cacheTTL .jwtKey`; `exp` is `NotAfter` of the key's first certificate,
`none` for a key without certificates. -/
theorem c10_src_jwtkey_ttl (cfg exp : Option Int) (now : Int) :
    Src.JwtKey.getCacheTTL cfg exp now = cacheTTL .jwtKey cfg (exp.map (· - now)) := by
  cases cfg <;> cases exp <;>
    simp [Src.JwtKey.getCacheTTL, Src.JwtKey.isCacheEnabled, cacheTTL, ptrEnabled, derivedTTL,
      Mech.leeway, Mech.defaultTTL, Gen.jwtKeyLeeway, Gen.jwtKeyDefaultTTL] <;> src_arith

/-- No nil dereference of `a.ttl`, no `key.Certificates[0]` of a key without certificates. -/
theorem c10_src_jwtkey_defined (cfg exp : Option Int) (now : Int) :
    Src.JwtKey.isCacheEnabled_defined cfg = true ∧ Src.JwtKey.getCacheTTL_defined cfg exp now = true := by
  cases cfg <;> cases exp <;>
    simp [Src.JwtKey.getCacheTTL_defined, Src.JwtKey.isCacheEnabled_defined, Src.JwtKey.isCacheEnabled] <;> src_arith

/-- The specification holds for the source itself (JWT authenticator, verification keys). -/
theorem c10_src_jwtkey_within_spec (cfg exp : Option Int) (now : Int) :
    ttlWithinSpec Mech.jwtKey.leeway cfg (exp.map (· - now)) (Src.JwtKey.getCacheTTL cfg exp now) = true ∧
    enabledWithinSpec cfg (Src.JwtKey.isCacheEnabled cfg) = true ∧
    (Src.JwtKey.isCacheEnabled cfg = false → Src.JwtKey.getCacheTTL cfg exp now ≤ 0) := by
  cases cfg <;> cases exp <;>
    simp [ttlWithinSpec, enabledWithinSpec, Src.JwtKey.getCacheTTL, Src.JwtKey.isCacheEnabled,
      Mech.leeway, Gen.jwtKeyLeeway] <;> src_arith

/-! ## generic authenticator -/

/-- `(*genericAuthenticator).getCacheTTL` is `cacheTTL .generic`. The field `a.ttl` is a plain duration, 0 when
`cache_ttl` is not configured; the remaining lifetime is known when a session lifespan object exists (`session`) and
its `exp` is not the zero time. -/
theorem c10_src_generic_ttl (cfg : Option Int) (session : Bool) (exp : Option Int) (now : Int) :
    Src.Generic.getCacheTTL (cfg.getD 0) session exp now
      = cacheTTL .generic cfg (if session then exp.map (· - now) else none) := by
  cases cfg <;> cases exp <;> cases session <;>
    simp [Src.Generic.getCacheTTL, cacheTTL, Mech.leeway, Gen.genericLeeway] <;> src_arith

/-- `sessionLifespan.exp` is touched only where `sessionLifespan != nil` has been established, its value read only
where it is not the zero time. -/
theorem c10_src_generic_defined (ttl : Int) (session : Bool) (exp : Option Int) (now : Int) :
    Src.Generic.getCacheTTL_defined ttl session exp now = true := by
  cases exp <;> cases session <;> simp [Src.Generic.getCacheTTL_defined] <;> src_arith

/-- The specification holds for the source itself (generic authenticator). -/
theorem c10_src_generic_within_spec (cfg : Option Int) (session : Bool) (exp : Option Int) (now : Int) :
    ttlWithinSpec Mech.generic.leeway cfg (if session then exp.map (· - now) else none)
      (Src.Generic.getCacheTTL (cfg.getD 0) session exp now) = true := by
  cases cfg <;> cases exp <;> cases session <;>
    simp [ttlWithinSpec, Src.Generic.getCacheTTL, Mech.leeway, Gen.genericLeeway] <;> src_arith

/-- the condition under which `getSubjectInformation` consults the cache is `lookupEnabled .generic` -/
theorem c10_src_generic_enabled (cfg : Option Int) :
    Src.Generic.cacheRead (cfg.getD 0) = lookupEnabled .generic cfg ∧
    Src.Generic.cacheRead_defined (cfg.getD 0) = true ∧
    enabledWithinSpec cfg (Src.Generic.cacheRead (cfg.getD 0)) = true := by
  cases cfg <;> simp [Src.Generic.cacheRead, Src.Generic.cacheRead_defined, lookupEnabled, enabledWithinSpec,
    Mech.defaultTTL] <;> src_arith

/-! ## OAuth2 client credentials (finalizer and endpoint authentication strategy) -/

/-- `(*Config).isCacheEnabled` is `lookupEnabled .clientCreds`. -/
theorem c10_src_clientcreds_enabled (cfg : Option Int) :
    Src.ClientCreds.isCacheEnabled cfg = lookupEnabled .clientCreds cfg := by
  cases cfg <;> simp [Src.ClientCreds.isCacheEnabled, lookupEnabled, ptrEnabled] <;> src_arith

/-- `(*Config).getCacheTTL` is `cacheTTL .clientCreds`; `exp` is the `Expiry` of the token endpoint response,
`none` when it is the zero time (`expires_in` absent or 0). -/
theorem c10_src_clientcreds_ttl (cfg exp : Option Int) (now : Int) :
    Src.ClientCreds.getCacheTTL cfg exp now = cacheTTL .clientCreds cfg (exp.map (· - now)) := by
  cases cfg <;> cases exp <;>
    simp [Src.ClientCreds.getCacheTTL, Src.ClientCreds.isCacheEnabled, cacheTTL, ptrEnabled, derivedTTL,
      Mech.leeway, Mech.defaultTTL, Gen.clientCredsLeeway] <;> src_arith

/-- No nil dereference of `c.TTL`; `time.Until(resp.Expiry)` is used only where `Expiry` is not the zero time. -/
theorem c10_src_clientcreds_defined (cfg exp : Option Int) (now : Int) :
    Src.ClientCreds.isCacheEnabled_defined cfg = true ∧ Src.ClientCreds.getCacheTTL_defined cfg exp now = true := by
  cases cfg <;> cases exp <;>
    simp [Src.ClientCreds.getCacheTTL_defined, Src.ClientCreds.isCacheEnabled_defined,
      Src.ClientCreds.isCacheEnabled] <;> src_arith

/-- The specification holds for the source itself (client credentials): in particular the token is dropped from the
cache at least a second before it expires. -/
theorem c10_src_clientcreds_within_spec (cfg exp : Option Int) (now : Int) :
    ttlWithinSpec Mech.clientCreds.leeway cfg (exp.map (· - now)) (Src.ClientCreds.getCacheTTL cfg exp now) = true ∧
    enabledWithinSpec cfg (Src.ClientCreds.isCacheEnabled cfg) = true ∧
    (Src.ClientCreds.isCacheEnabled cfg = false → Src.ClientCreds.getCacheTTL cfg exp now ≤ 0) := by
  cases cfg <;> cases exp <;>
    simp [ttlWithinSpec, enabledWithinSpec, Src.ClientCreds.getCacheTTL, Src.ClientCreds.isCacheEnabled,
      Mech.leeway, Gen.clientCredsLeeway] <;> src_arith

/-! ## cache reads and writes inside larger functions: the condition of the innermost `if` around the only
`cch.Get` / `cch.Set` call and the ttl argument of `Set` (`keyed`: a cache key could be computed) -/

/-- **JWT finalizer** (`Execute`): with `f.ttl` the lifetime of the issued tokens (`tokenLifetime cfg`, the factory
applies the default), the token is written to the cache exactly when the model's TTL is positive, and then with
exactly that TTL; it stays below the token's lifetime by the leeway. -/
theorem c10_src_jwtfinalizer_write (cfg : Option Int) (keyed : Bool) :
    Src.JwtFinalizer.cacheWrite (tokenLifetime cfg) keyed
      = (keyed && decide (0 < cacheTTL .jwtFinalizer cfg none)) ∧
    (Src.JwtFinalizer.cacheWrite (tokenLifetime cfg) keyed = true →
      Src.JwtFinalizer.cacheWriteTTL (tokenLifetime cfg) keyed = cacheTTL .jwtFinalizer cfg none ∧
      ttlWithinSpec Mech.jwtFinalizer.leeway none (some (tokenLifetime cfg))
        (Src.JwtFinalizer.cacheWriteTTL (tokenLifetime cfg) keyed) = true) ∧
    Src.JwtFinalizer.cacheWrite_defined (tokenLifetime cfg) keyed = true ∧
    Src.JwtFinalizer.cacheWriteTTL_defined (tokenLifetime cfg) keyed = true := by
  cases cfg <;> cases keyed <;>
    simp [Src.JwtFinalizer.cacheWrite, Src.JwtFinalizer.cacheWriteTTL, Src.JwtFinalizer.cacheWrite_defined,
      Src.JwtFinalizer.cacheWriteTTL_defined, cacheTTL, tokenLifetime, ttlWithinSpec, Mech.leeway, Mech.defaultTTL,
      Gen.jwtFinalizerLeeway, Gen.jwtFinalizerDefaultTTL] <;> src_arith

/-- **Remote authorizer** (`Execute`): `a.ttl` is the effective `cache_ttl` (0 when not configured). The cache is read
iff `lookupEnabled`, written iff the model's TTL is positive (and a key exists), then with exactly that TTL. -/
theorem c10_src_remoteauthz_read_write (cfg : Option Int) (keyed : Bool) :
    Src.RemoteAuthz.cacheRead (cfg.getD 0) = lookupEnabled .remoteAuthz cfg ∧
    Src.RemoteAuthz.cacheWrite (cfg.getD 0) keyed = (keyed && decide (0 < cacheTTL .remoteAuthz cfg none)) ∧
    (Src.RemoteAuthz.cacheWrite (cfg.getD 0) keyed = true →
      Src.RemoteAuthz.cacheWriteTTL (cfg.getD 0) keyed = cacheTTL .remoteAuthz cfg none ∧
      ttlWithinSpec 0 cfg none (Src.RemoteAuthz.cacheWriteTTL (cfg.getD 0) keyed) = true) ∧
    enabledWithinSpec cfg (Src.RemoteAuthz.cacheRead (cfg.getD 0)) = true ∧
    Src.RemoteAuthz.cacheRead_defined (cfg.getD 0) = true ∧
    Src.RemoteAuthz.cacheWrite_defined (cfg.getD 0) keyed = true ∧
    Src.RemoteAuthz.cacheWriteTTL_defined (cfg.getD 0) keyed = true := by
  cases cfg <;> cases keyed <;>
    simp [Src.RemoteAuthz.cacheRead, Src.RemoteAuthz.cacheWrite, Src.RemoteAuthz.cacheWriteTTL,
      Src.RemoteAuthz.cacheRead_defined, Src.RemoteAuthz.cacheWrite_defined, Src.RemoteAuthz.cacheWriteTTL_defined,
      cacheTTL, lookupEnabled, ttlWithinSpec, enabledWithinSpec, Mech.defaultTTL] <;> src_arith

/-- **Generic contextualizer** (`Execute`): `h.ttl` is the effective `cache_ttl` (the default when not configured;
the factory applies it). -/
theorem c10_src_contextualizer_read_write (cfg : Option Int) (keyed : Bool) :
    let t := cfg.getD Mech.contextualizer.defaultTTL
    Src.Contextualizer.cacheRead t = lookupEnabled .contextualizer cfg ∧
    Src.Contextualizer.cacheWrite t keyed = (keyed && decide (0 < cacheTTL .contextualizer cfg none)) ∧
    (Src.Contextualizer.cacheWrite t keyed = true →
      Src.Contextualizer.cacheWriteTTL t keyed = cacheTTL .contextualizer cfg none ∧
      ttlWithinSpec 0 cfg none (Src.Contextualizer.cacheWriteTTL t keyed) = true) ∧
    enabledWithinSpec cfg (Src.Contextualizer.cacheRead t) = true ∧
    Src.Contextualizer.cacheRead_defined t = true ∧
    Src.Contextualizer.cacheWrite_defined t keyed = true ∧
    Src.Contextualizer.cacheWriteTTL_defined t keyed = true := by
  cases cfg <;> cases keyed <;>
    simp [Src.Contextualizer.cacheRead, Src.Contextualizer.cacheWrite, Src.Contextualizer.cacheWriteTTL,
      Src.Contextualizer.cacheRead_defined, Src.Contextualizer.cacheWrite_defined,
      Src.Contextualizer.cacheWriteTTL_defined, cacheTTL, lookupEnabled, ttlWithinSpec, enabledWithinSpec,
      Mech.defaultTTL, Gen.contextualizerDefaultTTL] <;> src_arith

end Heimdall.Props.C10
