import HeimdallModel.Model.ProvidersSrc
/-!
# C18 — `ruleSetsUpdated` of the http_endpoint provider *as it stands in the source* is `httpUpdated` of the C18 model

`Gen/ProvidersSrc.lean` is regenerated on every run by the Go → Lean translator `extract/go2lean` (`cmd/providers`) from
the whole body of `(*provider).ruleSetsUpdated`. For **every** state (book of remembered digests, active rule sets),
every fetched rule set (empty or with any digest) and every set of sources the processor refuses, the translated
function makes exactly the processor call the model's `httpUpdated` makes (created for an unknown endpoint with rules,
updated only for a different digest, deleted for a known endpoint without rules, none otherwise), reports an error iff
the processor refused, and changes the remembered digest **only after the processor accepted** - so the convergence
theorems of `Props/C18.lean`, stated over `httpStep`, speak about the branches of the current source.
-/
set_option linter.unusedSimpArgs false

namespace Heimdall.Props.C18
open Heimdall Heimdall.Prov Heimdall.Prov.SrcTie

variable {σ : Type} [DecidableEq σ]

/-- **The tie holds for this run:** `Gen/ProvidersSrc.lean` is the result of translating the current source. -/
theorem c18_src_translated : Src.translationOk = true := by decide

/-- **`ruleSetsUpdated` is `httpUpdated`**: same state afterwards (book and active rule sets), same processor calls
with the same answers, an error iff the model reports one. -/
theorem c18_src_http_updated (rej : List σ) (st : St σ) (id : σ) (rs : Option Hash) :
    httpSrc rej id rs (st, []) =
      .done (if (httpUpdated rej st id rs).err then some () else none)
        ((httpUpdated rej st id rs).st, (httpUpdated rej st id rs).calls) := by
  unfold httpSrc Src.HttpEndpoint.ruleSetsUpdated httpUpdated
  by_cases hr : id ∈ rej
  all_goals
    cases hb : st.book.get id with
    | none => cases rs <;> simp [Go.bind, Go.pure, Go.cond_app, hb, hr, Out.quiet, emit, processor, Call.src]
    | some h' =>
      cases rs with
      | none => simp [Go.bind, Go.pure, Go.cond_app, hb, hr, Out.quiet, emit, processor, Call.src]
      | some h =>
        have hbeq : (h' == h) = decide (h' = h) := by
          by_cases he : h' = h <;> simp [he]
        by_cases he : h' = h <;>
          simp [Go.bind, Go.pure, Go.cond_app, hb, hr, he, hbeq, Out.quiet, emit, processor, Call.src]

/-- **The remembered digest changes only after the processor accepted**: when the processor refuses the endpoint's
source the book is what it was. -/
theorem c18_src_refused_keeps_book (rej : List σ) (st : St σ) (id : σ) (rs : Option Hash) (h : id ∈ rej) :
    (httpUpdated rej st id rs).st = st ∧
      httpSrc rej id rs (st, []) =
        .done (if (httpUpdated rej st id rs).err then some () else none) (st, (httpUpdated rej st id rs).calls) := by
  have hst : (httpUpdated rej st id rs).st = st := by
    unfold httpUpdated emit
    cases st.book.get id with
    | none => cases rs <;> simp [Out.quiet, Call.src, h]
    | some h' =>
      cases rs with
      | none => simp [Out.quiet, Call.src, h]
      | some h2 => by_cases he : h' = h2 <;> simp [Out.quiet, Call.src, h, he]
  refine ⟨hst, ?_⟩
  rw [c18_src_http_updated, hst]

/-- **An unchanged rule set causes no call**: same digest as remembered, nothing is reported and nothing changes. -/
theorem c18_src_unchanged_is_silent (rej : List σ) (st : St σ) (id : σ) (h : Hash) (hb : st.book.get id = some h) :
    httpSrc rej id (some h) (st, []) = .done none (st, []) := by
  rw [c18_src_http_updated]
  simp [httpUpdated, hb, Out.quiet]

/-- the theorems are not vacuous: an endpoint known with digest 1 that now serves digest 2 is reported as updated and
the book moves to 2; refused, the book stays at 1 (evaluated on the translated function) -/
example :
    let st : St Nat := ⟨[(7, 1)], [(7, 1)]⟩
    httpSrc [] 7 (some 2) (st, []) = .done none (⟨[(7, 2)], [(7, 2)]⟩, [(.updated 7 2, true)]) ∧
      httpSrc [7] 7 (some 2) (st, []) = .done (some ()) (st, [(.updated 7 2, false)]) ∧
      httpSrc [] 7 none (st, []) = .done none (⟨[], []⟩, [(.deleted 7, true)]) := by
  refine ⟨?_, ?_, ?_⟩ <;>
    simp [c18_src_http_updated, httpUpdated, Book.get, Book.put, Book.del, without, emit, Call.src, Active.apply,
      Out.quiet]

/-! ## file_system -/

/-- **`ruleSetDeleted` of the file_system provider is `fsDeleted`**: a file the provider never loaded causes no call; a
loaded one is reported as deleted and forgotten only after the processor accepted. -/
theorem c18_src_fs_deleted (rej : List σ) (st : St σ) (name : σ) :
    fsDeletedSrc rej name (st, []) =
      .done (if (fsDeleted rej st name).err then some FileState.invalid else none)
        ((fsDeleted rej st name).st, (fsDeleted rej st name).calls) := by
  unfold fsDeletedSrc Src.FileSystem.ruleSetDeleted fsDeleted
  by_cases hr : name ∈ rej
  all_goals
    cases hb : st.book.get name <;>
      simp [Go.bind, Go.pure, Go.map, Go.Res.map, Go.cond_app, hb, hr, Out.quiet, emit, processor, Call.src]

/-- **`ruleSetCreatedOrUpdated` of the file_system provider is `fsCreatedOrUpdated`**, for every state, every state of
the file (valid with any digest, empty, missing, unreadable) and every refusing processor: created for a file not
loaded before (or remembered with the empty digest), updated only for a different digest, handed to `ruleSetDeleted`
when the file is gone or empty, an error and no call for an unreadable file; the digest is remembered only after the
processor accepted. -/
theorem c18_src_fs_created_or_updated (rej : List σ) (st : St σ) (name : σ) (file : FileState) :
    fsChangedSrc rej name file (st, []) =
      .done (if (fsCreatedOrUpdated rej st name file).err then some FileState.invalid else none)
        ((fsCreatedOrUpdated rej st name file).st, (fsCreatedOrUpdated rej st name file).calls) := by
  cases file with
  | missing =>
    simp only [fsChangedSrc, Src.FileSystemChanged.ruleSetCreatedOrUpdated, fsCreatedOrUpdated, loadOf, Go.bind, Go.pure,
      Option.isSome_some, cond_true, Option.any_some, Go.cond_app]
    rw [show ((FileState.missing == FileState.empty) || (FileState.missing == FileState.missing)) = true from rfl]
    simp only [cond_true, c18_src_fs_deleted]
    rfl
  | empty =>
    simp only [fsChangedSrc, Src.FileSystemChanged.ruleSetCreatedOrUpdated, fsCreatedOrUpdated, loadOf, Go.bind, Go.pure,
      Option.isSome_some, cond_true, Option.any_some, Go.cond_app]
    rw [show ((FileState.empty == FileState.empty) || (FileState.empty == FileState.missing)) = true from rfl]
    simp only [cond_true, c18_src_fs_deleted]
    rfl
  | invalid =>
    simp only [fsChangedSrc, Src.FileSystemChanged.ruleSetCreatedOrUpdated, fsCreatedOrUpdated, loadOf, Go.bind, Go.pure,
      Option.isSome_some, cond_true, Option.any_some, Go.cond_app]
    rw [show ((FileState.invalid == FileState.empty) || (FileState.invalid == FileState.missing)) = false from rfl]
    simp [Out.failed]
  | valid h =>
    unfold fsChangedSrc Src.FileSystemChanged.ruleSetCreatedOrUpdated fsCreatedOrUpdated
    by_cases hr : name ∈ rej
    all_goals
      cases hb : st.book.get name with
      | none =>
        simp [Go.bind, Go.pure, Go.map, Go.Res.map, Go.cond_app, loadOf, digestLen, hb, hr, Out.quiet, emit, processor,
          Call.src]
      | some h' =>
        have hbeq : (some h' == some h) = decide (h' = h) := by
          by_cases he : h' = h <;> simp [he]
        by_cases h0 : h' = 0 <;> by_cases he : h' = h <;>
          simp [Go.bind, Go.pure, Go.map, Go.Res.map, Go.cond_app, loadOf, digestLen, hb, hr, h0, he, hbeq, Out.quiet, emit,
            processor, Call.src] <;> simp_all

end Heimdall.Props.C18
