import HeimdallModel.Lemmas.Jwt
/-!
# C05 — JWT authentication accepts exactly the correctly signed, asserted tokens

Theorems about the model of the JWT authenticator (`Model/Jwt.lean`: `Execute`, `verifyToken`, `getKey`,
`verifyTokenWithoutKID`, `verifyTokenWithKey`, `oauth2.Expectation`, `oauth2.Claims`, the scope matchers and
`SubjectInfo.CreateSubject`; tied to the Go code by the correspondence check of the `jwt` family, which runs the very
function `Jwt.authenticate` these theorems are about, and by the regenerated algorithm lists of `Gen/JwtAlgs.lean`).

All statements hold for every configuration (either endpoint kind, any assertions, with or without rule-level
override), every answer of the endpoints, every key set (any length, with / without / with duplicate `kid`s, with
certificates), every token (any header, any JSON payload of any depth, any signature oracle) and every instant.
The vocabulary (`Entitled`, `Accepts`, `SubjectOf`, `Covers`, `Satisfied`) is defined in `Spec/Jwt.lean`.

Signature verification itself is the oracle `Token.sigOk` (go-jose / Go crypto): that a modified byte of a signed
token makes `sigOk` false for every key is the contract of the signature schemes, not a theorem here — the property
is *partial* in exactly this respect, and the correspondence check evaluates the oracle with an independent verifier.
-/
namespace Heimdall.Props.C05
open Heimdall.Jwt

/-! ## Obligations on the regenerated algorithm lists -/

/-- `jwt.ParseSigned` never admits a token without an algorithm … -/
theorem c05_gen_no_empty_alg : Gen.supported.contains "" = false := by decide

/-- … nor an unsigned one, however `none` is spelled -/
theorem c05_gen_no_none_alg :
    Gen.supported.contains "none" = false ∧ Gen.supported.contains "None" = false ∧
    Gen.supported.contains "NONE" = false ∧ Gen.supported.contains "nOnE" = false := by decide

/-! ## Witnesses -/

/-- the payload of the witness token -/
def payload₀ : Val :=
  .obj [("iss", .str "https://idp.example.com"), ("sub", .str "alice"), ("aud", .arr [.str "api"]),
        ("scp", .arr [.str "users.*"]), ("exp", .num 1700000300 0), ("nbf", .num 1700000005 0),
        ("user", .obj [("id", .num 4711 0), ("name", .str "Alice")])]

/-- a token naming key `k1`, signed with key material 2 -/
def tok₀ : Token :=
  { alg := "ES256", kid := "k1", payload := some payload₀, sigOk := fun m => m == 2 }

/-- the same token without `kid` -/
def tok₁ : Token := { tok₀ with kid := "" }

/-- key set: the signing key, another key, and a key with a bad certificate -/
def keys₀ : List Key :=
  [{ kid := "k9", alg := "RS256", mat := 0 }, { kid := "k1", alg := "ES256", mat := 2 },
   { kid := "k7", alg := "ES256", mat := 3, cert := .untrusted }]

def world₀ : World := { jwks := some keys₀ }

/-- mechanism level: issuer, audience, wildcard scopes, two allowed algorithms, 5 s leeway; the audience is
overridden at rule level -/
def cfg₀ : Config :=
  { assertions := { issuers := ["https://idp.example.com"], audiences := ["nobody"],
                    scopes := some ⟨.wildcard, ["users.read"]⟩, algs := ["ES256", "PS256"], leeway := 5000 },
    subject := { idPath := [{ key := "user" }, { key := "id" }], attrsPath := some [{ key := "user" }] } }

def rule₀ : Option Expectation := some { audiences := ["api", "web"] }

/-- 2023-11-14T22:13:20Z, in milliseconds -/
def now₀ : Int := 1700000000000

/-! ## Exactness -/

/-- **Accepted exactly when entitled.**  The authenticator yields the subject `(id, attrs)` if and only if the
configuration is usable, the request carries a parsable token with a supported algorithm whose payload is a claims
object, the endpoints answered, and some key `k` of the fetched key set entitles the token under the assertions in
force (`Entitled`: it is the key the `kid` designates — uniquely — if there is a `kid`, its certificate is valid,
its declared algorithm equals the token's `alg` and is allowed, the signature verifies with it, the issuer is
trusted, an expected audience is present if audiences are configured, the required scopes are covered, and the
instant lies in `[nbf − leeway, exp + leeway)` and not before `iat − leeway`), and `(id, attrs)` are the values
found in that payload. -/
theorem c05_accept_iff (cfg : Config) (rule : Option Expectation) (w : World) (p : Presented) (nowMs : Int)
    (id : String) (attrs : Val) :
    authenticate cfg rule w p nowMs = .accepted id attrs ↔ Accepts cfg rule w p nowMs id attrs :=
  authenticate_accepted_iff c05_gen_no_empty_alg cfg rule w p nowMs id attrs

example : authenticate cfg₀ rule₀ world₀ (.token tok₀) now₀ =
    .accepted "4711" (.obj [("id", .num 4711 0), ("name", .str "Alice")]) := by rfl

example : authenticate cfg₀ rule₀ world₀ (.token tok₁) now₀ =
    .accepted "4711" (.obj [("id", .num 4711 0), ("name", .str "Alice")]) := by rfl

/-- **Soundness, in the words of the property.**  A subject is created only if there is a key in the key set
obtained from the endpoint with which the signature verifies, whose declared algorithm is the token's `alg` and is
in the allowed list, the issuer is trusted, an expected audience is present when audiences are configured, the
required scopes are matched and the token is inside its validity period within the leeway. -/
theorem c05_sound {cfg : Config} {rule : Option Expectation} {w : World} {p : Presented} {nowMs : Int}
    {id : String} {attrs : Val} (h : authenticate cfg rule w p nowMs = .accepted id attrs) :
    ∃ tok ks md kvs c k,
      p = .token tok ∧ w.jwks = some ks ∧ resolveMetadata cfg w = .ok md ∧
      tok.payload.bind Val.members = some kvs ∧ decodeClaims kvs = some c ∧
      k ∈ ks ∧ tok.sigOk k.mat = true ∧ k.alg = tok.alg ∧ k.alg ∈ (effective cfg rule md.issuer).algs ∧
      c.iss ∈ (effective cfg rule md.issuer).issuers ∧
      ((effective cfg rule md.issuer).audiences = [] ∨ ∃ x ∈ (effective cfg rule md.issuer).audiences, x ∈ c.aud) ∧
      Satisfied (effective cfg rule md.issuer).scopes c.granted ∧
      (∀ t, c.nbf = some t → t - (effective cfg rule md.issuer).leewaySec ≤ nowMs / 1000) ∧
      (∀ t, c.exp = some t → nowMs / 1000 < t + (effective cfg rule md.issuer).leewaySec) := by
  obtain ⟨tok, pl, kvs, md, ks, c, k, _, hp, _, hpl, hkvs, hmd, hjw, hc, e, _⟩ := (c05_accept_iff ..).mp h
  refine ⟨tok, ks, md, kvs, c, k, hp, hjw, hmd, by simp [hpl, hkvs], hc, e.fromKeySet, e.signed.2.2, e.algAgrees,
    e.algAllowed, e.issuerTrusted, e.audienceOk, e.scopesOk, ?_, ?_⟩
  · intro t ht; have := e.notBefore t ht; omega
  · intro t ht; have := e.notExpired t ht; omega

/-! ## Every other token is rejected -/

/-- **Unsigned tokens.**  A token whose header says `none` (in any spelling the generated list rules out) or no
algorithm at all is rejected whatever the key set, the configuration and the claims are. -/
theorem c05_unsigned_rejected (cfg : Config) (rule : Option Expectation) (w : World) (tok : Token) (nowMs : Int)
    (h : tok.alg = "none" ∨ tok.alg = "None" ∨ tok.alg = "NONE" ∨ tok.alg = "nOnE" ∨ tok.alg = "") :
    ∀ id attrs, authenticate cfg rule w (.token tok) nowMs ≠ .accepted id attrs := by
  intro id attrs hacc
  obtain ⟨tok', _, _, _, _, _, _, _, hp, hsup, _⟩ := (c05_accept_iff ..).mp hacc
  cases hp
  have hc : Gen.supported.contains tok.alg = true := by simpa using hsup
  obtain ⟨h1, h2, h3, h4⟩ := c05_gen_no_none_alg
  rcases h with h | h | h | h | h <;> rw [h] at hc
  · rw [h1] at hc; cases hc
  · rw [h2] at hc; cases hc
  · rw [h3] at hc; cases hc
  · rw [h4] at hc; cases hc
  · rw [c05_gen_no_empty_alg] at hc; cases hc

example : ∀ id attrs, authenticate cfg₀ rule₀ world₀ (.token { tok₀ with alg := "none", sigOk := fun _ => true })
    now₀ ≠ .accepted id attrs := c05_unsigned_rejected _ _ _ _ _ (Or.inl rfl)

/-- **Foreign or broken signatures.**  If the signature verifies with none of the keys of the fetched key set —
the token was signed with another key, or header, payload or signature were modified — no subject is created. -/
theorem c05_foreign_signature_rejected (cfg : Config) (rule : Option Expectation) (w : World) (tok : Token)
    (nowMs : Int) (h : ∀ ks, w.jwks = some ks → ∀ k ∈ ks, tok.sigOk k.mat = false) :
    ∀ id attrs, authenticate cfg rule w (.token tok) nowMs ≠ .accepted id attrs := by
  intro id attrs hacc
  obtain ⟨tok', _, _, _, ks, _, k, _, hp, _, _, _, _, hjw, _, e, _⟩ := (c05_accept_iff ..).mp hacc
  cases hp
  have := h ks hjw k e.fromKeySet
  rw [e.signed.2.2] at this; cases this

example : ∀ id attrs, authenticate cfg₀ rule₀ world₀ (.token { tok₀ with sigOk := fun m => m == 5 }) now₀ ≠
    .accepted id attrs :=
  c05_foreign_signature_rejected _ _ _ _ _ (by
    intro ks h k hk
    have : ks = keys₀ := by simpa [world₀] using h.symm
    subst this
    simp only [keys₀, List.mem_cons, List.not_mem_nil, or_false] at hk
    rcases hk with rfl | rfl | rfl <;> rfl)

/-- **Algorithm confusion.**  A token is only ever verified under the algorithm the key itself declares: if no key
of the set declares the token's `alg` — e.g. an `HS256` token keyed by the public material of an `RS256` / `ES256`
key, or an `RS256` token for a key declared `PS256` — it is rejected, even if `sigOk` holds and whatever the
allowed algorithms are. -/
theorem c05_alg_confusion_rejected (cfg : Config) (rule : Option Expectation) (w : World) (tok : Token)
    (nowMs : Int) (h : ∀ ks, w.jwks = some ks → ∀ k ∈ ks, k.alg ≠ tok.alg) :
    ∀ id attrs, authenticate cfg rule w (.token tok) nowMs ≠ .accepted id attrs := by
  intro id attrs hacc
  obtain ⟨tok', _, _, _, ks, _, k, _, hp, _, _, _, _, hjw, _, e, _⟩ := (c05_accept_iff ..).mp hacc
  cases hp
  exact h ks hjw k e.fromKeySet e.algAgrees

example : ∀ id attrs,
    authenticate { cfg₀ with assertions := { cfg₀.assertions with algs := ["HS256", "ES256", "RS256"] } } rule₀ world₀
      (.token { tok₀ with alg := "HS256", kid := "", sigOk := fun _ => true }) now₀ ≠ .accepted id attrs :=
  c05_alg_confusion_rejected _ _ _ _ _ (by
    intro ks h k hk
    have : ks = keys₀ := by simpa [world₀] using h.symm
    subst this
    simp only [keys₀, List.mem_cons, List.not_mem_nil, or_false] at hk
    rcases hk with rfl | rfl | rfl <;> decide)

/-- **Assertions.**  A token whose verified claims violate one of the assertions in force is rejected: issuer not
trusted; audiences configured and none of them present; a required scope not covered; expired (`exp ≤ now −
leeway`, whatever the value of `exp`, also zero or negative); not yet valid (`nbf > now + leeway`); issued in the
future. -/
theorem c05_unasserted_rejected (cfg : Config) (rule : Option Expectation) (w : World) (tok : Token) (nowMs : Int)
    (pl : Val) (kvs : List (String × Val)) (c : Claims) (md : Metadata)
    (hpl : tok.payload = some pl) (hkvs : pl.members = some kvs) (hc : decodeClaims kvs = some c)
    (hmd : resolveMetadata cfg w = .ok md)
    (h : c.iss ∉ (effective cfg rule md.issuer).issuers ∨
         ((effective cfg rule md.issuer).audiences ≠ [] ∧ ∀ x ∈ (effective cfg rule md.issuer).audiences, x ∉ c.aud) ∨
         ¬ Satisfied (effective cfg rule md.issuer).scopes c.granted ∨
         (∃ t, c.exp = some t ∧ t ≤ nowMs / 1000 - (effective cfg rule md.issuer).leewaySec) ∨
         (∃ t, c.nbf = some t ∧ nowMs / 1000 + (effective cfg rule md.issuer).leewaySec < t) ∨
         (∃ t, c.iat = some t ∧ nowMs + (effective cfg rule md.issuer).leewayMs < t * 1000)) :
    ∀ id attrs, authenticate cfg rule w (.token tok) nowMs ≠ .accepted id attrs := by
  intro id attrs hacc
  obtain ⟨tok', pl', kvs', md', ks, c', k, _, hp, _, hpl', hkvs', hmd', _, hc', e, _⟩ := (c05_accept_iff ..).mp hacc
  cases hp
  rw [hpl] at hpl'; cases hpl'
  rw [hkvs] at hkvs'; cases hkvs'
  rw [hmd] at hmd'; cases hmd'
  rw [hc] at hc'; cases hc'
  rcases h with h | ⟨hne, h⟩ | h | ⟨t, ht, h⟩ | ⟨t, ht, h⟩ | ⟨t, ht, h⟩
  · exact h e.issuerTrusted
  · rcases e.audienceOk with h0 | ⟨x, hx, hx'⟩
    · exact hne h0
    · exact h x hx hx'
  · exact h e.scopesOk
  · have := e.notExpired t ht; omega
  · have := e.notBefore t ht; omega
  · have := e.issued t ht; omega

/-- the witness token one second after `exp + leeway`, and with `exp = 0` -/
example : authenticate cfg₀ rule₀ world₀ (.token tok₀) (now₀ + 305000) = .rejected .expired ∧
    authenticate cfg₀ rule₀ world₀ (.token tok₀) (now₀ + 304999) =
      .accepted "4711" (.obj [("id", .num 4711 0), ("name", .str "Alice")]) ∧
    authenticate cfg₀ rule₀ world₀ (.token tok₀) (now₀ - 1) = .rejected .notYetValid ∧
    authenticate cfg₀ none world₀ (.token tok₀) now₀ = .rejected .audience ∧
    authenticate cfg₀ rule₀ world₀
      (.token { tok₀ with payload := some (.obj [("iss", .str "https://idp.example.com"), ("aud", .str "api"),
        ("scope", .str "users.read"), ("exp", .num 0 0)]) }) now₀
      = .rejected .expired := by
  refine ⟨by rfl, by rfl, by rfl, by rfl, by rfl⟩

/-- **Once expired, never accepted again.**  If at some instant the token's `exp` lies at or before `now − leeway`,
the same request is rejected at every later instant (same configuration, endpoints and token). -/
theorem c05_expired_forever (cfg : Config) (rule : Option Expectation) (w : World) (tok : Token) (nowMs nowMs' : Int)
    (pl : Val) (kvs : List (String × Val)) (c : Claims) (md : Metadata) (t : Int)
    (hpl : tok.payload = some pl) (hkvs : pl.members = some kvs) (hc : decodeClaims kvs = some c)
    (hmd : resolveMetadata cfg w = .ok md) (hexp : c.exp = some t)
    (h : t ≤ nowMs / 1000 - (effective cfg rule md.issuer).leewaySec) (hlater : nowMs ≤ nowMs') :
    ∀ id attrs, authenticate cfg rule w (.token tok) nowMs' ≠ .accepted id attrs :=
  c05_unasserted_rejected cfg rule w tok nowMs' pl kvs c md hpl hkvs hc hmd
    (Or.inr (Or.inr (Or.inr (Or.inl ⟨t, hexp, by omega⟩))))

example : decodeClaims [("exp", .num 1700000300 0)] = some { exp := some 1700000300 } ∧
    (1700000300 : Int) ≤ (now₀ + 305000) / 1000 - (effective cfg₀ rule₀ "").leewaySec := by decide

/-! ## Key selection -/

/-- **A `kid` designates exactly one key.**  A token that names a key is accepted only if exactly one key of the
set carries that name, and then that key alone decides: duplicates, a missing key or a named key that does not
verify lead to rejection even if another key of the set would verify the token. -/
theorem c05_kid_designates {cfg : Config} {rule : Option Expectation} {w : World} {tok : Token} {nowMs : Int}
    {id : String} {attrs : Val} (hkid : tok.kid ≠ "")
    (h : authenticate cfg rule w (.token tok) nowMs = .accepted id attrs) :
    ∃ ks k, w.jwks = some ks ∧ ks.filter (fun k' => k'.kid = tok.kid) = [k] ∧
      tok.sigOk k.mat = true ∧ k.alg = tok.alg := by
  obtain ⟨tok', _, _, _, ks, _, k, _, hp, _, _, _, _, hjw, _, e, _⟩ := (c05_accept_iff ..).mp h
  cases hp
  exact ⟨ks, k, hjw, e.designated hkid, e.signed.2.2, e.algAgrees⟩

/-- two keys named `k1`: rejected although the first of them verifies the token -/
example : authenticate cfg₀ rule₀ { jwks := some (keys₀ ++ [{ kid := "k1", alg := "ES256", mat := 3 }]) }
    (.token tok₀) now₀ = .rejected .ambiguousKey := by rfl

/-- **Acceptance is owed to a single key.**  Whenever a token is accepted against a key set, one key of that set
alone — served as the whole key set — leads to the same subject: no combination of keys can make a token
acceptable that no single key of the endpoint justifies. -/
theorem c05_single_key_suffices {cfg : Config} {rule : Option Expectation} {w : World} {p : Presented}
    {nowMs : Int} {id : String} {attrs : Val} (h : authenticate cfg rule w p nowMs = .accepted id attrs) :
    ∃ ks k, w.jwks = some ks ∧ k ∈ ks ∧
      authenticate cfg rule { w with jwks := some [k] } p nowMs = .accepted id attrs := by
  obtain ⟨tok, pl, kvs, md, ks, c, k, hcfg, hp, hsup, hpl, hkvs, hmd, hjw, hc, e, hs⟩ := (c05_accept_iff ..).mp h
  refine ⟨ks, k, hjw, e.fromKeySet, (c05_accept_iff ..).mpr
    ⟨tok, pl, kvs, md, [k], c, k, hcfg, hp, hsup, hpl, hkvs, ?_, rfl, hc, ?_, hs⟩⟩
  · simpa [resolveMetadata] using hmd
  · refine { e with fromKeySet := List.mem_singleton.mpr rfl, designated := ?_ }
    intro hk
    have hmem : k ∈ ks.filter (fun k' => k'.kid = tok.kid) := by rw [e.designated hk]; exact List.mem_singleton.mpr rfl
    have hkk : k.kid = tok.kid := by simpa using (List.mem_filter.mp hmem).2
    simp [List.filter, hkk]

/-! ## Assertion merge -/

/-- **`Merge` is "first one set wins", field by field**, and therefore associative: rule level over mechanism
level over server metadata is well defined. -/
theorem c05_merge_assoc (a b c : Expectation) : (a.merge b).merge c = a.merge (b.merge c) := by
  cases a; cases b; cases c
  simp only [Expectation.merge, Expectation.mk.injEq]
  refine ⟨?_, ?_, ?_, ?_, ?_⟩ <;> split <;> simp_all

/-- **Configured expectations take precedence over metadata, rule level over mechanism level.**  Each assertion in
force is the rule-level value if one is given there, otherwise the mechanism-level value if given, otherwise: the
issuer named by the server metadata / no audience check / no scope requirement / the default algorithms / 10 s. -/
theorem c05_effective_precedence (cfg : Config) (r : Expectation) (metaIssuer : String) :
    let e := effective cfg (some r) metaIssuer
    e.issuers = (if r.issuers ≠ [] then r.issuers else if cfg.assertions.issuers ≠ [] then cfg.assertions.issuers
                 else [metaIssuer]) ∧
    e.audiences = (if r.audiences ≠ [] then r.audiences else cfg.assertions.audiences) ∧
    e.scopes = (if r.scopes.isSome then r.scopes else cfg.assertions.scopes) ∧
    e.algs = (if r.algs ≠ [] then r.algs else if cfg.assertions.algs ≠ [] then cfg.assertions.algs
              else Gen.defaultAllowed) ∧
    e.leewayMs = (if r.leeway ≠ 0 then r.leeway else if cfg.assertions.leeway ≠ 0 then cfg.assertions.leeway
                  else 10000) := by
  simp only [effective, Expectation.merge, Expectation.leewayMs]
  refine ⟨?_, ?_, ?_, ?_, ?_⟩
  · by_cases h1 : r.issuers = [] <;> by_cases h2 : cfg.assertions.issuers = [] <;> simp [h1, h2]
  · split <;> simp_all
  · split <;> simp_all
  · have hd : Gen.defaultAllowed ≠ [] := by decide
    by_cases h1 : r.algs = [] <;> by_cases h2 : cfg.assertions.algs = [] <;> simp [h1, h2, hd]
  · by_cases h1 : r.leeway = 0 <;> by_cases h2 : cfg.assertions.leeway = 0 <;> simp [h1, h2]

/-- without a rule-level override the mechanism-level values are in force; trusted issuers configured at the
mechanism are never widened by what the metadata document says -/
theorem c05_configured_issuers_win (cfg : Config) (metaIssuer : String) (h : cfg.assertions.issuers ≠ []) :
    (effective cfg none metaIssuer).issuers = cfg.assertions.issuers := by
  simp [effective, Expectation.merge, h]

example : (effective cfg₀ rule₀ "https://evil.example").issuers = ["https://idp.example.com"] ∧
    (effective cfg₀ rule₀ "").audiences = ["api", "web"] ∧ (effective cfg₀ none "").audiences = ["nobody"] ∧
    (effective cfg₀ rule₀ "").algs = ["ES256", "PS256"] ∧ (effective cfg₀ rule₀ "").leewaySec = 5 ∧
    (effective { cfg₀ with assertions := {} } none "https://meta.example").issuers = ["https://meta.example"] ∧
    (effective { cfg₀ with assertions := {} } none "").algs = Gen.defaultAllowed := by
  decide

/-! ## Subject -/

/-- **The subject consists of verified claims only.**  Id and attributes of an accepted request are values of the
token's payload — the payload whose signature was verified — selected by the configured paths; they do not
depend on the header, the key set, the endpoints, the assertions or the instant: any two accepted requests with
the same payload and subject configuration yield the same subject. -/
theorem c05_subject_from_claims {cfg cfg' : Config} {rule rule' : Option Expectation} {w w' : World}
    {tok tok' : Token} {nowMs nowMs' : Int} {id id' : String} {attrs attrs' : Val}
    (h : authenticate cfg rule w (.token tok) nowMs = .accepted id attrs)
    (h' : authenticate cfg' rule' w' (.token tok') nowMs' = .accepted id' attrs')
    (hp : tok.payload = tok'.payload) (hs : cfg.subject = cfg'.subject) :
    (∃ pl, tok.payload = some pl ∧ SubjectOf cfg.subject pl id attrs) ∧ id = id' ∧ attrs = attrs' := by
  obtain ⟨t, pl, _, _, _, _, _, _, e1, _, hpl, _, _, _, _, _, hs1⟩ := (c05_accept_iff ..).mp h
  obtain ⟨t', pl', _, _, _, _, _, _, e2, _, hpl', _, _, _, _, _, hs2⟩ := (c05_accept_iff ..).mp h'
  cases e1; cases e2
  rw [← hp, hpl] at hpl'; cases hpl'
  rw [← hs] at hs2
  refine ⟨⟨pl, hpl, hs1⟩, ?_⟩
  obtain ⟨v, hv, hid, _, kvs, rfl, hsrc⟩ := hs1
  obtain ⟨v', hv', hid', _, kvs', rfl, hsrc'⟩ := hs2
  rw [hv] at hv'; cases hv'
  rw [hid] at hid'; cases hid'
  rw [hsrc] at hsrc'; cases hsrc'
  exact ⟨rfl, rfl⟩

/-! ## Scope matching strategies -/

/-- **The three matching strategies decide the relations of the specification**: exact = equality; hierarchic = the
granted scope equals the required one or is a proper dot-prefix of it; wildcard = part-wise agreement with `*` for
any non-empty part, a shorter granted scope having to end in `*`. -/
theorem c05_scope_strategies (st : Strategy) (granted required : String) :
    covers1 st granted required = true ↔ Covers st granted required := covers1_iff st granted required

example : Covers .hierarchic "users" "users.read.all" ∧ ¬ Covers .hierarchic "users.read" "users" ∧
    ¬ Covers .hierarchic "user" "users.read" ∧ Covers .wildcard "users.*" "users.read.all" ∧
    ¬ Covers .wildcard "users.*" "users" ∧ ¬ Covers .wildcard "*" "" ∧ Covers .wildcard "a.*.c" "a.b.c" ∧
    ¬ Covers .exact "users" "users.read" := by
  simp only [← c05_scope_strategies]
  decide

/-! ## The oracle of the correspondence check -/

/-- **The executable specification is the model's verdict.**  `Spec.authenticate` — one conjunction of all clauses
over the candidate keys instead of the ladder — is run next to the model on every case of the check. -/
theorem c05_spec_oracle (cfg : Config) (rule : Option Expectation) (w : World) (p : Presented) (nowMs : Int) :
    Spec.authenticate cfg rule w p nowMs = (authenticate cfg rule w p nowMs).verdict :=
  spec_authenticate_eq c05_gen_no_empty_alg cfg rule w p nowMs

end Heimdall.Props.C05
