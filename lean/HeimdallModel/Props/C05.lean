import HeimdallModel.Lemmas.Jwt
import HeimdallModel.Lemmas.JwtRegistered
import HeimdallModel.Lemmas.JwtProcess
/-!
# C05 — JWT authentication accepts exactly the correctly signed, asserted tokens

Theorems about the model of the JWT authenticator (`Model/Jwt.lean`: `Execute`, `verifyToken`, `getKey` with its
JWK cache, `verifyTokenWithoutKID`, `verifyTokenWithKey`, `oauth2.Expectation`, `oauth2.Claims`, the scope matchers
and `SubjectInfo.CreateSubject`; tied to the Go code by the correspondence check of the `jwt` family, which runs the
very functions `Jwt.authenticate` / `Jwt.step` these theorems are about, and by the algorithm lists of
`Gen/JwtAlgs.lean`, regenerated from the linked code on every run).

The specification (`Spec/Jwt.lean`) is written over the **raw payload** — the members of the JSON object — with its
own readers (`Spec.issuer`, `Spec.audiences`, `Spec.granted`, `Spec.date`, `Spec.wellTyped`), its own rule for the
assertion in force (`Spec.inForce`) and its own scope relations; nothing of the model's decoder occurs in a statement.

All statements hold for every configuration (either endpoint kind, templated or not, any assertions, with or without
rule-level override, cache on or off), every answer of the endpoints, every key set (any length, with / without / with
duplicate `kid`s, with certificates), every token (any header, any JSON payload of any depth and with numbers of any
magnitude, any signature oracle), every instant and every history of earlier requests.

Signature verification itself is the oracle `Token.sigOk` (go-jose / Go crypto): that a modified octet of a signed
token makes `sigOk` false for every key is the contract of the signature schemes, not a theorem here — the property
is *partial* in exactly this respect; the correspondence check evaluates the oracle with an independent verifier.
Known finding `C05-attrs-float64`: numbers in subject attributes are delivered as IEEE doubles; the full statement
"attributes = payload object" is proved for payloads whose integral numbers fit (`c05_attrs_exact_partial`) and
refuted at a witness (`c05_attrs_rounded_witness`).
-/
namespace Heimdall.Props.C05
open Heimdall.Jwt

/-! ## Obligations on the regenerated algorithm lists -/

/-- ASCII lower-casing (kernel-reducible) -/
def lowerAscii (s : String) : String := String.ofList (s.toList.map Char.toLower)

/-- `jwt.ParseSigned` never admits a token without an algorithm … -/
theorem c05_gen_no_empty_alg : Gen.supported.contains "" = false := by decide

/-- … nor an unsigned one, however `none` is capitalised -/
theorem c05_gen_no_unsigned_alg : (Gen.supported.all fun a => lowerAscii a != "none" && a != "") = true := by decide

/-! ## Witnesses -/

/-- the payload of the witness token -/
def claims₀ : List (String × Val) :=
  [("iss", .str "https://idp.example.com"), ("sub", .str "alice"), ("aud", .arr [.str "api"]),
   ("scp", .arr [.str "users.*"]), ("exp", .num 1700000300 0), ("nbf", .num 1700000005 0),
   ("user", .obj [("id", .num 4711 0), ("name", .str "Alice")])]

/-- a token naming key `k1`, signed with key material 2 -/
def tok₀ : Token :=
  { alg := "ES256", kid := "k1", payload := some (.obj claims₀), sigOk := fun m => m == 2 }

/-- the same token without `kid` -/
def tok₁ : Token := { tok₀ with kid := "" }

/-- key set: the signing key, another key, and a key with a bad certificate -/
def keys₀ : List Key :=
  [{ kid := "k9", alg := "RS256", mat := 0 }, { kid := "k1", alg := "ES256", mat := 2 },
   { kid := "k7", alg := "ES256", mat := 3, cert := .untrusted }]

def world₀ : World := { jwks := fun _ => some keys₀ }

/-- mechanism level: issuer, audience, wildcard scopes, two allowed algorithms, 5 s leeway; the audience is
overridden at rule level -/
def cfg₀ : Config :=
  { assertions := { issuers := ["https://idp.example.com"], audiences := ["nobody"],
                    scopes := some ⟨.wildcard, ["users.read"]⟩, algs := ["ES256", "PS256"], leeway := 5000 },
    subject := { idPath := [{ key := "user" }, { key := "id" }], attrsPath := some [{ key := "user" }] } }

def rule₀ : Option Expectation := some { audiences := ["api", "web"] }

/-- 2023-11-14T22:13:20Z, in milliseconds -/
def now₀ : Int := 1700000000000

/-- the witness token with other claims -/
def tokWith (kvs : List (String × Val)) : Token := { tok₀ with payload := some (.obj kvs) }

/-! ## Exactness -/

/-- **Accepted exactly when entitled.**  The authenticator (cold cache) yields the subject `(id, attrs)` if and only
if the configuration is usable, the request carries a parsable, canonically serialised token with a supported
algorithm whose payload is a JSON object, the endpoints answered, and some key `k` of the key set fetched for this
token entitles it under the assertions in force (`Entitled`, all clauses on the raw payload: the key is the one the
`kid` designates — uniquely — if there is a `kid`, its certificate is valid, its declared algorithm equals the
token's `alg` and is allowed, the signature verifies with it, the registered claims are well-typed, the token names a
trusted issuer, an expected audience is present if audiences are configured, the required scopes are covered, and the
instant lies in `[nbf − leeway, exp + leeway)` and not before `iat − leeway`); `id` is the value at the id path of
that payload and `attrs` the object at the attributes path, numbers as doubles. -/
theorem c05_accept_iff (cfg : Config) (rule : Option Expectation) (w : World) (p : Presented) (nowMs : Int)
    (id : String) (attrs : Val) :
    authenticate cfg rule w p nowMs = .accepted id attrs ↔
      ∃ attrs₀, Accepts cfg rule w p nowMs id attrs₀ ∧ attrs = attrs₀.round :=
  authenticate_accepted_iff c05_gen_no_empty_alg cfg rule w p nowMs id attrs

example : authenticate cfg₀ rule₀ world₀ (.token tok₀) now₀ =
    .accepted "4711" (.obj [("id", .num 4711 0), ("name", .str "Alice")]) := by rfl

example : authenticate cfg₀ rule₀ world₀ (.token tok₁) now₀ =
    .accepted "4711" (.obj [("id", .num 4711 0), ("name", .str "Alice")]) := by rfl

/-- **Soundness, in the words of the property.**  A subject is created only if there is a key in the key set
obtained from the endpoint with which the signature verifies, whose declared algorithm is the token's `alg` and is
in the allowed list, the issuer named by the payload is trusted, an expected audience is present when audiences are
configured, the required scopes are matched and the token is inside its validity period within the leeway — every
clause read off the raw payload `kvs`. -/
theorem c05_sound {cfg : Config} {rule : Option Expectation} {w : World} {p : Presented} {nowMs : Int}
    {id : String} {attrs : Val} (h : authenticate cfg rule w p nowMs = .accepted id attrs) :
    ∃ tok kvs md ks k a,
      p = .token tok ∧ tok.payload = some (.obj kvs) ∧ Spec.metadata cfg w = some md ∧
      a = Spec.inForce cfg rule md.issuer ∧ w.jwks (Spec.endpoint cfg kvs) = some ks ∧
      k ∈ ks ∧ tok.sigOk k.mat = true ∧ k.alg = tok.alg ∧ k.alg ∈ a.algs ∧
      (∃ i, Spec.issuer kvs = some i ∧ i ∈ a.issuers) ∧
      (a.audiences = [] ∨ ∃ x ∈ a.audiences, x ∈ Spec.audiences kvs) ∧
      Satisfied a.scopes (Spec.granted kvs) ∧
      (∀ t, Spec.date "nbf" kvs = some t → t - a.leewaySec ≤ nowMs / 1000) ∧
      (∀ t, Spec.date "exp" kvs = some t → nowMs / 1000 < t + a.leewaySec) := by
  obtain ⟨_, ⟨tok, kvs, md, ks, k, _, hp, _, _, hpl, hmd, hjw, e, _⟩, _⟩ := (c05_accept_iff ..).mp h
  refine ⟨tok, kvs, md, ks, k, _, hp, hpl, hmd, rfl, hjw, e.fromKeySet, e.signed.2.2, e.algAgrees,
    e.algAllowed, e.issuerTrusted, e.audienceOk, e.scopesOk, ?_, ?_⟩
  · intro t ht; have := e.notBefore t ht; omega
  · intro t ht; have := e.notExpired t ht; omega

/-! ## Every other token is rejected -/

/-- **Unsigned tokens.**  A token whose header says `none` — in any capitalisation — or names no algorithm is
rejected whatever the key set, the configuration and the claims are. -/
theorem c05_unsigned_rejected (cfg : Config) (rule : Option Expectation) (w : World) (tok : Token) (nowMs : Int)
    (h : lowerAscii tok.alg = "none" ∨ tok.alg = "") :
    ∀ id attrs, authenticate cfg rule w (.token tok) nowMs ≠ .accepted id attrs := by
  intro id attrs hacc
  obtain ⟨_, ⟨tok', _, _, _, _, _, hp, hsup, _⟩, _⟩ := (c05_accept_iff ..).mp hacc
  cases hp
  have := List.all_eq_true.mp c05_gen_no_unsigned_alg tok.alg hsup
  simp only [Bool.and_eq_true, bne_iff_ne, ne_eq] at this
  rcases h with h | h
  · exact this.1 h
  · exact this.2 h

example : ∀ id attrs, authenticate cfg₀ rule₀ world₀ (.token { tok₀ with alg := "nOnE", sigOk := fun _ => true })
    now₀ ≠ .accepted id attrs := c05_unsigned_rejected _ _ _ _ _ (Or.inl (by decide))

/-- **Foreign or broken signatures.**  If the signature verifies with none of the keys of the key set fetched for
the token — it was signed with another key, or header, payload or signature were modified — no subject is created. -/
theorem c05_foreign_signature_rejected (cfg : Config) (rule : Option Expectation) (w : World) (tok : Token)
    (nowMs : Int) (h : ∀ u ks, w.jwks u = some ks → ∀ k ∈ ks, tok.sigOk k.mat = false) :
    ∀ id attrs, authenticate cfg rule w (.token tok) nowMs ≠ .accepted id attrs := by
  intro id attrs hacc
  obtain ⟨_, ⟨tok', _, _, ks, k, _, hp, _, _, _, _, hjw, e, _⟩, _⟩ := (c05_accept_iff ..).mp hacc
  cases hp
  have := h _ ks hjw k e.fromKeySet
  rw [e.signed.2.2] at this; cases this

example : ∀ id attrs, authenticate cfg₀ rule₀ world₀ (.token { tok₀ with sigOk := fun m => m == 5 }) now₀ ≠
    .accepted id attrs :=
  c05_foreign_signature_rejected _ _ _ _ _ (by
    intro u ks h k hk
    have : ks = keys₀ := by simpa [world₀] using h.symm
    subst this
    simp only [keys₀, List.mem_cons, List.not_mem_nil, or_false] at hk
    rcases hk with rfl | rfl | rfl <;> rfl)

/-- **Algorithm confusion.**  A token is only ever verified under the algorithm the key itself declares: if no key
of the set declares the token's `alg` — e.g. an `HS256` token keyed by the public material of an `RS256` / `ES256`
key, an `RS256` token for a key declared `PS256`, or a key that declares no algorithm at all — it is rejected, even
if `sigOk` holds and whatever the allowed algorithms are. -/
theorem c05_alg_confusion_rejected (cfg : Config) (rule : Option Expectation) (w : World) (tok : Token)
    (nowMs : Int) (h : ∀ u ks, w.jwks u = some ks → ∀ k ∈ ks, k.alg ≠ tok.alg) :
    ∀ id attrs, authenticate cfg rule w (.token tok) nowMs ≠ .accepted id attrs := by
  intro id attrs hacc
  obtain ⟨_, ⟨tok', _, _, ks, k, _, hp, _, _, _, _, hjw, e, _⟩, _⟩ := (c05_accept_iff ..).mp hacc
  cases hp
  exact h _ ks hjw k e.fromKeySet e.algAgrees

example : ∀ id attrs,
    authenticate { cfg₀ with assertions := { cfg₀.assertions with algs := ["HS256", "ES256", "RS256"] } } rule₀ world₀
      (.token { tok₀ with alg := "HS256", kid := "", sigOk := fun _ => true }) now₀ ≠ .accepted id attrs :=
  c05_alg_confusion_rejected _ _ _ _ _ (by
    intro u ks h k hk
    have : ks = keys₀ := by simpa [world₀] using h.symm
    subst this
    simp only [keys₀, List.mem_cons, List.not_mem_nil, or_false] at hk
    rcases hk with rfl | rfl | rfl <;> decide)

/-- **Other spellings of a token.**  A serialisation that is not the canonical base64url spelling of its octets
(line breaks, stray trailing bits) is rejected, even if the octets are those of a valid token. -/
theorem c05_noncanonical_rejected (cfg : Config) (rule : Option Expectation) (w : World) (tok : Token) (nowMs : Int)
    (h : tok.canonical = false) : ∀ id attrs, authenticate cfg rule w (.token tok) nowMs ≠ .accepted id attrs := by
  intro id attrs hacc
  obtain ⟨_, ⟨tok', _, _, _, _, _, hp, _, hcan, _⟩, _⟩ := (c05_accept_iff ..).mp hacc
  cases hp
  rw [h] at hcan; cases hcan

example : authenticate cfg₀ rule₀ world₀ (.token { tok₀ with canonical := false }) now₀ = .rejected .malformed := by
  rfl

/-- **Assertions, on the raw payload.**  A token whose payload `kvs` violates one of the assertions in force is
rejected: it names no issuer (absent, `null`, empty, not a string) or an untrusted one; audiences are configured
and none of them is present; a required scope is not covered; a registered claim is ill-typed. -/
theorem c05_unasserted_rejected (cfg : Config) (rule : Option Expectation) (w : World) (tok : Token) (nowMs : Int)
    (kvs : List (String × Val)) (md : Metadata)
    (hpl : tok.payload = some (.obj kvs)) (hmd : Spec.metadata cfg w = some md)
    (h : Spec.wellTyped kvs = false ∨
         (∀ i, Spec.issuer kvs = some i → i ∉ (Spec.inForce cfg rule md.issuer).issuers) ∨
         ((Spec.inForce cfg rule md.issuer).audiences ≠ [] ∧
            ∀ x ∈ (Spec.inForce cfg rule md.issuer).audiences, x ∉ Spec.audiences kvs) ∨
         ¬ Satisfied (Spec.inForce cfg rule md.issuer).scopes (Spec.granted kvs)) :
    ∀ id attrs, authenticate cfg rule w (.token tok) nowMs ≠ .accepted id attrs := by
  intro id attrs hacc
  obtain ⟨_, ⟨tok', kvs', md', ks, k, _, hp, _, _, hpl', hmd', _, e, _⟩, _⟩ := (c05_accept_iff ..).mp hacc
  cases hp
  rw [hpl] at hpl'; cases hpl'
  rw [hmd] at hmd'; cases hmd'
  rcases h with h | h | ⟨hne, h⟩ | h
  · rw [e.wellTyped] at h; cases h
  · obtain ⟨i, hi, hin⟩ := e.issuerTrusted
    exact h i hi hin
  · rcases e.audienceOk with h0 | ⟨x, hx, hx'⟩
    · exact hne h0
    · exact h x hx hx'
  · exact h e.scopesOk

/-- **Validity period, on the raw payload.**  Whatever number the claim carries — zero, negative, fractional,
beyond `2^63`, `1e308`: a token whose `exp` member denotes an instant at or before `now − leeway` is rejected; so is
one whose `nbf` lies after `now + leeway`, and one issued (`iat`) after `now + leeway`. -/
theorem c05_outside_validity_rejected (cfg : Config) (rule : Option Expectation) (w : World) (tok : Token)
    (nowMs : Int) (kvs : List (String × Val)) (md : Metadata) (m : Int) (e : Nat)
    (hpl : tok.payload = some (.obj kvs)) (hmd : Spec.metadata cfg w = some md)
    (h : (lookup "exp" kvs = some (.num m e) ∧
            truncNum m e ≤ nowMs / 1000 - (Spec.inForce cfg rule md.issuer).leewaySec) ∨
         (lookup "nbf" kvs = some (.num m e) ∧
            nowMs / 1000 + (Spec.inForce cfg rule md.issuer).leewaySec < truncNum m e) ∨
         (lookup "iat" kvs = some (.num m e) ∧
            nowMs + (Spec.inForce cfg rule md.issuer).leewayMs < truncNum m e * 1000)) :
    ∀ id attrs, authenticate cfg rule w (.token tok) nowMs ≠ .accepted id attrs := by
  intro id attrs hacc
  obtain ⟨_, ⟨tok', kvs', md', ks, k, _, hp, _, _, hpl', hmd', _, en, _⟩, _⟩ := (c05_accept_iff ..).mp hacc
  cases hp
  rw [hpl] at hpl'; cases hpl'
  rw [hmd] at hmd'; cases hmd'
  have hd : ∀ key, lookup key kvs = some (.num m e) → Spec.date key kvs = some (truncNum m e) := by
    intro key hk
    simp only [Spec.date, member_eq_lookup, hk]
    rfl
  rcases h with ⟨hk, h⟩ | ⟨hk, h⟩ | ⟨hk, h⟩
  · have := en.notExpired _ (hd _ hk); omega
  · have := en.notBefore _ (hd _ hk); omega
  · have := en.issued _ (hd _ hk); omega

/-- **Dates no clock can reach.**  A numeric `exp`, `nbf` or `iat` outside the years 1–9999 (at or before the zero
time, `≥ 2^63`, `1e30`, …) makes the token ill-typed: rejected, not reinterpreted. -/
theorem c05_date_out_of_range_rejected (cfg : Config) (rule : Option Expectation) (w : World) (tok : Token)
    (nowMs : Int) (kvs : List (String × Val)) (key : String) (m : Int) (e : Nat)
    (hpl : tok.payload = some (.obj kvs)) (hkey : key = "exp" ∨ key = "nbf" ∨ key = "iat")
    (hk : lookup key kvs = some (.num m e)) (h : truncNum m e ≤ -62135596800 ∨ 253402300799 < truncNum m e) :
    ∀ id attrs, authenticate cfg rule w (.token tok) nowMs ≠ .accepted id attrs := by
  intro id attrs hacc
  obtain ⟨_, ⟨tok', kvs', _, _, _, _, hp, _, _, hpl', _, _, en, _⟩, _⟩ := (c05_accept_iff ..).mp hacc
  cases hp
  rw [hpl] at hpl'; cases hpl'
  have hw := en.wellTyped
  have hbad : Spec.dateOk (Spec.member key kvs) = false := by
    rw [member_eq_lookup, hk]
    show (decide (-62135596800 < Spec.seconds m e) && decide (Spec.seconds m e ≤ 253402300799)) = false
    have hs : Spec.seconds m e = truncNum m e := rfl
    rw [hs]
    generalize truncNum m e = t at h
    rw [Bool.eq_false_iff]
    simp only [ne_eq, Bool.and_eq_true, decide_eq_true_eq]
    omega
  simp only [Spec.wellTyped, Bool.and_eq_true] at hw
  rcases hkey with rfl | rfl | rfl
  · rw [hw.1.1.2] at hbad; cases hbad
  · rw [hw.1.2] at hbad; cases hbad
  · rw [hw.2] at hbad; cases hbad

/-- one second around `exp + leeway`, before `nbf − leeway`, the mechanism-level audience, `exp = 0`, `exp` at the
zero time of Go, `nbf = 2^63`, `iat = 1e30`, no issuer -/
example : authenticate cfg₀ rule₀ world₀ (.token tok₀) (now₀ + 305000) = .rejected .expired ∧
    authenticate cfg₀ rule₀ world₀ (.token tok₀) (now₀ + 304999) =
      .accepted "4711" (.obj [("id", .num 4711 0), ("name", .str "Alice")]) ∧
    authenticate cfg₀ rule₀ world₀ (.token tok₀) (now₀ - 1) = .rejected .notYetValid ∧
    authenticate cfg₀ none world₀ (.token tok₀) now₀ = .rejected .audience ∧
    authenticate cfg₀ rule₀ world₀ (.token (tokWith (claims₀ ++ [("x", .null)]))) now₀ =
      .accepted "4711" (.obj [("id", .num 4711 0), ("name", .str "Alice")]) ∧
    authenticate cfg₀ rule₀ world₀ (.token (tokWith (("exp", .num 0 0) :: claims₀))) now₀ = .rejected .expired ∧
    authenticate cfg₀ rule₀ world₀ (.token (tokWith (("exp", .num (-62135596800) 0) :: claims₀))) now₀
      = .rejected .claims ∧
    authenticate cfg₀ rule₀ world₀ (.token (tokWith (("nbf", .num 9223372036854775808 0) :: claims₀))) now₀
      = .rejected .claims ∧
    authenticate cfg₀ rule₀ world₀ (.token (tokWith (("iat", .num (10 ^ 30) 0) :: claims₀))) now₀
      = .rejected .claims ∧
    authenticate cfg₀ rule₀ world₀ (.token (tokWith (claims₀.drop 1))) now₀ = .rejected .issuer := by
  refine ⟨by rfl, by rfl, by rfl, by rfl, by rfl, by rfl, by rfl, by rfl, by rfl, by rfl⟩

/-- **Once expired, never accepted again.**  If at some instant the token's `exp` lies at or before `now − leeway`,
the same request is rejected at every later instant (same configuration, endpoints and token). -/
theorem c05_expired_forever (cfg : Config) (rule : Option Expectation) (w : World) (tok : Token) (nowMs nowMs' : Int)
    (kvs : List (String × Val)) (md : Metadata) (m : Int) (e : Nat)
    (hpl : tok.payload = some (.obj kvs)) (hmd : Spec.metadata cfg w = some md)
    (hexp : lookup "exp" kvs = some (.num m e))
    (h : truncNum m e ≤ nowMs / 1000 - (Spec.inForce cfg rule md.issuer).leewaySec) (hlater : nowMs ≤ nowMs') :
    ∀ id attrs, authenticate cfg rule w (.token tok) nowMs' ≠ .accepted id attrs :=
  c05_outside_validity_rejected cfg rule w tok nowMs' kvs md m e hpl hmd (Or.inl ⟨hexp, by omega⟩)

example : lookup "exp" claims₀ = some (.num 1700000300 0) ∧
    truncNum 1700000300 0 ≤ (now₀ + 305000) / 1000 - (Spec.inForce cfg₀ rule₀ "").leewaySec :=
  ⟨by rfl, by decide⟩

/-! ## Only the registered claims decide -/

/-- the witness claims without the `aud` member -/
def claimsNoAud : List (String × Val) := claims₀.filter fun kv => kv.1 ≠ "aud"

/-- **The verdict reads the payload under the registered names only** (`iss`, `sub`, `aud`, `scp`, `scope`, `exp`,
`nbf`, `iat`, `jti`).  Take two payloads `kvs`, `kvs'` of any shape that say the same under these names and differ
arbitrarily elsewhere — one names the expected audience in `azp`, `client_id`, `audience`, `Aud` or `ext.aud`, the
trusted issuer in `issuer`, the required scopes in `scopes` / `permissions`, a later instant in `expires_at`, the
other does not — and put them into the same token (same header, same signature oracle), same configuration at both
levels, same endpoints, same instant:
1. every refusal that is not about the subject (`issuer`, `audience`, `expired`, `notYetValid`, `issuedInFuture`,
   `scopes`, `claims`, `signature`, …) is pronounced for both or for neither;
2. if the one is accepted, the other gets exactly what `CreateSubject` makes of its own payload (a subject, or a
   refusal for want of an id / attributes object);
3. if the two payloads yield the same subject, the two requests end alike. -/
theorem c05_only_registered_claims_decide (cfg : Config) (rule : Option Expectation) (w : World) (t : Token)
    (nowMs : Int) (kvs kvs' : List (String × Val)) (h : ∀ n ∈ Spec.registered, lookup n kvs = lookup n kvs') :
    (∀ why, why ≠ .subjectId → why ≠ .attributes →
      (authenticate cfg rule w (.token (t.withPayload kvs)) nowMs = .rejected why ↔
        authenticate cfg rule w (.token (t.withPayload kvs')) nowMs = .rejected why)) ∧
    ((∃ id attrs, authenticate cfg rule w (.token (t.withPayload kvs)) nowMs = .accepted id attrs) →
      authenticate cfg rule w (.token (t.withPayload kvs')) nowMs = subject cfg.subject (.obj kvs')) ∧
    (subject cfg.subject (.obj kvs) = subject cfg.subject (.obj kvs') →
      authenticate cfg rule w (.token (t.withPayload kvs)) nowMs =
        authenticate cfg rule w (.token (t.withPayload kvs')) nowMs) := by
  have hg : gate cfg rule w t kvs nowMs = gate cfg rule w t kvs' nowMs := gate_congr cfg rule w t nowMs h
  rw [authenticate_withPayload, authenticate_withPayload, hg]
  cases hc : gate cfg rule w t kvs' nowMs with
  | error o =>
    refine ⟨fun _ _ _ => Iff.rfl, ?_, fun _ => rfl⟩
    rintro ⟨id, attrs, ha⟩
    simp only [] at ha
    rcases gate_error _ _ _ _ _ _ _ hc with ho | ⟨why, ho⟩ <;> rw [ho] at ha <;> cases ha
  | ok u =>
    cases u
    refine ⟨?_, fun _ => rfl, fun hs => hs⟩
    intro why h1 h2
    constructor <;> intro hs <;> rcases subject_rejected_why _ _ _ hs with e | e <;> contradiction

/-- the hypothesis at a witness: `azp` put in front of the witness claims without `aud` -/
example : ∀ n ∈ Spec.registered, lookup n (("azp", .str "api") :: claimsNoAud) = lookup n claimsNoAud :=
  agree_cons _ _ (by decide)

/-- **A member under an unregistered name is no assertion.**  For every name outside `Spec.registered` and every
value: putting such a member in front of a payload, or removing all members of that name, neither creates nor destroys
an entitlement (specification), and every refusal of the authenticator that is not about the subject stays what it
was. -/
theorem c05_unregistered_member_is_no_assertion (cfg : Config) (rule : Option Expectation) (w : World) (t : Token)
    (nowMs : Int) (kvs : List (String × Val)) (n : String) (v : Val) (hn : n ∉ Spec.registered) :
    (∀ a vj ks k, Entitled a vj ks t ((n, v) :: kvs) nowMs k ↔ Entitled a vj ks t kvs nowMs k) ∧
    (∀ a vj ks k, Entitled a vj ks t (kvs.filter fun kv => kv.1 ≠ n) nowMs k ↔ Entitled a vj ks t kvs nowMs k) ∧
    (∀ why, why ≠ .subjectId → why ≠ .attributes →
      (authenticate cfg rule w (.token (t.withPayload ((n, v) :: kvs))) nowMs = .rejected why ↔
        authenticate cfg rule w (.token (t.withPayload kvs)) nowMs = .rejected why)) :=
  ⟨fun a vj ks k => ⟨entitled_congr a vj ks t nowMs k (agree_cons v kvs hn),
      entitled_congr a vj ks t nowMs k (agree_cons v kvs hn).symm⟩,
   fun a vj ks k => ⟨entitled_congr a vj ks t nowMs k (agree_filter kvs hn),
      entitled_congr a vj ks t nowMs k (agree_filter kvs hn).symm⟩,
   (c05_only_registered_claims_decide cfg rule w t nowMs _ _ (agree_cons v kvs hn)).1⟩

example : "azp" ∉ Spec.registered ∧ "client_id" ∉ Spec.registered ∧ "audience" ∉ Spec.registered ∧
    "Aud" ∉ Spec.registered ∧ "aud " ∉ Spec.registered ∧ "scopes" ∉ Spec.registered ∧
    "expires_at" ∉ Spec.registered ∧ "issuer" ∉ Spec.registered := by decide

/-- **The audience is read from `aud`, from nowhere else.**  With audiences in force (at rule level, else at
mechanism level), a token whose payload has no `aud` member, or whose `aud` member — whatever its type — denotes none
of the expected audiences (`[]`, `""`, `null`, other parties), is rejected; no other member (`azp`, the party the
token was issued *to*, `client_id`, `cid`, `appid`, `audience`, `resource`, `Aud`, a nested `aud`) can stand in for it:
the statement does not restrict the rest of the payload. -/
theorem c05_audience_only_from_aud (cfg : Config) (rule : Option Expectation) (w : World) (tok : Token)
    (nowMs : Int) (kvs : List (String × Val)) (md : Metadata)
    (hpl : tok.payload = some (.obj kvs)) (hmd : Spec.metadata cfg w = some md)
    (hcfg : (Spec.inForce cfg rule md.issuer).audiences ≠ [])
    (haud : ∀ v, lookup "aud" kvs = some v →
      ∀ x ∈ (Spec.inForce cfg rule md.issuer).audiences, x ∉ Spec.strings (some v)) :
    ∀ id attrs, authenticate cfg rule w (.token tok) nowMs ≠ .accepted id attrs := by
  refine c05_unasserted_rejected cfg rule w tok nowMs kvs md hpl hmd (Or.inr (Or.inr (Or.inl ⟨hcfg, ?_⟩)))
  intro x hx
  simp only [Spec.audiences, member_eq_lookup]
  cases hl : lookup "aud" kvs with
  | none => simp [Spec.strings]
  | some v => exact haud v hl x hx

/-- the hypotheses at a witness: audiences `api`, `web` in force (rule level), no `aud` member, `azp` = `api` -/
example : (tokWith (("azp", .str "api") :: claimsNoAud)).payload = some (.obj (("azp", .str "api") :: claimsNoAud)) ∧
    Spec.metadata cfg₀ world₀ = some { issuer := "", hasJwks := true } ∧
    (Spec.inForce cfg₀ rule₀ "").audiences ≠ [] ∧
    ∀ v, lookup "aud" (("azp", .str "api") :: claimsNoAud) = some v →
      ∀ x ∈ (Spec.inForce cfg₀ rule₀ "").audiences, x ∉ Spec.strings (some v) :=
  ⟨rfl, rfl, by decide, fun v hv => by
    have : lookup "aud" (("azp", .str "api") :: claimsNoAud) = none := by rfl
    rw [this] at hv; cases hv⟩

/-- no `aud` but `azp` / `client_id` / `audience` / `Aud` / `aud␠` / a nested `aud` naming the expected audience;
`aud: []`, `aud: ""`, `aud` naming another party next to such a member: refused for the audience.  The same members
next to a satisfying `aud` (the authorised party is somebody else): accepted as before. -/
example :
    authenticate cfg₀ rule₀ world₀ (.token (tokWith (("azp", .str "api") :: claimsNoAud))) now₀ = .rejected .audience ∧
    authenticate cfg₀ rule₀ world₀ (.token (tokWith (("client_id", .str "api") :: claimsNoAud))) now₀
      = .rejected .audience ∧
    authenticate cfg₀ rule₀ world₀ (.token (tokWith (("audience", .arr [.str "api"]) :: claimsNoAud))) now₀
      = .rejected .audience ∧
    authenticate cfg₀ rule₀ world₀ (.token (tokWith (("Aud", .arr [.str "api"]) :: claimsNoAud))) now₀
      = .rejected .audience ∧
    authenticate cfg₀ rule₀ world₀ (.token (tokWith (("aud ", .str "api") :: claimsNoAud))) now₀
      = .rejected .audience ∧
    authenticate cfg₀ rule₀ world₀ (.token (tokWith (("ext", .obj [("aud", .str "api")]) :: claimsNoAud))) now₀
      = .rejected .audience ∧
    authenticate cfg₀ rule₀ world₀ (.token (tokWith (("aud", .arr []) :: ("azp", .str "api") :: claimsNoAud))) now₀
      = .rejected .audience ∧
    authenticate cfg₀ rule₀ world₀ (.token (tokWith (("aud", .str "") :: ("azp", .str "api") :: claimsNoAud))) now₀
      = .rejected .audience ∧
    authenticate cfg₀ rule₀ world₀
      (.token (tokWith (("aud", .arr [.str "someone-else"]) :: ("azp", .str "api") :: claimsNoAud))) now₀
      = .rejected .audience ∧
    authenticate cfg₀ rule₀ world₀ (.token (tokWith (("azp", .str "someone-else") :: claims₀))) now₀ =
      .accepted "4711" (.obj [("id", .num 4711 0), ("name", .str "Alice")]) ∧
    authenticate cfg₀ rule₀ world₀ (.token (tokWith (("azp", .str "api") :: claimsNoAud ++ [("aud", .str "web")]))) now₀ =
      .accepted "4711" (.obj [("id", .num 4711 0), ("name", .str "Alice")]) := by
  refine ⟨by rfl, by rfl, by rfl, by rfl, by rfl, by rfl, by rfl, by rfl, by rfl, by rfl, by rfl⟩

/-- the other clauses likewise: the trusted issuer under `issuer`, the required scope under `scopes`, a later
instant under `expires_at` do not help a token whose `iss` / `scp` / `exp` do not satisfy the assertions -/
example :
    authenticate cfg₀ rule₀ world₀
      (.token (tokWith (("issuer", .str "https://idp.example.com") :: claims₀.drop 1))) now₀ = .rejected .issuer ∧
    authenticate cfg₀ rule₀ world₀
      (.token (tokWith (("scopes", .arr [.str "users.*"]) :: claims₀.filter fun kv => kv.1 ≠ "scp"))) now₀
      = .rejected .scopes ∧
    authenticate cfg₀ rule₀ world₀
      (.token (tokWith (("exp", .num 1699999000 0) :: ("expires_at", .num 1700000300 0) :: claims₀))) now₀
      = .rejected .expired := by
  refine ⟨by rfl, by rfl, by rfl⟩

/-! ## Key selection -/

/-- **A `kid` designates exactly one key.**  A token that names a key is accepted only if exactly one key of the
set carries that name, and then that key alone decides: duplicates, a missing key or a named key that does not
verify lead to rejection even if another key of the set would verify the token. -/
theorem c05_kid_designates {cfg : Config} {rule : Option Expectation} {w : World} {tok : Token} {nowMs : Int}
    {id : String} {attrs : Val} (hkid : tok.kid ≠ "")
    (h : authenticate cfg rule w (.token tok) nowMs = .accepted id attrs) :
    ∃ u ks k, w.jwks u = some ks ∧ ks.filter (fun k' => k'.kid = tok.kid) = [k] ∧
      tok.sigOk k.mat = true ∧ k.alg = tok.alg := by
  obtain ⟨_, ⟨tok', _, _, ks, k, _, hp, _, _, _, _, hjw, e, _⟩, _⟩ := (c05_accept_iff ..).mp h
  cases hp
  exact ⟨_, ks, k, hjw, e.designated hkid, e.signed.2.2, e.algAgrees⟩

/-- two keys named `k1`: rejected although the first of them verifies the token -/
example : authenticate cfg₀ rule₀ { jwks := fun _ => some (keys₀ ++ [{ kid := "k1", alg := "ES256", mat := 3 }]) }
    (.token tok₀) now₀ = .rejected .ambiguousKey := by rfl

/-- **Acceptance is owed to a single key.**  Whenever a token is accepted against a key set, one key of that set
alone — served as the whole key set — leads to the same subject: no combination of keys can make a token
acceptable that no single key of the endpoint justifies. -/
theorem c05_single_key_suffices {cfg : Config} {rule : Option Expectation} {w : World} {p : Presented}
    {nowMs : Int} {id : String} {attrs : Val} (h : authenticate cfg rule w p nowMs = .accepted id attrs) :
    ∃ u ks k, w.jwks u = some ks ∧ k ∈ ks ∧
      authenticate cfg rule { w with jwks := fun _ => some [k] } p nowMs = .accepted id attrs := by
  obtain ⟨a₀, ⟨tok, kvs, md, ks, k, hcfg, hp, hsup, hcan, hpl, hmd, hjw, e, hs⟩, ha⟩ := (c05_accept_iff ..).mp h
  refine ⟨_, ks, k, hjw, e.fromKeySet, (c05_accept_iff ..).mpr
    ⟨a₀, ⟨tok, kvs, md, [k], k, hcfg, hp, hsup, hcan, hpl, ?_, rfl, ?_, hs⟩, ha⟩⟩
  · simpa [Spec.metadata] using hmd
  · refine { e with fromKeySet := List.mem_singleton.mpr rfl, designated := ?_ }
    intro hk
    have hmem : k ∈ ks.filter (fun k' => k'.kid = tok.kid) := by rw [e.designated hk]; exact List.mem_singleton.mpr rfl
    have hkk : k.kid = tok.kid := by simpa using (List.mem_filter.mp hmem).2
    simp [List.filter, hkk]

/-! ## Assertion merge -/

/-- **`Merge` is "first one set wins", field by field**, and therefore associative: rule level over mechanism
level over server metadata is well defined. -/
theorem c05_merge_assoc (a b c : Expectation) : (a.merge b).merge c = a.merge (b.merge c) := by
  cases a; cases b; cases c
  simp only [Expectation.merge, Expectation.mk.injEq]
  refine ⟨?_, ?_, ?_, ?_, ?_⟩ <;> split <;> simp_all

/-- **Configured expectations take precedence over metadata, rule level over mechanism level.**  The chain of
`Merge` calls computes, per assertion, the value of the first level that sets one (`Spec.inForce`): rule level, else
mechanism level, else the issuer named by the server metadata / no audience check / no scope requirement / the
default algorithms / 10 s. -/
theorem c05_effective_is_first_set (cfg : Config) (rule : Option Expectation) (metaIssuer : String) :
    effective cfg rule metaIssuer = Spec.inForce cfg rule metaIssuer :=
  effective_eq_inForce cfg rule metaIssuer

/-- trusted issuers configured at the mechanism are never widened by what the metadata document says -/
theorem c05_configured_issuers_win (cfg : Config) (metaIssuer : String) (h : cfg.assertions.issuers ≠ []) :
    (Spec.inForce cfg none metaIssuer).issuers = cfg.assertions.issuers := by
  rw [← effective_eq_inForce]
  simp [effective, Expectation.merge, h]

example : (Spec.inForce cfg₀ rule₀ "https://evil.example").issuers = ["https://idp.example.com"] ∧
    (Spec.inForce cfg₀ rule₀ "").audiences = ["api", "web"] ∧ (Spec.inForce cfg₀ none "").audiences = ["nobody"] ∧
    (Spec.inForce cfg₀ rule₀ "").algs = ["ES256", "PS256"] ∧ (Spec.inForce cfg₀ rule₀ "").leewaySec = 5 ∧
    (Spec.inForce { cfg₀ with assertions := {} } none "https://meta.example").issuers = ["https://meta.example"] ∧
    (Spec.inForce { cfg₀ with assertions := {} } none "").algs = Gen.defaultAllowed := by
  decide

/-! ## Subject -/

/-- **The subject consists of verified claims only.**  The id of an accepted request is the textual form of the value
at the id path of the token's payload — the payload whose signature was verified — and the attributes are the object
at the attributes path with its numbers as doubles; they do not depend on the header, the key set, the endpoints, the
assertions or the instant: any two accepted requests with the same payload and subject configuration yield the same
subject. -/
theorem c05_subject_from_claims {cfg cfg' : Config} {rule rule' : Option Expectation} {w w' : World}
    {tok tok' : Token} {nowMs nowMs' : Int} {id id' : String} {attrs attrs' : Val}
    (h : authenticate cfg rule w (.token tok) nowMs = .accepted id attrs)
    (h' : authenticate cfg' rule' w' (.token tok') nowMs' = .accepted id' attrs')
    (hp : tok.payload = tok'.payload) (hs : cfg.subject = cfg'.subject) :
    (∃ pl attrs₀, tok.payload = some pl ∧ SubjectOf cfg.subject pl id attrs₀ ∧ attrs = attrs₀.round) ∧
      id = id' ∧ attrs = attrs' := by
  obtain ⟨a₁, ⟨t, kvs, _, _, _, _, e1, _, _, hpl, _, _, _, hs1⟩, rfl⟩ := (c05_accept_iff ..).mp h
  obtain ⟨a₂, ⟨t', kvs', _, _, _, _, e2, _, _, hpl', _, _, _, hs2⟩, rfl⟩ := (c05_accept_iff ..).mp h'
  cases e1; cases e2
  rw [← hp, hpl] at hpl'; cases hpl'
  rw [← hs] at hs2
  refine ⟨⟨_, a₁, hpl, hs1, rfl⟩, ?_⟩
  obtain ⟨v, hv, hid, _, o, rfl, hsrc⟩ := hs1
  obtain ⟨v', hv', hid', _, o', rfl, hsrc'⟩ := hs2
  rw [hv] at hv'; cases hv'
  rw [hid] at hid'; cases hid'
  rw [hsrc] at hsrc'; cases hsrc'
  exact ⟨rfl, rfl⟩

/-- **Attributes are exactly the claims — partial.**  For payloads all of whose integral numbers fit into a double
(`|n| ≤ 2^53`) the attributes of an accepted request are the object of the payload itself.  (Full statement: for
all payloads; it fails, see the witness below — known finding `C05-attrs-float64`.) -/
theorem c05_attrs_exact_partial {cfg : Config} {rule : Option Expectation} {w : World} {tok : Token} {nowMs : Int}
    {id : String} {attrs : Val} (h : authenticate cfg rule w (.token tok) nowMs = .accepted id attrs)
    (hsafe : ∀ pl, tok.payload = some pl → pl.floatSafe = true) :
    ∃ pl, tok.payload = some pl ∧ SubjectOf cfg.subject pl id attrs := by
  obtain ⟨a₀, ⟨t, kvs, _, _, _, _, e1, _, _, hpl, _, _, _, hs⟩, rfl⟩ := (c05_accept_iff ..).mp h
  cases e1
  refine ⟨_, hpl, ?_⟩
  have hsf := hsafe _ hpl
  obtain ⟨v, hv, hid, hne, o, rfl, hsrc⟩ := hs
  have : (Val.obj o).floatSafe = true := by
    -- the attributes object is part of the payload or the payload itself
    cases hap : cfg.subject.attrsPath with
    | none =>
      simp only [attrsSource, hap, Option.some.injEq] at hsrc
      rw [← hsrc]; exact hsf
    | some path =>
      simp only [attrsSource, hap] at hsrc
      exact get_floatSafe _ _ _ hsf hsrc
  rw [Val.round_of_floatSafe _ this]
  exact ⟨v, hv, hid, hne, o, rfl, hsrc⟩

/-- the negation of the full statement at a witness: a verified claim `9007199254740993` arrives in the attributes
as `9007199254740992` (while the id keeps its digits) -/
theorem c05_attrs_rounded_witness :
    authenticate cfg₀ rule₀ world₀
      (.token (tokWith (claims₀.dropLast ++ [("user", .obj [("id", .num 9007199254740993 0)])]))) now₀ =
      .accepted "9007199254740993" (.obj [("id", .num 9007199254740992 0)]) := by rfl

/-! ## The subject id is the claim, octet for octet -/

/-- subject taken from `sub`, attributes = the whole payload (the defaults of the mechanism) -/
def cfgS : Config := { cfg₀ with subject := {} }

/-- subject taken from a nested claim (`subject.id: ctx.user.id`) -/
def cfgN : Config :=
  { cfg₀ with subject := { idPath := [{ key := "ctx" }, { key := "user" }, { key := "id" }],
                           attrsPath := some [{ key := "ctx" }, { key := "user" }] } }

/-- the witness claims with another `sub` and a user name / nested id of the same spelling -/
def claimsFor (s : String) : List (String × Val) :=
  [("iss", .str "https://idp.example.com"), ("sub", .str s), ("preferred_username", .str s),
   ("aud", .arr [.str "api"]), ("scp", .arr [.str "users.*"]), ("exp", .num 1700000300 0),
   ("ctx", .obj [("user", .obj [("id", .str s), ("name", .str s)])])]

/-- **`CreateSubject` takes the identifier as it stands.**  Whatever non-empty string the verified payload carries
at the configured id path — with leading or trailing blanks, tabs, line breaks, no-break or zero-width spaces, in any
case, any Unicode normalisation form, consisting of blanks only, looking like a number, a boolean or a JSON
document — that very string is the subject id: nothing is trimmed, folded, normalised or refused. -/
theorem c05_create_subject_verbatim (sc : SubjectConf) (pl : Val) (s : String) (kvs : List (String × Val))
    (hid : pl.get sc.idPath = some (.str s)) (hne : s ≠ "") (hattrs : attrsSource sc pl = some (.obj kvs)) :
    subject sc pl = .accepted s (Val.obj kvs).round := by
  simp only [subject, hid, idString, hne, ↓reduceIte, hattrs]

example : (Val.obj (claimsFor "admin ")).get cfgN.subject.idPath = some (.str "admin ") ∧ "admin " ≠ "" ∧
    attrsSource cfgN.subject (.obj (claimsFor "admin ")) =
      some (.obj [("id", .str "admin "), ("name", .str "admin ")]) := ⟨by rfl, by decide, by rfl⟩

/-- **Subject id verbatim.**  For every accepted token whose verified payload carries a string at the configured id
path (`sub` by default, `preferred_username`, `user.id`, … when configured), the subject id *is* that string — equal
as a string, hence with the same UTF-8 octets and the same number of characters.  For all strings: no trimming, no
case folding, no normalisation. -/
theorem c05_subject_id_verbatim {cfg : Config} {rule : Option Expectation} {w : World} {tok : Token} {nowMs : Int}
    {id : String} {attrs : Val} (h : authenticate cfg rule w (.token tok) nowMs = .accepted id attrs)
    {pl : Val} {s : String} (hpl : tok.payload = some pl) (hs : pl.get cfg.subject.idPath = some (.str s)) :
    id = s ∧ id.toUTF8 = s.toUTF8 ∧ id.length = s.length := by
  obtain ⟨_, ⟨t, kvs, _, _, _, _, e1, _, _, hpl', _, _, _, hsub⟩, _⟩ := (c05_accept_iff ..).mp h
  cases e1
  rw [hpl] at hpl'; cases hpl'
  obtain ⟨v, hv, hid, _⟩ := hsub
  rw [hs] at hv; cases hv
  simp only [idString, Option.some.injEq] at hid
  subst hid
  exact ⟨rfl, rfl, rfl⟩

/-- accepted with trailing blank, leading blank, trailing line break, trailing tab (other claim), no-break space,
zero-width space, blanks only, a decomposed `é`, a Cyrillic `а` — each id exactly as claimed; the attributes carry
the same spelling -/
example :
    authenticate cfgS rule₀ world₀ (.token (tokWith (claimsFor "admin "))) now₀ =
      .accepted "admin " (.obj (claimsFor "admin ")) ∧
    authenticate cfgS rule₀ world₀ (.token (tokWith (claimsFor " admin"))) now₀ =
      .accepted " admin" (.obj (claimsFor " admin")) ∧
    authenticate cfgS rule₀ world₀ (.token (tokWith (claimsFor "admin\n"))) now₀ =
      .accepted "admin\n" (.obj (claimsFor "admin\n")) ∧
    authenticate { cfgS with subject := { idPath := [{ key := "preferred_username" }] } } rule₀ world₀
      (.token (tokWith (claimsFor "admin\t"))) now₀ = .accepted "admin\t" (.obj (claimsFor "admin\t")) ∧
    authenticate cfgN rule₀ world₀ (.token (tokWith (claimsFor "admin\u00a0"))) now₀ =
      .accepted "admin\u00a0" (.obj [("id", .str "admin\u00a0"), ("name", .str "admin\u00a0")]) ∧
    authenticate cfgN rule₀ world₀ (.token (tokWith (claimsFor "admin\u200b"))) now₀ =
      .accepted "admin\u200b" (.obj [("id", .str "admin\u200b"), ("name", .str "admin\u200b")]) ∧
    authenticate cfgS rule₀ world₀ (.token (tokWith (claimsFor "   "))) now₀ =
      .accepted "   " (.obj (claimsFor "   ")) ∧
    authenticate cfgS rule₀ world₀ (.token (tokWith (claimsFor "e\u0301"))) now₀ =
      .accepted "e\u0301" (.obj (claimsFor "e\u0301")) ∧
    authenticate cfgS rule₀ world₀ (.token (tokWith (claimsFor "\u0430dmin"))) now₀ =
      .accepted "\u0430dmin" (.obj (claimsFor "\u0430dmin")) ∧
    authenticate cfgS rule₀ world₀ (.token (tokWith (claimsFor ""))) now₀ = .rejected .subjectId := by
  refine ⟨by rfl, by rfl, by rfl, by rfl, by rfl, by rfl, by rfl, by rfl, by rfl, by rfl⟩

/-- the hypotheses of `c05_subject_id_verbatim` at an id with a trailing blank: the conclusion distinguishes it from
the id without the blank -/
example : ∃ id attrs, authenticate cfgS rule₀ world₀ (.token (tokWith (claimsFor "admin "))) now₀ = .accepted id attrs ∧
    (Val.obj (claimsFor "admin ")).get cfgS.subject.idPath = some (.str "admin ") ∧ id ≠ "admin" ∧ id.length = 6 :=
  ⟨"admin ", .obj (claimsFor "admin "), by rfl, by rfl, by decide, by decide⟩

/-- **Different identifiers, different subjects.**  Two accepted tokens — under whatever configurations, key sets
and instants — whose id claims differ as strings (equivalently: as sequences of UTF-8 octets) never yield the same
subject id: `admin`, `admin␠`, `␠admin`, `admin\n`, `Admin`, `é` and `e◌́` are all different principals. -/
theorem c05_distinct_ids_distinct_subjects {cfg cfg' : Config} {rule rule' : Option Expectation} {w w' : World}
    {tok tok' : Token} {nowMs nowMs' : Int} {id id' : String} {attrs attrs' : Val}
    (h : authenticate cfg rule w (.token tok) nowMs = .accepted id attrs)
    (h' : authenticate cfg' rule' w' (.token tok') nowMs' = .accepted id' attrs')
    {pl pl' : Val} {s s' : String} (hpl : tok.payload = some pl) (hpl' : tok'.payload = some pl')
    (hs : pl.get cfg.subject.idPath = some (.str s)) (hs' : pl'.get cfg'.subject.idPath = some (.str s')) :
    (s ≠ s' → id ≠ id') ∧ (s.toUTF8 ≠ s'.toUTF8 → id.toUTF8 ≠ id'.toUTF8) := by
  obtain ⟨rfl, _, _⟩ := c05_subject_id_verbatim h hpl hs
  obtain ⟨rfl, _, _⟩ := c05_subject_id_verbatim h' hpl' hs'
  exact ⟨fun hne => hne, fun hne => hne⟩

/-- `admin` and `admin␠` (trailing blank) presented to the same authenticator: both accepted, two subjects -/
example : ∃ id id' attrs attrs',
    authenticate cfgS rule₀ world₀ (.token (tokWith (claimsFor "admin"))) now₀ = .accepted id attrs ∧
    authenticate cfgS rule₀ world₀ (.token (tokWith (claimsFor "admin "))) now₀ = .accepted id' attrs' ∧
    "admin" ≠ "admin " ∧ id ≠ id' :=
  ⟨"admin", "admin ", .obj (claimsFor "admin"), .obj (claimsFor "admin "), by rfl, by rfl, by decide, by decide⟩

/-- **Attribute strings verbatim.**  Every string found in the attributes of an accepted request — at any depth —
is, unchanged, the string at the same place of the verified payload's attributes object, and every string of that
object arrives: rounding to doubles (known finding `C05-attrs-float64`) concerns numbers only. -/
theorem c05_attribute_strings_verbatim {cfg : Config} {rule : Option Expectation} {w : World} {tok : Token}
    {nowMs : Int} {id : String} {attrs : Val} (h : authenticate cfg rule w (.token tok) nowMs = .accepted id attrs)
    (path : List Seg) (s : String) :
    attrs.get path = some (.str s) ↔
      ∃ pl src, tok.payload = some pl ∧ attrsSource cfg.subject pl = some src ∧ src.get path = some (.str s) := by
  obtain ⟨_, ⟨t, kvs, _, _, _, _, e1, _, _, hpl, _, _, _, hsub⟩, rfl⟩ := (c05_accept_iff ..).mp h
  cases e1
  obtain ⟨_, _, _, _, o, rfl, hsrc⟩ := hsub
  rw [get_round]
  constructor
  · intro hg
    cases hv : (Val.obj o).get path with
    | none => rw [hv] at hg; cases hg
    | some v =>
      rw [hv] at hg
      simp only [Option.map_some, Option.some.injEq] at hg
      rw [(round_eq_str v s).mp hg] at hv
      exact ⟨_, _, hpl, hsrc, hv⟩
  · rintro ⟨pl, src, hpl', hsrc', hg⟩
    rw [hpl] at hpl'; cases hpl'
    rw [hsrc] at hsrc'; cases hsrc'
    rw [hg]; rfl

example : ∃ id attrs, authenticate cfgN rule₀ world₀ (.token (tokWith (claimsFor " admin\t"))) now₀ = .accepted id attrs ∧
    attrs.get [{ key := "name" }] = some (.str " admin\t") :=
  ⟨" admin\t", .obj [("id", .str " admin\t"), ("name", .str " admin\t")], by rfl, by rfl⟩

/-! ## Scope matching strategies -/

/-- **The three matching strategies decide the relations of the specification**: exact = equality; hierarchic = the
granted scope equals the required one or is a proper dot-prefix of it; wildcard = part-wise agreement with `*` for
any non-empty part, a shorter granted scope having to end in `*`.  Both the model's transcription of the Go loops and
the executable specification's own functions decide them. -/
theorem c05_scope_strategies (st : Strategy) (granted required : String) :
    (covers1 st granted required = true ↔ Covers st granted required) ∧
    (Spec.covers st granted required = true ↔ Covers st granted required) :=
  ⟨covers1_iff st granted required, spec_covers_iff st granted required⟩

example : Covers .hierarchic "users" "users.read.all" ∧ ¬ Covers .hierarchic "users.read" "users" ∧
    ¬ Covers .hierarchic "user" "users.read" ∧ ¬ Covers .hierarchic "" "users" ∧
    Covers .wildcard "users.*" "users.read.all" ∧
    ¬ Covers .wildcard "users.*" "users" ∧ ¬ Covers .wildcard "*" "" ∧ Covers .wildcard "a.*.c" "a.b.c" ∧
    ¬ Covers .exact "users" "users.read" := by
  simp only [← (c05_scope_strategies _ _ _).1]
  decide

/-! ## The oracle of the correspondence check -/

/-- **The executable specification is the model's verdict** (attribute numbers as doubles).  `Spec.authenticate`
— written over the raw payload with the specification's own readers, precedence rule and scope functions, one
conjunction of all clauses over the candidate keys instead of the ladder — is run next to the model on every case. -/
theorem c05_spec_oracle (cfg : Config) (rule : Option Expectation) (w : World) (p : Presented) (nowMs : Int) :
    (authenticate cfg rule w p nowMs).verdict = (Spec.authenticate cfg rule w p nowMs).rounded :=
  spec_authenticate_eq c05_gen_no_empty_alg cfg rule w p nowMs

/-! ## The JWK cache -/

/-- **A cold cache changes nothing.** -/
theorem c05_first_request (cfg : Config) (rule : Option Expectation) (w : World) (p : Presented) (nowMs : Int) :
    (step cfg rule w [] p nowMs).1 = authenticate cfg rule w p nowMs := step_nil cfg rule w p nowMs

/-- **Every request of a history is decided by a key set the endpoint really served.**  In a sequence of requests
starting with an empty cache — key sets rotating, endpoints failing, any mix of tokens — the outcome of request `i`
is the outcome of the cold-cache authenticator against the metadata of that moment and the key-set endpoint as it
answered at moment `i` or at an earlier moment `j ≤ i`: a key served from the cache was the unique, certificate-valid
key of that name in a key set fetched from the very url the current token renders to, so all theorems above apply
with that key set.  In particular a token is never verified with a key of another (e.g. another issuer's) url. -/
theorem c05_history_sound (cfg : Config) (rule : Option Expectation) (reqs : List (World × Presented × Int))
    (i : Nat) (hi : i < reqs.length) :
    ∃ w' ∈ (reqs.take (i + 1)).map (·.1),
      (run cfg rule reqs [])[i]? =
        some (authenticate cfg rule { metadata := reqs[i].1.metadata, jwks := w'.jwks } reqs[i].2.1 reqs[i].2.2) := by
  obtain ⟨w', hw', h⟩ := run_origin cfg rule reqs [] [] (prov_nil _ _) i hi
  exact ⟨w', by simpa using hw', h⟩

/-- one key set per issuer: the url of the key-set endpoint is a template -/
def cfgT : Config :=
  { cfg₀ with
    templated := true
    assertions := { cfg₀.assertions with issuers := ["https://idp.example.com", "B"], audiences := [] } }

/-- issuer `B` publishes another key under the same `kid` -/
def worldT : World :=
  { jwks := fun u => if u = "B" then some [{ kid := "k1", alg := "ES256", mat := 3 }] else some keys₀ }

/-- issuer B's token signed with issuer A's key, same `kid`, after A's key was cached: rejected, because the cache
is indexed by what the templated url renders to -/
example :
    run cfgT none [(worldT, .token tok₀, now₀), (worldT, .token (tokWith (("iss", .str "B") :: claims₀)), now₀)] [] =
      [.accepted "4711" (.obj [("id", .num 4711 0), ("name", .str "Alice")]), .rejected .signature] := by rfl

/-! ## Among the other mechanisms of the process (round 6)

A process holds many mechanisms: further `jwt` authenticators, `oauth2_introspection` authenticators (the same
`oauth2.Expectation`), rule-level copies.  "The allowed list" of the property is the authenticator's **own** list —
the one configured at rule level, else at mechanism level, else the documented default — whatever lists the
neighbours configure and whenever they are created (`Model/JwtProcess.lean`). -/

/-- **Creating mechanisms leaves the default algorithms alone**: after any number of creations, of any type, with
any configured lists at mechanism and rule level, the next reader of the defaults gets what the first one got. -/
theorem c05_creating_mechanisms_keeps_defaults (ns : List Neighbour) (p : Process) :
    (ns.foldl Process.create p).defaults = p.defaults := Process.foldl_create_defaults ns p

/-- **Other mechanisms are invisible.**  For every history of the process — neighbours created before the
authenticator, between two of its requests, after them — the requests are answered exactly as by the authenticator
alone (`run`, about which all theorems above speak). -/
theorem c05_other_mechanisms_are_invisible (cfg : Config) (rule : Option Expectation) (events : List Event) :
    runIn cfg rule events {} [] = run cfg rule (requestsOf events) [] :=
  runIn_eq_run cfg rule events {} [] rfl

/-- **The allowed list is the authenticator's own.**  In every history of the process, a request that yields a
subject carried a token whose `alg` is in the list in force for *this* authenticator (rule level, else mechanism
level, else `Gen.defaultAllowed`), and a key of a key set served for it declares that very algorithm and verifies
the signature — no matter which algorithms the neighbours allow. -/
theorem c05_allowed_algorithms_are_ones_own (cfg : Config) (rule : Option Expectation) (events : List Event)
    (i : Nat) (hi : i < (requestsOf events).length) (id : String) (attrs : Val)
    (h : (runIn cfg rule events {} [])[i]? = some (.accepted id attrs)) :
    ∃ (tok : Token) (md : Metadata) (w' : World), (requestsOf events)[i].2.1 = .token tok ∧ w' ∈ ((requestsOf events).take (i + 1)).map (·.1) ∧
      tok.alg ∈ (Spec.inForce cfg rule md.issuer).algs ∧
      ∃ kvs ks k, tok.payload = some (.obj kvs) ∧ w'.jwks (Spec.endpoint cfg kvs) = some ks ∧ k ∈ ks ∧
        k.alg = tok.alg ∧ tok.sigOk k.mat = true := by
  rw [c05_other_mechanisms_are_invisible] at h
  obtain ⟨w', hw', hrun⟩ := c05_history_sound cfg rule (requestsOf events) i hi
  rw [hrun] at h
  obtain ⟨tok, kvs, md, ks, k, a, hp, hpl, _, ha, hjw, hk, hsig, halg, hallowed, _⟩ :=
    c05_sound (Option.some.inj h)
  subst ha
  exact ⟨tok, md, w', hp, hw', halg ▸ hallowed, kvs, ks, k, hpl, hjw, hk, halg, hsig⟩

/-- the list in force when neither level configures one: the documented default, in any process -/
theorem c05_unconfigured_list_is_the_default (cfg : Config) (rule : Option Expectation) (mi : String)
    (hc : cfg.assertions.algs = []) (hr : ∀ r, rule = some r → r.algs = []) :
    (Spec.inForce cfg rule mi).algs = Gen.defaultAllowed := by
  rw [← c05_effective_is_first_set]
  cases rule with
  | none => simp [effective, Expectation.merge, hc]
  | some r => simp [effective, Expectation.merge, hc, hr r rfl]

/-- an authenticator relying on the default list, a key set with an RS256 and an ES256 key -/
def cfgD : Config := { assertions := { issuers := ["https://idp.example.com"] } }

def tokRS : Token :=
  { alg := "RS256", kid := "k9", payload := some (.obj claims₀), sigOk := fun m => m == 0 }

/-- an introspection authenticator of another identity provider which allows RS256 only, one with a rule-level
list, and a further jwt authenticator -/
def neighbours₀ : List Neighbour :=
  [{ kind := .introspection, algs := ["RS256"] },
   { kind := .introspection, algs := ["PS256", "RS256"], ruleAlgs := some ["HS256"] },
   { kind := .jwt, algs := ["EdDSA"] }]

/-- created before, between and after the requests: the RS256 token is refused (RS256 is not in the default list),
the ES256 token is accepted, each time -/
example :
    runIn cfgD none
      ([.create neighbours₀[0], .request world₀ (.token tokRS) now₀, .request world₀ (.token tok₀) now₀] ++
        neighbours₀.map .create ++ [.request world₀ (.token tokRS) now₀, .request world₀ (.token tok₀) now₀]) {} [] =
      [.rejected .algNotAllowed, .accepted "alice" (Val.obj claims₀).round,
       .rejected .algNotAllowed, .accepted "alice" (Val.obj claims₀).round] := by rfl

/-- what the neighbours hold is their own -/
example : (neighbours₀.foldl Process.create {}).held =
    [["RS256"], ["PS256", "RS256"], ["HS256"], ["EdDSA"]] ∧
    (neighbours₀.foldl Process.create {}).defaults = Gen.defaultAllowed := by decide

example : (Spec.inForce cfgD none "").algs = Gen.defaultAllowed :=
  c05_unconfigured_list_is_the_default cfgD none "" rfl (fun _ h => nomatch h)

end Heimdall.Props.C05
