import HeimdallModel.Lemmas.Table
import HeimdallModel.Model.Repo
/-!
# C02 — the most specific matching path expression selects the rule

Property theorems about the routing-tree model (`Model/Trie.lean`, tied to `internal/x/radixtree` by the
correspondence check).  All statements quantify over every table, every request path, every matcher, every
backtracking flag; no bound on sizes.
-/
namespace Heimdall.Props.C02
open Heimdall

variable {V : Type} (m : V → List String → List String → Bool)

/-- **Most specific match wins.** If the lookup answers with a value, that value is the first accepted value
(in insertion order) of a node whose expression matches the path with exactly the exposed captures, and every
*more specific* matching expression of the table had no accepted value and allowed backtracking. -/
theorem c02_most_specific (t : Table V) (hnd : NodupPats t) (path : List Tok) (f : Found V)
    (h : (find m t path []).1 = some f) :
    ∃ n ∈ t, matchCaps n.pat path = some f.caps ∧ f.keys = n.keys ∧
      n.values.find? (fun v => m v n.keys f.caps) = some f.value ∧
      ∀ n' ∈ t, ∀ caps', matchCaps n'.pat path = some caps' → specLt n'.pat n.pat = true →
        accepts m n' caps' = false ∧ n'.bt = true := by
  rw [find_eq_scan] at h
  obtain ⟨pre, c, post, hcs, hpre, hval, hkeys, hcaps⟩ := scan_some m h
  have hc : c ∈ cands t path [] := by rw [hcs]; simp
  obtain ⟨hct, extra, hmatch, hce⟩ := cands_sound t path [] c hc
  simp only [List.nil_append] at hce
  refine ⟨c.node, hct, by rw [hmatch, hcaps, hce], hkeys, by rw [hcaps]; exact hval, ?_⟩
  intro n' hn' caps' hm' hlt
  have hmem := cands_complete t hnd path [] n' hn' caps' hm'
  simp only [List.nil_append] at hmem
  rw [hcs] at hmem
  have hsorted := cands_sorted t path []
  rw [hcs, List.pairwise_append] at hsorted
  rcases List.mem_append.mp hmem with hp | hp
  · exact hpre _ hp
  · rcases List.mem_cons.mp hp with he | hp
    · rw [← he] at hlt
      simp [specLt_irrefl] at hlt
    · have := (List.pairwise_cons.mp hsorted.2.1).1 _ hp
      have h2 := specLt_asymm _ _ this
      simp only at h2
      rw [h2] at hlt; cases hlt

/-- **No rule.** If the lookup finds nothing, every matching expression with an accepted value is shadowed by a
more specific matching expression that has no accepted value and forbids backtracking. (With no such shadowing
node the lookup cannot fail: the default rule or "no rule" applies only then.) -/
theorem c02_none_only_if_shadowed (t : Table V) (hnd : NodupPats t) (path : List Tok)
    (h : (find m t path []).1 = none) :
    ∀ n ∈ t, ∀ caps, matchCaps n.pat path = some caps → accepts m n caps = true →
      ∃ n' ∈ t, ∃ caps', matchCaps n'.pat path = some caps' ∧ specLt n'.pat n.pat = true ∧
        accepts m n' caps' = false ∧ n'.bt = false := by
  intro n hn caps hm hacc
  rw [find_eq_scan] at h
  have hmem := cands_complete t hnd path [] n hn caps hm
  simp only [List.nil_append] at hmem
  obtain ⟨pre, post, hsplit⟩ := List.append_of_mem hmem
  obtain ⟨c', hc', hno, hbt⟩ := scan_none m h pre _ post hsplit hacc
  have hc'mem : c' ∈ cands t path [] := by rw [hsplit]; simp [hc']
  obtain ⟨hct, extra, hmatch, hce⟩ := cands_sound t path [] c' hc'mem
  simp only [List.nil_append] at hce
  have hsorted := cands_sorted t path []
  rw [hsplit, List.pairwise_append] at hsorted
  refine ⟨c'.node, hct, c'.caps, by rw [hmatch, hce], ?_, hno, hbt⟩
  exact hsorted.2.2 c' hc' ⟨n, caps⟩ (by simp)

/-- **Backtracking off stops the search.** A matching expression without an accepted value and with backtracking
disabled prevents every less specific expression from answering: whatever answers is not less specific. -/
theorem c02_no_backtracking_blocks (t : Table V) (hnd : NodupPats t) (path : List Tok)
    (n : Node V) (hn : n ∈ t) (caps : List String) (hm : matchCaps n.pat path = some caps)
    (_hno : accepts m n caps = false) (hbt : n.bt = false) (f : Found V)
    (h : (find m t path []).1 = some f) :
    ∃ n₁ ∈ t, matchCaps n₁.pat path = some f.caps ∧
      n₁.values.find? (fun v => m v n₁.keys f.caps) = some f.value ∧ specLt n.pat n₁.pat = false := by
  obtain ⟨n₁, hn₁, hm₁, _, hv₁, hall⟩ := c02_most_specific m t hnd path f h
  refine ⟨n₁, hn₁, hm₁, hv₁, ?_⟩
  cases hlt : specLt n.pat n₁.pat with
  | false => rfl
  | true =>
    have := (hall n hn caps hm hlt).2
    rw [hbt] at this; cases this


/-- **Independent of the loading order.** Two tables that hold the same node for every expression — however they
were built up, in whatever order rules and rule sets were loaded — answer every lookup alike. -/
theorem c02_order_independent (t₁ t₂ : Table V) (h : ∀ p, getNode t₁ p = getNode t₂ p) (path : List Tok) :
    find m t₁ path [] = find m t₂ path [] :=
  find_congr m t₁ t₂ h path []

/-- routes with different expressions can be added in either order: the resulting tables hold the same nodes
(and the second order succeeds whenever the first one does) -/
theorem c02_add_comm (canAdd : List V → V → Bool) (t t₁ t₁₂ : Table V) (p₁ p₂ : List PTok) (k₁ k₂ : List String)
    (v₁ v₂ : V) (b₁ b₂ : Bool) (hne : p₁ ≠ p₂)
    (h1 : addPat canAdd t p₁ k₁ v₁ b₁ = .ok t₁) (h12 : addPat canAdd t₁ p₂ k₂ v₂ b₂ = .ok t₁₂) :
    ∃ t₂ t₂₁, addPat canAdd t p₂ k₂ v₂ b₂ = .ok t₂ ∧ addPat canAdd t₂ p₁ k₁ v₁ b₁ = .ok t₂₁ ∧
      ∀ q, getNode t₂₁ q = getNode t₁₂ q := by
  have hg1 := addPat_getNode canAdd t t₁ p₁ k₁ v₁ b₁ h1
  have hg12 := addPat_getNode canAdd t₁ t₁₂ p₂ k₂ v₂ b₂ h12
  have hne' : p₂ ≠ p₁ := fun e => hne e.symm
  -- adding p₂ first succeeds: its node is the same in `t` and `t₁`
  have ok2 : ∃ t₂, addPat canAdd t p₂ k₂ v₂ b₂ = .ok t₂ := by
    rw [addPat_ok_iff]
    have := (addPat_ok_iff canAdd t₁ p₂ k₂ v₂ b₂).mp ⟨t₁₂, h12⟩
    rw [hg1 p₂] at this
    simpa [hne'] using this
  obtain ⟨t₂, h2⟩ := ok2
  have hg2 := addPat_getNode canAdd t t₂ p₂ k₂ v₂ b₂ h2
  have ok21 : ∃ t₂₁, addPat canAdd t₂ p₁ k₁ v₁ b₁ = .ok t₂₁ := by
    rw [addPat_ok_iff]
    have := (addPat_ok_iff canAdd t p₁ k₁ v₁ b₁).mp ⟨t₁, h1⟩
    rw [hg2 p₁]
    simpa [hne] using this
  obtain ⟨t₂₁, h21⟩ := ok21
  have hg21 := addPat_getNode canAdd t₂ t₂₁ p₁ k₁ v₁ b₁ h21
  refine ⟨t₂, t₂₁, h2, h21, ?_⟩
  intro q
  rw [hg21 q, hg12 q]
  by_cases hq1 : q = p₁
  · subst hq1
    simp only [if_true, hne, if_false]
    rw [hg2 q, hg1 q]
    simp [hne]
  · by_cases hq2 : q = p₂
    · subst hq2
      simp only [hq1, if_false, if_true]
      rw [hg2 q, hg1 q]
      simp [hq1]
    · simp only [hq1, hq2, if_false]
      rw [hg2 q, hg1 q]
      simp [hq1, hq2]

/-- **Wildcards never match an empty segment, a free wildcard matches the non-empty remainder**: every value
captured from a request path is non-empty. -/
theorem c02_captures_nonempty (pat : List PTok) (toks : List Tok) (hseg : ∀ t ∈ toks, ∀ s, t = .seg s → s ≠ "")
    (caps : List String) (h : matchCaps pat toks = some caps) : ∀ v ∈ caps, v ≠ "" := by
  induction pat generalizing toks caps with
  | nil =>
    cases toks with
    | nil => simp only [matchCaps, Option.some.injEq] at h; subst h; intro v hv; cases hv
    | cons t ts => simp [matchCaps] at h
  | cons p ps ih =>
    cases toks with
    | nil => cases p <;> simp [matchCaps] at h
    | cons tok rest =>
      have hrest : ∀ t ∈ rest, ∀ s, t = .seg s → s ≠ "" := fun t ht => hseg t (by simp [ht])
      cases p with
      | lit s =>
        simp only [matchCaps] at h
        by_cases hs : s = tokStr tok
        · simp only [hs, if_true] at h; exact ih rest hrest caps h
        · simp [hs] at h
      | wild =>
        cases tok with
        | sep => simp [matchCaps] at h
        | seg sg =>
          simp only [matchCaps, Option.map_eq_some_iff] at h
          obtain ⟨c', hc', rfl⟩ := h
          intro v hv
          rcases List.mem_cons.mp hv with rfl | hv
          · exact hseg (.seg v) (by simp) v rfl
          · exact ih rest hrest c' hc' v hv
      | catchAll =>
        simp only [matchCaps] at h
        by_cases hps : ps = []
        · simp only [hps, if_true, Option.some.injEq] at h
          subst h
          intro v hv
          simp only [List.mem_singleton] at hv
          subst hv
          exact render_ne_empty tok rest (fun s hs => hseg tok (by simp) s hs)
        · simp [hps] at h

/-- the tokens of a request path satisfy the hypothesis of `c02_captures_nonempty` -/
theorem c02_request_tokens (p : String) : ∀ t ∈ tokenize p, ∀ s, t = .seg s → s ≠ "" :=
  tokenize_seg_nonempty p

example : matchCaps [.lit "/", .wild] (tokenize "/") = none := by decide
example : matchCaps [.lit "/", .catchAll] (tokenize "/") = none := by decide
example : matchCaps [.lit "/", .catchAll] (tokenize "/a/b") = some ["a/b"] := by decide

/-- **Backslash-escaped `:`, `*` and `\` start a literal segment**, everything else starting with `:` / `*` is a
single / free wildcard. -/
theorem c02_escaped_is_literal (c : Char) (r : List Char) (hc : c = '*' ∨ c = ':' ∨ c = '\\') :
    classifySeg (String.ofList ('\\' :: c :: r)) = (.lit (String.ofList (c :: r)), none) := by
  unfold classifySeg
  simp only [String.toList_ofList]
  rcases hc with rfl | rfl | rfl <;> simp

theorem c02_wildcard_segments (r : List Char) :
    classifySeg (String.ofList (':' :: r)) = (.wild, some (String.ofList r)) ∧
    classifySeg (String.ofList ('*' :: r)) = (.catchAll, some (String.ofList r)) := by
  unfold classifySeg
  simp

/-- **Matching expressions are comparable**: two different expressions that both match a path are ordered by
specificity one way or the other (so "most specific" is well defined). -/
theorem c02_specLt_total : ∀ (p q : List PTok) (toks : List Tok) (cp cq : List String),
    matchCaps p toks = some cp → matchCaps q toks = some cq → p ≠ q →
    specLt p q = true ∨ specLt q p = true := by
  intro p
  induction p with
  | nil =>
    intro q toks cp cq hp hq hne
    cases toks with
    | nil => cases q with
      | nil => exact absurd rfl hne
      | cons a as => cases a <;> simp [matchCaps] at hq
    | cons t ts => simp [matchCaps] at hp
  | cons a as ih =>
    intro q toks cp cq hp hq hne
    cases toks with
    | nil => cases a <;> simp [matchCaps] at hp
    | cons tok rest =>
      cases q with
      | nil => simp [matchCaps] at hq
      | cons b bs =>
        by_cases hab : a = b
        · subst hab
          have hne' : as ≠ bs := fun e => hne (by rw [e])
          rw [specLt_cons_same, specLt_cons_same]
          cases a with
          | lit s =>
            simp only [matchCaps] at hp hq
            by_cases hs : s = tokStr tok
            · simp only [hs, if_true] at hp hq; exact ih bs rest cp cq hp hq hne'
            · simp [hs] at hp
          | wild =>
            cases tok with
            | sep => simp [matchCaps] at hp
            | seg sg =>
              simp only [matchCaps, Option.map_eq_some_iff] at hp hq
              obtain ⟨c1, h1, _⟩ := hp
              obtain ⟨c2, h2, _⟩ := hq
              exact ih bs rest c1 c2 h1 h2 hne'
          | catchAll =>
            simp only [matchCaps] at hp hq
            by_cases h1 : as = []
            · by_cases h2 : bs = []
              · exact absurd (h1.trans h2.symm) hne'
              · simp [h2] at hq
            · simp [h1] at hp
        · cases a <;> cases b <;> simp_all [specLt, rank, matchCaps]

/-- **Most specific wins, the converse direction**: if an expression matches, one of its values is accepted, and
every more specific matching expression has failed with backtracking enabled, then the lookup answers with the first
accepted value of exactly that expression. -/
theorem c02_most_specific_complete {V : Type} (m : V → List String → List String → Bool)
    (t : Table V) (hnd : NodupPats t) (path : List Tok) (n : Node V) (hn : n ∈ t) (caps : List String)
    (hm : matchCaps n.pat path = some caps) (hacc : accepts m n caps = true)
    (hall : ∀ n' ∈ t, ∀ caps', matchCaps n'.pat path = some caps' → specLt n'.pat n.pat = true →
        accepts m n' caps' = false ∧ n'.bt = true) :
    ∃ f, (find m t path []).1 = some f ∧ f.caps = caps ∧ f.keys = n.keys ∧
      n.values.find? (fun v => m v n.keys caps) = some f.value := by
  cases hf : (find m t path []).1 with
  | none =>
    obtain ⟨n', hn', caps', hm', hlt, _, hbt⟩ := c02_none_only_if_shadowed m t hnd path hf n hn caps hm hacc
    have := (hall n' hn' caps' hm' hlt).2
    rw [hbt] at this; cases this
  | some f =>
    obtain ⟨n₁, hn₁, hm₁, hk, hv, hall₁⟩ := c02_most_specific m t hnd path f hf
    have hacc₁ : accepts m n₁ f.caps = true := by
      unfold accepts
      rw [List.any_eq_true]
      exact ⟨f.value, List.mem_of_find?_eq_some hv, by have := List.find?_some hv; exact this⟩
    by_cases hpe : n₁.pat = n.pat
    · have e1 := getNode_of_mem hnd hn₁
      have e2 := getNode_of_mem hnd hn
      rw [hpe] at e1
      have : n₁ = n := by rw [e1] at e2; exact Option.some.inj e2
      subst this
      rw [hm] at hm₁
      have hc : caps = f.caps := Option.some.inj hm₁
      exact ⟨f, rfl, hc.symm, hk, by rw [hc]; exact hv⟩
    · rcases c02_specLt_total n₁.pat n.pat path f.caps caps hm₁ hm hpe with h | h
      · have := (hall n₁ hn₁ f.caps hm₁ h).1
        rw [hacc₁] at this; cases this
      · have := (hall₁ n hn caps hm h).1
        rw [hacc] at this; cases this

/-- **Which flag counts when rules sharing an expression disagree**: "backtracking is enabled for the failed
expression" means the setting of the rule added to that expression LAST (rules of one rule set are added in rule-set
order) — every successful addition sets the flag of the node, whatever it was. -/
theorem c02_backtracking_flag_is_last_added (canAdd : List V → V → Bool) (t t' : Table V) (pat : List PTok)
    (keys : List String) (v : V) (bt : Bool) (h : addPat canAdd t pat keys v bt = .ok t') :
    (getNode t' pat).map (·.bt) = some bt := by
  rw [addPat_getNode canAdd t t' pat keys v bt h pat]
  simp only [if_true]
  cases getNode t pat <;> rfl

/-- **Default rule or "no rule"**: the repository answers with the default rule (if there is one) or with "no rule"
exactly when the lookup in the tree — most specific expression first, less specific ones only through backtracking —
finds nothing; otherwise it answers with what the lookup found. -/
theorem c02_default_or_none (s : Repo) (hasDefault : Bool) (q : ReqView) :
    (lookup (repoMatcher q) s.index (lookupPath q) = none →
        (hasDefault = true → s.findRule hasDefault q = .default) ∧
        (hasDefault = false → s.findRule hasDefault q = .none)) ∧
    (∀ v ps, lookup (repoMatcher q) s.index (lookupPath q) = some (v, ps) → s.findRule hasDefault q = .rule v ps) := by
  unfold Repo.findRule
  constructor
  · intro h
    rw [h]
    constructor <;> intro hd <;> simp [hd]
  · intro v ps h
    rw [h]

end Heimdall.Props.C02
