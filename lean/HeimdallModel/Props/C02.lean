import HeimdallModel.Lemmas.Trie
/-!
# C02 — the most specific matching path expression selects the rule

Property theorems about the routing-tree model (`Model/Trie.lean`, tied to `internal/x/radixtree` by the
correspondence check).  All statements quantify over every table, every request path, every matcher, every
backtracking flag; no bound on sizes.
-/
namespace Heimdall.Props.C02
open Heimdall

variable {V : Type} (m : V → List String → List String → Bool)

/-- **Most specific match wins.** If the lookup answers with a value, that value is the first accepted value
(in insertion order) of a node whose expression matches the path with exactly the exposed captures, and every
*more specific* matching expression of the table had no accepted value and allowed backtracking. -/
theorem c02_most_specific (t : Table V) (hnd : NodupPats t) (path : List Tok) (f : Found V)
    (h : (find m t path []).1 = some f) :
    ∃ n ∈ t, matchCaps n.pat path = some f.caps ∧ f.keys = n.keys ∧
      n.values.find? (fun v => m v n.keys f.caps) = some f.value ∧
      ∀ n' ∈ t, ∀ caps', matchCaps n'.pat path = some caps' → specLt n'.pat n.pat = true →
        accepts m n' caps' = false ∧ n'.bt = true := by
  rw [find_eq_scan] at h
  obtain ⟨pre, c, post, hcs, hpre, hval, hkeys, hcaps⟩ := scan_some m h
  have hc : c ∈ cands t path [] := by rw [hcs]; simp
  obtain ⟨hct, extra, hmatch, hce⟩ := cands_sound t path [] c hc
  simp only [List.nil_append] at hce
  refine ⟨c.node, hct, by rw [hmatch, hcaps, hce], hkeys, by rw [hcaps]; exact hval, ?_⟩
  intro n' hn' caps' hm' hlt
  have hmem := cands_complete t hnd path [] n' hn' caps' hm'
  simp only [List.nil_append] at hmem
  rw [hcs] at hmem
  have hsorted := cands_sorted t path []
  rw [hcs, List.pairwise_append] at hsorted
  rcases List.mem_append.mp hmem with hp | hp
  · exact hpre _ hp
  · rcases List.mem_cons.mp hp with he | hp
    · rw [← he] at hlt
      simp [specLt_irrefl] at hlt
    · have := (List.pairwise_cons.mp hsorted.2.1).1 _ hp
      have h2 := specLt_asymm _ _ this
      simp only at h2
      rw [h2] at hlt; cases hlt

/-- **No rule.** If the lookup finds nothing, every matching expression with an accepted value is shadowed by a
more specific matching expression that has no accepted value and forbids backtracking. (With no such shadowing
node the lookup cannot fail: the default rule or "no rule" applies only then.) -/
theorem c02_none_only_if_shadowed (t : Table V) (hnd : NodupPats t) (path : List Tok)
    (h : (find m t path []).1 = none) :
    ∀ n ∈ t, ∀ caps, matchCaps n.pat path = some caps → accepts m n caps = true →
      ∃ n' ∈ t, ∃ caps', matchCaps n'.pat path = some caps' ∧ specLt n'.pat n.pat = true ∧
        accepts m n' caps' = false ∧ n'.bt = false := by
  intro n hn caps hm hacc
  rw [find_eq_scan] at h
  have hmem := cands_complete t hnd path [] n hn caps hm
  simp only [List.nil_append] at hmem
  obtain ⟨pre, post, hsplit⟩ := List.append_of_mem hmem
  obtain ⟨c', hc', hno, hbt⟩ := scan_none m h pre _ post hsplit hacc
  have hc'mem : c' ∈ cands t path [] := by rw [hsplit]; simp [hc']
  obtain ⟨hct, extra, hmatch, hce⟩ := cands_sound t path [] c' hc'mem
  simp only [List.nil_append] at hce
  have hsorted := cands_sorted t path []
  rw [hsplit, List.pairwise_append] at hsorted
  refine ⟨c'.node, hct, c'.caps, by rw [hmatch, hce], ?_, hno, hbt⟩
  exact hsorted.2.2 c' hc' ⟨n, caps⟩ (by simp)

/-- **Backtracking off stops the search.** A matching expression without an accepted value and with backtracking
disabled prevents every less specific expression from answering: whatever answers is not less specific. -/
theorem c02_no_backtracking_blocks (t : Table V) (hnd : NodupPats t) (path : List Tok)
    (n : Node V) (hn : n ∈ t) (caps : List String) (hm : matchCaps n.pat path = some caps)
    (_hno : accepts m n caps = false) (hbt : n.bt = false) (f : Found V)
    (h : (find m t path []).1 = some f) :
    ∃ n₁ ∈ t, matchCaps n₁.pat path = some f.caps ∧
      n₁.values.find? (fun v => m v n₁.keys f.caps) = some f.value ∧ specLt n.pat n₁.pat = false := by
  obtain ⟨n₁, hn₁, hm₁, _, hv₁, hall⟩ := c02_most_specific m t hnd path f h
  refine ⟨n₁, hn₁, hm₁, hv₁, ?_⟩
  cases hlt : specLt n.pat n₁.pat with
  | false => rfl
  | true =>
    have := (hall n hn caps hm hlt).2
    rw [hbt] at this; cases this

end Heimdall.Props.C02
